"""C01 / C02 coverage extension 2: QXmppStanza::Error (parse / toXml, with the state its constructor REALLY leaves: a member
without initialiser is indeterminate) and QXmppJingleMessageInitiationElement (recogniser, parse, toXml, type <-> tag table).

Definedness (C02 anchor "members default-initialised only by parse"): for every scalar data member that neither has an in-class
initialiser nor is zero-initialised by the `new T()` that creates the private object, a ghost flag gh_def_<member> is false after
construction, set by every assignment to the member in the lowered parser, and ASSERTED at every read of the member in the lowered
serialiser (obligation safety.member_<m>_defined_when_read).  The instrumentation is mechanical (instrument_def below)."""
import os, re, hashlib
from vlib import astx, ctx
from vlib.configure import REPO
from vlib.unit import Spec
from vlib.cxx2c import Unsupported, strip_type
import codec
from codec import Resolver
import presence, iq

STANZA = 'src/base/QXmppStanza.cpp'
JINGLE = 'src/base/QXmppJingleData.cpp'


# ---------------------------------------------------------------------------------------------------------------------
def private_state(kit, src, cls, ctor_filter, ctor_name):
    """(record text, fields, constructor-state C function body lines, [members left indeterminate])
    fields with an in-class initialiser get it (lowered); class-typed members are default-constructed (empty = 0); other scalars are
    zero iff the object is created by a zeroing `new T()` (clang: CXXConstructExpr.zeroing), else INDETERMINATE"""
    srcp = os.path.join(REPO, src)
    decls = [d for d in astx.find_decls(srcp, cls, 'CXXRecordDecl', cls) if d.get('completeDefinition')]
    if len({d['id'] for d in decls}) != 1:
        raise astx.ExtractError('record %s: %d complete definitions found' % (cls, len({d['id'] for d in decls})))
    # how the owning class creates it
    docs, _ = astx.dump(srcp, ctor_filter)
    news = []

    def walk(n):
        if isinstance(n, dict):
            if n.get('kind') == 'CXXNewExpr' and cls in n.get('type', {}).get('qualType', ''):
                news.append(n)
            for c in n.get('inner', []):
                walk(c)
    for d in docs:
        walk(d)
    if not news:
        raise Unsupported('no `new %s` found in %s' % (cls, ctor_filter))
    zeroing = all(any(c.get('kind') == 'CXXConstructExpr' and c.get('zeroing') for c in n.get('inner', [])) for n in news)
    res = Resolver(())
    lw = codec.make_lowerer('')({'inner': []}, cls + '_init', kit.prof, this_type=cls)
    lw.source_files = [srcp]
    fields, lines, indet = [], [], []
    for c in decls[0]['inner']:
        if c.get('kind') != 'FieldDecl':
            continue
        ct = None
        for cand in (c['type'].get('desugaredQualType'), c['type'].get('qualType')):
            if cand:
                ct = res.resolve(strip_type(cand))
                if ct:
                    break
        if ct is None:
            raise Unsupported('member %s::%s of type %s is not modelled' % (cls, c['name'], c['type'].get('qualType')))
        fields.append((c['name'], ct))
        is_class = strip_type(c['type'].get('desugaredQualType') or c['type'].get('qualType')).split('<')[0] in ('QString', 'QDateTime', 'QByteArray', 'std::optional', 'QUuid')
        inits = [x for x in c.get('inner', []) if isinstance(x, dict) and x.get('kind') and not x['kind'].endswith('Comment')]
        if c.get('hasInClassInitializer') and inits:
            e = lw.skip(inits[-1])
            if e.get('kind') == 'InitListExpr' and len(e.get('inner', [])) == 1:
                e = e['inner'][0]      # T m { value };
            lines.append('  self->%s = %s;' % (c['name'], lw.expr(e)))
        elif is_class or ct in ('qsub',):
            lines.append('  self->%s = 0;   /* default-constructed */' % c['name'])
        elif zeroing:
            lines.append('  self->%s = 0;   /* zero-initialised by `new %s()` */' % (c['name'], cls))
        else:
            lines.append('  self->%s = nondet_%s();   /* NO initialiser: indeterminate */\n  gh_def_%s = false;' % (c['name'], re.sub(r'\W', '_', ct), c['name']))
            indet.append((c['name'], ct))
    for et, names in lw.need_enums.items():
        kit.b.need_enums.setdefault((srcp, ()), {}).setdefault(et, set()).update(names)
    rec = 'typedef struct %s {\n%s} %s;' % (cls, ''.join('  %s %s;\n' % (t, f) for f, t in fields), cls)
    return rec, fields, lines, indet


def instrument_def(text, members, mode):
    """mode 'parse': after every assignment to ->m, set its ghost flag; mode 'read': before every line that READS ->m, assert the flag"""
    out = []
    for l in text.split('\n'):
        ind = l[:len(l) - len(l.lstrip())]
        for m, _ in members:
            if mode == 'parse' and re.search(r'->%s = ' % m, l):
                out.append(l)
                out.append(ind + 'gh_def_%s = true;   /* ghost: member written */' % m)
                break
            if mode == 'read' and re.search(r'->%s\b(?! = )' % m, l) and not l.lstrip().startswith('/*'):
                out.append(ind + '__CPROVER_assert(gh_def_%s, "[safety.member_%s_defined_when_read] the serialiser reads %s, which no initialiser and no parser assignment has defined");' % (m, m, m))
                out.append(l)
                break
        else:
            out.append(l)
    return '\n'.join(out)


# ---------------------------------------------------------------------------------------------------------------------
# QXmppStanza::Error
ERR_HELPERS = {
    'StanzaError_parse': (STANZA, 'QXmppStanza::Error::parse', 'parse', {'this': 'StanzaError'}, ''),
    'StanzaError_toXml': (STANZA, 'QXmppStanza::Error::toXml', 'toXml', {'this': 'StanzaError'}, ''),
    'typeFromString': (STANZA, 'typeFromString', 'typeFromString', {}, codec.NS),
    'typeToString': (STANZA, 'typeToString', 'typeToString', {}, codec.NS),
}
ERR_FINDING = 'stanzaerror-not-normalised'


def error_kit(uid, work):
    T = codec.SCALAR_TYPES
    T.update({'QXmppStanza::Error': 'StanzaError', 'Error': 'StanzaError', 'QXmppStanzaErrorPrivate': 'QXmppStanzaErrorPrivate',
              'QSharedDataPointer<QXmppStanzaErrorPrivate>': 'QXmppStanzaErrorPrivate*'})
    codec.OPAQUE_ENUMS.update({'QXmppStanza::Error::Type', 'Error::Type'})
    codec.HELPERS.update(ERR_HELPERS)
    kit = codec.Kit(uid, work)
    kit.prof.calls.update(iq.iq_calls())
    kit.prof.calls.update({
        'op->:QXmppStanzaErrorPrivate*': ('arg', 0),
        'fn:typeFromString/1': ('calleeret', 'typeFromString', 'OptEnum'), 'fn:typeToString/1': ('callee', 'typeToString'),
        'qstr::clear/0': ('expr', '{0} = 0'),
        'xw::writeAttribute/2': ('fn', 'xw_writeAttribute'),
    })
    kit.prof.class_types |= {'StanzaError', 'QXmppStanzaErrorPrivate'}
    kit.prefetch([(STANZA, 'QXmppStanzaErrorPrivate'), (STANZA, 'QXmppStanza::Error::Error'), (STANZA, 'QXmppStanza::Error::parse'), (STANZA, 'QXmppStanza::Error::toXml'),
                  (STANZA, 'typeFromString'), (STANZA, 'typeToString'), (STANZA, 'conditionFromString'), (STANZA, 'conditionToString')])
    rec, fields, init, indet = private_state(kit, STANZA, 'QXmppStanzaErrorPrivate', 'QXmppStanza::Error::Error', 'Error')
    kit.fields, kit.indet = fields, indet
    ghost = ''.join('bool gh_def_%s;   /* ghost: the member holds a defined value */\n' % m for m, _ in indet)
    kit.init_fn = ('/* the state QXmppStanza::Error::Error() leaves: in-class initialisers, default-constructed class members, everything else as `new` leaves it */\n'
                   'void QXmppStanzaErrorPrivate_init(QXmppStanzaErrorPrivate *self)\n{\n' + '\n'.join(init) + '\n}\n')
    kit.records = (kit.records + 'qint64 nondet_qint64(void);\n' + ghost + rec + '\ntypedef struct StanzaError { QXmppStanzaErrorPrivate *d; } StanzaError;\n')
    for r in ('StanzaError_parse', 'StanzaError_toXml'):
        kit.need(r)
    kit.texts['StanzaError_parse'] = instrument_def(kit.texts['StanzaError_parse'], indet, 'parse')
    kit.texts['StanzaError_toXml'] = instrument_def(kit.texts['StanzaError_toXml'], indet, 'read')
    src = os.path.join(REPO, STANZA)
    kit.tvals = sorted(ctx.enum_values(src, 'QXmppStanza::Error::Type').values())
    kit.cvals, kit.cnames = codec.enum_range('QXmppStanza::Error::Condition')
    kit.tnames = ctx.enum_values(src, 'QXmppStanza::Error::Type')
    for e in ('QXmppStanza::Error::Type', 'QXmppStanza::Error::Condition'):
        kit.b.need_enums.setdefault((src, ()), {}).setdefault(e, set())
    return kit


def err_conditions(kit, v):
    """input classes in which the serialiser drops information the parser keeps (C expressions over the object v)"""
    gone = '(%s->d->condition == %d || %s->d->condition == %d)' % (v, kit.cnames['Gone'], v, kit.cnames['Redirect'])
    silent = '(%s->d->condition == %d && %s->d->type == %d)' % (v, kit.cnames['NoCondition'], v, kit.tnames['NoType'])
    lossy = '(%s->d->code < 0 || (%s->d->redirectionUri != 0 && !%s) || (%s->d->fileTooLarge && %s->d->retryDate != 0))' % (v, v, gone, v, v)
    return gone, silent, lossy


def err_members(kit, a, b, gone_b):
    out = []
    for f, t in kit.fields:
        e = iq.eq(t, '%s->d->%s' % (a, f), '%s->d->%s' % (b, f))
        if f == 'maxFileSize':
            e = '(%s->d->fileTooLarge) ==> %s' % (b, e)
        out.append((f, e))
    return out


def error_proofs(uid, work, mk_proof, which):
    kit = error_kit(uid, work)
    roots = ['StanzaError_toXml', 'StanzaError_parse']
    fresh = '__CPROVER_is_fresh({v}, sizeof(*{v})) && __CPROVER_is_fresh({v}->d, sizeof(*{v}->d))'
    tinv = '((' + ' || '.join('{v}->d->type == %d' % x for x in kit.tvals) + ') && (' + ' || '.join('{v}->d->condition == %d' % x for x in kit.cvals) + '))'
    ghosts = ''.join(', gh_def_%s' % m for m, _ in kit.indet)
    out = []
    if which == 'roundtrip':
        gone, silent, lossy = err_conditions(kit, 'x')
        L = ['__CPROVER_requires(%s)' % fresh.format(v='x'), '__CPROVER_requires(%s)' % fresh.format(v='y'),
             '__CPROVER_requires(%s)   /* type invariants */' % tinv.format(v='x'),
             '/* stated domain: an error that says something (else nothing is written at all), a non-negative legacy code, a redirection URI only with <gone/> / <redirect/>,',
             '   a retry date only without file-too-large; maxFileSize is meaningful only with fileTooLarge */',
             '__CPROVER_requires(!%s && !%s)' % (silent, lossy),
             '__CPROVER_assigns(*y->d, gh_x%s)' % ghosts,
             '//: post.output_is_one_complete_well_formed_element', '__CPROVER_ensures(XW_ONE_COMPLETE_ELEMENT())']
        for f, e in err_members(kit, 'y', 'x', None):
            L += ['//: post.member_%s_survives_the_round_trip' % f, '__CPROVER_ensures(%s)' % e]
        sp = Spec(kit.b.subst('## contract\n' + '\n'.join(L) + '\n'))
        sets = ''.join('  gh_def_%s = true;   /* x is a fully defined value */\n' % m for m, _ in kit.indet)
        body = kit.init_fn + ('void StanzaError_roundtrip(const StanzaError *x, StanzaError *y)\n%s\n{\n  xw w;\n  xw_reset();\n%s  StanzaError_toXml(x, &w);\n  xw_finish();\n'
                              '  QXmppStanzaErrorPrivate_init(y->d);   /* y = QXmppStanza::Error() */\n  StanzaError_parse(y, gh_x.root);\n}\n' % (sp.contract, sets))
        out.append(mk_proof(kit, 'QXmppStanzaError_roundtrip', roots, 'StanzaError_roundtrip', sp, body, 'void h_StanzaError_roundtrip(void) { StanzaError *x; StanzaError *y; StanzaError_roundtrip(x, y); }',
                            unwindset=['StanzaError_parse.0:6'],
                            note='real QXmppStanza::Error::toXml, parse, typeToString/FromString, conditionToString/FromString; the parsed object starts in the state its constructor really leaves '
                                 '(maxFileSize indeterminate); every value of every member within the stated domain; child loop of parse fully unwound over the ghost element'))
    else:
        macros = kit.b.subst('#define CH1(e) __CPROVER_uninterpreted_dom_first_child((e), 0, 0)\n#define CH2(e) __CPROVER_uninterpreted_dom_next_sibling(CH1(e), 0, 0)\n'
                             '#define CH3(e) __CPROVER_uninterpreted_dom_next_sibling(CH2(e), 0, 0)\n#define CH4(e) __CPROVER_uninterpreted_dom_next_sibling(CH3(e), 0, 0)\n')
        gone, silent, lossy = err_conditions(kit, 'a')
        fid = '%s-%s' % (uid, ERR_FINDING)
        for pid, guard, f in (('QXmppStanzaError_fixpoint', '!%s && !%s' % (silent, lossy), None), ('QXmppStanzaError_fixpoint@' + fid, '!%s && %s' % (silent, lossy), fid)):
            L = ['__CPROVER_requires(%s)' % fresh.format(v='a'), '__CPROVER_requires(%s)' % fresh.format(v='b'),
                 '__CPROVER_requires(!X_BUILT(e))',
                 '/* BOUND of this stand-in: the foreign <error/> has at most three child elements */',
                 '__CPROVER_requires(e == 0 || CH1(e) == 0 || CH2(e) == 0 || CH3(e) == 0 || CH4(e) == 0)',
                 '__CPROVER_assigns(*a->d, *b->d, gh_x%s)' % ghosts,
                 '//: post.parsed_object_satisfies_its_type_invariants', '__CPROVER_ensures(%s)' % tinv.format(v='a'),
                 '//: post.parsed_object_serialises_to_at_most_one_well_formed_element', '__CPROVER_ensures(gh_x.wf && gh_x.depth == 0 && gh_x.roots <= 1)']
            for m, e in err_members(kit, 'b', 'a', None):
                L += ['//: post.second_parse_gives_the_same_%s' % m, '__CPROVER_ensures((%s) ==> (%s))' % (guard, e)]
            sp = Spec(kit.b.subst('## contract\n' + '\n'.join(L) + '\n'))
            body = kit.init_fn + macros + ('void StanzaError_fixpoint(qdom e, StanzaError *a, StanzaError *b)\n%s\n{\n  xw w;\n  xw_reset();\n  QXmppStanzaErrorPrivate_init(a->d);   /* a = QXmppStanza::Error() */\n'
                                           '  StanzaError_parse(a, e);\n  StanzaError_toXml(a, &w);   /* every read of a member without initialiser is checked (safety.member_*_defined_when_read) */\n  xw_finish();\n'
                                           '  QXmppStanzaErrorPrivate_init(b->d);\n  if (gh_x.roots == 1) StanzaError_parse(b, gh_x.root);   /* nothing is written for an error that says nothing */\n}\n' % sp.contract)
            out.append(mk_proof(kit, pid, roots, 'StanzaError_fixpoint', sp, body, 'void h_StanzaError_fixpoint(void) { qdom e; StanzaError *a; StanzaError *b; StanzaError_fixpoint(e, a, b); }',
                                finding=f, kind='bounded', bound_text='the foreign <error/> element has at most 3 child elements; loop of QXmppStanza::Error::parse unwound 6 times with unwinding assertions',
                                unwindset=['StanzaError_parse.0:6'],
                                note='ARBITRARY foreign <error/>; the object starts in the state its constructor really leaves (maxFileSize indeterminate, ghost flag false); real parse, toXml (every read of '
                                     'maxFileSize asserted defined), parse' + ('; RESTRICTED to parse results in the input class of finding ' + f if f else '; parse results in the input class of the recorded finding %s excluded from the fixpoint clauses (the definedness, type-invariant and well-formedness obligations are NOT restricted)' % fid)))
    if which == 'fixpoint':
        # the public getter of the member without initialiser, on a default-constructed error (recorded finding)
        codec.HELPERS['StanzaError_maxFileSize'] = (STANZA, 'QXmppStanza::Error::maxFileSize', 'maxFileSize', {'this': 'StanzaError', 'nparams': 0}, '')
        kit.need('StanzaError_maxFileSize')
        kit.texts['StanzaError_maxFileSize'] = instrument_def(kit.texts['StanzaError_maxFileSize'], kit.indet, 'read')
        fid = '%s-stanzaerror-maxfilesize-uninit' % uid
        L = ['__CPROVER_requires(%s)' % fresh.format(v='a'), '__CPROVER_assigns(*a->d%s)' % ghosts,
             '//: post.getter_returns_the_member', '__CPROVER_ensures(__CPROVER_return_value == a->d->maxFileSize)']
        sp = Spec('## contract\n' + '\n'.join(L) + '\n')
        body = kit.init_fn + 'qint64 StanzaError_default_maxFileSize(StanzaError *a)\n%s\n{\n  QXmppStanzaErrorPrivate_init(a->d);   /* QXmppStanza::Error() */\n  return StanzaError_maxFileSize(a);\n}\n' % sp.contract
        out.append(mk_proof(kit, 'QXmppStanzaError_default_maxFileSize@' + fid, ['StanzaError_maxFileSize'], 'StanzaError_default_maxFileSize', sp, body,
                            'void h_StanzaError_default_maxFileSize(void) { StanzaError *a; StanzaError_default_maxFileSize(a); }', finding=fid,
                            note='real QXmppStanza::Error::maxFileSize() on a default-constructed error (constructor state from the class definition: maxFileSize has no initialiser and the '
                                 'private object is created by a non-zeroing `new`): the read is asserted defined'))
    return kit, out


# ---------------------------------------------------------------------------------------------------------------------
# QXmppJingleMessageInitiationElement
JQ = 'QXmppJingleMessageInitiationElement'
JMI_HELPERS = {
    'Jmi_parse': (JINGLE, JQ + '::parse', 'parse', {'this': 'JmiElement'}, ''),
    'Jmi_toXml': (JINGLE, JQ + '::toXml', 'toXml', {'this': 'JmiElement'}, ''),
    'Jmi_isJmiElement': (JINGLE, JQ + '::isJingleMessageInitiationElement', 'isJingleMessageInitiationElement', {}, ''),
    'jmiElementTypeToString': (JINGLE, JQ + '::jmiElementTypeToString', 'jmiElementTypeToString', {}, ''),
    'stringToJmiElementType': (JINGLE, JQ + '::stringToJmiElementType', 'stringToJmiElementType', {}, ''),
}
JMI_STUBS = '''
/* QXmppJingleDescription / QXmppJingleReason inside std::optional: opaque sub-objects (NOT covered), 0 = nullopt */
typedef int qsub;
qsub nondet_qsub(void);
static inline void qsub_toXml(qsub s, xw *w) { (void)w; MODEL_LIMIT(s == 0, "opaque sub-object is present (its serialisation is not represented)"); }
static inline void qsub_parse(qsub *s, qdom e) { (void)e; *s = nondet_qsub(); __CPROVER_assume(*s != 0); }
static inline qsub qsub_some(void) { qsub s = nondet_qsub(); __CPROVER_assume(s != 0); return s; }
'''


def jmi_kit(uid, work):
    T = codec.SCALAR_TYPES
    T.update({JQ: 'JmiElement', JQ + 'Private': 'JmiPrivate', 'QSharedDataPointer<%sPrivate>' % JQ: 'JmiPrivate*',
              'std::optional<QXmppJingleDescription>': 'qsub', 'std::optional<QXmppJingleReason>': 'qsub', 'QXmppJingleDescription': 'qsub', 'QXmppJingleReason': 'qsub'})
    codec.OPAQUE_ENUMS.update({JQ + '::Type', 'Type'})
    codec.HELPERS.update(JMI_HELPERS)
    kit = codec.Kit(uid, work)
    kit.prof.calls.update({
        'op->:JmiPrivate*': ('arg', 0),
        'qdom::nodeName/0': ('fn', 'xdom_tagName'),       # no prefixes in the abstract tree: nodeName() is tagName()
        'fn:stringToJmiElementType/1': ('calleeret', 'stringToJmiElementType', 'OptEnum'),
        'fn:jmiElementTypeToString/1': ('callee', 'jmiElementTypeToString'),
        'qsub::operator bool/0': ('expr', '{0} != 0'),
        'op->:qsub': lambda lw, node, args: lw.addr_of(lw.expr(node['inner'][1])),
        'qsub*::parse/1': ('fn', 'qsub_parse'), 'qsub*::toXml/1': lambda lw, node, args: 'qsub_toXml(*%s, %s)' % (args[0], args[1]),
        'qsub::parse/1': ('fnmut', 'qsub_parse'),
        'op=:qsub:qsub': ('expr', '{v0} = qsub_some()'),
        'ctor:qsub()': ('const', '0'),
        'expr:InitListExpr:OptEnum': lambda lw, n: lw.expr(n['inner'][0]),      # std::optional<Type> type { f(x) };
        '*::toXml/1': presence.rule_sub_toxml,
    })
    kit.prof.class_types |= {'JmiElement', 'JmiPrivate'}
    kit.prefetch([(JINGLE, JQ + 'Private'), (JINGLE, JQ + '::' + JQ)] + [(v[0], v[1]) for v in JMI_HELPERS.values()])
    rec, fields, init, indet = private_state(kit, JINGLE, JQ + 'Private', JQ + '::' + JQ, JQ)
    rec = rec.replace(JQ + 'Private', 'JmiPrivate')
    kit.fields, kit.indet = fields, indet
    ghost = ''.join('bool gh_def_%s;   /* ghost: the member holds a defined value */\n' % m for m, _ in indet)
    kit.init_fn = ('/* the state QXmppJingleMessageInitiationElement() leaves: in-class initialisers; the rest as `new ...Private()` leaves it */\n'
                   'void JmiPrivate_init(JmiPrivate *self)\n{\n' + '\n'.join(init) + '\n}\n')
    kit.records = kit.records + JMI_STUBS + ghost + rec + '\ntypedef struct JmiElement { JmiPrivate *d; } JmiElement;\n'
    for r in ('Jmi_parse', 'Jmi_toXml', 'Jmi_isJmiElement'):
        kit.need(r)
    kit.texts['Jmi_parse'] = instrument_def(kit.texts['Jmi_parse'], indet, 'parse')
    kit.texts['Jmi_toXml'] = instrument_def(kit.texts['Jmi_toXml'], indet, 'read')
    src = os.path.join(REPO, JINGLE)
    kit.tn = ctx.enum_values(src, JQ + '::Type')
    kit.b.need_enums.setdefault((src, ()), {}).setdefault(JQ + '::Type', set())
    return kit


def jmi_proofs(uid, work, mk_proof, which):
    kit = jmi_kit(uid, work)
    roots = ['Jmi_toXml', 'Jmi_parse', 'Jmi_isJmiElement']
    fresh = '__CPROVER_is_fresh({v}, sizeof(*{v})) && __CPROVER_is_fresh({v}->d, sizeof(*{v}->d))'
    tn = kit.tn
    vs = sorted(tn.values())
    tinv = '({v}->d->type >= %d && {v}->d->type <= %d)' % (vs[0], vs[-1])
    ghosts = ''.join(', gh_def_%s' % m for m, _ in kit.indet)
    scal = [(f, t) for f, t in kit.fields if t != 'qsub']
    subs = [f for f, t in kit.fields if t == 'qsub']
    out = []
    if which == 'roundtrip':
        L = ['__CPROVER_requires(%s)' % fresh.format(v='x'), '__CPROVER_requires(%s)' % fresh.format(v='y'),
             '__CPROVER_requires(%s)   /* type invariant */' % tinv.format(v='x'),
             '/* stated domain: the element has a type (Type::None is "not a JMI element"); a tie-break only in <reject/> / <retract/>, a migration target only in <finish/>;',
             '   description / reason sub-objects absent (not covered) */',
             '__CPROVER_requires(x->d->type != %d)' % tn['None'],
             '__CPROVER_requires(!x->d->containsTieBreak || x->d->type == %d || x->d->type == %d)' % (tn['Reject'], tn['Retract']),
             '__CPROVER_requires(x->d->migratedTo == 0 || x->d->type == %d)' % tn['Finish'],
             '__CPROVER_requires(%s)' % ' && '.join('x->d->%s == 0' % f for f in subs),
             '__CPROVER_assigns(*y->d, gh_x%s)' % ghosts,
             '//: post.output_is_one_complete_well_formed_element', '__CPROVER_ensures(XW_ONE_COMPLETE_ELEMENT())',
             '//: post.own_output_is_recognised_as_a_jmi_element', '__CPROVER_ensures(__CPROVER_return_value)   /* only if it carries an id, as the recogniser demands */']
        for f, t in scal:
            L += ['//: post.member_%s_survives_the_round_trip' % f, '__CPROVER_ensures(%s)' % iq.eq(t, 'y->d->' + f, 'x->d->' + f)]
        L.insert(9, '__CPROVER_requires(x->d->id != 0)   /* a JMI element carries its session id */')
        sp = Spec(kit.b.subst('## contract\n' + '\n'.join(L) + '\n'))
        body = kit.init_fn + ('bool Jmi_roundtrip(const JmiElement *x, JmiElement *y)\n%s\n{\n  xw w;\n  xw_reset();\n  Jmi_toXml(x, &w);\n  xw_finish();\n  JmiPrivate_init(y->d);\n'
                              '  bool rec = Jmi_isJmiElement(gh_x.root);\n  Jmi_parse(y, gh_x.root);\n  return rec;\n}\n' % sp.contract)
        out.append(mk_proof(kit, 'QXmppJmiElement_roundtrip', roots, 'Jmi_roundtrip', sp, body, 'void h_Jmi_roundtrip(void) { JmiElement *x; JmiElement *y; Jmi_roundtrip(x, y); }',
                            note='real QXmppJingleMessageInitiationElement::toXml, parse, isJingleMessageInitiationElement, jmiElementTypeToString, stringToJmiElementType; every type, id, tie-break and '
                                 'migration target within the stated domain; description / reason sub-objects absent'))
    else:
        macros = kit.b.subst('#define NOSUB(e) (__CPROVER_uninterpreted_dom_first_child((e), S("description"), 0) == 0 && __CPROVER_uninterpreted_dom_first_child((e), S("reason"), 0) == 0)\n')
        L = ['__CPROVER_requires(%s)' % fresh.format(v='a'), '__CPROVER_requires(%s)' % fresh.format(v='b'),
             '__CPROVER_requires(!X_BUILT(e) && e != 0)',
             '__CPROVER_requires(NOSUB(e))   /* no <description/> / <reason/> child: those sub-objects are not covered */',
             '__CPROVER_assigns(*a->d, *b->d, gh_x%s)' % ghosts,
             '//: post.recognised_element_parses_to_a_jmi_type',
             '__CPROVER_ensures(__CPROVER_return_value ==> a->d->type != %d)' % tn['None'],
             '//: post.parsed_type_is_a_declared_enumerator', '__CPROVER_ensures(%s)' % tinv.format(v='a'),
             '//: post.recognised_element_serialises_to_one_well_formed_element_with_a_name',
             '__CPROVER_ensures(__CPROVER_return_value ==> XW_ONE_COMPLETE_ELEMENT())',
             '//: post.output_of_the_parsed_object_is_recognised_again',
             '__CPROVER_ensures(__CPROVER_return_value && a->d->id != 0 ==> gh_rec2)   /* an EMPTY id attribute satisfies the recogniser but is not written back (observation, listed) */']
        for f, t in scal:
            L += ['//: post.second_parse_gives_the_same_%s' % f, '__CPROVER_ensures(__CPROVER_return_value ==> %s)' % iq.eq(t, 'b->d->' + f, 'a->d->' + f)]
        sp = Spec(kit.b.subst('## contract\n' + '\n'.join(L) + '\n'))
        sp.contract = sp.contract.replace('gh_x' + ghosts + ')', 'gh_x, gh_rec2' + ghosts + ')')
        body = kit.init_fn + macros + ('bool gh_rec2;\nbool Jmi_fixpoint(qdom e, JmiElement *a, JmiElement *b)\n%s\n{\n  xw w;\n  xw_reset();\n  gh_rec2 = false;\n  JmiPrivate_init(a->d);\n  JmiPrivate_init(b->d);\n'
                                       '  bool rec = Jmi_isJmiElement(e);      /* QXmppMessage::parseExtension parses and stores the element exactly when this holds */\n'
                                       '  if (rec) {\n    Jmi_parse(a, e);\n    Jmi_toXml(a, &w);\n    xw_finish();\n    if (gh_x.roots == 1) { gh_rec2 = Jmi_isJmiElement(gh_x.root); Jmi_parse(b, gh_x.root); }\n  }\n  return rec;\n}\n' % sp.contract)
        out.append(mk_proof(kit, 'QXmppJmiElement_fixpoint', roots, 'Jmi_fixpoint', sp, body, 'void h_Jmi_fixpoint(void) { qdom e; JmiElement *a; JmiElement *b; Jmi_fixpoint(e, a, b); }',
                            note='ARBITRARY foreign element; real isJingleMessageInitiationElement decides (as at the QXmppMessage::parseExtension call site) whether the element is parsed; then real parse, toXml, '
                                 'recogniser and parse again; object starts as its constructor leaves it; description / reason children excluded (sub-objects not covered)'))
    return kit, out


ASSUMED_EXT = [
    'QXmppJinglePayloadType: QMap<QString, QString> as a bounded map model (at most 2 entries, insert replaces, iteration in storage order); the file-static rtcp-fb helpers (XEP-0293 lists) are contract-only stubs: a function of the element on parse, must be empty on serialisation; the parsed object starts as the real constructor initialisers leave it; stated domain channels >= 1',
    'QXmppJingleIq::Content::parse payload loop: description setters, encryption scan, rtcp-fb / header-extension helpers, candidates and fingerprint are contract-only stubs; QXmppJingleDescription::addPayloadType appends a copy (ghost: the copy at the witness position); a local QXmppJinglePayloadType has its own private record built by the real constructor initialisers; bounded to 2 payload types with at most 1 parameter each, at most 1 other child / candidate',
    'QXmppOutgoingClient::handleElement (C02): every callee is a contract-only stub with an arbitrary result; StreamErrorElement::fromDom returns either alternative of its std::variant (assumed contract); std::get_if yields null for the inactive alternative, std::get throws (obligation safety.no_exception_escapes, the path ends)',
    'definedness instrumentation (units/C01/ext.py instrument_def): a scalar data member without in-class initialiser whose owner is created by a non-zeroing `new T` (read from clang\'s AST: CXXConstructExpr.zeroing) starts indeterminate (nondeterministic value, ghost flag false); every assignment to it in the lowered parser sets the flag, every read in the lowered serialiser / getter asserts it (obligation safety.member_<m>_defined_when_read); members of class type (QString, QDateTime, std::optional) are default-constructed',
    'QXmppStanza::Error: the parsed object starts in the state QXmppStanza::Error() leaves; stated domain of the round trip: the error says something (condition or type set; otherwise toXml writes nothing), legacy code >= 0, redirection URI only with <gone/> / <redirect/>, retry date only without file-too-large, maxFileSize only with fileTooLarge; C02 stand-in bounded to foreign <error/> elements with at most 3 children',
    'QXmppJingleMessageInitiationElement: std::optional<QXmppJingleDescription> / std::optional<QXmppJingleReason> are opaque sub-objects that must be absent (contract-only stubs; foreign elements with a <description/> or <reason/> child excluded); QDomNode::nodeName() = tagName() (no prefixes in the abstract tree); stated domain of the round trip: type != None, non-empty id, tie-break only in <reject/> / <retract/>, migration target only in <finish/>; observation: an element with an EMPTY id attribute satisfies isJingleMessageInitiationElement but its re-serialisation (id omitted) does not',
    'the call site QXmppMessage::parseExtension (stores a JMI element exactly when isJingleMessageInitiationElement holds, then parse) is a listed call site: the harness makes the same decision with the real recogniser; QXmppMessage itself is not lowered',
]


# ---------------------------------------------------------------------------------------------------------------------
# QXmppJinglePayloadType (6 attributes, the <parameter/> map as a BOUNDED map of at most 2 entries; rtcp-fb lists contract-only)
PT = 'QXmppJinglePayloadType'
PT_HELPERS = {
    'PayloadType_parse': (JINGLE, PT + '::parse', 'parse', {'this': 'PayloadType'}, ''),
    'PayloadType_toXml': (JINGLE, PT + '::toXml', 'toXml', {'this': 'PayloadType'}, ''),
}
PT_MODEL = '''
/* QMap<QString, QString>, BOUNDED model: at most 2 entries with distinct keys; insert() replaces the value of an existing key;
   iteration in storage order (equality below is order independent) */
typedef struct qstrmap { int n; qstr k[2]; qstr v[2]; } qstrmap;
typedef struct qstrmap_it { const qstrmap *m; int i; } qstrmap_it;
#define QSTRMAP_WF(a) ((a).n >= 0 && (a).n <= 2 && ((a).n < 2 || (a).k[0] != (a).k[1]))
#define QSTRMAP_HAS(a, key, val) (((a).n > 0 && (a).k[0] == (key) && (a).v[0] == (val)) || ((a).n > 1 && (a).k[1] == (key) && (a).v[1] == (val)))
#define QSTRMAP_EQ(a, b) ((a).n == (b).n && ((a).n < 1 || QSTRMAP_HAS(b, (a).k[0], (a).v[0])) && ((a).n < 2 || QSTRMAP_HAS(b, (a).k[1], (a).v[1])))
static inline void qstrmap_insert(qstrmap *m, qstr key, qstr val) {
  if (m->n > 0 && m->k[0] == key) { m->v[0] = val; return; }
  if (m->n > 1 && m->k[1] == key) { m->v[1] = val; return; }
  __CPROVER_assume(m->n >= 0 && m->n < 2);      /* bound of the stand-in */
  m->k[m->n] = key; m->v[m->n] = val; m->n++; }
static inline void qstrmap_begin(qstrmap_it *_ret, const qstrmap *m) { _ret->m = m; _ret->i = 0; }
static inline void qstrmap_end(qstrmap_it *_ret, const qstrmap *m) { _ret->m = m; _ret->i = m->n; }
static inline bool qstrmap_it_ne(const qstrmap_it *a, const qstrmap_it *b) { return a->i != b->i; }
static inline void qstrmap_it_inc(qstrmap_it *a) { if (a->i < 2) a->i++; }
static inline qstr qstrmap_it_key(const qstrmap_it *a) { __CPROVER_assume(a->i >= 0 && a->i < 2); return a->m->k[a->i]; }
static inline qstr qstrmap_it_value(const qstrmap_it *a) { __CPROVER_assume(a->i >= 0 && a->i < 2); return a->m->v[a->i]; }
/* contract-only stubs of the file-static rtcp-fb helpers (XEP-0293 sub-object lists, NOT covered): the lists must be empty to be
   serialised; the parser appends only when the element has an <rtcp-fb/> or <rtcp-fb-trr-int/> child */
typedef int qsub;
qsub nondet_qsub(void);
qsub __CPROVER_uninterpreted_rtcpfb_props(qdom e);
qsub __CPROVER_uninterpreted_rtcpfb_intervals(qdom e);
#define HAS_RTCP_FB(e) (__CPROVER_uninterpreted_dom_first_child((e), S("rtcp-fb"), 0) != 0 || __CPROVER_uninterpreted_dom_first_child((e), S("rtcp-fb-trr-int"), 0) != 0)
static inline void rtcpfb_parse_stub(qdom parent, qsub *props, qsub *intervals) {
  if (X_BUILT(parent)) { if (xdom_firstChildElement(parent, S("rtcp-fb"), 0) == 0 && xdom_firstChildElement(parent, S("rtcp-fb-trr-int"), 0) == 0) return; }
  else if (parent == 0 || !HAS_RTCP_FB(parent)) return;
  *props = __CPROVER_uninterpreted_rtcpfb_props(parent); *intervals = __CPROVER_uninterpreted_rtcpfb_intervals(parent); }   /* a function of the element */
static inline void rtcpfb_toXml_stub(xw *w, qsub props, qsub intervals) { (void)w; MODEL_LIMIT(props == 0 && intervals == 0, "rtcp-fb lists are not empty (sub-objects not represented)"); }
'''


def pt_kit(uid, work):
    T = codec.SCALAR_TYPES
    T.update({PT: 'PayloadType', PT + 'Private': 'PayloadTypePrivate', 'QSharedDataPointer<%sPrivate>' % PT: 'PayloadTypePrivate*',
              'QMap<QString,QString>': 'qstrmap', 'QMap<QString,QString>::iterator': 'qstrmap_it', 'QMap<QString,QString>::const_iterator': 'qstrmap_it',
              'QVector<QXmppJingleRtpFeedbackProperty>': 'qsub', 'QVector<QXmppJingleRtpFeedbackInterval>': 'qsub'})
    codec.HELPERS.update(PT_HELPERS)
    kit = codec.Kit(uid, work)
    kit.prof.calls.update({
        'op->:PayloadTypePrivate*': ('arg', 0),
        'qstrmap::insert/2': ('fn', 'qstrmap_insert'),
        'qstrmap::begin/0': ('fnret', 'qstrmap_begin', 'qstrmap_it'), 'qstrmap::end/0': ('fnret', 'qstrmap_end', 'qstrmap_it'),
        'qstrmap::constBegin/0': ('fnret', 'qstrmap_begin', 'qstrmap_it'), 'qstrmap::constEnd/0': ('fnret', 'qstrmap_end', 'qstrmap_it'),
        'op!=:qstrmap_it:qstrmap_it': ('fn', 'qstrmap_it_ne'),
        'op++:qstrmap_it:qint32': lambda lw, node, args: 'qstrmap_it_inc(%s)' % args[0], 'op++:qstrmap_it': ('fn', 'qstrmap_it_inc'),
        'qstrmap_it::key/0': ('fn', 'qstrmap_it_key'), 'qstrmap_it::value/0': ('fn', 'qstrmap_it_value'),
        'fn:parseJingleRtpFeedbackNegotiationElements/3': ('fn', 'rtcpfb_parse_stub'),
        'fn:jingleRtpFeedbackNegotiationElementsToXml/3': ('fn', 'rtcpfb_toXml_stub'),
        'xw::writeAttribute/2': ('fn', 'xw_writeAttribute'),
    })
    kit.prof.class_types |= {'PayloadType', 'PayloadTypePrivate', 'qstrmap', 'qstrmap_it'}
    kit.prefetch([(JINGLE, PT + 'Private'), (JINGLE, PT + '::parse'), (JINGLE, PT + '::toXml')])
    rec, fields = presence.private_record(JINGLE, PT + 'Private', 'PayloadTypePrivate')
    kit.fields = fields
    kit.records = kit.records + kit.b.subst(PT_MODEL) + rec + '\ntypedef struct PayloadType { PayloadTypePrivate *d; } PayloadType;\n'
    for r in ('PayloadType_toXml', 'PayloadType_parse'):
        kit.need(r)
    kit.ctor = iq.lower_ctor(kit, JINGLE, PT + 'Private::' + PT + 'Private', PT + 'Private', 'PayloadTypePrivate_ctor', 'PayloadTypePrivate')
    return kit


def pt_eq(kit, a, b):
    out = []
    for f, t in kit.fields:
        if t == 'qsub':
            continue
        e = 'QSTRMAP_EQ(%s->d->%s, %s->d->%s)' % (a, f, b, f) if t == 'qstrmap' else iq.eq(t, '%s->d->%s' % (a, f), '%s->d->%s' % (b, f))
        out.append((f, e))
    return out


PT_BOUND = 'QXmppJinglePayloadType carries at most 2 <parameter/> entries (bounded QMap model); loops unwound 4 times with unwinding assertions'
PT_FINDING = 'payloadtype-channels-zero'


def pt_proofs(uid, work, mk_proof, which):
    kit = pt_kit(uid, work)
    roots = ['PayloadType_toXml', 'PayloadType_parse']
    fresh = '__CPROVER_is_fresh({v}, sizeof(*{v})) && __CPROVER_is_fresh({v}->d, sizeof(*{v}->d))'
    uw = ['PayloadType_toXml.0:4', 'PayloadType_parse.0:4']
    out = []
    if which == 'roundtrip':
        L = ['__CPROVER_requires(%s)' % fresh.format(v='x'), '__CPROVER_requires(%s)' % fresh.format(v='y'),
             '__CPROVER_requires(QSTRMAP_WF(x->d->parameters))',
             '/* stated domain: at least one channel (0 channels is written like the default 1); rtcp-fb sub-object lists empty (not covered) */',
             '__CPROVER_requires(x->d->channels >= 1 && x->d->rtpFeedbackProperties == 0 && x->d->rtpFeedbackIntervals == 0)',
             '__CPROVER_assigns(*y->d, gh_x)',
             '//: post.output_is_one_complete_well_formed_element', '__CPROVER_ensures(XW_ONE_COMPLETE_ELEMENT())']
        for f, e in pt_eq(kit, 'y', 'x'):
            L += ['//: post.member_%s_survives_the_round_trip' % f, '__CPROVER_ensures(%s)' % e]
        sp = Spec(kit.b.subst('## contract\n' + '\n'.join(L) + '\n'))
        body = kit.ctor + ('\nvoid PayloadType_roundtrip(const PayloadType *x, PayloadType *y)\n%s\n{\n  xw w;\n  xw_reset();\n  PayloadType_toXml(x, &w);\n  xw_finish();\n'
                           '  PayloadTypePrivate_ctor(y->d);   /* y = QXmppJinglePayloadType() */\n  PayloadType_parse(y, gh_x.root);\n}\n' % sp.contract)
        out.append(mk_proof(kit, 'QXmppJinglePayloadType_roundtrip', roots, 'PayloadType_roundtrip', sp, body, 'void h_PayloadType_roundtrip(void) { PayloadType *x; PayloadType *y; PayloadType_roundtrip(x, y); }',
                            kind='bounded', bound_text=PT_BOUND, unwindset=uw, defines=['XWIDE', 'XN=4'],
                            note='real QXmppJinglePayloadType::toXml, parse, parseInt<uint8_t>, the private constructor initialisers; id / channels over 0..255 (channels >= 1), clockrate / maxptime / ptime over the whole unsigned range, name, parameters as a map'))
    else:
        fid = '%s-%s' % (uid, PT_FINDING)
        macros = kit.b.subst('#define PAR1(e) __CPROVER_uninterpreted_dom_first_child((e), S("parameter"), 0)\n#define PAR2(e) __CPROVER_uninterpreted_dom_next_sibling(PAR1(e), S("parameter"), 0)\n'
                             '#define PAR3(e) __CPROVER_uninterpreted_dom_next_sibling(PAR2(e), S("parameter"), 0)\n')
        for pid, guard, f in (('QXmppJinglePayloadType_fixpoint', 'a->d->channels != 0', None), ('QXmppJinglePayloadType_fixpoint@' + fid, 'a->d->channels == 0', fid)):
            L = ['__CPROVER_requires(%s)' % fresh.format(v='a'), '__CPROVER_requires(%s)' % fresh.format(v='b'),
                 '__CPROVER_requires(!X_BUILT(e))',
                 '/* BOUND of this stand-in: at most two <parameter/> children; no rtcp-fb children (sub-objects not covered) */',
                 '__CPROVER_requires(e == 0 || ((PAR1(e) == 0 || PAR2(e) == 0 || PAR3(e) == 0) && !HAS_RTCP_FB(e)))',
                 '__CPROVER_assigns(*a->d, *b->d, gh_x)',
                 '//: post.parsed_object_serialises_to_one_well_formed_element', '__CPROVER_ensures(XW_ONE_COMPLETE_ELEMENT())']
            for m, e in pt_eq(kit, 'b', 'a'):
                L += ['//: post.second_parse_gives_the_same_%s' % m, '__CPROVER_ensures((%s) ==> %s)' % (guard, e)]
            sp = Spec(kit.b.subst('## contract\n' + '\n'.join(L) + '\n'))
            body = kit.ctor + '\n' + macros + ('void PayloadType_fixpoint(qdom e, PayloadType *a, PayloadType *b)\n%s\n{\n  xw w;\n  xw_reset();\n  PayloadTypePrivate_ctor(a->d);\n  PayloadType_parse(a, e);\n'
                                               '  PayloadType_toXml(a, &w);\n  xw_finish();\n  PayloadTypePrivate_ctor(b->d);\n  PayloadType_parse(b, gh_x.root);\n}\n' % sp.contract)
            out.append(mk_proof(kit, pid, roots, 'PayloadType_fixpoint', sp, body, 'void h_PayloadType_fixpoint(void) { qdom e; PayloadType *a; PayloadType *b; PayloadType_fixpoint(e, a, b); }',
                                finding=f, kind='bounded', bound_text=PT_BOUND + '; the foreign element has at most 2 <parameter/> children and no rtcp-fb children', unwindset=uw, defines=['XWIDE', 'XN=4'],
                                note='ARBITRARY foreign <payload-type/> (every attribute text: negative, huge, non-numeric); real parse, toXml, parse' + ('; RESTRICTED to parse results in the input class of finding ' + f if f else '; parse results with 0 channels excluded (recorded finding %s)' % fid)))
    return kit, out


# ---------------------------------------------------------------------------------------------------------------------
# QXmppJingleIq::Content::parse: the payload-type loop ("each stored payload type is parse() applied to a FRESH default object")
CT_STUBS = '''
/* contract-only stubs for the sub-objects of a Jingle content (description header, encryption, header extensions, candidates, fingerprint): NOT covered */
bool __CPROVER_uninterpreted_is_rtp_encryption(qdom e);
qbytes __CPROVER_uninterpreted_fingerprint(qstr s);
qsub __CPROVER_uninterpreted_sub_parse(qdom e);
static inline void qsub_touch(qsub *s, int v) { (void)v; *s = nondet_qsub(); }
static inline void qsub_parse_det(qsub *s, qdom e) { *s = __CPROVER_uninterpreted_sub_parse(e); }
static inline void qsub_push(qsub *s, int v) { (void)v; *s = nondet_qsub(); }
static inline void hdrext_parse_stub(qdom parent, qsub *props, bool *mixing) { (void)parent; *props = nondet_qsub(); *mixing = nondet_bool(); }
/* QXmppJinglePayloadType payload;  -- a local object with its own private record, constructed by the real constructor initialisers */
PayloadTypePrivate gh_pt_pool[2]; int gh_pt_used;
void PayloadTypePrivate_ctor(PayloadTypePrivate *self);
static inline void PayloadType_construct(PayloadType *p) { MODEL_LIMIT(gh_pt_used < 2, "more QXmppJinglePayloadType locals than the model holds"); p->d = &gh_pt_pool[gh_pt_used < 2 ? gh_pt_used : 0]; gh_pt_used++; PayloadTypePrivate_ctor(p->d); }
/* QXmppJingleDescription::addPayloadType(payload): appends a COPY; the ghost keeps the copy appended at the witness position g_k */
extern int g_k;
int gh_pt_count; PayloadTypePrivate gh_pt_stored;
static inline void desc_addPayloadType(qsub *desc, const PayloadType *p) { (void)desc; if (gh_pt_count == g_k) gh_pt_stored = *p->d; if (gh_pt_count < 1000) gh_pt_count++; }
'''
CT = 'QXmppJingleIq::Content'


def content_proofs(uid, work, mk_proof, which):
    """C01 only: the loop contract of Content::parse (there is no separate fixpoint statement for it)"""
    if which != 'roundtrip':
        return None, []
    kit = pt_kit(uid, work)
    T = codec.SCALAR_TYPES
    T.update({CT: 'JContent', 'Content': 'JContent', 'QXmppJingleIqContentPrivate': 'JContentPrivate', 'QSharedDataPointer<QXmppJingleIqContentPrivate>': 'JContentPrivate*'})
    for t in ('QXmppJingleDescription', 'QList<QXmppJingleCandidate>', 'QXmppJingleCandidate', 'std::optional<QXmppJingleRtpEncryption>', 'QXmppJingleRtpEncryption',
              'QVector<QXmppJingleRtpHeaderExtensionProperty>'):
        T[t] = 'qsub'
    codec.HELPERS['JContent_parse'] = (JINGLE, CT + '::parse', 'parse', {'this': 'JContent'}, '')
    kit.prof.calls.update({
        'op->:JContentPrivate*': ('arg', 0),
        'qsub::setType/1': ('fnmut', 'qsub_touch'), 'qsub::setMedia/1': ('fnmut', 'qsub_touch'), 'qsub::setSsrc/1': ('fnmut', 'qsub_touch'),
        'qsub::addPayloadType/1': ('fnmut', 'desc_addPayloadType'),
        'fn:isJingleRtpEncryption/1': ('fn', '__CPROVER_uninterpreted_is_rtp_encryption'),
        'qsub::parse/1': ('fnmut', 'qsub_parse_det'),
        'op=:qsub:qsub': ('expr', '{v0} = {1}'),
        'op<<:qsub:qsub': lambda lw, node, args: 'qsub_push(%s, %s)' % (lw.addr_of(args[0]), args[1]),
        'ctor:qsub()': ('const', '0'),
        'fn:parseJingleRtpHeaderExtensionsNegotiationElements/3': ('fn', 'hdrext_parse_stub'),
        'fn:parseFingerprint/1': ('fn', '__CPROVER_uninterpreted_fingerprint'),
        'ctor:PayloadType()': ('fn', 'PayloadType_construct'),
        'PayloadType::parse/1': ('callee', 'PayloadType_parse'),
    })
    kit.prof.class_types |= {'JContent', 'JContentPrivate'}
    kit.prefetch([(JINGLE, 'QXmppJingleIqContentPrivate'), (JINGLE, CT + '::parse')])
    rec, fields = presence.private_record(JINGLE, 'QXmppJingleIqContentPrivate', 'JContentPrivate')
    kit.records = kit.records + rec + '\ntypedef struct JContent { JContentPrivate *d; } JContent;\n' + CT_STUBS
    kit.need('JContent_parse')
    fresh = '__CPROVER_is_fresh({v}, sizeof(*{v})) && __CPROVER_is_fresh({v}->d, sizeof(*{v}->d))'
    macros = kit.b.subst('#define DESC(e) __CPROVER_uninterpreted_dom_first_child((e), S("description"), 0)\n#define PT1(e) __CPROVER_uninterpreted_dom_first_child(DESC(e), S("payload-type"), 0)\n'
                         '#define PT2(e) __CPROVER_uninterpreted_dom_next_sibling(PT1(e), S("payload-type"), 0)\n#define PT3(e) __CPROVER_uninterpreted_dom_next_sibling(PT2(e), S("payload-type"), 0)\n'
                         '#define PTK(e) (g_k == 0 ? PT1(e) : PT2(e))\n#define ANY1(p) __CPROVER_uninterpreted_dom_first_child((p), 0, 0)\n#define ANY2(p) __CPROVER_uninterpreted_dom_next_sibling(ANY1(p), 0, 0)\n'
                         '#define TRANSPORT(e) __CPROVER_uninterpreted_dom_first_child((e), S("transport"), 0)\n#define CAND1(e) __CPROVER_uninterpreted_dom_first_child(TRANSPORT(e), S("candidate"), 0)\n'
                         '#define CAND2(e) __CPROVER_uninterpreted_dom_next_sibling(CAND1(e), S("candidate"), 0)\n'
                         '#define ONEPAR(c) (__CPROVER_uninterpreted_dom_first_child((c), S("parameter"), 0) == 0 || __CPROVER_uninterpreted_dom_next_sibling(__CPROVER_uninterpreted_dom_first_child((c), S("parameter"), 0), S("parameter"), 0) == 0)\n'
                         'PayloadTypePrivate gh_pt_fresh;   /* parse() applied to a fresh default object and the g_k-th <payload-type/> child alone */\n')
    eqs = []
    for f, t in kit.fields:
        if t == 'qstrmap':
            eqs.append((f, 'QSTRMAP_EQ(gh_pt_stored.%s, gh_pt_fresh.%s)' % (f, f)))
        else:
            eqs.append((f, iq.eq(t, 'gh_pt_stored.' + f, 'gh_pt_fresh.' + f)))
    L = ['__CPROVER_requires(%s)' % fresh.format(v='c'), '__CPROVER_requires(!X_BUILT(e) && e != 0 && DESC(e) != 0)',
         '/* BOUND of this stand-in: at most 2 <payload-type/> children (each with at most 2 parameters: bounded map); witness position g_k;',
         '   the loops over sub-objects that are stubs anyway see at most one element (encryption scan, candidates) */',
         '__CPROVER_requires(PT1(e) == 0 || PT2(e) == 0 || PT3(e) == 0)', '__CPROVER_requires(g_k >= 0 && g_k <= 1)',
         '__CPROVER_requires((ANY1(DESC(e)) == 0 || ANY2(DESC(e)) == 0) && (TRANSPORT(e) == 0 || CAND1(e) == 0 || CAND2(e) == 0))',
         '__CPROVER_requires((PT1(e) == 0 || ONEPAR(PT1(e))) && (PT1(e) == 0 || PT2(e) == 0 || ONEPAR(PT2(e))))   /* at most one <parameter/> per payload type */',
         '__CPROVER_assigns(*c->d, gh_pt_pool, gh_pt_used, gh_pt_count, gh_pt_stored, gh_pt_fresh)',
         '//: post.one_payload_type_is_stored_per_child',
         '__CPROVER_ensures(gh_pt_count == (PT1(e) == 0 ? 0 : PT2(e) == 0 ? 1 : 2))']
    for f, e_ in eqs:
        L += ['//: post.kth_stored_payload_type_is_parse_of_the_kth_child_on_a_fresh_object_%s' % f, '__CPROVER_ensures(gh_pt_count > g_k ==> %s)' % e_]
    sp = Spec(kit.b.subst('## contract\n' + '\n'.join(L) + '\n'))
    # plain harness (no contract instrumentation: the write-set checks of dfcc cost 8 minutes here and add nothing for a harness-owned state):
    # the requires clauses become assumptions on the harness's nondeterministic inputs, every ensures clause a labelled assertion
    reqs = [m for m in re.findall(r'__CPROVER_requires\((.*)\)\s*(?:/\*.*\*/)?\s*$', sp.contract, re.M) if 'is_fresh' not in m]
    enss = re.findall(r'__CPROVER_ensures\((.*)\)\s*$', sp.contract, re.M)
    enss = ['!(%s) || (%s)' % tuple(x.split(' ==> ', 1)) if ' ==> ' in x else x for x in enss]
    if len(enss) != len(sp.labels):
        raise Unsupported('content loop harness: %d ensures for %d labels' % (len(enss), len(sp.labels)))
    body = macros + ('void JContent_parse_payloads(qdom e, JContent *c)\n{\n  gh_pt_used = 0; gh_pt_count = 0;\n  JContent_parse(c, e);\n'
                     '  /* specification side: a fresh default object parses the g_k-th child alone */\n  PayloadType f; f.d = &gh_pt_fresh; PayloadTypePrivate_ctor(f.d);\n  if (gh_pt_count > g_k) PayloadType_parse(&f, PTK(e));\n}\n')
    harness = ('void h_JContent_parse_payloads(void) {\n  JContentPrivate cp; JContent C; C.d = &cp; JContent *c = &C; qdom e = nondet_int(); g_k = nondet_int();\n'
               + ''.join('  __CPROVER_assume(%s);\n' % r for r in reqs) + '  JContent_parse_payloads(e, c);\n'
               + ''.join('  __CPROVER_assert(%s, "[%s] payload loop of QXmppJingleIq::Content::parse");\n' % (e_, lab) for e_, lab in zip(enss, sp.labels)) + '}\n')
    p = mk_proof(kit, 'QXmppJingleIqContent_parse_payload_loop', ['JContent_parse', 'PayloadType_parse'], None, sp, kit.ctor + '\n' + body, harness,
                 kind='bounded', bound_text='at most 2 <payload-type/> children, at most 1 parameter per payload type, at most 1 other child / candidate; all loops of Content::parse unwound with unwinding assertions',
                 unwindset=['JContent_parse.0:3', 'JContent_parse.1:4', 'JContent_parse.2:3', 'PayloadType_parse.0:3'], timeout=1200,
                 note='real QXmppJingleIq::Content::parse on an ARBITRARY foreign <content/> (description header, encryption, rtcp-fb, header extensions, candidates, fingerprint as contract-only stubs) and real '
                      'QXmppJinglePayloadType::parse: the payload type stored at an arbitrary witness position k equals parse() of the k-th child on a fresh default object, member by member; plain harness: '
                      'preconditions as assumptions on nondeterministic inputs, postconditions as labelled assertions')
    p.labels = {}
    return kit, [p]


# ---------------------------------------------------------------------------------------------------------------------
# C02: the <stream:error/> branch of QXmppOutgoingClient::handleElement -- "no exception escapes" (std::get on a std::variant)
OC = 'src/client/QXmppOutgoingClient.cpp'
HE_MODEL = '''
/* QXmppOutgoingClient::handleElement with everything it calls as contract-only stubs with ARBITRARY results (those callees are the
   subject of C04 / C08 / C09 / C10); what is modelled exactly is the std::variant returned by StreamErrorElement::fromDom */
typedef int mgr;                                   /* a manager / socket / configuration / features object: opaque */
typedef struct OutClient { char unused_; } OutClient;
typedef struct StreamErrorElementV { int opaque; } StreamErrorElementV;
typedef struct StreamErrorResult { bool is_element; StreamErrorElementV element; } StreamErrorResult;    /* std::variant<StreamErrorElement, QXmppError> */
/* ASSUMED contract of StreamErrorElement::fromDom (Stream.cpp): either alternative may come back (QXmppError when the element has no
   known condition child) */
static inline void StreamErrorElement_fromDom_stub(StreamErrorResult *_ret, qdom e) { (void)e; _ret->is_element = nondet_bool(); _ret->element.opaque = nondet_int(); }
static inline StreamErrorElementV *StreamErrorResult_get_if(StreamErrorResult *r) { return r->is_element ? &r->element : (StreamErrorElementV *)0; }
/* std::get<StreamErrorElement>(v) throws std::bad_variant_access when v holds the other alternative: the exception would leave the
   socket's readyRead slot.  The path ends there (after the obligation has been reported). */
static inline StreamErrorElementV *StreamErrorResult_get(StreamErrorResult *r) {
  __CPROVER_assert(r->is_element, "[safety.no_exception_escapes] std::get<StreamErrorElement> on a variant that holds QXmppError throws std::bad_variant_access");
  __CPROVER_assume(r->is_element);
  return &r->element; }
int gh_stream_errors_handled;
static inline bool mgr_handleStanza_stub(mgr m, qdom e) { (void)m; (void)e; return nondet_bool(); }
static inline void signal_elementReceived_stub(OutClient *c, qdom e, bool *handled) { (void)c; (void)e; *handled = nondet_bool(); }
static inline void OutClient_handleStreamError_stub(OutClient *c, const StreamErrorElementV *err) { (void)c; (void)err; if (gh_stream_errors_handled < 1000) gh_stream_errors_handled++; }
'''


def he_kit(uid, work):
    T = codec.SCALAR_TYPES
    P = 'QXmpp::Private::'
    T.update({'QXmppOutgoingClient': 'OutClient', 'std::variant<StreamErrorElement,QXmppError>': 'StreamErrorResult', 'std::variant<QXmpp::Private::StreamErrorElement,QXmppError>': 'StreamErrorResult',
              'StreamErrorElement': 'StreamErrorElementV', P + 'StreamErrorElement': 'StreamErrorElementV', 'typename remove_reference<StreamErrorElement>::type': 'StreamErrorElementV',
              'add_pointer_t<StreamErrorElement>': 'StreamErrorElementV*', 'add_pointer_t<QXmpp::Private::StreamErrorElement>': 'StreamErrorElementV*',
              'variant_alternative_t<0,variant<StreamErrorElement,QXmppError>>': 'StreamErrorElementV',
              'QXmppStreamFeatures': 'mgr', 'QXmppConfiguration': 'mgr', P + 'XmppSocket': 'mgr', 'XmppSocket': 'mgr', P + 'StreamAckManager': 'mgr', 'StreamAckManager': 'mgr',
              P + 'OutgoingIqManager': 'mgr', 'OutgoingIqManager': 'mgr', 'QSslSocket': 'mgr'})
    codec.OPAQUE_ENUMS.update({'HandleElementResult', P + 'HandleElementResult', 'QXmppConfiguration::StreamSecurityMode', 'StreamSecurityMode'})
    codec.HELPERS['OutClient_handleElement'] = (OC, 'QXmppOutgoingClient::handleElement', 'handleElement', {'this': 'OutClient'}, codec.NS)
    kit = codec.Kit(uid, work)

    def from_dom(lw, node, args):
        t = lw.ntype(lw.skip(node))
        if t != 'StreamErrorResult':
            raise Unsupported('fromDom returning %s' % t)
        tmp = lw.newtmp()
        lw.pre.append('StreamErrorResult %s; StreamErrorElement_fromDom_stub(&%s, %s);' % (tmp, tmp, args[0]))
        return tmp

    def std_get(lw, node, args):
        if lw.ntype(lw.skip(node['inner'][1])) != 'StreamErrorResult':
            raise Unsupported('std::get on %s' % lw.tkey(lw.skip(node['inner'][1])))
        return '(*StreamErrorResult_get(%s))' % args[0]

    kit.prof.calls.update({
        'OutClient::streamAckManager/0': ('expr', '((mgr)1)'), 'OutClient::iqManager/0': ('expr', '((mgr)2)'), 'OutClient::socket/0': ('expr', '((mgr)3)'), 'OutClient::configuration/0': ('expr', '((mgr)4)'),
        'mgr::handleStanza/1': ('fn', 'mgr_handleStanza_stub'),
        'mgr::isEncrypted/0': ('expr', 'nondet_bool()'), 'mgr::streamSecurityMode/0': ('expr', 'nondet_int()'),
        'OutClient::elementReceived/2': lambda lw, node, args: 'signal_elementReceived_stub(%s, %s, %s)' % (args[0], args[1], args[2] if args[2].startswith('&') else lw.addr_of(args[2])),
        'fn:isStreamFeatures/1': ('expr', 'nondet_bool()'),
        'ctor:mgr()': ('const', '0'), 'mgr::parse/1': ('expr', '(void)0'),
        'OutClient::handleStreamFeatures/1': ('expr', '(void)0'),
        'fn:fromDom/1': from_dom, 'fn:get_if/1': lambda lw, node, args: 'StreamErrorResult_get_if(%s)' % args[0], 'fn:get/1': std_get,
        'OutClient::handleStreamError/1': ('fn', 'OutClient_handleStreamError_stub'),
        'OutClient::handleStanza/1': ('expr', 'nondet_bool()'),
    })
    kit.prof.class_types |= {'OutClient', 'StreamErrorResult', 'StreamErrorElementV'}
    kit.prof.pure_fns |= {'streamAckManager', 'iqManager', 'socket', 'configuration'}
    kit.prefetch([(OC, 'QXmppOutgoingClient::handleElement')])
    kit.records = kit.records + HE_MODEL
    kit.need('OutClient_handleElement')
    return kit


def he_proofs(uid, work, mk_proof, which):
    """C02 only"""
    if which != 'fixpoint':
        return None, []
    kit = he_kit(uid, work)
    vals = ctx.enum_values(os.path.join(REPO, OC), 'HandleElementResult')
    L = ['__CPROVER_requires(__CPROVER_is_fresh(self, sizeof(*self)))',
         '__CPROVER_assigns(gh_stream_errors_handled)',
         '//: post.a_stream_error_element_is_accepted_or_consumed_earlier',
         '__CPROVER_ensures((xdom_namespaceURI(nodeRecv) == S("http://etherx.jabber.org/streams") && xdom_tagName(nodeRecv) == S("error")) ==> __CPROVER_return_value == %d)' % vals['Accepted'],
         '//: post.result_is_a_declared_enumerator', '__CPROVER_ensures(%s)' % ' || '.join('__CPROVER_return_value == %d' % v for v in sorted(vals.values()))]
    sp = Spec(kit.b.subst('## contract\n' + '\n'.join(L) + '\n'))
    text = kit.with_contract('OutClient_handleElement', sp)
    p = mk_proof(kit, 'QXmppOutgoingClient_handleElement_no_exception', ['OutClient_handleElement'], 'OutClient_handleElement', sp, '',
                 'void h_OutClient_handleElement(void) { OutClient *self; qdom e; gh_stream_errors_handled = 0; OutClient_handleElement(self, e); }', override={'OutClient_handleElement': text},
                 note='real QXmppOutgoingClient::handleElement for EVERY element and every answer of its callees (managers, signal, features, handleStanza: contract-only stubs with arbitrary results); '
                      'StreamErrorElement::fromDom through its assumed contract (either alternative of the std::variant); std::get on the wrong alternative is the obligation safety.no_exception_escapes')
    p.expect_post = len(sp.labels)
    return kit, [p]
