// Native replay for the QXmppPresence round trip (C01): real toXml -> QXmlStreamWriter -> QDomDocument -> real parse.
//   replay_presence priority <n>   exit 1 + REPRODUCED when priority n does not survive
//   replay_presence scalars        every scalar member set; prints which do not survive
#include "QXmppPresence.h"

#include <QDateTime>
#include <QDomDocument>
#include <QXmlStreamWriter>
#include <cstdio>
#include <cstdlib>
#include <cstring>

static QXmppPresence roundtrip(const QXmppPresence &x, QByteArray *xml, bool *wf)
{
    QXmlStreamWriter w(xml);
    x.toXml(&w);
    QDomDocument doc;
    *wf = bool(doc.setContent(*xml, true));
    QXmppPresence y;
    if (*wf) {
        y.parse(doc.documentElement());
    }
    return y;
}

int main(int argc, char **argv)
{
    const char *sc = argc > 1 ? argv[1] : "";
    QByteArray xml;
    bool wf = false;
    if (!strcmp(sc, "priority")) {
        int lost = 0, first = 0;
        int lo = argc > 2 ? atoi(argv[2]) : -128, hi = argc > 2 ? atoi(argv[2]) : 127;
        for (int n = lo; n <= hi; n++) {
            QXmppPresence x;
            x.setPriority(n);
            xml.clear();
            auto y = roundtrip(x, &xml, &wf);
            if (!wf || y.priority() != n) {
                if (!lost) {
                    first = n;
                    printf("priority %d -> %s -> %d\n", n, xml.constData(), y.priority());
                }
                lost++;
            }
        }
        printf("%s priority: %d value(s) in [%d, %d] do not survive the round trip (first %d)\n", lost ? "REPRODUCED" : "NOT-REPRODUCED", lost, lo, hi, first);
        return lost ? 1 : 0;
    }
    if (!strcmp(sc, "scalars")) {
        QXmppPresence x(QXmppPresence::Subscribe);
        x.setTo(QStringLiteral("a@b/c"));
        x.setFrom(QStringLiteral("d@e/f"));
        x.setId(QStringLiteral("id1"));
        x.setLang(QStringLiteral("de"));
        x.setAvailableStatusType(QXmppPresence::DND);
        x.setStatusText(QStringLiteral("busy"));
        x.setPriority(-5);
        x.setMucSupported(true);
        x.setMucPassword(QStringLiteral("pw"));
        x.setCapabilityHash(QStringLiteral("sha-1"));
        x.setCapabilityNode(QStringLiteral("node"));
        x.setCapabilityVer(QByteArray("\x01\x02\x03", 3));
        x.setVCardUpdateType(QXmppPresence::VCardUpdateValidPhoto);
        x.setPhotoHash(QByteArray("\xaa\xbb", 2));
        x.setIsPreparingMujiSession(true);
        x.setLastUserInteraction(QDateTime(QDate(2024, 1, 2), QTime(3, 4, 5), Qt::UTC));
        x.setMixUserJid(QStringLiteral("m@x"));
        x.setMixUserNick(QStringLiteral("nick"));
        x.setOldJid(QStringLiteral("old@jid"));
        auto y = roundtrip(x, &xml, &wf);
        printf("xml: %s\nwell-formed: %d\n", xml.constData(), wf);
        int bad = 0;
#define CHK(m) if (!(x.m() == y.m())) { printf("member %s does not survive\n", #m); bad++; }
        CHK(to) CHK(from) CHK(id) CHK(lang) CHK(type) CHK(availableStatusType) CHK(statusText) CHK(priority) CHK(isMucSupported) CHK(mucPassword)
        CHK(capabilityHash) CHK(capabilityNode) CHK(capabilityVer) CHK(vCardUpdateType) CHK(photoHash) CHK(isPreparingMujiSession) CHK(lastUserInteraction)
        CHK(mixUserJid) CHK(mixUserNick) CHK(oldJid)
        printf("%s %d scalar member(s) lost\n", bad ? "REPRODUCED" : "NOT-REPRODUCED", bad);
        return bad ? 1 : 0;
    }
    fprintf(stderr, "unknown scenario\n");
    return 2;
}
