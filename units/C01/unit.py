"""C01 -- stanza codecs lose nothing: serialise-then-parse is the identity on every field (claimed for the nonza struct
codecs and the typed scalar helpers; see manifest.json)."""
import os, sys
HERE = os.path.dirname(os.path.abspath(__file__))
sys.path.insert(0, HERE)
from vlib.unit import VERIF, Spec, scan_assumes
from vlib.runner import Proof
import codec
from codec import Kit, C2CPP, field_eq, type_inv
from rt import ASSUMED, HOOKS_NOTE, LISTS, LIST_BOUND, DOMAIN, QT, rd, LOOPFREE, finding_classes, discriminators, CONTEXT, ROOT_NAME_PATCH, spec_from, mk_proof


def roundtrip_fn(kit, c, requires=(), patch_root=None):
    """X_roundtrip: serialise x with the real toXml into the ghost document, parse the produced element with the real fromDom;
    the contract is the property statement for this codec pair, one labelled clause per member"""
    lines = ['__CPROVER_requires(__CPROVER_is_fresh(x, sizeof(*x)) && __CPROVER_is_fresh(out, sizeof(*out)))',
             '__CPROVER_requires(%s)' % type_inv(kit, c, '(*x)')]
    lines += ['__CPROVER_requires(%s)' % r for r in requires]
    if c in DOMAIN:
        lines.append('__CPROVER_requires(%s)' % DOMAIN[c][0])
    lines += ['__CPROVER_assigns(*out, gh_x)',
              '//: post.output_is_one_complete_well_formed_element',
              '__CPROVER_ensures(XW_ONE_COMPLETE_ELEMENT())',
              '//: post.own_output_is_accepted_by_fromDom',
              '__CPROVER_ensures(out->has)']
    for f, t, _ in kit.layouts[c]:
        lines.append('//: post.member_%s_survives_the_round_trip' % f)
        lines.append('__CPROVER_ensures(out->has ==> %s)' % field_eq(t, 'out->v.' + f, 'x->' + f))
    sp = Spec(kit.b.subst('## contract\n' + '\n'.join(lines) + '\n'))
    pre = ''
    if c in CONTEXT:
        pre = '  xw_writeStartElement(&w, S("%s")); xw_writeDefaultNamespace(&w, S("%s")); xw_set_base();   /* the parent element it is written into */\n' % CONTEXT[c]
    patch = ''
    if patch_root:
        patch = '  gh_x.tag[gh_x.root] = S("%s");   /* FINDING EXCLUDED: the recorded defect (element name) repaired in the ghost document */\n' % patch_root
    body = ('void %s_roundtrip(const %s *x, Opt%s *out)\n%s\n{\n  xw w;\n  xw_reset();\n%s  %s_toXml(x, &w);\n  xw_finish();\n%s  %s_fromDom(out, gh_x.root);\n}\n'
            % (c, c, c, sp.contract, pre, c, patch, c))
    return kit.b.subst(body), sp


def roundtrip_proofs(kit, c, classes, kind='complete', **kw):
    """the round-trip contract of codec c: once with every recorded finding's input class excluded (must pass), and once
    per finding restricted to its class (its failure is the KNOWN-FINDING)"""
    discs = discriminators(kit, c, '(*x)', classes)
    cname = c + '_roundtrip'
    variants = []
    whole = [fid for fid, e in discs.items() if e == '1']
    partial = {fid: e for fid, e in discs.items() if e != '1'}
    variants.append((cname, ['!(%s)' % e for e in partial.values()], ROOT_NAME_PATCH.get(c) if whole else None, None))
    for fid in whole:
        variants.append(('%s@%s' % (cname, fid), ['!(%s)' % e for e in partial.values()], None, fid))
    for fid, e in partial.items():
        variants.append(('%s@%s' % (cname, fid), [e] + ['!(%s)' % e2 for f2, e2 in partial.items() if f2 != fid], ROOT_NAME_PATCH.get(c) if whole else None, fid))
    out = []
    for pid, reqs, patch, fid in variants:
        body, sp = roundtrip_fn(kit, c, reqs, patch)
        harness = 'void h_%s(void) { %s *x; Opt%s *out; %s(x, out); }' % (cname, c, c, cname)
        f = kit.b.write(pid.replace('@', '__') + '.c', kit.assemble([c + '_toXml', c + '_fromDom'], body, harness))
        codec.typecheck(f, QT)
        note = 'real %s::toXml and %s::fromDom (and the repository helpers they call) inlined; every value of every member' % (C2CPP[c], C2CPP[c])
        if fid:
            note += '; RESTRICTED to the input class of finding ' + fid
        elif discs:
            note += '; input classes of the recorded findings excluded: ' + ', '.join(sorted(discs)) + (' (element name repaired in the ghost document)' if patch else '')
        if c in CONTEXT:
            note += '; written inside its parent <%s xmlns=%s/>' % CONTEXT[c]
        p = Proof(pid, f, 'h_' + cname, enforce=cname, kind=kind, include_dirs=[QT], timeout=900, loop_contracts=False, note=note, **kw)
        p.labels = {'post': {cname: sp.labels}}
        p.expect_post = len(sp.labels)
        if fid:
            p.finding = fid
        out.append(p)
    return out


def feature_mode_proof(kit):
    """QXmppStreamFeatures.cpp: the static pair writeFeature / readFeature that carries the seven tri-state stream features"""
    kit.need('writeFeature')
    kit.need('readFeature')
    vs, vals = codec.enum_range('QXmppStreamFeatures::Mode')
    sp = Spec(kit.b.subst('## contract\n__CPROVER_requires(tag != 0)\n__CPROVER_requires(mode >= %d && mode <= %d)\n__CPROVER_assigns(gh_x)\n'
                          '//: post.output_is_well_formed\n__CPROVER_ensures(gh_x.wf && gh_x.depth == 0 && gh_x.roots == 1)\n'
                          '//: post.feature_mode_survives_the_round_trip\n__CPROVER_ensures(__CPROVER_return_value == mode)\n' % (vs[0], vs[-1])))
    body = kit.b.subst('int FeatureMode_roundtrip(qstr tag, qstr ns, int mode)\n%s\n{\n  xw w;\n  xw_reset();\n  xw_writeStartElement(&w, S("stream:features"));\n'
                       '  writeFeature(&w, tag, ns, mode);\n  xw_writeEndElement(&w);\n  xw_finish();\n  return readFeature(gh_x.root, tag, ns);\n}\n' % sp.contract)
    return mk_proof(kit, 'FeatureMode_roundtrip', ['writeFeature', 'readFeature'], 'FeatureMode_roundtrip', sp, body,
                    'void h_FeatureMode_roundtrip(void) { qstr t; qstr n; int m; FeatureMode_roundtrip(t, n, m); }',
                    note='static helpers writeFeature / readFeature of QXmppStreamFeatures.cpp inside a <stream:features/> parent: every feature name, namespace and mode (Disabled / Enabled / Required)')


UINT8_FINDING = 'C01-parseint-uint8-range'


def scalar_proofs(kit):
    """the typed scalar helpers of QXmppUtils: every instantiation of stringToInt<T> / parseInt<T> under its own contract,
    parseInt<T>(serializeInt<T>(v)) == v, booleans, the enum <-> string tables"""
    proofs = []
    for k, cpp, ct, lo, hi in codec.INTS:
        signed = k[0] == 's'
        if signed:
            inrange = '(STR_IS_S64(str) && STR_S64(str) >= %s && STR_S64(str) <= %s)' % (lo, hi)
            val = 'STR_S64(str)'
        else:
            inrange = '(STR_IS_U64(str) && STR_U64(str) <= %s)' % hi
            val = 'STR_U64(str)'
        variants = [('', '', None)]
        if k == 'u8':
            cls = '(STR_IS_U64(str) && STR_U64(str) >= 128 && STR_U64(str) <= 255)'
            variants = [('', '__CPROVER_requires(!%s)' % cls, None), ('@' + UINT8_FINDING, '__CPROVER_requires(%s)' % cls, UINT8_FINDING)]
        for suffix, freq, fid in variants:
            for fn, tmpl, hargs, hdecl in (('stringToInt', 'stringToInt.spec.in', 's, ok', 'qstr s; bool *ok;'), ('parseInt', 'parseInt.spec.in', 'r, s', 'Opt%s *r; qstr s;' % k.upper())):
                cname = '%s_%s' % (fn, k)
                sp = spec_from(kit, tmpl, FINDING=freq, INRANGE=inrange, VAL=val, T=ct)
                text = kit.with_contract(cname, sp)
                pid = cname + suffix
                proofs.append(mk_proof(kit, pid, [cname], cname, sp, '', 'void h_%s(void) { %s %s(%s); }' % (cname, hdecl, cname, hargs), override={cname: text}, finding=fid,
                                       note='%s<%s> (QXmppUtils.cpp), every string; Qt\'s 64-bit / narrowing conversions assumed exact (A-QT-NUM)%s'
                                       % (fn, cpp, '; RESTRICTED to the input class of finding ' + fid if fid else ('; numerals 128..255 excluded (recorded finding)' if freq else ''))))
        # parseInt<T>(serializeInt<T>(v)) == v for every v of the type
        kit.need('serializeInt_' + k)
        rvariants = [('', [], None)]
        if k == 'u8':
            rvariants = [('', ['v < 128'], None), ('@' + UINT8_FINDING, ['v >= 128'], UINT8_FINDING)]
        for suffix, reqs, fid in rvariants:
            cname = 'IntRoundtrip_' + k
            O = 'Opt' + k.upper()
            sp = Spec('## contract\n__CPROVER_requires(__CPROVER_is_fresh(out, sizeof(*out)))\n' + ''.join('__CPROVER_requires(%s)\n' % r for r in reqs)
                      + '__CPROVER_assigns(*out)\n//: post.every_value_of_the_type_is_accepted_back\n__CPROVER_ensures(out->has)\n'
                      '//: post.value_survives_the_round_trip\n__CPROVER_ensures(out->has ==> out->v == v)\n')
            body = 'void %s(%s v, %s *out)\n%s\n{\n  parseInt_%s(out, serializeInt_%s(v));\n}\n' % (cname, ct, O, sp.contract, k, k)
            proofs.append(mk_proof(kit, cname + suffix, ['parseInt_' + k, 'serializeInt_' + k], cname, sp, body, 'void h_%s(void) { %s v; %s *out; %s(v, out); }' % (cname, ct, O, cname),
                                   finding=fid, note='parseInt<%s>(serializeInt<%s>(v)) for every v (real bodies inlined)%s' % (cpp, cpp, '; RESTRICTED to the input class of finding ' + fid if fid else ('; 128..255 excluded (recorded finding)' if reqs else ''))))
    # ---- booleans
    sp = spec_from(kit, 'parseBoolean.spec')
    proofs.append(mk_proof(kit, 'parseBoolean', ['parseBoolean'], 'parseBoolean', sp, '', 'void h_parseBoolean(void) { OptBool *r; qstr s; parseBoolean(r, s); }',
                           override={'parseBoolean': kit.with_contract('parseBoolean', sp)}, note='every string (opaque ids; the four literals have their own ids)'))
    sp = spec_from(kit, 'serializeBoolean.spec')
    proofs.append(mk_proof(kit, 'serializeBoolean', ['serializeBoolean'], 'serializeBoolean', sp, '', 'void h_serializeBoolean(void) { bool b; serializeBoolean(b); }',
                           override={'serializeBoolean': kit.with_contract('serializeBoolean', sp)}))
    sp = Spec('## contract\n__CPROVER_requires(__CPROVER_is_fresh(out, sizeof(*out)))\n__CPROVER_assigns(*out)\n//: post.own_output_is_accepted\n__CPROVER_ensures(out->has)\n'
              '//: post.value_survives_the_round_trip\n__CPROVER_ensures(out->has ==> BEQ(out->v, v))\n')
    body = 'void BoolRoundtrip(bool v, OptBool *out)\n%s\n{\n  parseBoolean(out, serializeBoolean(v));\n}\n' % sp.contract
    proofs.append(mk_proof(kit, 'BoolRoundtrip', ['parseBoolean', 'serializeBoolean'], 'BoolRoundtrip', sp, body, 'void h_BoolRoundtrip(void) { bool v; OptBool *out; BoolRoundtrip(v, out); }'))
    # ---- enum <-> string tables
    for cname, n in (('enumFromString_ErrorCondition_11', 11), ('enumFromString_StreamError_25', 25)):
        sp = spec_from(kit, 'enumFromString.spec.in', N=str(n))
        text = kit.with_contract(cname, sp)
        proofs.append(mk_proof(kit, cname, [cname], cname, sp, '', 'void h_%s(void) { OptEnum *r; qstr *tab; qstr s; g_k = nondet_int(); %s(r, tab, s); }' % (cname, cname),
                               override={cname: text}, unwind=n + 2, note='instantiation of the enumFromString template (QXmppUtils_p.h): EVERY table of %d strings and every string; std::find loop fully unwound (%d iterations)' % (n, n)))
    for cname, arg, n, table in (('Sasl_errorConditionToString', 'c', 11, 'SASL_ERROR_CONDITIONS'), ('streamErrorToString', 'e', 25, 'STREAM_ERROR_CONDITIONS')):
        sp = spec_from(kit, 'enumToString.spec.in', ARG=arg, N=str(n), TABLE=table)
        text = kit.with_contract(cname, sp)
        proofs.append(mk_proof(kit, cname, [cname], cname, sp, '', 'void h_%s(void) { int v; %s(v); }' % (cname, cname), override={cname: text},
                               note='type invariant of the enum (declared enumerators 0..%d) as precondition; the .at() index obligation is the safety.at_index_in_range assertion' % (n - 1)))
    # string -> enum -> string and enum -> string -> enum over the real tables
    for rid, to_s, from_s, n, extra_req in (('SaslErrorCondition', 'Sasl_errorConditionToString({v})', 'Sasl_errorConditionFromString(out, {s})', 11, ''),
                                            ('StreamError', 'streamErrorToString({v})', 'enumFromString_StreamError_25(out, STREAM_ERROR_CONDITIONS, {s})', 25, '')):
        cname = rid + '_roundtrip'
        sp = Spec('## contract\n__CPROVER_requires(__CPROVER_is_fresh(out, sizeof(*out)))\n__CPROVER_requires(v >= 0 && v < %d)\n__CPROVER_assigns(*out)\n'
                  '//: post.own_name_is_recognised\n__CPROVER_ensures(out->has)\n//: post.enumerator_survives_the_round_trip\n__CPROVER_ensures(out->has ==> out->v == v)\n' % n)
        body = 'void %s(int v, OptEnum *out)\n%s\n{\n  qstr s = %s;\n  %s;\n}\n' % (cname, sp.contract, to_s.format(v='v'), from_s.format(s='s'))
        roots = [to_s.split('(')[0], from_s.split('(')[0]]
        for r in roots:
            kit.need(r)
        proofs.append(mk_proof(kit, cname, roots, cname, sp, body, 'void h_%s(void) { int v; OptEnum *out; %s(v, out); }' % (cname, cname), unwind=n + 2,
                               note='every declared enumerator; real table from the AST'))
    # QXmppStanza::Error::Condition <-> string (used by SmFailed): both directions
    vs, vals = codec.enum_range('QXmppStanza::Error::Condition')
    kit.need('conditionToString')
    kit.need('conditionFromString')
    inv = '(' + ' || '.join('v == %d' % x for x in vs if x != vals['NoCondition']) + ')'
    sp = Spec('## contract\n__CPROVER_requires(__CPROVER_is_fresh(out, sizeof(*out)))\n__CPROVER_requires(%s)\n__CPROVER_assigns(*out)\n'
              '//: post.own_name_is_recognised\n__CPROVER_ensures(out->has)\n//: post.enumerator_survives_the_round_trip\n__CPROVER_ensures(out->has ==> out->v == v)\n' % inv)
    body = 'void StanzaCondition_roundtrip(int v, OptEnum *out)\n%s\n{\n  conditionFromString(out, conditionToString(v));\n}\n' % sp.contract
    proofs.append(mk_proof(kit, 'StanzaCondition_roundtrip', ['conditionToString', 'conditionFromString'], 'StanzaCondition_roundtrip', sp, body,
                           'void h_StanzaCondition_roundtrip(void) { int v; OptEnum *out; StanzaCondition_roundtrip(v, out); }', note='every declared enumerator except NoCondition (which has no name)'))
    sp = Spec('## contract\n__CPROVER_requires(__CPROVER_is_fresh(out, sizeof(*out)))\n__CPROVER_assigns(*out)\n'
              '//: post.recognised_name_serialises_back_to_itself\n__CPROVER_ensures(out->has ==> __CPROVER_return_value == s)\n'
              '//: post.result_is_a_declared_enumerator\n__CPROVER_ensures(out->has ==> %s)\n' % inv.replace('v ==', 'out->v =='))
    body = 'qstr StanzaCondition_parse_serialise(qstr s, OptEnum *out)\n%s\n{\n  conditionFromString(out, s);\n  if (out->has) return conditionToString(out->v);\n  return 0;\n}\n' % sp.contract
    proofs.append(mk_proof(kit, 'StanzaCondition_parse_serialise', ['conditionToString', 'conditionFromString'], 'StanzaCondition_parse_serialise', sp, body,
                           'void h_StanzaCondition_parse_serialise(void) { qstr s; OptEnum *out; StanzaCondition_parse_serialise(s, out); }', note='every string'))
    return proofs


def build(work, tier):
    kit = Kit('C01', work)
    proofs = []
    kit.prefetch_codecs(LOOPFREE + LISTS)
    for c in LOOPFREE + LISTS:
        kit.need(c + '_toXml')
        kit.need(c + '_fromDom')
    classes = finding_classes(kit)
    for c in LOOPFREE:
        proofs += roundtrip_proofs(kit, c, classes)
    for c in LISTS:
        proofs += roundtrip_proofs(kit, c, classes, kind='bounded', unwind=4, bound_text=LIST_BOUND)
    proofs += scalar_proofs(kit)
    proofs.append(feature_mode_proof(kit))
    # IQ extension: loop-free payload codecs of QXmppIq subclasses and the QXmppIq header (own kits: own lowering profile)
    import iq
    kits = [kit]
    import ext
    for fn in (iq.payload_proofs, iq.header_proofs, iq.item_proofs, ext.jmi_proofs, ext.pt_proofs, ext.content_proofs, ext.error_proofs):
        k, ps = fn('C01', work, mk_proof, 'roundtrip')
        if k is not None:
            kits.append(k)
        proofs += ps
    if tier != 'thorough':
        # the finding-restricted runs of the two largest composites only repeat what the member codec's own run reports
        proofs = [p for p in proofs if not (getattr(p, 'finding', None) and p.id.split('_roundtrip')[0] in HEAVY)]
        # the payload loop of QXmppJingleIq::Content::parse (bounded stand-in, 6-8 minutes of solver time on its own) runs in the
        # thorough tier only: the quick tier must stay well inside its proofs' time limits on a slower machine
        proofs = [p for p in proofs if p.id != 'QXmppJingleIqContent_parse_payload_loop']
    text_all = open(os.path.join(QT, 'xml.h')).read() + open(os.path.join(QT, 'conv.h')).read() + open(os.path.join(QT, 'opaque.h')).read() + codec.MODEL_GLUE + iq.TZO_MODEL + iq.HDR_STUBS + iq.presence.STUBS + iq.ITEM_MODEL + ext.JMI_STUBS + ext.PT_MODEL + ext.CT_STUBS
    npad = sum(t.count('xw_pad(') for k in kits for t in k.texts.values())
    functions, seen = [], set()
    for k in kits:
        for f in k.b.functions:
            if f['cname'] not in seen:
                seen.add(f['cname'])
                functions.append(f)
    fired = {}
    for k in kits:
        for r, n in k.b.fired.items():
            fired[r] = fired.get(r, 0) + n
    return {
        'proofs': proofs, 'functions': functions, 'dropped': [d for k in kits for d in k.b.dropped], 'fired': fired,
        'hooks': [HOOKS_NOTE % npad],
        'assumed': ASSUMED + iq.ASSUMED_IQ + ext.ASSUMED_EXT,
        'assumes': scan_assumes(text_all),
        'not_covered': [
            'of the QXmppIq family only the header (id, to, from, lang, type) and the payloads of QXmppBindIq, QXmppVersionIq, QXmppNonSASLAuthIq, QXmppEntityTimeIq, QXmppIbbOpenIq / CloseIq / DataIq, QXmppPingIq, QXmppSessionIq are covered; in QXmppIq::parse / toXml the payload hooks, the <error/> sub-object and extended addresses are contract-only stubs; QXmppRosterIq::Item is covered as a bounded stand-in (at most 2 groups), not QXmppRosterIq itself (item list); QXmppStreamInitiationIq is not flat (data form + file info sub-objects) and was left out',
            'the remaining large stanza / extension classes (QXmppMessage, QXmppPresence (attempted: solver memory), all other QXmppIq subclasses, QXmppMessage::parseExtension as the listed call site of the JMI recogniser, data forms, pubsub, MIX, Jingle, vCard, roster, disco, MAM, file sharing, trust messages, QXmppElement, QXmppStanza::Error): their parse/toXml are not lowered; the duplicated <error/> of a generic error IQ lives there',
            'QXmppStreamFeatures::parse/toXml (12 children incl. two lists; only its member Sasl2::StreamFeature is covered, bounded), StreamOpen::toXml, CsiActive/CsiInactive::toXml (serialisers without a parser), StreamErrorElement::fromDom (std::variant result, no serialiser; only streamErrorToString and its enumFromString instantiation are covered)',
            'character escaping / markup injection: Qt\'s QXmlStreamWriter and QDomDocument (assumption A-XML-RT); QXmpp\'s share, the raw-write inventory (writer->device()->write for XHTML-IM), is not checked here',
            'blank (whitespace-only) strings and strings of XML-illegal characters (outside the property statement and outside A-XML-RT)',
            'lists longer than 2 elements in the four list-valued codecs (bounded stand-in); QXmpp::Private::parseTextElements itself (assumed contract)',
            'date-time helpers beyond datetimeToString/datetimeFromString as used by FastToken (timezoneOffset*: regular expressions), parseBase64/serializeBase64 beyond Qt\'s assumed inverse pair',
            'SASL 1 <abort/> and <success/> payload variants that have no struct in this tree; Sasl2::UserAgent is verified inside its parent <authenticate/> (its toXml writes no xmlns of its own: stand-alone output is rejected by its fromDom, by design of the nesting)',
            '"serialises to the same XML" is obtained as: equal members + toXml is a function of the members (true of the lowered text, which reads nothing else)',
        ],
        'explanation': 'Every codec function and every helper it calls (writeOptionalXmlAttribute, writeXmlTextElement, writeEmptyElement, writeOptional<T>, parseBase64, serializeBase64, parseBoolean, parseInt<T>, stringToInt<T>, enumFromString<E,N>, conditionToString/FromString, errorConditionToString/FromString, datetimeToString/FromString, iterChildElements and the DomChildElements iterator) is lowered from the working tree on every run; nothing of QXmpp is summarised by hand except parseTextElements (listed). The round-trip contract of a struct has one labelled clause per data member, generated from the struct definition, so a member added to a struct is automatically required to survive.',
    }


HEAVY = ('Sasl2Success', 'Sasl2StreamFeature')

SCENARIOS = {   # proof id prefix -> native scenario of units/C01/replay_codec.cpp
    'SmEnabled': 'smenabled', 'Bind2Bound_roundtrip@C01-smenabled': 'bind2bound', 'Sasl2Success_roundtrip@C01-smenabled': 'sasl2success',
    'SmFailed': 'smfailed-nocondition', 'FastFeature': 'fastfeature-tls0rtt', 'stringToInt_u8': 'uint8', 'parseInt_u8': 'uint8', 'IntRoundtrip_u8': 'uint8',
    'Sasl2UserAgent': 'useragent-standalone', 'QXmppIq_roundtrip': 'iq-lang',
}
IQ_SCENARIOS = {'QXmppIq_roundtrip': 'iq-lang'}


def _native(scenario):
    from vlib import native
    return native.run_driver(os.path.join(HERE, 'replay_codec.cpp'), args=[scenario], timeout=600)


def find_input(unit, p, o, lab, work):
    """a failed obligation is the verdict; where the unit has a native scenario for the function concerned, run it on the
    real library built from the tree under check"""
    if os.environ.get('VERIF_C01_NO_NATIVE'):
        return {'inputs': None, 'reproduced': False, 'native_search': 'disabled by VERIF_C01_NO_NATIVE'}
    sc = next((v for k, v in sorted(SCENARIOS.items(), key=lambda kv: -len(kv[0])) if p.id.startswith(k)), None)
    if not sc:
        return {'inputs': None, 'reproduced': False, 'native_search': 'no native scenario for ' + p.id}
    if sc in IQ_SCENARIOS.values():
        from vlib import native
        rc, out = native.run_driver(os.path.join(HERE, 'replay_iq.cpp'), args=[sc], timeout=600)
        return {'inputs': {'scenario': sc, 'driver': 'replay_iq.cpp'}, 'reproduced': rc == 1 and 'NOT-REPRODUCED' not in out, 'native_output': out[-1500:]}
    rc, out = _native(sc)
    return {'inputs': {'scenario': sc}, 'reproduced': rc == 1 and 'REPRODUCED' in out and 'NOT-REPRODUCED' not in out, 'native_output': out[-1500:]}


def native_replay(rp):
    if rp['inputs'].get('driver') == 'replay_iq.cpp':
        from vlib import native
        rc, out = native.run_driver(os.path.join(HERE, 'replay_iq.cpp'), args=[rp['inputs']['scenario']], timeout=600)
        return (rc == 1 and 'NOT-REPRODUCED' not in out), out
    rc, out = _native(rp['inputs']['scenario'])
    return (rc == 1 and 'NOT-REPRODUCED' not in out), out
