"""Shared by units/C01 and units/C02: the list of codec structs under contract, the recorded findings' input classes,
proof construction helpers."""
import os
from vlib.unit import VERIF, Spec
from vlib.runner import Proof
import codec
from codec import C2CPP

QT = os.path.join(VERIF, 'qtmodel')
HERE = os.path.dirname(os.path.abspath(__file__))


def rd(name, here=HERE):
    return open(os.path.join(here, name)).read()


LOOPFREE = ['SmEnable', 'SmEnabled', 'SmResume', 'SmResumed', 'SmFailed', 'SmAck', 'SmRequest',
            'SaslAuth', 'SaslChallenge', 'SaslFailure', 'SaslResponse', 'SaslSuccess', 'Bind2Request', 'Bind2Bound', 'FastTokenRequest', 'FastToken', 'FastRequest',
            'Sasl2UserAgent', 'Sasl2Authenticate', 'Sasl2Challenge', 'Sasl2Response', 'Sasl2Success', 'Sasl2Failure', 'Sasl2Abort', 'StarttlsRequest', 'StarttlsProceed']


# ---------------------------------------------------------------------------------------------------------------------
# recorded findings: the input class (discriminator) of each, per codec struct, as a C expression over a value {v}
# codecs with one list-valued member and a child-element loop: verified with the BOUNDED list model (at most LN = 2 elements)
LISTS = ['Bind2Feature', 'FastFeature', 'Sasl2StreamFeature', 'Sasl2Continue']
LIST_BOUND = 'every list member holds at most 2 strings; loops unwound 4 times with unwinding assertions'
# value-domain restrictions taken from the source's own comments: (C expression over (*x), reason)
DOMAIN = {'Sasl2Continue': ('(*x).tasks.n >= 1', 'Sasl2::Continue: "tasks are mandatory" (fromDom rejects an empty task list by design)')}


def finding_classes(kit, uid='C01'):
    no_condition = codec.enum_range('QXmppStanza::Error::Condition')[1]['NoCondition']
    return {
        uid + '-smenabled-tag': {'SmEnabled': '1'},           # every SmEnabled: the element name written is wrong
        uid + '-fastfeature-tls0rtt': {'FastFeature': '({v}.tls0rtt)'},
        uid + '-smfailed-nocondition': {'SmFailed': '({v}.error.has && {v}.error.v == %d)' % no_condition},
    }


def discriminators(kit, t, v, classes):
    """{finding id: C expression} -- the value v of type t belongs to the finding's input class, also through nested members"""
    out = {}
    for fid, per in classes.items():
        if t in per:
            out[fid] = per[t].format(v=v)
    if t in kit.layouts:
        for f, ft, _ in kit.layouts[t]:
            for fid, e in discriminators(kit, ft, '%s.%s' % (v, f), classes).items():
                out[fid] = '(%s || %s)' % (out[fid], e) if fid in out else e
    elif t.startswith('Opt') and t[3:] in C2CPP:
        for fid, e in discriminators(kit, t[3:], v + '.v', classes).items():
            out[fid] = '(%s.has && %s)' % (v, e)
    return out


# codecs that are only ever written inside a parent element whose default namespace they inherit (the struct's toXml
# writes no xmlns of its own): (parent tag, parent namespace)
CONTEXT = {'Sasl2UserAgent': ('authenticate', 'urn:xmpp:sasl:2')}
# SmEnabled: what the finding-excluded run repairs in the ghost document before parsing (element name of XEP-0198 7.)
ROOT_NAME_PATCH = {'SmEnabled': 'enabled'}


def spec_from(kit, name, **subs):
    t = rd(name)
    for k, v in subs.items():
        t = t.replace('@%s@' % k, v)
    return Spec(kit.b.subst(t))


def mk_proof(kit, pid, roots, enforce, sp, extra, harness, override=None, finding=None, note='', **kw):
    f = kit.b.write(pid.replace('@', '__') + '.c', kit.assemble(roots, extra, harness, override))
    codec.typecheck(f, QT)
    kw.setdefault('kind', 'complete')
    kw.setdefault('timeout', 600)
    p = Proof(pid, f, harness.split('(')[0].split()[-1], enforce=enforce, include_dirs=[QT], loop_contracts=False, note=note, **kw)
    p.labels = {'post': {enforce: sp.labels}}
    p.expect_post = len(sp.labels)
    if finding:
        p.finding = finding
    return p




# ---------------------------------------------------------------------------------------------------------------------
ASSUMED = [
    'A-XML-RT (qtmodel/xml.h): QXmlStreamWriter followed by QDomDocument::setContent(namespace processing on) is the identity on (tag, namespace, attribute values, text, child elements in order) for non-blank strings of XML-legal characters -- escaping is Qt\'s; writer calls build and QDomElement calls read one ghost tree; a child without xmlns inherits its parent\'s default namespace; writeCharacters("") writes nothing',
    'A-DOM foreign elements (qtmodel/opaque.h, xml.h): tag / namespace / attributes / text / first and next matching child of an element not built in this run are uninterpreted functions of the node (arbitrary but stable); children of foreign elements are foreign',
    'QXmpp::Private::firstChildElement / nextSiblingElement (QXmppUtils.cpp) and QDomNode::firstChildElement are used through their assumed contract (first / next child ELEMENT matching the non-empty tag and namespace filters, in document order); their sibling loops over QDomNode are not lowered',
    'A-QT-NUM (qtmodel/conv.h): a string denotes at most one integer; QString::number(v) (base 10) is a non-empty numeral denoting v; toULongLong / toLongLong succeed exactly on numerals of their range; toUInt / toInt / toUShort / toShort are Qt\'s toIntegral_helper (64-bit conversion, then fail when the value does not survive the narrowing cast); the empty string is no numeral',
    'A-QT-B64 (conv.h): fromBase64Encoding(fromUtf8(toBase64(b)).toUtf8()) decodes to b; base64 of the empty array is empty; the empty string decodes to the empty array',
    'A-QT-DATE (conv.h): QDateTime values are instants (operator== / toUTC); fromString(toString(Qt::ISODateWithMs), Qt::ISODate) is the identity, with Qt::ISODate as output format only for instants without milliseconds; the invalid QDateTime prints as the empty string',
    'A-QT-UUID (conv.h): QUuid::fromString(u.toString(WithoutBraces)) == u; null uuid <-> never written',
    'opaque strings (DESIGN 5.3): QString / QStringView / QByteArray / QDateTime / QUuid values are ids with equality only; every literal of the lowered text has its own id; QStringLiteral / u""_s / QStringView literals of the same characters are the same string',
    'std::optional<T> = {has, v}; std::find / std::distance over const QStringView * (libstdc++) = first match / pointer difference; std::array::at = index + obligation',
    'default member initialisers of the codec structs are false / 0 / empty (checked mechanically against the AST on every run), so zero-initialised C records are the C++ defaults',
    'QXmpp::Private::parseTextElements (QXmppUtils.cpp, a transform<> template instance) is replaced by its assumed contract: the text() of the selected child elements in order (used by FastFeature::fromDom only)',
    'bounded list model (FastFeature, Bind2Feature, Sasl2::StreamFeature, Sasl2::Continue): std::vector<QString> / QList<QString> hold at most 2 elements; those proofs are reported as bounded stand-ins, not as proved',
    'stated value domain: ' + '; '.join(v[1] for v in DOMAIN.values()),
    'C++ bool members hold 0 or 1 (comparisons in the contracts are on truth values)',
]
HOOKS_NOTE = ('ghost id reservation: in every loop-free serialiser both arms of each conditional are padded with xw_pad(n) so that the same number of '
              'element ids is consumed on all paths (ids are pure identities; the tree is unchanged; inserted mechanically by codec.pad_serialiser, %d insertions in this run)')
