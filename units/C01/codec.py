"""Shared machinery of the C01 / C02 units: lowering profile for the nonza codec structs (abstract XML, DESIGN 5.4),
record generation from the real struct definitions, generated round-trip / fixpoint contracts."""
import os, re
from vlib import astx, ctx
from vlib.configure import REPO
from vlib.cxx2c import rangefor_indexed, Lowerer, Unsupported, StringTable, strip_type, strip_amp, qt, dqt, find_string, line_of, SCALARS, enum_cname
from vlib.opaque_profile import opaque_profile

SM = 'src/base/QXmppStreamManagement.cpp'
SASL = 'src/base/QXmppSasl.cpp'
STREAM = 'src/base/Stream.cpp'
UTILS = 'src/base/QXmppUtils.cpp'
STANZA = 'src/base/QXmppStanza.cpp'
NS = 'QXmpp::Private'

# ---------------------------------------------------------------------------------------------------------------------
# The codec structs: (C++ name below QXmpp::Private, C name, source file of the member definitions)
CODECS = [
    ('SmEnable', 'SmEnable', SM), ('SmEnabled', 'SmEnabled', SM), ('SmResume', 'SmResume', SM), ('SmResumed', 'SmResumed', SM),
    ('SmFailed', 'SmFailed', SM), ('SmAck', 'SmAck', SM), ('SmRequest', 'SmRequest', SM),
    ('Sasl::Auth', 'SaslAuth', SASL), ('Sasl::Challenge', 'SaslChallenge', SASL), ('Sasl::Failure', 'SaslFailure', SASL),
    ('Sasl::Response', 'SaslResponse', SASL), ('Sasl::Success', 'SaslSuccess', SASL),
    ('Bind2Feature', 'Bind2Feature', SASL), ('Bind2Request', 'Bind2Request', SASL), ('Bind2Bound', 'Bind2Bound', SASL),
    ('FastFeature', 'FastFeature', SASL), ('FastTokenRequest', 'FastTokenRequest', SASL), ('FastToken', 'FastToken', SASL),
    ('FastRequest', 'FastRequest', SASL),
    ('Sasl2::StreamFeature', 'Sasl2StreamFeature', SASL), ('Sasl2::UserAgent', 'Sasl2UserAgent', SASL),
    ('Sasl2::Authenticate', 'Sasl2Authenticate', SASL), ('Sasl2::Challenge', 'Sasl2Challenge', SASL),
    ('Sasl2::Response', 'Sasl2Response', SASL), ('Sasl2::Success', 'Sasl2Success', SASL), ('Sasl2::Failure', 'Sasl2Failure', SASL),
    ('Sasl2::Continue', 'Sasl2Continue', SASL), ('Sasl2::Abort', 'Sasl2Abort', SASL),
    ('StarttlsRequest', 'StarttlsRequest', STREAM), ('StarttlsProceed', 'StarttlsProceed', STREAM),
]
CPP2C = {cpp: c for cpp, c, _ in CODECS}
C2CPP = {c: cpp for cpp, c, _ in CODECS}
SRC_OF = {c: s for _, c, s in CODECS}

ENUMS = {   # enum types that occur as struct members / results: C++ name -> where to read the enumerators from
    'QXmpp::Private::Sasl::ErrorCondition': (SASL, 'Sasl::ErrorCondition'),
    'QXmppStanza::Error::Condition': (SM, 'QXmppStanza::Error::Condition'),
    'QXmpp::StreamError': (STREAM, 'QXmpp::StreamError'),
}
ENUMS['QXmppStreamFeatures::Mode'] = ('src/base/QXmppStreamFeatures.cpp', 'QXmppStreamFeatures::Mode')
ENUM_SPELLINGS = {
    'QXmppStreamFeatures::Mode': 'QXmppStreamFeatures::Mode', 'Mode': 'QXmppStreamFeatures::Mode',
    'Sasl::ErrorCondition': 'QXmpp::Private::Sasl::ErrorCondition', 'ErrorCondition': 'QXmpp::Private::Sasl::ErrorCondition',
    'QXmppStanza::Error::Condition': 'QXmppStanza::Error::Condition', 'Error::Condition': 'QXmppStanza::Error::Condition',
    'StreamError': 'QXmpp::StreamError', 'QXmpp::StreamError': 'QXmpp::StreamError',
}

# enum types that occur only as the result type of an enumFromString instantiation (C02: index-in-range obligations)
OPAQUE_ENUMS = {'Type', 'State', 'Marker', 'AvailableStatusType', 'QXmppIq::Type', 'QXmppMessage::Type', 'QXmppMessage::State', 'QXmppMessage::Marker',
                'QXmppPresence::Type', 'QXmppPresence::AvailableStatusType'}
IQ = 'src/base/QXmppIq.cpp'
MESSAGE = 'src/base/QXmppMessage.cpp'
PRESENCE = 'src/base/QXmppPresence.cpp'

SCALAR_TYPES = {
    'QString': 'qstr', 'QStringView': 'qstr', 'QLatin1String': 'qstr', 'QDomElement': 'qdom', 'QDomNode': 'qdom',
    'QByteArray': 'qbytes', 'QDateTime': 'qdt', 'QTime': 'qdt', 'QUuid': 'quuid', 'QXmlStreamWriter': 'xw',
    'QByteArray::FromBase64Result': 'FromBase64Result',
    'QXmpp::Private::DomChildElements': 'DomChildElements', 'DomChildElements': 'DomChildElements',
    'QXmpp::Private::DomChildElements::Iterator': 'DomIter', 'DomChildElements::Iterator': 'DomIter', 'Iterator': 'DomIter',
    'QXmpp::Private::DomChildElements::EndIterator': 'DomEnd', 'DomChildElements::EndIterator': 'DomEnd', 'EndIterator': 'DomEnd',
}
# std::optional<scalar>
OPT_SCALARS = {'bool': 'OptBool', 'qbytes': 'OptBytes', 'int': 'OptEnum', 'quint64': 'OptU64', 'qint64': 'OptS64', 'quint32': 'OptU32', 'qint32': 'OptS32',
               'quint16': 'OptU16', 'qint16': 'OptS16', 'quint8': 'OptU8', 'qint8': 'OptS8', 'qstr': 'OptStr'}
OPT_ELEM = {v: k for k, v in OPT_SCALARS.items()}
INT_ALIASES = {'unsigned long': 'quint64', 'unsigned long long': 'quint64', 'long': 'qint64', 'long long': 'qint64', 'unsigned int': 'quint32', 'int': 'qint32',
               'unsigned short': 'quint16', 'short': 'qint16', 'unsigned char': 'quint8', 'signed char': 'qint8'}


def canon_scalar(ct):
    return INT_ALIASES.get(ct, ct)


class Resolver:
    """maps a C++ type spelling (sugared or desugared, possibly relative to the namespace of the function) to the C type"""

    def __init__(self, scopes=()):
        self.scopes = tuple(scopes) + (NS, '')

    def record(self, s):
        """C name of codec struct spelled `s`, or None"""
        for sc in self.scopes:
            full = (sc + '::' + s) if sc else s
            if full.startswith(NS + '::') and full[len(NS) + 2:] in CPP2C:
                return CPP2C[full[len(NS) + 2:]]
        return None

    def enum(self, s):
        for sc in self.scopes:
            full = (sc + '::' + s) if sc else s
            if full in ENUMS:
                return full
        return ENUM_SPELLINGS.get(s)

    def resolve(self, s):
        """s: stripped type without pointer stars -> C type or None"""
        if s in SCALAR_TYPES:
            return SCALAR_TYPES[s]
        m = re.fullmatch(r'std::optional<(.*)>', s)
        if m:
            inner = self.resolve(m.group(1))
            if inner is None:
                return None
            if inner in C2CPP:
                return 'Opt' + inner
            if self.enum(m.group(1)) or m.group(1) in OPAQUE_ENUMS:
                return 'OptEnum'
            inner = canon_scalar(inner)
            return OPT_SCALARS.get(inner)
        m = re.fullmatch(r'(?:std::vector|QList|QVector)<(?:QString)>', s)
        if m:
            return 'qstrlist'
        if s == 'QStringList':
            return 'qstrlist'
        m = re.fullmatch(r'std::array<QStringView,(\d+)(?:UL|ul)?>', s)
        if m:
            return 'qstrtab%s' % m.group(1)
        r = self.record(s)
        if r:
            return r
        if self.enum(s) or s in OPAQUE_ENUMS:
            return 'int'
        if s in SCALARS:
            return canon_scalar(SCALARS[s])
        return None


def is_qstringliteral(lam):
    def has(n):
        if not isinstance(n, dict):
            return False
        if n.get('kind') == 'VarDecl' and n.get('name') == 'qstring_literal':
            return True
        return any(has(c) for c in n.get('inner', []))
    return lam.get('kind') == 'LambdaExpr' and has(lam)


class CodecLowerer(Lowerer):
    """adds: namespace-relative type resolution; QStringLiteral; aggregate initialisation of the generated records;
    std::array<QStringView, N> constant tables with the .at() index obligation"""
    scopes = ()
    records = {}       # C record name -> [(field, ctype)]   (filled by emit_records)

    def __init__(self, decl, cname, profile, this_type=None, is_lambda=False):
        super().__init__(decl, cname, profile, this_type, is_lambda)
        self.res = Resolver(self.scopes)
        self.tables_used = {}
        self.at_sites = []

    # ------------------------------------------------------------------ types
    def ctype(self, t, node=None):
        if t is None:
            return self.ntype(node)
        s = strip_type(t)
        if s == 'char16_t*':
            return 'qstr'        # `inline constexpr auto ns_x = u"..."`: a pointer to UTF-16 characters, used only as a string
        ptr = ''
        while s.endswith('*'):
            s = s[:-1].strip()
            ptr += '*'
        r = self.res.resolve(s)
        if r is not None:
            return r + ptr
        if s in self.p.types:
            return self.p.types[s] + ptr
        raise Unsupported('type %s' % t)

    def ntype(self, n):
        errs = []
        for cand in (dqt(n), qt(n)):       # the desugared (fully qualified) spelling first
            try:
                return self.ctype(cand)
            except Unsupported as e:
                errs.append(str(e))
        raise Unsupported(errs[-1] + (' / ' + dqt(n) if dqt(n) != qt(n) else ''))

    def tkey(self, n):
        try:
            return self.ntype(n)
        except Unsupported:
            return strip_type(qt(n))

    def is_class(self, n):
        try:
            t = self.ntype(n)
        except Unsupported:
            return False
        return t in self.p.class_types

    def default_arg(self, n):
        s = self.tkey(n)
        if s in self.p.default_args:
            return super().default_arg(n)
        # clang's JSON does not expand default arguments; a rule that receives this token must ignore it (Qt's documented
        # default is part of the model's assumed contract, e.g. base 10 of QString::number); if it ever reaches the generated
        # C the undefined identifier stops the run (exit 2)
        self.fire('default-arg-token:' + s)
        return 'QT_DEFAULT_ARG'

    # ------------------------------------------------------------------ QStringLiteral("...") = immediately invoked lambda
    def opcall(self, n):
        rd_ = self.callee_ref(n)
        if rd_.get('name') == 'operator()':
            a0 = self.skip(n['inner'][1])
            if is_qstringliteral(a0):
                s = find_string(a0)
                if s is None:
                    raise Unsupported('QStringLiteral without characters')
                self.fire('literal:QStringLiteral')
                return self.p.literal_ids.cexpr(s)
        return super().opcall(n)

    def pure(self, n):
        if n.get('kind') == 'CXXOperatorCallExpr' and self.callee_ref(n).get('name') == 'operator()' and is_qstringliteral(self.skip(n['inner'][1])):
            return True
        return super().pure(n)

    # ------------------------------------------------------------------ aggregate initialisation  T{a, b, ...}
    def initlist(self, n):
        t = self.ntype(n)
        if t in self.records:
            fields = self.records[t]
            inner = n.get('inner', [])
            if len(inner) > len(fields):
                raise Unsupported('initialiser list of %s has %d entries for %d members' % (t, len(inner), len(fields)))
            tmp = self.newtmp()
            self.pre.append('%s %s; memset(&%s, 0, sizeof(%s));' % (t, tmp, tmp, tmp))
            self.fire('aggregate-init:' + t)
            for (fname, fct), e in zip(fields, inner):
                e0 = self.skip(e)
                if e0.get('kind') in ('ImplicitValueInitExpr',):
                    continue
                if e0.get('kind') == 'CXXDefaultInitExpr':
                    # default member initialiser: emit_records() checked that every one of them is zero / false / empty
                    continue
                if fct in self.p.class_types:
                    if e0.get('kind') in ('CXXConstructExpr', 'CXXTemporaryObjectExpr') and self.ntype(e0) == fct:
                        self.construct(e0, '%s.%s' % (tmp, fname))
                    else:
                        v = self.expr(e0)
                        self.pre.append('%s.%s = %s;' % (tmp, fname, v))
                else:
                    v = self.expr(e0)
                    self.pre.append('%s.%s = %s;' % (tmp, fname, v))
            return tmp
        return super().initlist(n)

    # ------------------------------------------------------------------ `if constexpr` of a template instantiation
    def ifstmt(self, n, ind):
        if n.get('isConstexpr') and not n.get('hasInit') and not n.get('hasVar'):
            c = n['inner'][0]
            if c.get('kind') == 'ConstantExpr' and c.get('value') in ('true', 'false', True, False):
                taken = c.get('value') in ('true', True)
                self.fire('if-constexpr:' + ('then' if taken else 'else'))
                if taken:
                    return self.block(n['inner'][1], ind)
                if len(n['inner']) > 2:
                    els = n['inner'][2]
                    if els.get('kind') == 'IfStmt':
                        return self.ifstmt(els, ind)
                    return self.block(els, ind)
                return
            raise Unsupported('if constexpr without an evaluated condition')
        return super().ifstmt(n, ind)

    # ------------------------------------------------------------------ constant string tables
    def declref(self, n):
        rd_ = n['referencedDecl']
        if rd_.get('kind') == 'VarDecl' and rd_['id'] not in self.locals:
            try:
                t = self.tkey(n)
            except Unsupported:
                t = ''
            m = re.fullmatch(r'qstrtab(\d+)', t)
            if m:
                self.fire('table:' + rd_['name'])
                self.tables_used[rd_['name']] = int(m.group(1))
                return rd_['name']
        return super().declref(n)


def make_lowerer(*scopes):
    return type('CodecLowerer_' + re.sub(r'\W+', '_', '_'.join(scopes) or 'top'), (CodecLowerer,), {'scopes': tuple(scopes)})


# ---------------------------------------------------------------------------------------------------------------------
# records generated from the real struct definitions
def _field_default_is_zero(c):
    """in-class initialiser of a FieldDecl is false / 0 (so that zero-initialising the C record is the C++ default)"""
    inits = [x for x in c.get('inner', []) if isinstance(x, dict) and x.get('kind') and not x['kind'].endswith('Comment')]
    if not inits:
        return True

    def zero(e):
        k = e.get('kind')
        if k == 'CXXBoolLiteralExpr':
            return not e.get('value')
        if k == 'IntegerLiteral':
            return int(e.get('value')) == 0
        if k in ('ImplicitCastExpr', 'ConstantExpr', 'ExprWithCleanups') and e.get('inner'):
            return zero(e['inner'][0])
        return False
    return zero(inits[-1])


def record_layout(cname):
    """[(field, C type)] of codec struct `cname` read from its real definition"""
    cpp = C2CPP[cname]
    src = os.path.join(REPO, SRC_OF[cname])
    last = cpp.split('::')[-1]
    decls = [d for d in astx.find_decls(src, cpp, 'CXXRecordDecl', last) if d.get('completeDefinition')]
    ids = {d['id'] for d in decls}
    if len(ids) != 1:
        raise astx.ExtractError('record %s: %d complete definitions found' % (cpp, len(ids)))
    d = decls[0]
    scope = NS + '::' + '::'.join(cpp.split('::')[:-1]) if '::' in cpp else NS
    res = Resolver((scope,))
    out = []
    for c in d['inner']:
        if c.get('kind') != 'FieldDecl':
            continue
        t = c['type']
        ct = None
        for cand in (t.get('desugaredQualType'), t.get('qualType')):
            if cand:
                s = strip_type(cand)
                ct = res.resolve(s)
                if ct:
                    break
        if ct is None:
            raise Unsupported('member %s::%s of type %s is not modelled' % (cpp, c['name'], t.get('qualType')))
        if c.get('hasInClassInitializer') and not _field_default_is_zero(c):
            raise Unsupported('member %s::%s has a non-zero default initialiser' % (cpp, c['name']))
        enum = None
        for cand in (t.get('desugaredQualType'), t.get('qualType')):
            if cand:
                s = strip_type(cand)
                m = re.fullmatch(r'std::optional<(.*)>', s)
                e = res.enum(m.group(1) if m else s)
                if e:
                    enum = e
                    break
        out.append((c['name'], 'int' if (enum and ct == 'int') else canon_scalar(ct), enum))
    return out


def enum_range(enum):
    src, name = ENUMS[enum]
    vals = ctx.enum_values(os.path.join(REPO, src), name)
    vs = sorted(vals.values())
    return vs, vals


# ---------------------------------------------------------------------------------------------------------------------
# call rules
def _ret_ctype(lw, node):
    return lw.ntype(lw.skip(node))


def rule_from_dom(lw, node, args):
    """static X::fromDom(el): told apart by the (resolved) return type std::optional<X>"""
    t = _ret_ctype(lw, node)
    if not t.startswith('Opt') or t[3:] not in C2CPP:
        raise Unsupported('fromDom returning %s' % t)
    cname = t[3:] + '_fromDom'
    lw.repo_callees.add(cname)
    tmp = lw.newtmp()
    lw.pre.append('%s %s; %s(&%s, %s);' % (t, tmp, cname, tmp, args[0]))
    return tmp


def rule_to_xml(lw, node, args):
    """x.toXml(writer) / opt->toXml(writer) on a codec struct"""
    me = lw.skip(node['inner'][0])
    base = lw.skip(me['inner'][0])
    t = lw.ntype(base).rstrip('*')
    if t not in C2CPP:
        raise Unsupported('toXml on %s' % t)
    lw.repo_callees.add(t + '_toXml')
    return '%s_toXml(%s)' % (t, ', '.join(args))


def rule_number(lw, node, args):
    """QString::number(v): overload told apart by the resolved parameter type"""
    sig = lw.callee_ref(node).get('type', {}).get('qualType', '')
    m = re.search(r'\(([^,)]*)', sig)
    pt = strip_type(m.group(1)) if m else ''
    if pt in ('qulonglong', 'unsigned long long', 'ulong', 'unsigned long', 'uint', 'unsigned int'):
        return 'QString_number_u64((unsigned long long)%s)' % args[0]
    if pt in ('qlonglong', 'long long', 'long', 'int'):
        return 'QString_number_s64((long long)%s)' % args[0]
    raise Unsupported('QString::number overload %s' % sig)


def opt_ctor_some(lw, n, target):
    """std::optional<T>(T&&) / (const T&)"""
    t = lw.ntype(n)
    a0 = lw.skip(n['inner'][0])
    dst = target
    if not dst:
        dst = lw.newtmp()
        lw.pre.append('%s %s;' % (t, dst))
    if lw.is_class(a0):
        a = lw.arg(a0)
        lw.pre.append('%s.has = true; %s.v = %s;' % (dst, dst, strip_amp(a)))
    else:
        lw.pre.append('%s.has = true; %s.v = %s;' % (dst, dst, lw.expr(a0)))
    return dst


def opt_ctor_none(lw, n, target):
    t = lw.ntype(n)
    dst = target
    if not dst:
        dst = lw.newtmp()
        lw.pre.append('%s %s;' % (t, dst))
    lw.pre.append('memset(&%s, 0, sizeof(%s));' % (dst, dst))
    return dst


def rule_at(lw, node, args):
    """TABLE.at(i) on a std::array<QStringView, N>: index expression + the obligation i < N (std::out_of_range otherwise)"""
    me = lw.skip(node['inner'][0])
    base = lw.skip(me['inner'][0])
    m = re.fullmatch(r'qstrtab(\d+)', lw.tkey(base))
    if not m:
        raise Unsupported('.at() on %s' % lw.tkey(base))
    n = int(m.group(1))
    t = lw.newtmp()
    line = line_of(node) or astx.src_range(lw.decl)[0]
    lw.pre.append('size_t %s = %s;' % (t, args[1]))
    lw.pre.append('__CPROVER_assert(%s < %d, "[safety.at_index_in_range] %s.at(i): i < %d (at or after line %s)");' % (t, n, args[0], n, line))
    # std::array::at throws std::out_of_range: the path ends here (the obligation above has already been reported)
    lw.pre.append('__CPROVER_assume(%s < %d);' % (t, n))
    lw.at_sites.append((args[0], n, line))
    return '%s[%s]' % (args[0], t)


def rule_from_base64_encoding(lw, node, args):
    """QByteArray::fromBase64Encoding(bytes, options = Base64Encoding): the model is the default (standard alphabet) decoding"""
    real = [a for a in args if a != 'QT_DEFAULT_ARG']
    if len(real) != 1:
        raise Unsupported('fromBase64Encoding with explicit options')
    t = lw.newtmp()
    lw.pre.append('FromBase64Result %s; qbytes_fromBase64Encoding(&%s, %s);' % (t, t, real[0]))
    return t


def rule_find(lw, node, args):
    return 'qstr_find(%s)' % ', '.join(args)


DYN_HELPERS = {}


def rule_method_ret(cname, ctype):
    """member function / member operator of a repository class returning a class by value: f(self, _ret, args...)"""
    def rule(lw, node, args):
        lw.repo_callees.add(cname)
        t = lw.newtmp()
        lw.pre.append('%s %s; %s(%s, &%s%s);' % (ctype, t, cname, args[0], t, ''.join(', ' + a for a in args[1:])))
        return t
    return rule


def rule_iter_inc(lw, node, args):
    """++it in a loop header: the real operator++ (lowered) is called through a wrapper that drops the returned copy"""
    lw.repo_callees.add('DomIter_inc')
    return 'DomIter_inc_discard(%s)' % args[0]


def rangefor_desugared(lw, n, rinit, lv, body, ind):
    """range-for over QXmpp's own DomChildElements: clang's desugaring (__range, __begin, __end; __begin != __end; ++__begin;
    const auto &x = *__begin) is lowered statement by statement, the iterator members being repository functions"""
    init, rng, beg, end, cond, inc, lvd, body = n['inner']
    lw.stmt(rng, ind)
    lw.stmt(beg, ind)
    lw.stmt(end, ind)
    lw.loop(None, cond, inc, {'kind': 'CompoundStmt', 'inner': [lvd, body]}, ind)

# the eight instantiations of parseInt<Int> / stringToInt<Int> (QXmppUtils.cpp): key, C++ spelling clang prints, C type, min, max
INTS = [('s8', 'signed char', 'qint8', '-128', '127'), ('u8', 'unsigned char', 'quint8', '0', '255'),
        ('s16', 'short', 'qint16', '-32768', '32767'), ('u16', 'unsigned short', 'quint16', '0', '65535'),
        ('s32', 'int', 'qint32', '(-2147483647 - 1)', '2147483647'), ('u32', 'unsigned int', 'quint32', '0', '4294967295u'),
        ('s64', 'long', 'qint64', '(-9223372036854775807ll - 1)', '9223372036854775807ll'), ('u64', 'unsigned long', 'quint64', '0', '18446744073709551615ull')]
INT_BY_CTYPE = {c: k for k, _, c, _, _ in INTS}
INT_CPP = {k: cpp for k, cpp, _, _, _ in INTS}


def rule_numeric_limit(which):
    def rule(lw, node, args):
        """std::numeric_limits<T>::max() / min(): T is the (resolved) return type"""
        rd_ = lw.callee_ref(node)
        if rd_.get('kind') != 'CXXMethodDecl':
            raise Unsupported('%s() that is not a static member function' % which)
        t = _ret_ctype(lw, node)
        for k, _, ct, lo, hi in INTS:
            if ct == t:
                return '((%s)%s)' % (ct, hi if which == 'max' else lo)
        raise Unsupported('numeric_limits<%s>::%s' % (t, which))
    return rule


def rule_parse_int(lw, node, args):
    t = _ret_ctype(lw, node)
    k = INT_BY_CTYPE.get(OPT_ELEM.get(t))
    if k is None:
        raise Unsupported('parseInt returning %s' % t)
    cname = 'parseInt_' + k
    lw.repo_callees.add(cname)
    tmp = lw.newtmp()
    lw.pre.append('%s %s; %s(&%s, %s);' % (t, tmp, cname, tmp, ', '.join(args)))
    return tmp


def rule_string_to_int(lw, node, args):
    k = INT_BY_CTYPE.get(_ret_ctype(lw, node))
    if k is None:
        raise Unsupported('stringToInt returning %s' % _ret_ctype(lw, node))
    lw.repo_callees.add('stringToInt_' + k)
    return 'stringToInt_%s(%s)' % (k, ', '.join(args))


def find_instantiation(src, name, exact_type):
    """the instantiated definition of function template `name` whose function type is exactly `exact_type`"""
    docs, _ = astx.dump(src, name)
    found = {}

    def walk(d):
        if d.get('kind') == 'FunctionDecl' and d.get('name') == name and astx.has_body(d) and d.get('type', {}).get('qualType') == exact_type:
            found[d['id']] = d
        for c in d.get('inner', []):
            if isinstance(c, dict) and c.get('kind') in ('FunctionTemplateDecl', 'FunctionDecl', 'NamespaceDecl'):
                walk(c)
    for d in docs:
        walk(d)
    if len(found) != 1:
        raise astx.ExtractError('expected exactly one instantiation %s : %s in %s, found %d' % (name, exact_type, src, len(found)))
    d = list(found.values())[0]
    if astx.contains_error_nodes(d):
        raise astx.ExtractError('AST of %s contains clang error-recovery nodes' % name)
    return d


def rule_enum_from_string(lw, node, args):
    """enumFromString<Enum, N>(table, str): the instantiation is a repository function of its own (lowered from the same TU)"""
    sig = lw.callee_ref(node).get('type', {}).get('qualType', '')
    m = re.match(r'std::optional<([\w:]+)> \(const std::array<QStringView, (\d+)', sig)
    if not m:
        raise Unsupported('enumFromString instantiation %s' % sig)
    cname = 'enumFromString_%s_%s' % (re.sub(r'\W+', '_', m.group(1)), m.group(2))
    DYN_HELPERS[cname] = (lw.source_files[0], 'enumFromString', 'enumFromString', {'sig': 'std::optional<%s> (const std::array<QStringView, %s' % (m.group(1), m.group(2))}, lw.scopes[0] if lw.scopes else '')
    lw.repo_callees.add(cname)
    t = lw.newtmp()
    lw.pre.append('OptEnum %s; %s(&%s, %s);' % (t, cname, t, ', '.join(args)))
    return t


def rule_write_optional(lw, node, args):
    """writeOptional<T>(writer, optional<T>): the instantiation is lowered from the same TU"""
    sig = lw.callee_ref(node).get('type', {}).get('qualType', '')
    m = re.search(r'const std::optional<([\w:]+)> &', sig)
    if not m:
        raise Unsupported('writeOptional instantiation %s' % sig)
    c = lw.res.record(m.group(1).replace('QXmpp::Private::', ''))
    if not c:
        raise Unsupported('writeOptional of %s' % m.group(1))
    cname = 'writeOptional_' + c
    DYN_HELPERS[cname] = (lw.source_files[0], 'writeOptional', 'writeOptional', {'sig': sig}, lw.scopes[0] if lw.scopes else '')
    lw.repo_callees.add(cname)
    return '%s(%s)' % (cname, ', '.join(args))


def rule_array_begin(lw, node, args):
    return args[0]


def rule_array_end(lw, node, args):
    me = lw.skip(node['inner'][0])
    base = lw.skip(me['inner'][0])
    m = re.fullmatch(r'qstrtab(\d+)', lw.tkey(base))
    if not m:
        raise Unsupported('.end() on %s' % lw.tkey(base))
    return '(%s + %s)' % (args[0], m.group(1))


def base_calls():
    calls = {
        # QXmlStreamWriter
        'xw::writeStartElement/1': ('fn', 'xw_writeStartElement'),
        'xw::writeEmptyElement/1': ('fn', 'xw_writeEmptyElement'),
        'xw::writeEndElement/0': ('fn', 'xw_writeEndElement'),
        'xw::writeDefaultNamespace/1': ('fn', 'xw_writeDefaultNamespace'),
        'xw::writeAttribute/2': ('fn', 'xw_writeAttribute'),
        'xw::writeCharacters/1': ('fn', 'xw_writeCharacters'),
        'xw::writeTextElement/2': ('fn', 'xw_writeTextElement'),
        # QDomElement (abstract tree)
        'qdom::tagName/0': ('fn', 'xdom_tagName'),
        'qdom::namespaceURI/0': ('fn', 'xdom_namespaceURI'),
        'qdom::attribute/1': ('fn', 'xdom_attribute'),
        'qdom::hasAttribute/1': ('fn', 'xdom_hasAttribute'),
        'qdom::text/0': ('fn', 'xdom_text'),
        'qdom::isNull/0': ('expr', '{0} == 0'),
        'qdom::firstChildElement/0': ('expr', 'xdom_firstChildElement({0}, 0, 0)'),      # QDomNode::firstChildElement(tagName = QString())
        'qdom::firstChildElement/1': ('expr', 'xdom_firstChildElement({0}, {1}, 0)'),
        # QXmpp's own helpers firstChildElement / nextSiblingElement (QXmppUtils.cpp) through their assumed contract
        'fn:firstChildElement/3': ('fn', 'xdom_firstChildElement'),
        'fn:firstChildElement/2': ('expr', 'xdom_firstChildElement({0}, {1}, 0)'),
        'fn:firstChildElement/1': ('expr', 'xdom_firstChildElement({0}, 0, 0)'),
        'fn:nextSiblingElement/3': ('fn', 'xdom_nextSiblingElement'),
        # strings
        'fn:toString65/1': ('arg', 0), 'fn:toString60/1': ('arg', 0),
        'fn:number/1': rule_number,
        'qstr::toULongLong/0': ('expr', 'qstr_toULongLong({0}, NULL)'),
        'qstr::toUInt/0': ('expr', 'qstr_toUInt({0}, NULL)'),
        'qstr::toLongLong/0': ('expr', 'qstr_toLongLong({0}, NULL)'),
        'qstr::toInt/0': ('expr', 'qstr_toInt({0}, NULL)'),
        'qstr::toULongLong/1': ('fn', 'qstr_toULongLong'), 'qstr::toLongLong/1': ('fn', 'qstr_toLongLong'),
        'qstr::toUInt/1': ('fn', 'qstr_toUInt'), 'qstr::toInt/1': ('fn', 'qstr_toInt'),
        'qstr::toUShort/1': ('fn', 'qstr_toUShort'), 'qstr::toShort/1': ('fn', 'qstr_toShort'),
        'qstr::toUtf8/0': ('fn', 'qstr_toUtf8'),
        'fn:fromUtf8/1': ('fn', 'QString_fromUtf8'),
        'qbytes::isEmpty/0': ('expr', '{0} == 0'),
        'qbytes::toBase64/0': ('fn', 'qbytes_toBase64'),
        'fn:fromBase64Encoding/1': rule_from_base64_encoding,
        'FromBase64Result::operator bool/0': ('expr', '{v0}.ok'),
        'op*:FromBase64Result': ('expr', '{v0}.decoded'),
        # date-time, uuid
        'fn:fromString/2': ('fn', 'QDateTime_fromString'),
        'qdt::toUTC/0': ('fn', 'qdt_toUTC'), 'qdt::time/0': ('arg', 0), 'qdt::msec/0': ('fn', 'qdt_msec'),
        'qdt::toString/1': ('fn', 'qdt_toString'),
        'fn:fromString/1': ('fn', 'QUuid_fromString'),
        'quuid::isNull/0': ('expr', '{0} == 0'),
        'quuid::toString/1': ('fn', 'quuid_toString'),
        # repository callees (lowered from the tree as well)
        'fn:fromDom/1': rule_from_dom,
        '*::toXml/1': rule_to_xml,
        'fn:writeOptionalXmlAttribute/3': ('callee', 'writeOptionalXmlAttribute'),
        'fn:writeXmlTextElement/3': ('callee', 'writeXmlTextElement3'),
        'fn:writeXmlTextElement/4': ('callee', 'writeXmlTextElement4'),
        'fn:writeOptionalXmlTextElement/3': ('callee', 'writeOptionalXmlTextElement'),
        'fn:writeEmptyElement/3': ('callee', 'writeEmptyElement'),
        'fn:parseBase64/1': ('calleeret', 'parseBase64', 'OptBytes'),
        'fn:serializeBase64/1': ('callee', 'serializeBase64'),
        'fn:parseBoolean/1': ('calleeret', 'parseBoolean', 'OptBool'),
        'fn:serializeBoolean/1': ('callee', 'serializeBoolean'),
        'fn:conditionFromString/1': ('calleeret', 'conditionFromString', 'OptEnum'),
        'fn:conditionToString/1': ('callee', 'conditionToString'),
        'fn:errorConditionFromString/1': ('calleeret', 'Sasl_errorConditionFromString', 'OptEnum'),
        'fn:errorConditionToString/1': ('callee', 'Sasl_errorConditionToString'),
        'fn:datetimeFromString/1': ('callee', 'datetimeFromString'),
        'fn:datetimeToString/1': ('callee', 'datetimeToString'),
        'fn:enumFromString/2': rule_enum_from_string,
        'fn:parseInt/1': rule_parse_int,
        'fn:max/0': rule_numeric_limit('max'), 'fn:min/0': rule_numeric_limit('min'),
        'fn:stringToInt/2': rule_string_to_int,
        'fn:writeOptional/2': rule_write_optional,
        # child-element iteration (QXmppUtils_p.h: all repository code, lowered from the header) and string lists
        'fn:iterChildElements/3': ('calleeret', 'iterChildElements', 'DomChildElements'),
        'fn:iterChildElements/2': ('calleeret', 'iterChildElements', 'DomChildElements'),
        'fn:iterChildElements/1': ('calleeret', 'iterChildElements', 'DomChildElements'),
        'DomChildElements::begin/0': rule_method_ret('DomChildElements_begin', 'DomIter'),
        'DomChildElements::end/0': rule_method_ret('DomChildElements_end', 'DomEnd'),
        'op!=:DomIter:DomEnd': ('callee', 'DomIter_ne'),
        'op++:DomIter': rule_iter_inc,
        'op*:DomIter': ('callee', 'DomIter_deref'),
        'rangefor:DomChildElements': rangefor_desugared,
        'ctor:DomEnd()': ('zero',),
        'qstrlist::push_back/1': ('fn', 'qstrlist_push_back'),
        'qstrlist::empty/0': ('expr', '{v0}.n == 0'),
        'qstrlist::isEmpty/0': ('expr', '{v0}.n == 0'),
        'rangefor:qstrlist': rangefor_indexed('({r})->n', '({r})->e[{i}]'),
        'fn:parseTextElements/1': ('fnret', 'parseTextElements_assumed', 'qstrlist'),
        # tables
        '*::at/1': rule_at,
        '*::begin/0': rule_array_begin, '*::end/0': rule_array_end,
        'fn:find/3': ('fn', 'qstr_find'),
        'fn:distance/2': ('expr', '{1} - {0}'),
        'fn:move/1': lambda lw, node, args: lw.expr(node['inner'][1]) if not lw.is_class(lw.skip(node['inner'][1])) else strip_amp(args[0]),
        'cast:BitCast:size_t': None,
    }
    del calls['cast:BitCast:size_t']
    # std::optional<T>
    opts = ['Opt' + c for c in C2CPP] + list(OPT_ELEM)
    for o in opts:
        elem = o[3:] if o[3:] in C2CPP else OPT_ELEM[o]
        calls['ctor:%s()' % o] = opt_ctor_none
        calls['ctor:%s(%s)' % (o, elem)] = opt_ctor_some
        calls['ctor:%s(std::nullopt_t)' % o] = opt_ctor_none
        calls['%s::operator bool/0' % o] = ('expr', '{v0}.has')
        calls['%s::has_value/0' % o] = ('expr', '{v0}.has')
        calls['op*:%s' % o] = ('expr', '{v0}.v')
        calls['op->:%s' % o] = ('expr', '&{v0}.v')
        calls['%s::value/0' % o] = ('expr', '{v0}.v')          # has_value() is checked by the caller or it throws; see rule users
        calls['op=:%s:%s' % (o, elem)] = ('expr', '{v0}.has = true, {v0}.v = {v1}') if elem in C2CPP else ('expr', '{v0}.has = true, {v0}.v = {1}')
        calls['op=:%s:%s' % (o, o)] = ('expr', '{v0} = {v1}')
        if elem not in C2CPP:
            calls['%s::value_or/1' % o] = ('expr', '({v0}.has ? {v0}.v : {1})')
    for c in C2CPP:
        calls['ctor:%s()' % c] = ('zero',)
    return calls


def codec_profile():
    class_types = set(C2CPP) | {'Opt' + c for c in C2CPP} | set(OPT_ELEM) | {'FromBase64Result', 'qstrlist', 'DomChildElements', 'DomIter', 'DomEnd'}
    prof = opaque_profile(types={}, class_types=class_types, calls=base_calls(),
                          pure_fns={'toString65', 'toString60', 'firstChildElement', 'text', 'has_value'})
    prof.default_args.update({'qstr': '0', 'qdom': '0'})
    return prof


def emit_records():
    """C records of all codec structs (dependency order), their optionals, and the per-field equality / invariant macros"""
    Kit.prefetch([(SRC_OF[c], C2CPP[c]) for c in C2CPP])
    layouts = {c: record_layout(c) for c in C2CPP}
    CodecLowerer.records = {c: [(f, t) for f, t, _ in l] for c, l in layouts.items()}
    CodecLowerer.records['DomChildElements'] = [('parent', 'qdom'), ('tagName', 'qstr'), ('namespaceUri', 'qstr')]
    CodecLowerer.records['DomIter'] = [('el', 'qdom'), ('tagName', 'qstr'), ('namespaceUri', 'qstr')]
    CodecLowerer.records['DomEnd'] = []
    out = ['#define LN 2\ntypedef struct qstrlist { int n; qstr e[LN]; } qstrlist;   /* std::vector<QString> / QList<QString>: BOUNDED model, at most LN elements */',
           '#define QSTRLIST_EQ(a, b) ((a).n == (b).n && ((a).n < 1 || (a).e[0] == (b).e[0]) && ((a).n < 2 || (a).e[1] == (b).e[1]))',
           '#define QSTRLIST_WF(a) ((a).n >= 0 && (a).n <= LN)']
    # QXmpp's own child-element range (QXmppUtils_p.h), records from the real definitions
    from vlib.cxx2c import Profile
    p0 = Profile(types={'QDomElement': 'qdom', 'QStringView': 'qstr'})
    Kit.prefetch([(SASL, 'DomChildElements')])
    out.append(ctx.emit_record(os.path.join(REPO, SASL), 'DomChildElements', 'DomChildElements', 'DomChildElements', p0)[0])
    out.append(ctx.emit_record(os.path.join(REPO, SASL), 'DomChildElements', 'Iterator', 'DomIter', p0)[0])
    out.append('typedef struct DomEnd { char unused_; } DomEnd;')
    for o, e in OPT_ELEM.items():
        out.append('typedef struct %s { bool has; %s v; } %s;' % (o, e, o))
    done = set()

    def emit(c):
        if c in done:
            return
        for f, t, _ in layouts[c]:
            dep = t[3:] if t.startswith('Opt') and t[3:] in C2CPP else t
            if dep in C2CPP and dep != c:
                emit(dep)
        done.add(c)
        fields = ''.join('  %s %s;\n' % (t, f) for f, t, _ in layouts[c]) or '  char unused_;\n'
        out.append('typedef struct %s {\n%s} %s;' % (c, fields, c))
        out.append('typedef struct Opt%s { bool has; %s v; } Opt%s;' % (c, c, c))
    for c in C2CPP:
        emit(c)
    return '\n'.join(out) + '\n', layouts


# ---------------------------------------------------------------------------------------------------------------------
# repository helper functions the codecs call (all lowered from the tree; none is replaced by a hand-written summary)
def rule_datetime_from_string(lw, node, args):
    sig = lw.callee_ref(node).get('type', {}).get('qualType', '')
    cname = 'datetimeFromString_sv' if 'QStringView' in sig else 'datetimeFromString_s'
    lw.repo_callees.add(cname)
    return '%s(%s)' % (cname, ', '.join(args))


HELPERS = {
    # cname: (source, ast filter, function name, Target kwargs, scope)
    'writeOptionalXmlAttribute': (UTILS, 'writeOptionalXmlAttribute', 'writeOptionalXmlAttribute', {}, NS),
    'writeXmlTextElement3': (UTILS, 'writeXmlTextElement', 'writeXmlTextElement', {'nparams': 3}, NS),
    'writeXmlTextElement4': (UTILS, 'writeXmlTextElement', 'writeXmlTextElement', {'nparams': 4}, NS),
    'writeOptionalXmlTextElement': (UTILS, 'writeOptionalXmlTextElement', 'writeOptionalXmlTextElement', {}, NS),
    'writeEmptyElement': (UTILS, 'writeEmptyElement', 'writeEmptyElement', {}, NS),
    'parseBase64': (UTILS, 'parseBase64', 'parseBase64', {}, NS),
    'serializeBase64': (UTILS, 'serializeBase64', 'serializeBase64', {}, NS),
    'parseBoolean': (UTILS, 'parseBoolean', 'parseBoolean', {}, NS),
    'serializeBoolean': (UTILS, 'serializeBoolean', 'serializeBoolean', {}, NS),
    'conditionToString': (STANZA, 'conditionToString', 'conditionToString', {}, NS),
    'conditionFromString': (STANZA, 'conditionFromString', 'conditionFromString', {}, NS),
    'Sasl_errorConditionToString': (SASL, 'errorConditionToString', 'errorConditionToString', {}, NS + '::Sasl'),
    'Sasl_errorConditionFromString': (SASL, 'errorConditionFromString', 'errorConditionFromString', {}, NS + '::Sasl'),
    'datetimeFromString_sv': (UTILS, 'datetimeFromString', 'datetimeFromString', {'sig': 'QStringView'}, ''),
    'datetimeFromString_s': (UTILS, 'datetimeFromString', 'datetimeFromString', {'sig': 'const QString &'}, ''),
    'datetimeToString': (UTILS, 'datetimeToString', 'datetimeToString', {}, ''),
    'iterChildElements': (SASL, 'iterChildElements', 'iterChildElements', {}, NS),
    'DomChildElements_begin': (SASL, 'DomChildElements', 'begin', {'this': 'DomChildElements'}, NS),
    'DomChildElements_end': (SASL, 'DomChildElements', 'end', {'this': 'DomChildElements'}, NS),
    'DomIter_ne': (SASL, 'DomChildElements', 'operator!=', {'this': 'DomIter'}, NS),
    'DomIter_inc': (SASL, 'DomChildElements', 'operator++', {'this': 'DomIter'}, NS),
    'DomIter_deref': (SASL, 'DomChildElements', 'operator*', {'this': 'DomIter'}, NS),
    'readFeature': ('src/base/QXmppStreamFeatures.cpp', 'readFeature', 'readFeature', {}, ''),
    'writeFeature': ('src/base/QXmppStreamFeatures.cpp', 'writeFeature', 'writeFeature', {}, ''),
    'writeBoolenFeature': ('src/base/QXmppStreamFeatures.cpp', 'writeBoolenFeature', 'writeBoolenFeature', {}, ''),
    'streamErrorToString': (STREAM, 'streamErrorToString', 'streamErrorToString', {}, NS),
    'enumFromString_StreamError_25': (STREAM, 'enumFromString', 'enumFromString', {'sig': 'std::optional<StreamError> (const std::array<QStringView, 25'}, NS),
    'enumFromString_IqType_4': (IQ, 'enumFromString', 'enumFromString', {'sig': 'std::optional<Type> (const std::array<QStringView, 4'}, ''),
    'enumFromString_MessageType_5': (MESSAGE, 'enumFromString', 'enumFromString', {'sig': 'std::optional<Type> (const std::array<QStringView, 5'}, ''),
    'enumFromString_MessageState_6': (MESSAGE, 'enumFromString', 'enumFromString', {'sig': 'std::optional<State> (const std::array<QStringView, 6'}, ''),
    'enumFromString_MessageMarker_4': (MESSAGE, 'enumFromString', 'enumFromString', {'sig': 'std::optional<Marker> (const std::array<QStringView, 4'}, ''),
    'enumFromString_PresenceType_8': (PRESENCE, 'enumFromString', 'enumFromString', {'sig': 'std::optional<Type> (const std::array<QStringView, 8'}, ''),
    'enumFromString_PresenceAvailableStatusType_6': (PRESENCE, 'enumFromString', 'enumFromString', {'sig': 'std::optional<AvailableStatusType> (const std::array<QStringView, 6'}, ''),
    'enumFromString_ErrorCondition_11': (SASL, 'enumFromString', 'enumFromString', {'sig': 'std::optional<ErrorCondition> (const std::array<QStringView, 11'}, NS + '::Sasl'),
}


def _collides(cpp):
    """another codec's qualified name contains this one's (clang's filter is a substring match)"""
    return any(o != cpp and cpp in o for o in CPP2C)


def codec_filter(cpp):
    return cpp + '::' if _collides(cpp) else cpp


def scope_of(cpp):
    return NS + ('::' + '::'.join(cpp.split('::')[:-1]) if '::' in cpp else '')


class Kit:
    """lowers codec members and the repository helpers they reach, on demand, and assembles verification files"""

    def __init__(self, uid, work):
        from vlib.unit import Builder
        self.prof = codec_profile()
        self.prof.calls['fn:datetimeFromString/1'] = rule_datetime_from_string
        self.b = Builder(uid, work, self.prof)
        self.records, self.layouts = emit_records()
        self.texts = {}       # cname -> lowered text
        self.deps = {}        # cname -> set of repo callees
        self.tables = {}      # table name -> (N, source)
        self.at_sites = {}    # cname -> [(table, N, line)]
        self.ids = {}         # serialiser cname -> element ids consumed on every path (None: path dependent)
        self.loops = {}

    def target(self, cname):
        from vlib.unit import Target
        m = re.fullmatch(r'serializeInt_([su]\d+)', cname)
        if m:
            cpp = INT_CPP[m.group(1)]
            t = Target(os.path.join(os.path.dirname(os.path.abspath(__file__)), 'inst_scalars.cpp'), 'serializeInt', 'serializeInt', cname, lowerer_cls=make_lowerer(NS))
            t.rel = 'src/base/QXmppUtils_p.h'
            t.decl = find_instantiation(t.src, 'serializeInt', 'QString (%s)' % cpp)
            t.more_sources = [os.path.join(REPO, 'src/base/QXmppUtils_p.h')]
            return t, 'serializeInt<%s>' % cpp
        m = re.fullmatch(r'(parseInt|stringToInt)_([su]\d+)', cname)
        if m:
            cpp = INT_CPP[m.group(2)]
            ft = 'std::optional<%s> (QStringView)' % cpp if m.group(1) == 'parseInt' else '%s (QStringView, bool *)' % cpp
            t = Target(UTILS, m.group(1), m.group(1), cname, lowerer_cls=make_lowerer(NS))
            t.decl = find_instantiation(t.src, m.group(1), ft)
            return t, '%s<%s>' % (m.group(1), cpp)
        if cname in HELPERS or cname in DYN_HELPERS:
            src, filt, name, kw, scope = HELPERS.get(cname) or DYN_HELPERS[cname]
            t = Target(src, filt, name, cname, lowerer_cls=make_lowerer(scope), **kw)
            return t, name
        m = re.fullmatch(r'(\w+)_(toXml|fromDom)', cname)
        if m and m.group(1) in C2CPP:
            c, fn = m.group(1), m.group(2)
            cpp = C2CPP[c]
            t = Target(SRC_OF[c], codec_filter(cpp), fn, cname, this=(c if fn == 'toXml' else None), lowerer_cls=make_lowerer(scope_of(cpp)))
            return t, cpp + '::' + fn
        raise Unsupported('no repository function registered for callee %s' % cname)

    @staticmethod
    def prefetch(pairs, workers=8):
        """clang AST dumps (about 3 s each) of the given (source, filter) pairs, a few at a time"""
        from concurrent.futures import ThreadPoolExecutor
        pairs = sorted(set((os.path.join(REPO, s) if not os.path.isabs(s) else s, f) for s, f in pairs))
        from vlib import configure
        configure.configure()
        with ThreadPoolExecutor(max_workers=workers) as ex:
            list(ex.map(lambda p: astx.dump(p[0], p[1]), pairs))

    def prefetch_codecs(self, codecs):
        pairs = [(SRC_OF[c], codec_filter(C2CPP[c])) for c in codecs]
        pairs += [(v[0], v[1]) for v in HELPERS.values()]
        pairs += [(UTILS, 'parseInt'), (UTILS, 'stringToInt'), (SASL, 'enumFromString'), (SASL, 'writeOptional')]
        self.prefetch(pairs)

    def need(self, cname, spec=None):
        """lower `cname` (once) and, transitively, every repository function it calls"""
        if cname in self.texts:
            return
        t, qual = self.target(cname)
        text = self.b.lower(t, spec)
        self.b.functions[-1]['function'] = qual
        lw = self.b.last
        self.texts[cname] = text
        self.deps[cname] = set(lw.repo_callees)
        self.at_sites[cname] = list(lw.at_sites)
        self.loops[cname] = lw.loops
        for name, n in lw.tables_used.items():
            self.tables[name] = (n, t.src)
        for d in sorted(lw.repo_callees):
            self.need(d)
        # ghost id reservation for serialisers (functions that take the writer): callees first, so their counts are known
        if re.search(r'\bxw\s*\*', text.split('\n', 1)[0]):
            padded, n = pad_serialiser(text, self.ids)
            self.ids[cname] = n
            if n is not None:
                self.texts[cname] = padded

    def with_contract(self, cname, spec):
        """the lowered text of `cname` with the contract `spec` spliced in (the plain text stays available for inlining)"""
        self.need(cname)
        t, qual = self.target(cname)
        n = len(self.b.functions)
        text = self.b.lower(t, spec)
        del self.b.functions[n:]          # same function, already listed
        return text

    def closure(self, roots):
        out = []
        seen = set()

        def visit(c):
            if c in seen:
                return
            seen.add(c)
            for d in sorted(self.deps.get(c, ())):
                visit(d)
            out.append(c)
        for r in roots:
            visit(r)
        return out

    def table_defs(self):
        """constant std::array<QStringView, N> tables, element by element from the AST of the defining TU"""
        out = []
        for name, (n, src) in sorted(self.tables.items()):
            decls = [d for d in astx.find_decls(src, name, 'VarDecl', name) if d.get('inner')]
            if len({d['id'] for d in decls}) != 1:
                raise astx.ExtractError('table %s: %d definitions found' % (name, len({d['id'] for d in decls})))
            lits = None

            def walk(x):
                """the initialiser list with exactly n entries: each entry is a string literal or an empty view `{}`"""
                nonlocal lits
                if lits is not None:
                    return
                kids = [c for c in x.get('inner', []) if isinstance(c, dict)]
                if x.get('kind') == 'InitListExpr' and len(kids) == n and re.search(r'QStringView\s*\[%d\]' % n, qt(x) + ' ' + dqt(x)):
                    lits = [find_string(c) or '' for c in kids]
                    return
                for c in kids:
                    walk(c)
            walk(decls[0])
            if lits is None or len(lits) != n:
                raise Unsupported('table %s: no initialiser list of %d string views found' % (name, n))
            out.append('static const qstr %s[%d] = { %s };' % (name, n, ', '.join(self.prof.literal_ids.cexpr(s) for s in lits)))
        return '\n'.join(out) + '\n'

    def prefetch_context(self):
        """the AST dumps builder.context() will ask for (one per referenced constant / enum), in parallel"""
        pairs = []
        for (src, xf), gs in self.b.need_globals.items():
            pairs += [(src, g) for g in gs]
        for (src, xf), es in self.b.need_enums.items():
            pairs += [(src, et if '::' in et else et.split('::')[-1]) for et in es]
        pairs += [(src, name) for name, (n, src) in self.tables.items()]
        self.prefetch(pairs)

    def assemble(self, roots, extra, harness, override=None):
        """one C file: models, string table, records, constants, the lowered real functions (callees first), unit text"""
        if not getattr(self, '_ctx_prefetched', False):
            self._ctx_prefetched = True
            self.prefetch_context()
        order = self.closure(roots)
        override = override or {}
        protos = ''.join(self.texts[c].split('\n', 1)[0] + ';\n' for c in order)      # signatures only (a contract may be stated once)
        bodies = '\n'.join(override.get(c, self.texts[c]) for c in order)
        ctxt = self.b.context()
        # `inline constexpr auto ns_x = u"..."` has type const char16_t *const: as everywhere else, the literal is its opaque id
        ctxt = re.sub(r'static const quint16\* (\w+) = (\d+ /\*)', r'static const qstr \1 = \2', ctxt)
        tabs = self.table_defs()
        tabtypes = ''.join('typedef const qstr *qstrtab%s;\n' % n for n in sorted(set(re.findall(r'\bqstrtab(\d+)\b', protos + bodies + extra))))
        return ('#include "opaque.h"\n#include "xml.h"\n#include "conv.h"\n' + self.prof.literal_ids.table() + self.records + ctxt + '\n' + tabtypes + tabs
                + MODEL_GLUE + protos + (MODEL_GLUE_ITER if 'DomIter_inc' in order else '') + bodies + '\n' + extra + '\n' + harness + '\n')


# ---------------------------------------------------------------------------------------------------------------------
# ghost id reservation: pad both arms of every conditional of a serialiser to the same number of created elements
CREATORS = ('xw_writeStartElement', 'xw_writeEmptyElement', 'xw_writeTextElement')


class _Node:
    def __init__(self, kind, line=None):
        self.kind = kind          # 'stmt' | 'block' | 'if'
        self.line = line
        self.items = []           # block
        self.then = None
        self.els = None           # block, if-node or None
        self.indent = ''


def _parse_block(lines, i):
    """lines[i] is '{' (at some indent): returns (block node, index after the matching '}')"""
    ind = lines[i][:len(lines[i]) - len(lines[i].lstrip())]
    blk = _Node('block')
    blk.indent = ind
    i += 1
    while True:
        l = lines[i]
        if l == ind + '}':
            return blk, i + 1
        node, i = _parse_stmt(lines, i)
        blk.items.append(node)


def _parse_stmt(lines, i):
    l = lines[i]
    st = l.strip()
    ind = l[:len(l) - len(l.lstrip())]
    if st == '{':
        return _parse_block(lines, i)
    if st.startswith('if (') and i + 1 < len(lines) and lines[i + 1] == ind + '{':
        n = _Node('if', l)
        n.indent = ind
        n.then, i = _parse_block(lines, i + 1)
        if i < len(lines) and lines[i] == ind + 'else':
            if lines[i + 1].strip().startswith('if ('):
                n.els, i = _parse_stmt(lines, i + 1)
            else:
                n.els, i = _parse_block(lines, i + 1)
        return n, i
    if st.startswith('switch (') and i + 1 < len(lines) and lines[i + 1] == ind + '{':
        n = _Node('switch', l)
        n.indent = ind
        n.then, i = _parse_block(lines, i + 1)
        return n, i
    if re.match(r'(for|while|switch) \(', st) or st == 'else':
        raise Unsupported('id padding: construct not handled: ' + st[:40])
    return _Node('stmt', l), i + 1


def _count(node, M):
    """number of elements the code of `node` creates on every path AFTER padding (pads as a side effect)"""
    if node.kind == 'stmt':
        st = node.line
        if re.search(r'\breturn\b', st) and not st.strip() == 'return;':
            pass
        n = 0
        for m in re.finditer(r'\b(\w+)\(', st):
            f = m.group(1)
            if f in CREATORS:
                n += 1
            elif f in M:
                if M[f] is None:
                    raise Unsupported('id padding: callee %s is not padded' % f)
                n += M[f]
        return n
    if node.kind == 'block':
        return sum(_count(x, M) for x in node.items)
    if node.kind == 'switch':
        # segments between case labels, each ending in `break;` (no fall-through), with a default label: pad each to the maximum
        segs, cur, has_default = [], None, False
        for it in node.then.items:
            lab = it.kind == 'stmt' and re.fullmatch(r'\s*(case .*|default):', it.line)
            if lab:
                has_default = has_default or it.line.strip() == 'default:'
                if cur is not None and cur and not (cur[-1].kind == 'stmt' and cur[-1].line.strip() == 'break;'):
                    raise Unsupported('id padding: switch case falls through')
                if cur is None or cur:
                    cur = []
                    segs.append(cur)
            else:
                if cur is None:
                    raise Unsupported('id padding: statement before the first case label')
                cur.append(it)
        if not has_default or not segs or any(not (sg and sg[-1].kind == 'stmt' and sg[-1].line.strip() == 'break;') for sg in segs):
            raise Unsupported('id padding: switch without default or without break')
        counts = [sum(_count(x, M) for x in sg) for sg in segs]
        m = max(counts)
        for sg, c in zip(segs, counts):
            if c < m:
                brk = sg[-1]
                pad = _Node('stmt', brk.line[:len(brk.line) - len(brk.line.lstrip())] + 'xw_pad(%d);   /* ghost: id reservation */' % (m - c))
                node.then.items.insert(next(k for k, z in enumerate(node.then.items) if z is brk), pad)
        return m
    a = _count(node.then, M)
    b = _count(node.els, M) if node.els is not None else 0
    if node.line and re.search(r'\b(%s)\(' % '|'.join(list(CREATORS) + [f for f in M]), node.line):
        raise Unsupported('id padding: element created inside a condition')
    m = max(a, b)
    if a < m:
        node.then.items.append(_Node('stmt', node.then.indent + '  xw_pad(%d);   /* ghost: id reservation */' % (m - a)))
    if b < m:
        if node.els is None:
            node.els = _Node('block')
            node.els.indent = node.indent
            node.els.items.append(_Node('stmt', node.indent + '  xw_pad(%d);   /* ghost: id reservation */' % (m - b)))
        elif node.els.kind == 'block':
            node.els.items.append(_Node('stmt', node.els.indent + '  xw_pad(%d);   /* ghost: id reservation */' % (m - b)))
        else:
            # else-if chain: wrap
            blk = _Node('block')
            blk.indent = node.indent
            blk.items = [node.els, _Node('stmt', node.indent + '  xw_pad(%d);   /* ghost: id reservation */' % (m - b))]
            node.els = blk
    return m


def _emit(node, out):
    if node.kind == 'stmt':
        out.append(node.line)
    elif node.kind == 'block':
        out.append(node.indent + '{')
        for x in node.items:
            _emit(x, out)
        out.append(node.indent + '}')
    elif node.kind == 'switch':
        out.append(node.line)
        _emit(node.then, out)
    else:
        out.append(node.line)
        _emit(node.then, out)
        if node.els is not None:
            out.append(node.indent + 'else')
            _emit(node.els, out)


def pad_serialiser(text, M):
    """(padded text, number of element ids the function consumes on every path); text unchanged and None if it has a loop
    or an early return (then ids stay path dependent: slower, still correct)"""
    lines = text.split('\n')
    i = next(k for k, l in enumerate(lines) if l == '{')
    head = lines[:i]
    body_lines = [l for l in lines[i:] if l != '']
    if any(re.match(r'\s*return\b', l) for l in body_lines[:-2] if 'return;' in l or 'return ' in l) and not body_lines[-2].strip().startswith('return'):
        return text, None
    try:
        blk, j = _parse_block(body_lines, 0)
        n = _count(blk, M)
    except (Unsupported, IndexError):
        return text, None
    out = []
    _emit(blk, out)
    return '\n'.join(head + out), n


MODEL_GLUE = '''
/* bounded list model: a list longer than LN elements is outside the bounded stand-in (the proofs that use it are labelled bounded) */
static inline void qstrlist_push_back(qstrlist *l, qstr v) { __CPROVER_assume(l->n >= 0 && l->n < LN); l->e[l->n] = v; l->n++; }
/* ASSUMED contract of QXmpp::Private::parseTextElements (QXmppUtils.cpp: transform<std::vector<QString>>(elements, &QDomElement::text)):
   the text() of the selected child elements, in document order */
static inline void parseTextElements_assumed(qstrlist *_ret, const DomChildElements *els) {
  _ret->n = 0;
  for (qdom c = xdom_firstChildElement(els->parent, els->tagName, els->namespaceUri); c != 0; c = xdom_nextSiblingElement(c, els->tagName, els->namespaceUri)) qstrlist_push_back(_ret, xdom_text(c));
}
#define BEQ(a, b) (!(a) == !(b))
int g_k;   /* witness index (DESIGN 5.2) */
/* std::find over a constant table of string views (libstdc++), used by enumFromString */
static inline const qstr *qstr_find(const qstr *first, const qstr *last, qstr v) { for (; first != last; ++first) if (*first == v) return first; return last; }
'''


MODEL_GLUE_ITER = '''
/* `++it` in a range-for header: the lowered real operator++ returns a copy of the iterator, which the loop header drops */
static inline void DomIter_inc_discard(DomIter *it) { DomIter r; DomIter_inc(it, &r); }
'''


def typecheck(cfile, qtdir):
    """strict type check of the generated C (the shared implementation in vlib/runner.py: preprocess, strip contract clauses,
    gcc -Werror=int-conversion ...); a lowering slip is a tool error (exit 2) and never a wrong proof"""
    from vlib.runner import ToolError, typecheck as strict_typecheck
    err = strict_typecheck(cfile, [qtdir])
    if err:
        raise ToolError('generated C does not type-check strictly (%s): %s' % (os.path.basename(cfile), err))


# ---------------------------------------------------------------------------------------------------------------------
# generated contracts
def field_eq(t, a, b):
    """C expression: values a and b of C type t are equal (field by field through nested records and optionals)"""
    if t in CodecLowerer.records:
        fs = CodecLowerer.records[t]
        return '(' + (' && '.join(field_eq(ft, '%s.%s' % (a, f), '%s.%s' % (b, f)) for f, ft in fs) or '1') + ')'
    if t.startswith('Opt'):
        elem = t[3:] if t[3:] in C2CPP else OPT_ELEM[t]
        return '(!%s.has == !%s.has && (!%s.has || %s))' % (a, b, a, field_eq(elem, a + '.v', b + '.v'))
    if t == 'qstrlist':
        return 'QSTRLIST_EQ(%s, %s)' % (a, b)
    if t == 'bool':
        return '(!%s == !%s)' % (a, b)      # a C _Bool read from unconstrained memory may hold a non-canonical byte; a C++ bool cannot
    return '(%s == %s)' % (a, b)


def type_inv(kit, t, a, enum=None):
    """C expression: value a of type t satisfies its type invariant (enum members hold declared enumerators)"""
    parts = []
    if t in kit.layouts:
        for f, ft, en in kit.layouts[t]:
            e = type_inv(kit, ft, '%s.%s' % (a, f), en)
            if e != '1':
                parts.append(e)
    elif t == 'qstrlist':
        parts.append('QSTRLIST_WF(%s)' % a)
    elif t.startswith('Opt'):
        elem = t[3:] if t[3:] in C2CPP else OPT_ELEM[t]
        e = type_inv(kit, elem, a + '.v', enum)
        if e != '1':
            parts.append('(!%s.has || %s)' % (a, e))
    elif enum:
        vs, _ = enum_range(enum)
        if vs == list(range(vs[0], vs[-1] + 1)):
            parts.append('(%s >= %d && %s <= %d)' % (a, vs[0], a, vs[-1]))
        else:
            parts.append('(' + ' || '.join('%s == %d' % (a, v) for v in vs) + ')')
    return '(' + ' && '.join(parts) + ')' if parts else '1'
