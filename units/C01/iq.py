"""C01 / C02 coverage extension: the loop-free IQ payload codecs (parseElementFromChild / toXmlElementFromChild of QXmppIq
subclasses) and the QXmppIq header (QXmppIq::parse / toXml with QXmppStanza::parse), on the abstract XML tree.

A payload codec is written INSIDE an <iq xmlns='jabber:client'/> element and its parser is handed that <iq/> element,
exactly as QXmppIq::toXml / QXmppIq::parse do."""
import os, re, hashlib
from vlib import astx, ctx
from vlib.configure import REPO
from vlib.unit import Spec
from vlib.cxx2c import Unsupported, strip_type
import codec
from codec import Resolver
import presence

B = 'src/base/'
# (class, source file of the member definitions, has a parser)
PAYLOADS = [
    ('QXmppBindIq', B + 'QXmppBindIq.cpp', True),
    ('QXmppVersionIq', B + 'QXmppVersionIq.cpp', True),
    ('QXmppNonSASLAuthIq', B + 'QXmppNonSASLAuth.cpp', True),
    ('QXmppEntityTimeIq', B + 'QXmppEntityTimeIq.cpp', True),
    ('QXmppIbbOpenIq', B + 'QXmppIbbIq.cpp', True),
    ('QXmppIbbCloseIq', B + 'QXmppIbbIq.cpp', True),
    ('QXmppIbbDataIq', B + 'QXmppIbbIq.cpp', True),
]
# serialisers without members: the contract is that the class's own recogniser accepts the output
RECOGNISED = [
    ('QXmppPingIq', B + 'QXmppPingIq.cpp', 'isPingIq', 'get'),
    ('QXmppSessionIq', B + 'compat/removed_api.cpp', 'isSessionIq', None),
]
# members that toXml writes only under a condition on ANOTHER member (C expression over X.), and stated value domains
SURVIVES_IF = {('QXmppEntityTimeIq', 'm_tzo'): 'X.m_utc != 0'}
DOMAIN = {'QXmppEntityTimeIq': ('X.m_tzo % 60 == 0 && X.m_tzo > -86400 && X.m_tzo < 86400',
                                'QXmppEntityTimeIq: the time-zone offset is a whole number of minutes below 24 h (XEP-0082 writes +hh:mm; QXmppUtils::timezoneOffsetToString goes through QTime)')}

# recorded findings of the fixpoint contract (C02): class -> (finding id suffix, input class over the FIRST parse result A.)
FIX_FINDINGS = {'QXmppEntityTimeIq': ('entitytime-tzo', '(A.m_tzo != 0 && (A.m_utc == 0 || A.m_tzo <= -86400 || A.m_tzo >= 86400))')}

TZO_MODEL = '''
/* ASSUMED contract of QXmppUtils::timezoneOffsetToString / timezoneOffsetFromString (QXmppUtils.cpp; QTime arithmetic and a regular
   expression, not lowered): on whole minutes below 24 h they are mutually inverse ("Z" for 0, +hh:mm / -hh:mm otherwise); a string
   that is no offset (in particular the empty string) reads as 0.  Checked natively on the whole stated domain (replay_iq.cpp tzo). */
qstr __CPROVER_uninterpreted_tzo_str(int secs);
int __CPROVER_uninterpreted_tzo_parse(qstr s);
static inline qstr timezoneOffsetToString(int secs) { qstr r = __CPROVER_uninterpreted_tzo_str(secs);
  __CPROVER_assume(r != 0 && (!(secs % 60 == 0 && secs > -86400 && secs < 86400) || __CPROVER_uninterpreted_tzo_parse(r) == secs)); return r; }
static inline int timezoneOffsetFromString(qstr s) { if (s == 0) return 0; int r = __CPROVER_uninterpreted_tzo_parse(s);
  __CPROVER_assume(r % 60 == 0 && r >= -362340 && r <= 362340);      /* +-(hh * 3600 + mm * 60) with two decimal digits each */
  return r; }
'''


def class_record(src, cls):
    """C record of the class's OWN data members, from its real definition (header)"""
    decls = [d for d in astx.find_decls(os.path.join(REPO, src), cls, 'CXXRecordDecl', cls) if d.get('completeDefinition')]
    if len({d['id'] for d in decls}) != 1:
        raise astx.ExtractError('record %s: %d complete definitions found' % (cls, len({d['id'] for d in decls})))
    res = Resolver(())
    fields = []
    for c in decls[0]['inner']:
        if c.get('kind') != 'FieldDecl':
            continue
        ct = None
        for cand in (c['type'].get('desugaredQualType'), c['type'].get('qualType')):
            if cand:
                ct = res.resolve(strip_type(cand))
                if ct:
                    break
        if ct is None:
            raise Unsupported('member %s::%s of type %s is not modelled' % (cls, c['name'], c['type'].get('qualType')))
        fields.append((c['name'], ct))
    body = ''.join('  %s %s;\n' % (t, f) for f, t in fields) or '  char unused_;\n'
    return 'typedef struct %s {\n%s} %s;' % (cls, body, cls), fields


def iq_calls():
    c = {k: v for k, v in presence.presence_calls().items() if not k.startswith('QXmppPresence::')}
    c.update({
        'qstr::toLong/0': ('expr', 'qstr_toLongLong({0}, NULL)'),        # long is 64 bit on this target; Qt: toIntegral_helper<long>
        'fn:isIqType/3': ('callee', 'isIqType'),
        'fn:timezoneOffsetFromString/1': ('fn', 'timezoneOffsetFromString'),
        'fn:timezoneOffsetToString/1': ('fn', 'timezoneOffsetToString'),
    })
    return c


def build_kit(uid, work):
    presence.register_types()
    T = codec.SCALAR_TYPES
    helpers = {'isIqType': (codec.UTILS, 'isIqType', 'isIqType', {}, codec.NS)}
    for cls, src, _ in PAYLOADS:
        T[cls] = cls
        for fn in ('parseElementFromChild', 'toXmlElementFromChild'):
            helpers['%s_%s' % (cls, fn)] = (src, cls + '::' + fn, fn, {'this': cls}, '')
    for cls, src, rec, _ in RECOGNISED:
        T[cls] = cls
        helpers['%s_toXmlElementFromChild' % cls] = (src, cls + '::toXmlElementFromChild', 'toXmlElementFromChild', {'this': cls}, '')
        helpers['%s_%s' % (cls, rec)] = (src, cls + '::' + rec, rec, {}, '')
    codec.HELPERS.update(helpers)
    codec.HELPERS.update(presence.HELPERS)
    kit = codec.Kit(uid, work)
    kit.prof.calls.update(iq_calls())
    classes = [c for c, _, _ in PAYLOADS] + [c for c, _, _, _ in RECOGNISED]
    kit.prof.class_types |= set(classes)
    kit.prefetch([(src, cls) for cls, src, _ in PAYLOADS] + [(src, cls + '::') for cls, src, _, _ in RECOGNISED] + [(codec.UTILS, 'isIqType')])
    recs = []
    kit.iq_fields = {}
    for cls, src, _ in PAYLOADS:
        r, f = class_record(src, cls)
        recs.append(r)
        kit.iq_fields[cls] = f
    for cls, src, _, _ in RECOGNISED:
        recs.append('typedef struct %s { char unused_; } %s;' % (cls, cls))
    kit.records = kit.records + 'typedef int qsub;\n' + '\n'.join(recs) + '\n' + TZO_MODEL
    return kit


def eq(t, a, b):
    return '(!%s == !%s)' % (a, b) if t == 'bool' else '(%s == %s)' % (a, b)


IQ_OPEN = '  xw_writeStartElement(&w, S("iq")); xw_writeDefaultNamespace(&w, S("jabber:client")); xw_set_base();   /* the <iq/> the payload is written into */\n'
IQ_CLOSE = '  xw_finish();\n  gh_payload_ok = XW_ONE_COMPLETE_ELEMENT();\n  gh_x.base = 0; xw_writeEndElement(&w);   /* </iq> */\n'
GHOST = 'bool gh_payload_ok;   /* the payload serialiser appended exactly one complete well-formed element to the <iq/> */\n'


def roundtrip(kit, cls):
    """y.parseElementFromChild(<iq>x.toXmlElementFromChild()</iq>) reports the same member values, for every value of every member
    and every prior state of y"""
    L = ['__CPROVER_requires(__CPROVER_is_fresh(x, sizeof(*x)) && __CPROVER_is_fresh(y, sizeof(*y)))']
    if cls in DOMAIN:
        L.append('__CPROVER_requires(%s)' % DOMAIN[cls][0].replace('X.', 'x->'))
    L += ['__CPROVER_assigns(*y, gh_x, gh_payload_ok)',
          '//: post.output_is_one_complete_well_formed_element',
          '__CPROVER_ensures(gh_payload_ok && gh_x.wf && gh_x.depth == 0)']
    for f, t in kit.iq_fields[cls]:
        c = SURVIVES_IF.get((cls, f))
        e = eq(t, 'y->' + f, 'x->' + f)
        L += ['//: post.member_%s_survives_the_round_trip' % f, '__CPROVER_ensures(%s)' % (e if not c else '(%s) ==> %s' % (c.replace('X.', 'x->'), e))]
    sp = Spec(kit.b.subst('## contract\n' + '\n'.join(L) + '\n'))
    body = (GHOST + 'void %s_roundtrip(const %s *x, %s *y)\n%s\n{\n  xw w;\n  xw_reset();\n' % (cls, cls, cls, sp.contract) + IQ_OPEN
            + '  %s_toXmlElementFromChild(x, &w);\n' % cls + IQ_CLOSE + '  %s_parseElementFromChild(y, 1 /* the <iq/> element */);\n}\n' % cls)
    return kit.b.subst(body), sp


def fixpoint(kit, cls, guard='1'):
    """parse an ARBITRARY foreign <iq/>-like element, serialise, parse again: same members, well-formed output"""
    g = '' if guard == '1' else '(%s) ==> ' % guard
    L = ['__CPROVER_requires(__CPROVER_is_fresh(a, sizeof(*a)) && __CPROVER_is_fresh(b, sizeof(*b)))',
         '__CPROVER_requires(!X_BUILT(e))',
         '__CPROVER_assigns(*a, *b, gh_x, gh_payload_ok)',
         '//: post.parsed_object_serialises_to_one_well_formed_element',
         '__CPROVER_ensures(%s(gh_payload_ok && gh_x.wf && gh_x.depth == 0))' % g]
    for f, t in kit.iq_fields[cls]:
        L += ['//: post.second_parse_gives_the_same_%s' % f, '__CPROVER_ensures(%s%s)' % (g, eq(t, 'b->' + f, 'a->' + f))]
    sp = Spec(kit.b.subst('## contract\n' + '\n'.join(L) + '\n'))
    body = (GHOST + 'void %s_fixpoint(qdom e, %s *a, %s *b)\n%s\n{\n  xw w;\n  xw_reset();\n  %s_parseElementFromChild(a, e);\n' % (cls, cls, cls, sp.contract, cls) + IQ_OPEN
            + '  %s_toXmlElementFromChild(a, &w);\n' % cls + IQ_CLOSE + '  %s_parseElementFromChild(b, 1 /* the <iq/> element */);\n}\n' % cls)
    return kit.b.subst(body), sp


def recognised(kit, cls, rec, iqtype):
    L = ['__CPROVER_requires(__CPROVER_is_fresh(x, sizeof(*x)))',
         '__CPROVER_assigns(gh_x, gh_payload_ok)',
         '//: post.output_is_one_complete_well_formed_element',
         '__CPROVER_ensures(gh_payload_ok && gh_x.wf && gh_x.depth == 0)',
         '//: post.own_output_is_recognised_by_%s' % rec,
         '__CPROVER_ensures(__CPROVER_return_value)']
    sp = Spec(kit.b.subst('## contract\n' + '\n'.join(L) + '\n'))
    attr = '  xw_writeAttribute(&w, S("type"), S("%s"));\n' % iqtype if iqtype else ''
    body = (GHOST + 'bool %s_roundtrip(const %s *x)\n%s\n{\n  xw w;\n  xw_reset();\n' % (cls, cls, sp.contract) + IQ_OPEN.replace('xw_set_base();', attr.strip() + ' xw_set_base();')
            + '  %s_toXmlElementFromChild(x, &w);\n' % cls + IQ_CLOSE + '  return %s_%s(1 /* the <iq/> element */);\n}\n' % (cls, rec))
    return kit.b.subst(body), sp


def payload_proofs(uid, work, mk_proof, which):
    """which: 'roundtrip' (C01) or 'fixpoint' (C02)"""
    kit = build_kit(uid, work)
    out = []
    for cls, src, _ in PAYLOADS:
        roots = ['%s_toXmlElementFromChild' % cls, '%s_parseElementFromChild' % cls]
        for r in roots:
            kit.need(r)
        if which == 'roundtrip':
            body, sp = roundtrip(kit, cls)
            cname = cls + '_roundtrip'
            harness = 'void h_%s(void) { %s *x; %s *y; %s(x, y); }' % (cname, cls, cls, cname)
            note = 'real %s::toXmlElementFromChild and parseElementFromChild inlined, payload written inside an <iq/>; every value of every member, every prior state of the parsed object' % cls
        else:
            cname = cls + '_fixpoint'
            harness = 'void h_%s(void) { qdom e; %s *a; %s *b; %s(e, a, b); }' % (cname, cls, cls, cname)
            note = 'ARBITRARY foreign element handed to the real %s::parseElementFromChild, then toXmlElementFromChild inside an <iq/>, then parsed again' % cls
            if cls in FIX_FINDINGS:
                suffix, disc = FIX_FINDINGS[cls]
                disc = disc.replace('A.', 'a->')
                fid = '%s-%s' % (uid, suffix)
                body, sp = fixpoint(kit, cls, disc)
                out.append(mk_proof(kit, '%s@%s' % (cname, fid), roots, cname, sp, body, harness, finding=fid, note=note + '; postconditions RESTRICTED to parse results in the input class of finding ' + fid))
                body, sp = fixpoint(kit, cls, '!' + disc)
                note += '; parse results in the input class of the recorded finding %s excluded' % fid
            else:
                body, sp = fixpoint(kit, cls)
        if cls in DOMAIN and which == 'roundtrip':
            note += '; stated domain: ' + DOMAIN[cls][1]
        out.append(mk_proof(kit, cname, roots, cname, sp, body, harness, note=note))
    if which == 'roundtrip':
        for cls, src, rec, iqtype in RECOGNISED:
            roots = ['%s_toXmlElementFromChild' % cls, '%s_%s' % (cls, rec)]
            for r in roots:
                kit.need(r)
            body, sp = recognised(kit, cls, rec, iqtype)
            cname = cls + '_roundtrip'
            out.append(mk_proof(kit, cname, roots, cname, sp, body, 'void h_%s(void) { %s *x; %s(x); }' % (cname, cls, cname),
                                note='%s has no members and no parser: its serialised payload inside an <iq%s/> is accepted by its own recogniser %s (real isIqType inlined)'
                                % (cls, " type='%s'" % iqtype if iqtype else '', rec)))
    return kit, out


# ---------------------------------------------------------------------------------------------------------------------
# QXmppIq header: QXmppIq::parse / toXml with QXmppStanza::parse and the QXmppStanza getters (all real); the payload hooks
# parseElementFromChild / toXmlElementFromChild and the <error/> sub-object are contract-only stubs
IQSRC = 'src/base/QXmppIq.cpp'
HDR_HELPERS = {
    'QXmppIq_parse': (IQSRC, 'QXmppIq::parse', 'parse', {'this': 'QXmppIq'}, ''),
    'QXmppIq_toXml': (IQSRC, 'QXmppIq::toXml', 'toXml', {'this': 'QXmppIq'}, ''),
}
HDR_STUBS = '''
/* contract-only stubs of the virtual payload hooks and of the <error/> sub-object (NOT covered) */
qstr nondet_qstr(void);
static inline void QXmppIq_toXmlElementFromChild_stub(const QXmppIq *self, xw *w) { (void)self;
  /* some payload: one child element with an arbitrary name other than the two children QXmppStanza::parse looks for */
  qstr tag = nondet_qstr(), ns = nondet_qstr();
  __CPROVER_assume(tag != 0 && tag != S("error") && tag != S("addresses"));
  xw_writeStartElement(w, tag); xw_writeDefaultNamespace(w, ns); xw_writeEndElement(w); }
static inline void QXmppIq_parseElementFromChild_stub(QXmppIq *self, qdom e) { (void)self; (void)e; }
static inline qsub QXmppStanza_error_stub(const QXmppStanza *s) { return s->d->error; }
/* with namespace processing the attribute written as xml:lang is read back under its local name `lang` (checked natively:
   units/C01/replay_iq.cpp iq-lang, units/C01/replay_presence.cpp scalars) */
static inline void xw_writeAttribute_ns(xw *w, qstr k, qstr v) { xw_writeAttribute(w, k == S("xml:lang") ? S("lang") : k, v); }
'''


def hdr_calls():
    bc = presence.base_call
    return {
        'QXmppIq::parse/1': bc('QXmppStanza_parse'),
        'QXmppIq::id/0': bc('QXmppStanza_id'), 'QXmppIq::to/0': bc('QXmppStanza_to'), 'QXmppIq::from/0': bc('QXmppStanza_from'), 'QXmppIq::lang/0': bc('QXmppStanza_lang'),
        'QXmppIq::error/0': ('expr', 'QXmppStanza_error_stub(&({0})->stanza)'),
        'QXmppIq::parseElementFromChild/1': ('expr', 'QXmppIq_parseElementFromChild_stub({0}, {1})'),
        'QXmppIq::toXmlElementFromChild/1': ('expr', 'QXmppIq_toXmlElementFromChild_stub({0}, {1})'),
        'op->:QXmppIqPrivate*': ('arg', 0),
        'xw::writeAttribute/2': ('fn', 'xw_writeAttribute_ns'),
    }


def header_kit(uid, work):
    presence.register_types()
    T = codec.SCALAR_TYPES
    T.update({'QXmppIq': 'QXmppIq', 'QXmppIqPrivate': 'QXmppIqPrivate', 'QSharedDataPointer<QXmppIqPrivate>': 'QXmppIqPrivate*'})
    codec.HELPERS.update(presence.HELPERS)
    codec.HELPERS.update(HDR_HELPERS)
    kit = codec.Kit(uid, work)
    kit.prof.calls.update(iq_calls())
    kit.prof.calls.update(hdr_calls())
    kit.prof.class_types |= {'QXmppIq', 'QXmppIqPrivate', 'QXmppStanza', 'QXmppStanzaPrivate'}
    kit.prof.pure_fns |= {'lang', 'id', 'to', 'from'}
    kit.prof.field_rules['qsub::d'] = '{b}'
    S_ = presence.STANZA
    kit.prefetch([(IQSRC, 'QXmppIqPrivate'), (IQSRC, 'QXmppIq::parse'), (IQSRC, 'QXmppIq::toXml'), (IQSRC, 'enumFromString'), (S_, 'QXmppStanzaPrivate'), (S_, 'QXmppStanza::parse'),
                  (S_, 'QXmppStanza::id'), (S_, 'QXmppStanza::to'), (S_, 'QXmppStanza::from'), (S_, 'QXmppStanza::lang')])
    rp, fp = presence.private_record(IQSRC, 'QXmppIqPrivate', 'QXmppIqPrivate')
    rs, fs = presence.private_record(S_, 'QXmppStanzaPrivate', 'QXmppStanzaPrivate')
    if dict(fp) != {'type': 'int'}:
        raise Unsupported('QXmppIqPrivate has members %s, the contract expects exactly `type`' % dict(fp))
    for f in ('to', 'from', 'id', 'lang'):
        if dict(fs).get(f) != 'qstr':
            raise Unsupported('QXmppStanzaPrivate::%s is not a string' % f)
    st = presence.STUBS.split('typedef int qsub;')
    kit.records = (st[0] + 'typedef int qsub;\n' + kit.records + rs + '\n' + rp + '\n'
                   + 'typedef struct QXmppStanza { QXmppStanzaPrivate *d; } QXmppStanza;\ntypedef struct QXmppIq { QXmppStanza stanza; QXmppIqPrivate *d; } QXmppIq;\n'
                   + st[1] + kit.b.subst(HDR_STUBS))
    vals = ctx.enum_values(os.path.join(REPO, IQSRC), 'QXmppIq::Type')
    vs = sorted(vals.values())
    if vs != list(range(len(vs))):
        raise Unsupported('enum QXmppIq::Type is not 0..n')
    kit.type_max = vs[-1]
    return kit


HDR_MEMBERS = [('id', 'stanza.d->id'), ('to', 'stanza.d->to'), ('from', 'stanza.d->from'), ('lang', 'stanza.d->lang'), ('type', 'd->type')]
FRESH = '__CPROVER_is_fresh({v}, sizeof(*{v})) && __CPROVER_is_fresh({v}->d, sizeof(*{v}->d)) && __CPROVER_is_fresh({v}->stanza.d, sizeof(*{v}->stanza.d))'
LANG = 'iq-lang'


def header_roundtrip(kit, requires=()):
    L = ['__CPROVER_requires(%s)' % FRESH.format(v='x'), '__CPROVER_requires(%s)' % FRESH.format(v='y'),
         '__CPROVER_requires(x->d->type >= 0 && x->d->type <= %d)   /* type invariant: declared enumerators */' % kit.type_max,
         '__CPROVER_requires(x->stanza.d->error == 0)   /* the <error/> sub-object is not covered */']
    L += ['__CPROVER_requires(%s)' % r for r in requires]
    L += ['__CPROVER_assigns(*y->d, *y->stanza.d, gh_x)',
          '//: post.output_is_one_complete_well_formed_element', '__CPROVER_ensures(XW_ONE_COMPLETE_ELEMENT())']
    for name, path in HDR_MEMBERS:
        L += ['//: post.member_%s_survives_the_round_trip' % name, '__CPROVER_ensures(y->%s == x->%s)' % (path, path)]
    sp = Spec(kit.b.subst('## contract\n' + '\n'.join(L) + '\n'))
    body = ('void QXmppIq_roundtrip(const QXmppIq *x, QXmppIq *y)\n%s\n{\n  xw w;\n  xw_reset();\n  QXmppIq_toXml(x, &w);\n  xw_finish();\n  QXmppIq_parse(y, gh_x.root);\n}\n' % sp.contract)
    return body, sp


def header_fixpoint(kit, guard='1'):
    g = '' if guard == '1' else '(%s) ==> ' % guard
    L = ['__CPROVER_requires(%s)' % FRESH.format(v='a'), '__CPROVER_requires(%s)' % FRESH.format(v='b'),
         '__CPROVER_requires(!X_BUILT(e))',
         '/* BOUND of this stand-in: the foreign element has at most two <address/> children under <addresses/> */',
         '__CPROVER_requires(ADDRS(e) == 0 || ADDR1(e) == 0 || ADDR2(e) == 0 || ADDR3(e) == 0)',
         '__CPROVER_assigns(*a->d, *a->stanza.d, *b->d, *b->stanza.d, gh_x)',
         '//: post.parsed_type_is_a_declared_enumerator', '__CPROVER_ensures(a->d->type >= 0 && a->d->type <= %d)' % kit.type_max,
         '//: post.parsed_object_serialises_to_one_well_formed_element', '__CPROVER_ensures(%s(a->stanza.d->error != 0 || XW_ONE_COMPLETE_ELEMENT()))' % g]
    for name, path in HDR_MEMBERS:
        L += ['//: post.second_parse_gives_the_same_%s' % name, '__CPROVER_ensures(%s(a->stanza.d->error != 0 || b->%s == a->%s))' % (g, path, path)]
    sp = Spec(kit.b.subst('## contract\n' + '\n'.join(L) + '\n'))
    macros = kit.b.subst('#define ADDRS(e) __CPROVER_uninterpreted_dom_first_child((e), S("addresses"), 0)\n'
                         '#define ADDR1(e) __CPROVER_uninterpreted_dom_first_child(ADDRS(e), S("address"), 0)\n'
                         '#define ADDR2(e) __CPROVER_uninterpreted_dom_next_sibling(ADDR1(e), S("address"), 0)\n'
                         '#define ADDR3(e) __CPROVER_uninterpreted_dom_next_sibling(ADDR2(e), S("address"), 0)\n')
    body = (macros + 'void QXmppIq_fixpoint(qdom e, QXmppIq *a, QXmppIq *b)\n%s\n{\n  xw w;\n  xw_reset();\n  a->stanza.d->error = 0; a->stanza.d->extendedAddresses = 0;   /* default-constructed */\n'
            '  QXmppIq_parse(a, e);\n  if (a->stanza.d->error == 0) {       /* an <error/> child is a sub-object (not covered) */\n    QXmppIq_toXml(a, &w);\n    xw_finish();\n    QXmppIq_parse(b, gh_x.root);\n  }\n}\n' % sp.contract)
    return body, sp


def header_proofs(uid, work, mk_proof, which):
    kit = header_kit(uid, work)
    roots = ['QXmppIq_toXml', 'QXmppIq_parse']
    for r in roots:
        kit.need(r)
    out = []
    base_note = ('real QXmppIq::toXml, QXmppIq::parse, QXmppStanza::parse, QXmppStanza::id/to/from and the enumFromString<QXmppIq::Type, 4> instantiation inlined; the payload hooks '
                 'toXmlElementFromChild / parseElementFromChild and the <error/> sub-object are contract-only stubs (one arbitrary payload child is written)')
    if which == 'roundtrip':
        cname = 'QXmppIq_roundtrip'
        harness = 'void h_%s(void) { QXmppIq *x; QXmppIq *y; %s(x, y); }' % (cname, cname)
        body, sp = header_roundtrip(kit)
        out.append(mk_proof(kit, cname, roots, cname, sp, body, harness, unwindset=['QXmppStanza_parse.0:3'], defines=['XWIDE', 'XN=4'],
                            note=base_note + '; every id / to / from / lang / type'))
    else:
        cname = 'QXmppIq_fixpoint'
        harness = 'void h_%s(void) { qdom e; QXmppIq *a; QXmppIq *b; %s(e, a, b); }' % (cname, cname)
        body, sp = header_fixpoint(kit)
        out.append(mk_proof(kit, cname, roots, cname, sp, body, harness, kind='bounded', unwindset=['QXmppStanza_parse.0:4'], defines=['XWIDE', 'XN=4'],
                            bound_text='at most 2 <address/> children under <addresses/> in the foreign element (loop of QXmppStanza::parse over a sub-object list)',
                            note='ARBITRARY foreign element; ' + base_note))
    return kit, out


ASSUMED_IQ = [
    'IQ payload codecs are written inside, and parsed from, an <iq xmlns=\'jabber:client\'/> element built by the harness, as QXmppIq::toXml / QXmppIq::parse do; QXmpp::Private::isIqType is lowered from the tree',
    'A-QT-HEX / Latin-1 (qtmodel/conv.h): QByteArray::fromHex(toHex(b)) == b, QByteArray::fromBase64(toBase64(b)) == b (lenient decoder), QString::toLatin1(QString::fromUtf8(r)) == r for the ASCII text r these encoders produce; QString::toLong is toLongLong on this LP64 target',
    'QXmppUtils::timezoneOffsetToString / timezoneOffsetFromString (QTime arithmetic + regular expression, not lowered) through their assumed contract: mutually inverse on whole minutes below 24 h, result of the parser is +-(hh*3600 + mm*60) with two decimal digits each, a non-offset reads as 0 (checked natively on the whole stated domain: units/C01/replay_iq.cpp tzo)',
    'stated value domain: ' + DOMAIN['QXmppEntityTimeIq'][1] + '; m_tzo is only serialised together with a valid m_utc (its survival is claimed under that condition)',
    'QXmppIq header: the virtual payload hooks toXmlElementFromChild / parseElementFromChild are contract-only stubs (one arbitrary child element other than <error/> / <addresses/> is written, nothing is read); QXmppStanza::Error (error(), Error::parse, Error::toXml), QXmppExtendedAddress and the extension lists are opaque sub-objects that must be absent (contract-only stubs, units/C01/presence.py STUBS)',
    'QXmppRosterIq::Item: QSet<QString> as a bounded set model (at most 2 distinct strings, iteration in a fixed arbitrary order; proofs labelled bounded); QXmlStreamWriter::writeAttribute("xmlns", uri) is read back as the element\'s default namespace (checked natively: replay_iq.cpp roster-item); the parsed item starts default-constructed (real ItemPrivate constructor initialisers)',
    'QSharedDataPointer::operator-> yields the private record (copy-on-write detaching is not modelled); the parsed object of an IQ payload proof starts in an arbitrary state, that of a header proof has default-constructed (absent) sub-objects',
]


# ---------------------------------------------------------------------------------------------------------------------
# QXmppRosterIq::Item (attributes, one group loop over a QSet<QString>, the MIX channel child): BOUNDED stand-in, at most 2 groups
ROSTER = 'src/base/QXmppRosterIq.cpp'
ITEM_FNS = {'parse': 1, 'toXml': 2, 'setSubscriptionTypeFromStr': 1, 'setSubscriptionStatus': 1, 'getSubscriptionTypeStr': 0, 'subscriptionStatus': 0, 'setSubscriptionType': 1}
ITEM_MODEL = '''
/* QSet<QString>, BOUNDED model: at most 2 distinct strings; iteration in storage order (any fixed order: a set has none) */
typedef struct qstrset { int n; qstr e[2]; } qstrset;
typedef struct qstrset_it { const qstrset *s; int i; } qstrset_it;
#define QSTRSET_WF(a) ((a).n >= 0 && (a).n <= 2 && ((a).n < 2 || (a).e[0] != (a).e[1]))
#define QSTRSET_HAS(a, v) (((a).n > 0 && (a).e[0] == (v)) || ((a).n > 1 && (a).e[1] == (v)))
#define QSTRSET_EQ(a, b) ((a).n == (b).n && ((a).n < 1 || QSTRSET_HAS(b, (a).e[0])) && ((a).n < 2 || QSTRSET_HAS(b, (a).e[1])))
static inline void qstrset_begin(qstrset_it *_ret, const qstrset *s) { _ret->s = s; _ret->i = 0; }
static inline void qstrset_end(qstrset_it *_ret, const qstrset *s) { _ret->s = s; _ret->i = s->n; }
static inline bool qstrset_it_ne(const qstrset_it *a, const qstrset_it *b) { return a->i != b->i; }
static inline qstr qstrset_it_deref(const qstrset_it *a) { __CPROVER_assume(a->i >= 0 && a->i < 2); return a->s->e[a->i]; }
static inline void qstrset_it_inc(qstrset_it *a) { if (a->i < 2) a->i++; }
static inline void qstrset_insert(qstrset *s, qstr v) { if (QSTRSET_HAS(*s, v)) return; __CPROVER_assume(s->n >= 0 && s->n < 2); s->e[s->n] = v; s->n++; }
'''
ITEM_GLUE = '''
/* QXmlStreamWriter::writeAttribute("xmlns", uri) writes a namespace declaration: read back as the element's default namespace
   (checked natively: units/C01/replay_iq.cpp roster-item) */
static inline void xw_writeAttribute_ns(xw *w, qstr k, qstr v) { if (k == S("xmlns")) xw_writeDefaultNamespace(w, v); else xw_writeAttribute(w, k, v); }
'''


def item_calls():
    c = {
        'op->:RosterItemPrivate*': ('arg', 0),
        'qstrset::constBegin/0': ('fnret', 'qstrset_begin', 'qstrset_it'), 'qstrset::constEnd/0': ('fnret', 'qstrset_end', 'qstrset_it'),
        'op!=:qstrset_it:qstrset_it': ('fn', 'qstrset_it_ne'), 'op*:qstrset_it': ('fn', 'qstrset_it_deref'), 'op++:qstrset_it': ('fn', 'qstrset_it_inc'),
        'op<<:qstrset:qstr': ('fn', 'qstrset_insert'),
        'xw::writeAttribute/2': ('fn', 'xw_writeAttribute_ns'),
    }
    for f, n in ITEM_FNS.items():
        if f != 'parse' and f != 'toXml':
            c['RosterItem::%s/%d' % (f, n)] = ('callee', 'RosterItem_' + f)
    return c


def lower_ctor(kit, src, filt, name, cname, this):
    """member initialisers of a ...Private constructor, from the AST (body must be empty); everything else is zero"""
    srcp = os.path.join(REPO, src)
    d = astx.find_function(srcp, filt, name, nparams=0)
    lw = codec.make_lowerer('')(d, cname, kit.prof, this_type=this)
    lw.source_files = [srcp]
    out = ['void %s(%s *self)' % (cname, this), '{', '  memset(self, 0, sizeof(*self));   /* default-constructed members: empty / in-class initialisers (checked to be zero) */']
    for c in d['inner']:
        if c.get('kind') == 'CXXCtorInitializer':
            if 'baseInit' in c:
                continue
            e = lw.skip(c['inner'][0])
            if e.get('kind') in ('CXXConstructExpr', 'CXXDefaultInitExpr') and not [x for x in e.get('inner', []) if x.get('kind') != 'CXXDefaultArgExpr']:
                continue
            out.append('  self->%s = %s;' % (c['anyInit']['name'], lw.expr(c['inner'][0])))
        elif c.get('kind') == 'CompoundStmt' and c.get('inner'):
            raise Unsupported('%s constructor body is not empty' % this)
    out.append('}')
    for et, names in lw.need_enums.items():
        kit.b.need_enums.setdefault((srcp, ()), {}).setdefault(et, set()).update(names)
    text = '\n'.join(out)
    b0, e0 = astx.src_range(d)
    kit.b.functions.append({'function': filt, 'cname': cname, 'file': src, 'lines': [b0, e0], 'ast_hash': astx.node_hash(d),
                            'lowered_c_sha': hashlib.sha256(text.encode()).hexdigest()[:16], 'loops': 0, 'rules_fired': len(lw.fired), 'calls_dropped': 0})
    return text


def item_kit(uid, work):
    T = codec.SCALAR_TYPES
    T.update({'QXmppRosterIq::Item': 'RosterItem', 'Item': 'RosterItem', 'QXmppRosterIq::ItemPrivate': 'RosterItemPrivate', 'ItemPrivate': 'RosterItemPrivate',
              'QSharedDataPointer<QXmppRosterIq::ItemPrivate>': 'RosterItemPrivate*', 'QSharedDataPointer<ItemPrivate>': 'RosterItemPrivate*',
              'QSet<QString>': 'qstrset', 'QSet<QString>::const_iterator': 'qstrset_it'})
    codec.OPAQUE_ENUMS.update({'QXmppRosterIq::Item::SubscriptionType', 'Item::SubscriptionType', 'SubscriptionType'})
    for f, n in ITEM_FNS.items():
        codec.HELPERS['RosterItem_' + f] = (ROSTER, 'QXmppRosterIq::Item::' + f, f, {'this': 'RosterItem', 'nparams': n}, '')
    kit = codec.Kit(uid, work)
    kit.prof.calls.update(item_calls())
    kit.prof.class_types |= {'RosterItem', 'RosterItemPrivate', 'qstrset', 'qstrset_it'}
    kit.prefetch([(ROSTER, 'QXmppRosterIq::Item::' + f) for f in ITEM_FNS] + [(ROSTER, 'ItemPrivate')])
    rp, fp = presence.private_record(ROSTER, 'ItemPrivate', 'RosterItemPrivate')
    kit.item_fields = fp
    kit.records = kit.records + ITEM_MODEL + rp + '\ntypedef struct RosterItem { RosterItemPrivate *d; } RosterItem;\n' + kit.b.subst(ITEM_GLUE)
    vals = ctx.enum_values(os.path.join(REPO, ROSTER), 'QXmppRosterIq::Item::SubscriptionType')
    kit.sub_types = sorted(vals.values())
    return kit


def item_eq(kit, a, b, only_if_mix=('mixParticipantId',)):
    out = []
    for f, t in kit.item_fields:
        if t == 'qstrset':
            e = 'QSTRSET_EQ(%s->d->%s, %s->d->%s)' % (a, f, b, f)
        else:
            e = eq(t, '%s->d->%s' % (a, f), '%s->d->%s' % (b, f))
        if f in only_if_mix:
            e = '(%s->d->isMixChannel) ==> %s' % (b, e)
        out.append((f, e))
    return out


def item_proofs(uid, work, mk_proof, which):
    kit = item_kit(uid, work)
    roots = ['RosterItem_toXml', 'RosterItem_parse']
    for r in roots:
        kit.need(r)
    ctor = lower_ctor(kit, ROSTER, 'QXmppRosterIq::ItemPrivate::ItemPrivate', 'ItemPrivate', 'RosterItemPrivate_ctor', 'RosterItemPrivate')
    fresh = '__CPROVER_is_fresh({v}, sizeof(*{v})) && __CPROVER_is_fresh({v}->d, sizeof(*{v}->d))'
    tinv = '(' + ' || '.join('{v}->d->type == %d' % v for v in kit.sub_types) + ')'
    bound = 'QXmppRosterIq::Item holds at most 2 groups (bounded QSet model); loops unwound 4 times with unwinding assertions'
    uw = ['RosterItem_toXml.0:4', 'RosterItem_parse.0:4']
    if which == 'roundtrip':
        L = ['__CPROVER_requires(%s)' % fresh.format(v='x'), '__CPROVER_requires(%s)' % fresh.format(v='y'),
             '__CPROVER_requires(%s && QSTRSET_WF(x->d->groups))   /* type invariants */' % tinv.format(v='x'),
             '__CPROVER_assigns(*y->d, gh_x)',
             '//: post.output_is_one_complete_well_formed_element', '__CPROVER_ensures(XW_ONE_COMPLETE_ELEMENT())']
        for f, e in item_eq(kit, 'y', 'x'):
            L += ['//: post.member_%s_survives_the_round_trip' % f, '__CPROVER_ensures(%s)' % e]
        sp = Spec(kit.b.subst('## contract\n' + '\n'.join(L) + '\n'))
        body = ctor + '\nvoid RosterItem_roundtrip(const RosterItem *x, bool external, RosterItem *y)\n%s\n{\n  xw w;\n  xw_reset();\n  RosterItem_toXml(x, &w, external);\n  xw_finish();\n  RosterItemPrivate_ctor(y->d);   /* y = QXmppRosterIq::Item() */\n  RosterItem_parse(y, gh_x.root);\n}\n' % sp.contract
        p = mk_proof(kit, 'QXmppRosterIqItem_roundtrip', roots, 'RosterItem_roundtrip', sp, body, 'void h_RosterItem_roundtrip(void) { RosterItem *x; bool ext; RosterItem *y; RosterItem_roundtrip(x, ext, y); }',
                     kind='bounded', bound_text=bound, unwindset=uw, defines=['XWIDE', 'XN=6'],
                     note='real QXmppRosterIq::Item::toXml(writer, external) for both values of external, parse, setSubscriptionTypeFromStr, getSubscriptionTypeStr, (set)subscriptionStatus, setSubscriptionType and the ItemPrivate constructor initialisers; every value of every scalar member; groups as a set')
    else:
        macros = kit.b.subst('#define GRP1(e) __CPROVER_uninterpreted_dom_first_child((e), S("group"), 0)\n#define GRP2(e) __CPROVER_uninterpreted_dom_next_sibling(GRP1(e), S("group"), 0)\n'
                             '#define GRP3(e) __CPROVER_uninterpreted_dom_next_sibling(GRP2(e), S("group"), 0)\n')
        L = ['__CPROVER_requires(%s)' % fresh.format(v='a'), '__CPROVER_requires(%s)' % fresh.format(v='b'),
             '__CPROVER_requires(!X_BUILT(e))',
             '/* BOUND of this stand-in: at most two <group/> children */',
             '__CPROVER_requires(e == 0 || GRP1(e) == 0 || GRP2(e) == 0 || GRP3(e) == 0)',
             '__CPROVER_assigns(*a->d, *b->d, gh_x)',
             '//: post.parsed_object_satisfies_its_type_invariants', '__CPROVER_ensures(%s && QSTRSET_WF(a->d->groups))' % tinv.format(v='a'),
             '//: post.parsed_object_serialises_to_one_well_formed_element', '__CPROVER_ensures(XW_ONE_COMPLETE_ELEMENT())']
        for f, e in item_eq(kit, 'b', 'a'):
            L += ['//: post.second_parse_gives_the_same_%s' % f, '__CPROVER_ensures(%s)' % e]
        sp = Spec(kit.b.subst('## contract\n' + '\n'.join(L) + '\n'))
        body = ctor + '\n' + macros + ('void RosterItem_fixpoint(qdom e, bool external, RosterItem *a, RosterItem *b)\n%s\n{\n  xw w;\n  xw_reset();\n  RosterItemPrivate_ctor(a->d);\n  RosterItem_parse(a, e);\n'
                                       '  RosterItem_toXml(a, &w, external);\n  xw_finish();\n  RosterItemPrivate_ctor(b->d);\n  RosterItem_parse(b, gh_x.root);\n}\n' % sp.contract)
        p = mk_proof(kit, 'QXmppRosterIqItem_fixpoint', roots, 'RosterItem_fixpoint', sp, body, 'void h_RosterItem_fixpoint(void) { qdom e; bool ext; RosterItem *a; RosterItem *b; RosterItem_fixpoint(e, ext, a, b); }',
                     kind='bounded', bound_text=bound + '; the foreign element has at most 2 <group/> children', unwindset=uw, defines=['XWIDE', 'XN=6'],
                     note='ARBITRARY foreign <item/>; real QXmppRosterIq::Item::parse, toXml(writer, external), parse')
    return kit, [p]
