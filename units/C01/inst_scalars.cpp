// Instantiating translation unit (DESIGN 2: template bodies exist in clang's AST only when instantiated).
// It contains no code of its own: the verified text is QXmpp's header src/base/QXmppUtils_p.h.
#include "QXmppUtils_p.h"

#include <QString>

namespace QXmpp::Private {
template QString serializeInt<int8_t>(int8_t);
template QString serializeInt<uint8_t>(uint8_t);
template QString serializeInt<int16_t>(int16_t);
template QString serializeInt<uint16_t>(uint16_t);
template QString serializeInt<int32_t>(int32_t);
template QString serializeInt<uint32_t>(uint32_t);
template QString serializeInt<int64_t>(int64_t);
template QString serializeInt<uint64_t>(uint64_t);
}  // namespace QXmpp::Private
