/* units/C03/spec_defs.h -- vocabulary of processData.spec (specification side only) */
#define OLD_BUFFER __CPROVER_old(self->m_dataBuffer)
#define OLD_CACHE __CPROVER_old(self->m_streamOpenElement)
/* the accumulated, not yet parsed text: everything buffered before this call followed by this call's text */
#define BUF text_cat(OLD_BUFFER, DATA)
#define CLOSE_TAG text_atom(S("</stream:stream>"))
/* what the property says is handed to the parser: [cached open tag if the buffer has none] ++ buffer ++ [close tag if it has none] */
#define WRAPPED text_cat3(HAS_OPEN(BUF) ? text_empty() : OLD_CACHE, BUF, HAS_CLOSE(BUF) ? text_empty() : CLOSE_TAG)
#define KEEPALIVE WS_ONLY(BUF)
#define PARSED (!KEEPALIVE && __CPROVER_uninterpreted_xml_parses(WRAPPED))
#define REJECTED (!KEEPALIVE && !__CPROVER_uninterpreted_xml_parses(WRAPPED))
#define ROOT __CPROVER_uninterpreted_xml_root(WRAPPED)
#define N_OPEN (HAS_OPEN(BUF) ? 1u : 0u)
#define N_CLOSE (HAS_CLOSE(BUF) ? 1u : 0u)
#define N_STANZAS ((unsigned)NCHILD(ROOT))
