// native replay for C03: the REAL XmppSocket (src/base/Stream.cpp) fed through a real loopback TCP connection.
//
//   replay_split two <hexA> <hexB>   the stream header, then <message><body>x A B y</body></message> where the bytes A and B arrive in
//                                    two separate socket reads; the delivered body is compared with the one-read delivery.
//                                    exit 1 = the split changed what was delivered (REPRODUCED), 0 = same
//   replay_split split2              a corpus of streams x EVERY 2-way split of the byte sequence (property quantifier); for every
//                                    split the event sequence (stream open, stanzas with content, stream close) is compared with the
//                                    one-read delivery.  exit 1 = differences, all of them at read boundaries inside a multi-byte
//                                    UTF-8 sequence or directly before EF BB BF;  3 = a difference elsewhere;  0 = none
//   replay_split big                 one stream with a single 100 KB roster result, delivered in reads of 4096 bytes, compared with the one-read
//                                    delivery (a buffer that is dropped or truncated while an element is incomplete shows here).  exit 1 = differs
//   replay_split reconnect           ONE XmppSocket: a first plain-TCP connection receives a complete stanza and a fragment of the next one and is
//                                    reset by the peer; the same XmppSocket connects again and receives a valid stream, which is compared with
//                                    the delivery of that stream on a fresh XmppSocket.  exit 1 = the new stream is delivered differently
//   replay_split model               differential check of units/C03/utf8_model.h against the real QString::fromUtf8
//                                    exit 0 = agree everywhere, 2 = the model is wrong (tool error, not a finding)
#include <QCoreApplication>
#include <QDomDocument>
#include <QElapsedTimer>
#include <QSslSocket>
#include <QTcpServer>
#include <QTcpSocket>
#include <QTextStream>
#include <cstdio>
#include <cstdlib>
#include "XmppSocket.h"
#include "utf8_model.h"

using QXmpp::Private::XmppSocket;

static QTcpServer *g_server = nullptr;

static void pump(int ms = 0)
{
    QCoreApplication::processEvents(QEventLoop::AllEvents, ms);
}

static QString show(const QString &s)
{
    QString o;
    for (QChar c : s) {
        if (c.unicode() >= 0x20 && c.unicode() < 0x7f) {
            o += c;
        } else {
            o += QStringLiteral("\\u%1").arg(uint(c.unicode()), 4, 16, QLatin1Char('0'));
        }
    }
    return o;
}

struct Delivery {
    QStringList events;   // OPEN ..., STANZA <xml>, CLOSE   (whitespace keep-alive notifications counted separately)
    int pings = 0;
    int reads = 0;
};

// one connection: the byte sequence `parts[0] parts[1] ...`, every part in its own socket read
static Delivery deliver(const QList<QByteArray> &parts)
{
    Delivery d;
    QSslSocket client;
    qint64 seen = 0;
    // connected BEFORE setSocket: runs before the library's readyRead slot and only looks at the number of bytes waiting
    QObject::connect(&client, &QIODevice::readyRead, [&]() { seen += client.bytesAvailable(); d.reads++; });
    XmppSocket xs(nullptr);
    QObject::connect(&xs, &XmppSocket::streamReceived, [&](const QDomElement &el) {
        d.events << QStringLiteral("OPEN <%1 xmlns='%2' from='%3' id='%4'>").arg(el.tagName(), el.namespaceURI(), el.attribute("from"), el.attribute("id"));
    });
    QObject::connect(&xs, &XmppSocket::stanzaReceived, [&](const QDomElement &el) {
        if (el.isNull()) {
            d.pings++;
            return;
        }
        QString s;
        QTextStream ts(&s);
        el.save(ts, -1);
        d.events << QStringLiteral("STANZA ") + s;
    });
    QObject::connect(&xs, &XmppSocket::streamClosed, [&]() { d.events << QStringLiteral("CLOSE"); });
    xs.setSocket(&client);
    client.connectToHost(QHostAddress(QHostAddress::LocalHost), g_server->serverPort());
    QElapsedTimer t;
    t.start();
    QTcpSocket *peer = nullptr;
    while ((!peer || client.state() != QAbstractSocket::ConnectedState) && t.elapsed() < 5000) {
        pump(5);
        if (!peer) {
            peer = g_server->nextPendingConnection();
        }
    }
    if (!peer || client.state() != QAbstractSocket::ConnectedState) {
        fprintf(stderr, "loopback connection failed\n");
        exit(2);
    }
    peer->setSocketOption(QAbstractSocket::LowDelayOption, 1);
    qint64 sent = 0;
    for (const QByteArray &p : parts) {
        if (p.isEmpty()) {
            continue;
        }
        peer->write(p);
        peer->flush();
        sent += p.size();
        t.restart();
        while (seen < sent && t.elapsed() < 5000) {   // the next part is written only after the client has consumed this one
            pump(1);
        }
        if (seen < sent) {
            fprintf(stderr, "client did not receive the bytes\n");
            exit(2);
        }
    }
    pump(1);
    peer->close();
    peer->deleteLater();
    client.abort();
    pump(0);
    return d;
}

struct Recorder {
    Delivery d;
    void attach(XmppSocket &xs)
    {
        QObject::connect(&xs, &XmppSocket::streamReceived, [this](const QDomElement &el) {
            d.events << QStringLiteral("OPEN <%1 xmlns='%2' from='%3' id='%4'>").arg(el.tagName(), el.namespaceURI(), el.attribute("from"), el.attribute("id"));
        });
        QObject::connect(&xs, &XmppSocket::stanzaReceived, [this](const QDomElement &el) {
            if (el.isNull()) {
                d.pings++;
                return;
            }
            QString s;
            QTextStream ts(&s);
            el.save(ts, -1);
            d.events << QStringLiteral("STANZA ") + s.left(300);
        });
        QObject::connect(&xs, &XmppSocket::streamClosed, [this]() { d.events << QStringLiteral("CLOSE"); });
    }
};

// connect `client` to the loopback server and hand back the server side of the connection
static QTcpSocket *connectPair(QSslSocket &client)
{
    client.connectToHost(QHostAddress(QHostAddress::LocalHost), g_server->serverPort());
    QElapsedTimer t;
    t.start();
    QTcpSocket *peer = nullptr;
    while ((!peer || client.state() != QAbstractSocket::ConnectedState) && t.elapsed() < 5000) {
        pump(5);
        if (!peer) {
            peer = g_server->nextPendingConnection();
        }
    }
    if (!peer || client.state() != QAbstractSocket::ConnectedState) {
        fprintf(stderr, "loopback connection failed\n");
        exit(2);
    }
    peer->setSocketOption(QAbstractSocket::LowDelayOption, 1);
    return peer;
}

static void sendInReads(QTcpSocket *peer, const QList<QByteArray> &parts, qint64 &seen, qint64 &sent)
{
    QElapsedTimer t;
    for (const QByteArray &p : parts) {
        if (p.isEmpty()) {
            continue;
        }
        peer->write(p);
        peer->flush();
        sent += p.size();
        t.restart();
        while (seen < sent && t.elapsed() < 5000) {
            pump(1);
        }
        if (seen < sent) {
            fprintf(stderr, "client did not receive the bytes\n");
            exit(2);
        }
    }
    pump(1);
}

static const char *HEADER = "<?xml version='1.0'?><stream:stream xmlns='jabber:client' xmlns:stream='http://etherx.jabber.org/streams' from='im.example.com' id='s1' version='1.0'>";

static int insideMultibyte(const QByteArray &whole, int cut)   // well-formed sequence of `whole` that straddles `cut`; 2 = EF BB BF starts at cut
{
    int i = 0;
    while (i < whole.size()) {
        cbytes w;
        w.n = qMin(int(whole.size()) - i, U8_MAX);
        for (int k = 0; k < U8_MAX; k++) w.b[k] = k < w.n ? uchar(whole[i + k]) : 0;
        int l = rfc3629_len(&w, 0);
        if (l == 0) l = 1;
        if (i < cut && i + l > cut) return 1;
        i += l;
    }
    if (cut > 0 && whole.mid(cut, 3) == QByteArray("\xEF\xBB\xBF")) return 2;
    return 0;
}

static int modeTwo(const QByteArray &a, const QByteArray &b)
{
    QByteArray pre = QByteArray(HEADER) + "<message from='juliet@im.example.com/balcony' to='romeo@example.net'><body>x";
    QByteArray post = "y</body></message>";
    Delivery one = deliver({ pre + a + b + post });
    Delivery two = deliver({ pre + a, b + post });
    printf("bytes of the body between 'x' and 'y': %s | %s   (read boundary at |)\n", a.toHex(' ').constData(), b.toHex(' ').constData());
    printf("one read   (%d socket reads): %d events\n", one.reads, int(one.events.size()));
    for (const QString &e : one.events) printf("   %s\n", qPrintable(show(e)));
    printf("two reads  (%d socket reads): %d events\n", two.reads, int(two.events.size()));
    for (const QString &e : two.events) printf("   %s\n", qPrintable(show(e)));
    bool same = one.events == two.events;
    printf("%s\n", same ? "same delivery: NOT-REPRODUCED" : "the read boundary changed what was delivered: POST=VIOLATED (REPRODUCED)");
    return same ? 0 : 1;
}

static int modeSplit2()
{
    QList<QByteArray> corpus;
    QByteArray h(HEADER);
    corpus << h + "<message to='a@b.c'><body>Moin</body></message>\n<iq type='get' id='1'><ping xmlns='urn:xmpp:ping'/></iq> \n <presence/></stream:stream>";
    corpus << h + "<message to='a@b.c'><body>caf\xC3\xA9 &amp; &lt;t\xC3\xBCr&gt; 5\xE2\x82\xAC \xF0\x9F\x98\x80</body></message><presence from='r\xC3\xB6meo@example.net/g\xC3\xA4rten'><status>\xE2\x80\x9Chi\xE2\x80\x9D</status></presence>";
    corpus << h + "<message><body>zero\xEF\xBB\xBFwidth</body></message>";
    corpus << h + "\n\n<stream:features><bind xmlns='urn:ietf:params:xml:ns:xmpp-bind'/></stream:features>   <a xmlns='urn:xmpp:sm:3' h='1'/><r xmlns='urn:xmpp:sm:3'/>";
    int total = 0, bad_mb = 0, bad_bom = 0, bad_other = 0, ping_diff = 0;
    for (int c = 0; c < corpus.size(); c++) {
        const QByteArray &s = corpus[c];
        Delivery ref = deliver({ s });
        printf("stream %d: %d bytes, one read delivers %d events (+%d keep-alive notifications)\n", c, int(s.size()), int(ref.events.size()), ref.pings);
        for (int cut = 1; cut < s.size(); cut++) {
            Delivery d = deliver({ s.left(cut), s.mid(cut) });
            total++;
            if (d.pings != ref.pings) ping_diff++;
            if (d.events == ref.events) continue;
            int cls = insideMultibyte(s, cut);
            if (cls == 1) bad_mb++; else if (cls == 2) bad_bom++; else bad_other++;
            // first differing event
            int k = 0;
            while (k < d.events.size() && k < ref.events.size() && d.events[k] == ref.events[k]) k++;
            printf("  VIOLATED stream %d cut %d [%s]: %d events instead of %d; event %d: %s\n", c, cut,
                   cls == 1 ? "inside a multi-byte UTF-8 sequence" : cls == 2 ? "directly before EF BB BF" : "ELSEWHERE",
                   int(d.events.size()), int(ref.events.size()), k, k < d.events.size() ? qPrintable(show(d.events[k]).left(200)) : "(missing)");
        }
    }
    printf("%d two-way splits: %d change the delivery inside a multi-byte sequence, %d directly before EF BB BF, %d elsewhere; "
           "%d splits change only the number of whitespace keep-alive notifications (null element, not compared)\n", total, bad_mb, bad_bom, bad_other, ping_diff);
    if (bad_other) return 3;
    return (bad_mb || bad_bom) ? 1 : 0;
}

static int compare(const char *what, const Delivery &ref, const Delivery &d)
{
    bool same = ref.events == d.events;
    printf("%s: %d events, reference %d events: %s\n", what, int(d.events.size()), int(ref.events.size()), same ? "same" : "DIFFERENT");
    if (!same) {
        int k = 0;
        while (k < d.events.size() && k < ref.events.size() && d.events[k] == ref.events[k]) k++;
        printf("   first difference at event %d: got %s, reference %s\n", k, k < d.events.size() ? qPrintable(show(d.events[k]).left(160)) : "(nothing)",
               k < ref.events.size() ? qPrintable(show(ref.events[k]).left(160)) : "(nothing)");
    }
    return same ? 0 : 1;
}

static int modeBig()
{
    QByteArray s(HEADER);
    s += "<presence from='a@im.example.com/x'/><iq type='result' id='roster1'><query xmlns='jabber:iq:roster'>";
    for (int i = 0; s.size() < 100 * 1024; i++) {
        s += "<item jid='contact" + QByteArray::number(i) + "@im.example.com' name='Contact " + QByteArray::number(i) + "' subscription='both'><group>Friends</group></item>";
    }
    s += "</query></iq><message from='b@im.example.com/y'><body>after the roster</body></message></stream:stream>";
    Delivery ref = deliver({ s });
    // the stream consists of 5 events by construction: open, presence, roster result, message, close
    int burst = ref.events.size() == 5 && ref.events.last() == QStringLiteral("CLOSE") ? 0 : 1;
    printf("whole stream in one burst (%d readyRead signals): %d of 5 events delivered%s\n", ref.reads, int(ref.events.size()),
           burst ? ": bytes were left in the socket or lost, POST=VIOLATED" : "");
    QList<QByteArray> parts;
    for (int off = 0; off < s.size(); off += 4096) parts << s.mid(off, 4096);
    Delivery d = deliver(parts);
    printf("stream of %d bytes with one %d KB element; %d reads of 4096 bytes\n", int(s.size()), int(s.size() / 1024), int(parts.size()));
    int rc = compare("reads of 4096 bytes", ref, d) | burst;
    printf("%s\n", rc ? "POST=VIOLATED (REPRODUCED)" : "NOT-REPRODUCED");
    return rc;
}

static int modeReconnect()
{
    QByteArray first = QByteArray(HEADER) + "<message from='a@im.example.com/x'><body>one</body></message><message from='a@im.example.com/x'><body>cut off he";
    QByteArray second = QByteArray(HEADER) + "<stream:features><bind xmlns='urn:ietf:params:xml:ns:xmpp-bind'/></stream:features><iq type='result' id='b1'/>"
                                              "<message from='b@im.example.com/y'><body>two</body></message></stream:stream>";
    Delivery ref = deliver({ second });
    QSslSocket client;
    qint64 seen = 0, sent = 0;
    QObject::connect(&client, &QIODevice::readyRead, [&]() { seen += client.bytesAvailable(); });
    XmppSocket xs(nullptr);
    Recorder rec;
    rec.attach(xs);
    xs.setSocket(&client);
    QTcpSocket *peer = connectPair(client);
    sendInReads(peer, { first }, seen, sent);
    peer->abort();   // the peer resets the connection; XmppSocket::disconnectFromHost() is not involved
    peer->deleteLater();
    QElapsedTimer t;
    t.start();
    while (client.state() != QAbstractSocket::UnconnectedState && t.elapsed() < 5000) pump(5);
    printf("first connection: %d events delivered, then reset by the peer inside an element (socket state %d)\n", int(rec.d.events.size()), int(client.state()));
    rec.d = Delivery();
    peer = connectPair(client);
    sendInReads(peer, { second }, seen, sent);
    peer->close();
    peer->deleteLater();
    client.abort();
    pump(0);
    int rc = compare("second connection of the same XmppSocket", ref, rec.d);
    printf("%s\n", rc ? "POST=VIOLATED (REPRODUCED)" : "NOT-REPRODUCED");
    return rc;
}

static bool modelAgrees(const QByteArray &in, long &checked)
{
    cbytes cb;
    cb.n = in.size();
    for (int k = 0; k < U8_MAX; k++) cb.b[k] = k < cb.n ? uchar(in[k]) : 0;
    ctext out;
    qt_fromUtf8(&out, &cb);
    QString real = QString::fromUtf8(in);
    checked++;
    bool ok = real.size() == out.n;
    for (int k = 0; ok && k < out.n; k++) ok = real[k].unicode() == out.u[k];
    if (!ok) {
        QString m;
        for (int k = 0; k < out.n; k++) m += QChar(out.u[k]);
        printf("MODEL MISMATCH on %s: Qt gives %s, the model %s\n", in.toHex(' ').constData(), qPrintable(show(real)), qPrintable(show(m)));
    }
    return ok;
}

static int modeModel()
{
    // one representative (and the edges) of every byte class the decoder distinguishes
    const uchar alpha[] = { 0x00, 0x41, 0x7F, 0x80, 0x8F, 0x90, 0x9F, 0xA0, 0xBB, 0xBF, 0xC0, 0xC1, 0xC2, 0xC3, 0xDF, 0xE0, 0xE2, 0xEC, 0xED, 0xEE, 0xEF, 0xF0, 0xF1, 0xF3, 0xF4, 0xF5, 0xFF };
    const int A = sizeof(alpha);
    long checked = 0, bad = 0;
    for (int len = 0; len <= 4; len++) {
        long combos = 1;
        for (int k = 0; k < len; k++) combos *= A;
        for (long x = 0; x < combos; x++) {
            QByteArray in;
            long y = x;
            for (int k = 0; k < len; k++) { in.append(char(alpha[y % A])); y /= A; }
            if (!modelAgrees(in, checked)) bad++;
        }
    }
    // every 2-byte input, every 3-byte input with a lead byte >= 0xE0, and random inputs of up to 8 bytes
    for (int x = 0; x < 65536; x++) { QByteArray in; in.append(char(x >> 8)); in.append(char(x & 255)); if (!modelAgrees(in, checked)) bad++; }
    for (int l = 0xE0; l < 0x100; l++) for (int x = 0; x < 65536; x++) { QByteArray in; in.append(char(l)); in.append(char(x >> 8)); in.append(char(x & 255)); if (!modelAgrees(in, checked)) bad++; }
    srand(12345);
    for (int r = 0; r < 2000000; r++) {
        QByteArray in;
        int len = 5 + rand() % 4;
        for (int k = 0; k < len; k++) in.append(char((rand() % 3) ? alpha[rand() % A] : rand() % 256));
        if (!modelAgrees(in, checked)) bad++;
        if (bad > 20) break;
    }
    printf("utf8_model.h vs QString::fromUtf8 (Qt %s): %ld inputs, %ld disagreements\n", qVersion(), checked, bad);
    return bad ? 2 : 0;
}

int main(int argc, char **argv)
{
    QCoreApplication app(argc, argv);
    QString mode = argc > 1 ? argv[1] : "two";
    if (mode == "model") {
        return modeModel();
    }
    QTcpServer server;
    if (!server.listen(QHostAddress::LocalHost, 0)) {
        fprintf(stderr, "cannot listen on the loopback interface\n");
        return 2;
    }
    g_server = &server;
    if (mode == "split2") {
        return modeSplit2();
    }
    if (mode == "big") {
        return modeBig();
    }
    if (mode == "reconnect") {
        return modeReconnect();
    }
    QByteArray a = QByteArray::fromHex(argc > 2 ? argv[2] : "c3");
    QByteArray b = QByteArray::fromHex(argc > 3 ? argv[3] : "a9");
    return modeTwo(a, b);
}
