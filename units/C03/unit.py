"""C03 -- stream framing is independent of how the byte stream is split into reads (claimed narrowly, DESIGN 6/C03 and 7).

Under contract (real code, lowered on every run):
  XmppSocket::processData                      per-call contract (processData.spec), loop contract over the child iteration
  XmppSocket::setSocket::<lambda#3> (readyRead) "processData is called once with fromUtf8 of exactly the bytes of this read"
  XmppSocket::setSocket::<lambdas connected to `connected` and `encrypted`>: every started() is emitted in the initial framing state
                                               (empty buffer, empty cached stream header) = base case of the framing argument
  the same lambda with a BOUNDED CONCRETE byte model: two reads of <= 4 bytes; decode(a) ++ decode(b) == decode(a ++ b)
Lemma (contracts only): a read that does not complete the buffered text leaves a state from which the next read behaves as if both
reads had arrived in one piece (the text handed to the oracles and to the parser is the same sequence).
"""
import os, re
from vlib.unit import Builder, Target, VERIF, scan_assumes
from vlib.runner import Proof, ToolError
from vlib.cxx2c import Profile, StringTable, Unsupported, Lowerer
from vlib import astx, ctx, configure

QT = os.path.join(VERIF, 'qtmodel')
HERE = os.path.dirname(os.path.abspath(__file__))
SRC = 'src/base/Stream.cpp'
FINDING = 'C03-utf8-split'
FINDING_BOM = 'C03-bom-at-read-start'
U8_MAX = 8

# the two regular expressions the oracle assumption A-ORACLE names (processData); any other pattern text is a change the
# contract cannot judge -> exit 2 (never a violation)
PATTERNS = {
    'streamStartRegex': (r'^(<\?xml.*\?>)?\s*<stream:stream[^>]*>', 'RE_STREAM_OPEN'),
    'streamEndRegex': (r'</stream:stream>$', 'RE_STREAM_CLOSE'),
}


ASSUMED = [
    'A-DOM-PREFIX (UNCHECKED, carries the property as a whole): Qt\'s QDomDocument::setContent rejects [cached header] ++ prefix ++ "</stream:stream>" exactly when the prefix of a valid stream ends inside a top-level element, and accepts it with the same children as the whole stream has up to there otherwise. A theorem about Qt\'s XML parser, not about QXmpp code; known to be imperfect (comment at Stream.cpp:233-237). Without it split-independence of processData does not follow from the per-call contract.',
    'A-TEXT (units/C03/model.h): QString = finite sequence of opaque non-empty chunks (free monoid, at most 8 chunks, packed in 64 bits); append/prepend = concatenation; a literal is one chunk; equality of sequences implies equality of strings under every interpretation of the chunks',
    'A-ORACLE: QRegularExpression::match().hasMatch()/captured() for the two patterns of processData, QString::trimmed().isEmpty(), QDomDocument::setContent(text, true) and documentElement() are uninterpreted functions of the text (captured(0) of a match is non-empty; a parsed document has a root). The lowering accepts exactly the two pattern texts recorded in unit.py; another pattern is exit 2.',
    'A-DOM-SEQ: element children of a node form a finite sequence (at most 10^9) in document order; firstChildElement() is its first member, nextSiblingElement() of the k-th its (k+1)-th',
    'A-SIGNAL: emitting streamReceived/stanzaReceived/streamClosed is a synchronous call that does not modify the XmppSocket (no re-entry into processData from a slot)',
    'A-TEXT-SIZE: QString::size() is the sum of the unknown positive lengths of the chunks (1..2^27 characters each), hence additive over concatenation; nothing else is known about it, so any threshold on the buffer size can be exceeded by a buffer that still holds an incomplete element',
    'A-STARTED: started() is the only announcement of a new stream; the reads of a connection arrive after the connected (plain TCP / STARTTLS first phase) resp. encrypted (direct TLS, STARTTLS second phase) handler has run (Qt delivers readyRead of a connection after connected(); TLS handshake bytes never reach readyRead)',
    'A-SOCKET: ghost `pending` = bytes delivered by the transport and not yet taken; readAll() takes all of them, read(n) the first min(n, pending) and leaves the rest, bytesAvailable() = their number; readyRead() is emitted only when new bytes arrive (bytes a slot leaves behind are not announced again)',
    'A-UTF8-DEC (units/C03/utf8_model.h, bounded proofs only): concrete model of QString::fromUtf8(QByteArray) of Qt 5.15 -- input ends at the first NUL, a leading EF BB BF of the call is skipped, well-formed RFC 3629 sequences give their code point, every other byte (including the bytes of a sequence cut off by the end of the input) gives one U+FFFD. Compared with the real function on 4.7 million inputs by `replay_split.cpp model` (thorough tier: disagreement = exit 2).',
    'stand-in for processData in the bounded two-read lemma: the clause post.on_parse_failure_buffer_is_old_plus_data of its verified contract, read on concrete texts (buffer := old ++ data)',
    'logReceived(...) is logging only (dropped by the lowering; arguments side-effect free)',
]
NOT_COVERED = [
    'the property as a whole (same event sequence for EVERY partition of EVERY valid stream): it needs A-DOM-PREFIX, a theorem about QDomDocument; what is decided here is the per-call contract of processData, the lemma "a rejected read is invisible" over that contract, and the decoding step',
    'content identity of a delivered stanza beyond "it is the k-th child element of the root of the parse of [cached header] ++ buffer ++ [close tag]" (what that element contains is Qt\'s parser)',
    'the number of whitespace keep-alive notifications (stanzaReceived with a null element) does depend on the split: white space arriving alone in a read is notified, white space arriving together with a stanza is not; the contract states the per-call behaviour only',
    'disconnectFromHost (its QByteArrayLiteral expands to a lambda with static data the lowering does not handle; it has no obligation towards the framing state: the reset that matters is the one at connection start, which is under contract), the errorOccurred lambda, sendData, TLS, real socket scheduling, the order of connected()/readyRead() inside Qt (A-STARTED); invalid streams (NUL bytes, ill-formed XML that never parses: the buffer then grows without bound, cf. Stream.cpp:236)',
    'the UTF-8 lemma is bounded: two reads of at most 4 bytes; k-way splits and longer reads follow only informally (decoding is per read and per character)',
    'Qt 6 branches (#if QT_VERSION) are not seen by clang in this configuration',
]
EXPLANATION = ('claimed narrowly (DESIGN 6/C03, 7). Base case: the connected and encrypted lambdas of setSocket emit started() only in the initial framing state; lemma: the first read of a connection is framed from that connection\'s text only. processData: unbounded proof with a loop contract over the child iteration; texts are free-monoid sequences, the parser and '
               'the two regular expressions are oracles. readyRead lambda: verified against the contract of processData with data := fromUtf8(bytes of this read). '
               'Bounded stand-in: the real lambda on a concrete RFC 3629 decoder model, two reads of <= 4 bytes: decode(a) ++ decode(b) == decode(a ++ b) holds when the read '
               'boundary lies between characters and the second read does not start with EF BB BF, and FAILS inside a multi-byte sequence / before EF BB BF '
               '(findings C03-utf8-split, C03-bom-at-read-start; reproduced on the real XmppSocket over loopback TCP by units/C03/replay_split.cpp).')


class UndecidedProof(Proof):
    """a part of the unit that could not be built from the current source (unknown construct): reported as UNDECIDED, while
    the rest of the unit is still checked"""

    def __init__(self, pid, reason):
        super().__init__(pid, None, None, kind='complete')
        self.reason = reason

    def checker_cmd(self):
        return 'not run: ' + self.reason

    def run(self, workdir):
        self.result = {'id': self.id, 'entry': None, 'enforce': None, 'replace': [], 'kind': self.kind, 'status': 'tool-error', 'obligations': [],
                       'solver_time_s': 0.0, 'backend': 'none', 'checker_cmd': self.checker_cmd(), 'bound': '', 'note': '', 'detail': 'lowering: ' + self.reason}
        return self.result


def rd(name):
    return open(os.path.join(HERE, name)).read()


def find_lambda_connected_to(fn_decl, signal):
    """operator() of the lambda passed to QObject::connect(socket, &<...>::<signal>, this, <lambda>) inside fn_decl"""
    hits = []

    def mentions(n, name):
        if n.get('kind') == 'DeclRefExpr' and n.get('referencedDecl', {}).get('name') == name:
            return True
        return any(mentions(c, name) for c in n.get('inner', []) if isinstance(c, dict))

    def lambdas(n, out):
        if n.get('kind') == 'LambdaExpr':
            out.append(n)
            return
        for c in n.get('inner', []):
            if isinstance(c, dict):
                lambdas(c, out)

    def walk(n):
        if n.get('kind') == 'CallExpr':
            inner = n.get('inner', [])
            callee = inner[0] if inner else {}
            if mentions(callee, 'connect') and any(mentions(a, signal) for a in inner[1:3]):
                ls = []
                for a in inner[1:]:
                    lambdas(a, ls)
                if len(ls) == 1:
                    hits.append(ls[0])
                return
        for c in n.get('inner', []):
            if isinstance(c, dict):
                walk(c)
    walk(fn_decl)
    if len(hits) != 1:
        raise astx.ExtractError('expected exactly one lambda connected to %s in setSocket, found %d' % (signal, len(hits)))
    rec = [c for c in hits[0]['inner'] if c.get('kind') == 'CXXRecordDecl'][0]
    ops = [c for c in rec['inner'] if c.get('kind') == 'CXXMethodDecl' and c.get('name') == 'operator()' and astx.has_body(c)]
    if len(ops) != 1:
        raise astx.ExtractError('readyRead lambda: %d operator() bodies' % len(ops))
    return ops[0]


def raw_udl_from_source(lw, n):
    """uR"delim(...)delim"_s: like Lowerer.udl_from_source (the characters of a literal-operator template are not in clang's JSON),
    for the raw-string spelling; the token at the node's own offset must parse as such a literal"""
    b = n.get('range', {}).get('begin', {})
    for k in ('spellingLoc', 'expansionLoc'):
        if k in b:
            b = b[k]
            break
    off, ln = b.get('offset'), b.get('tokLen')
    if off is None or ln is None:
        return None
    for path in getattr(lw, 'source_files', []):
        try:
            data = open(path, 'rb').read()
        except OSError:
            continue
        tok = data[off:off + ln].decode('utf-8', 'replace')
        m = re.fullmatch(r'uR"([^()\\ ]{0,16})\((.*)\)\1"_s', tok, re.S)
        if m:
            return m.group(2)
    return None


def static_regex(lw, v, sp):
    """`static const QRegularExpression x(u"pattern"_s);` -- the same constant object on every call: a const local holding the
    identity of the pattern.  Only the patterns the oracle assumption names are accepted."""
    name = v.get('name')
    if name not in PATTERNS:
        raise Unsupported('static local %s: not one of the regular expressions named by the unit' % name)
    if not re.match(r'\s*const\b', v.get('type', {}).get('qualType', '')):
        raise Unsupported('static regular expression %s is not const' % name)
    lits = []

    def walk(n):
        if n.get('kind') in ('UserDefinedLiteral', 'StringLiteral'):
            lits.append(n)
            return
        for c in n.get('inner', []):
            if isinstance(c, dict):
                walk(c)
    walk(v)
    if len(lits) != 1:
        raise Unsupported('static regular expression %s: initialiser is not one string literal' % name)
    from vlib.cxx2c import find_string
    s = find_string(lits[0])
    if s is None and lits[0].get('kind') == 'UserDefinedLiteral':
        s = lw.udl_from_source(lits[0])
        if s is None:
            s = raw_udl_from_source(lw, lits[0])
    want, const = PATTERNS[name]
    if s != want:
        raise Unsupported('regular expression %s changed (%r): the oracle assumption of the unit names %r; the contract cannot judge another pattern' % (name, s, want))
    opts = [c for c in lw.skip([c for c in v['inner'] if isinstance(c, dict) and 'kind' in c][-1]).get('inner', []) if c.get('kind') != 'CXXDefaultArgExpr']
    if len(opts) != 1:
        raise Unsupported('regular expression %s constructed with pattern options' % name)
    cn, ct = lw.declare_local(v, sp)
    lw.emit('%sconst qregex %s = %s;' % (sp, cn, const))


def base_types():
    return {'QString': 'qtext', 'QDomElement': 'qdom', 'QDomNode': 'qdom', 'QDomDocument': 'QDomDocument', 'QRegularExpression': 'qregex',
            'QRegularExpressionMatch': 'qrematch', 'XmppSocket': 'XmppSocket', 'QXmpp::Private::XmppSocket': 'XmppSocket',
            'QSslSocket': 'QSslSocket', 'QByteArray': 'qbytes'}


def opaque_prof():
    calls = {
        'qtext::append/1': ('fnmut', 'qtext_append'), 'qtext::prepend/1': ('fnmut', 'qtext_prepend'), 'qtext::clear/0': ('fnmut', 'qtext_clear'),
        'qtext::isEmpty/0': ('fn', 'qtext_isEmpty'), 'qtext::trimmed/0': ('fn', 'qtext_trimmed'),
        'qtext::size/0': ('fn', 'qtext_size'), 'qtext::length/0': ('fn', 'qtext_size'), 'qtext::count/0': ('fn', 'qtext_size'),
        'static:streamStartRegex': static_regex, 'static:streamEndRegex': static_regex,
        'qregex::match/1': ('fnret', 'qregex_match', 'qrematch'),
        'qrematch::hasMatch/0': ('fn', 'qrematch_hasMatch'), 'qrematch::captured/0': ('fn', 'qrematch_captured'),
        'ctor:QDomDocument()': ('fn', 'QDomDocument_ctor'),
        'QDomDocument::setContent/2': ('fn', 'QDomDocument_setContent'),
        'QDomDocument::documentElement/0': ('fn', 'QDomDocument_documentElement'),
        'qdom::firstChildElement/0': ('fn', 'qdom_firstChildElement_seq'),
        'qdom::nextSiblingElement/0': ('fn', 'qdom_nextSiblingElement_seq'),
        'qdom::isNull/0': ('expr', '{0} == 0'),
        '*::logReceived/1': ('drop',), '*::debug/1': ('drop',), '*::info/1': ('drop',), '*::warning/1': ('drop',),
        # the connected / encrypted lambdas
        '*::started/0': ('expr', 'ev_started({0}->m_dataBuffer, {0}->m_streamOpenElement)'),
        '*::stanzaReceived/1': ('expr', 'ev_stanzaReceived({1})'),
        '*::streamReceived/1': ('expr', 'ev_streamReceived({1})'),
        '*::streamClosed/0': ('expr', 'ev_streamClosed()'),
        # the readyRead lambda
        'QSslSocket::readAll/0': ('fn', 'QSslSocket_readAll'), 'QSslSocket::read/1': ('fn', 'QSslSocket_read'),
        'QSslSocket::bytesAvailable/0': ('fn', 'QSslSocket_bytesAvailable'),
        'fn:fromUtf8/1': ('fn', 'qtext_fromUtf8'), 'fn:fromLatin1/1': ('fn', 'qtext_fromOtherCodec'), 'fn:fromLocal8Bit/1': ('fn', 'qtext_fromOtherCodec'),
        'XmppSocket::processData/1': ('callee', 'XmppSocket_processData'),
    }
    p = Profile(types=base_types(), class_types={'qrematch', 'QDomDocument', 'XmppSocket', 'QSslSocket'}, calls=calls,
                literal_ids=StringTable(), string_types={'qtext'}, pure_fns={'documentElement', 'peerAddress', 'peerPort', 'errorString'})
    return p


SOCKET_MODEL = """
/* A-SOCKET  the receive side of the QSslSocket: a ghost byte string `pending` = the bytes the transport has delivered and the
   application has not taken yet.  A byte string is an opaque id with a length (0 = empty); LEFT(b, n) / REST(b, n) are its first n
   bytes and what follows them (uninterpreted, with only their lengths known).  readAll() takes all pending bytes, read(n) takes the
   first min(n, pending) of them and leaves the rest, bytesAvailable() is the number pending.  readyRead() is emitted when NEW bytes
   arrive, so what a slot leaves behind is not announced again.
   QString::fromUtf8 is an uninterpreted function of the bytes (its bounded concrete model: utf8_model.h). */
typedef int qbytes;
typedef struct QSslSocket { qbytes pending; unsigned reads; } QSslSocket;
long long __CPROVER_uninterpreted_bytes_len(qbytes b);
qbytes __CPROVER_uninterpreted_bytes_left(qbytes b, long long n);
qbytes __CPROVER_uninterpreted_bytes_rest(qbytes b, long long n);
#define BYTES_LEN(b) ((b) == 0 ? 0LL : __CPROVER_uninterpreted_bytes_len(b))
#define MAX_BYTES (1LL << 40)
static inline long long bytes_len(qbytes b) { if (b == 0) return 0; long long l = __CPROVER_uninterpreted_bytes_len(b); __CPROVER_assume(l >= 1 && l <= MAX_BYTES); return l; }
qbytes gh_read_bytes;                      /* the bytes taken from the socket by this slot invocation (last take) */
unsigned gh_takes;                         /* how often bytes were taken */
unsigned char __CPROVER_uninterpreted_utf8_decode(qbytes b);
#define DECODED(b) text_atom(__CPROVER_uninterpreted_utf8_decode(b))
static inline qbytes QSslSocket_readAll(QSslSocket *s) { qbytes b = s->pending; gh_read_bytes = b; gh_takes++; s->pending = 0; s->reads++; return b; }
static inline qbytes QSslSocket_read(QSslSocket *s, long long maxlen) {
  long long have = bytes_len(s->pending);
  qbytes b, rest;
  if (maxlen <= 0 || have == 0) { b = 0; rest = s->pending; }
  else if (maxlen >= have) { b = s->pending; rest = 0; }
  else {
    b = __CPROVER_uninterpreted_bytes_left(s->pending, maxlen); rest = __CPROVER_uninterpreted_bytes_rest(s->pending, maxlen);
    __CPROVER_assume(b != 0 && rest != 0 && b != s->pending && __CPROVER_uninterpreted_bytes_len(b) == maxlen && __CPROVER_uninterpreted_bytes_len(rest) == have - maxlen);
  }
  gh_read_bytes = b; gh_takes++; s->pending = rest; s->reads++;
  return b;
}
static inline long long QSslSocket_bytesAvailable(QSslSocket *s) { return bytes_len(s->pending); }
static inline qtext qtext_fromUtf8(qbytes b) { return DECODED(b); }
unsigned char __CPROVER_uninterpreted_other_codec_decode(qbytes b);      /* fromLatin1 / fromLocal8Bit: some other function of the bytes */
static inline qtext qtext_fromOtherCodec(qbytes b) { return text_atom(__CPROVER_uninterpreted_other_codec_decode(b)); }
"""

# bounded concrete world (utf8_model.h): QByteArray / QString are short arrays
CONCRETE_MODEL = """
typedef struct QSslSocket { cbytes pending; unsigned reads; } QSslSocket;
static inline void QSslSocket_readAll(cbytes *ret, QSslSocket *s) { *ret = s->pending; s->pending.n = 0; s->reads++; }
static inline void QSslSocket_read(cbytes *ret, QSslSocket *s, long long maxlen) {
  int k, take = maxlen <= 0 ? 0 : (maxlen >= s->pending.n ? s->pending.n : (int)maxlen);
  cbytes rest;
  ret->n = take; rest.n = s->pending.n - take;
  for (k = 0; k < U8_MAX; k++) { ret->b[k] = k < take ? s->pending.b[k] : 0; rest.b[k] = (k + take < U8_MAX && k < rest.n) ? s->pending.b[k + take] : 0; }
  s->pending = rest; s->reads++;
}
static inline long long QSslSocket_bytesAvailable(QSslSocket *s) { return s->pending.n; }
"""


class LambdaLowerer(Lowerer):
    """operator() of a lambda is const, the captured `this` of the (non-const) enclosing method is not"""

    def __init__(self, *a, **k):
        super().__init__(*a, **k)
        self.this_const = False


def lambda_spec(pd_spec_text):
    """the contract of the readyRead lambda IS the contract of processData with `data` := fromUtf8(the bytes of this read),
    plus: exactly one readAll, which takes everything that was pending"""
    lines = []
    for ln in pd_spec_text.splitlines():
        if ln.startswith('## loop'):
            break
        if 'text_input(DATA)' in ln:
            continue
        if '__CPROVER_is_fresh(self, sizeof(XmppSocket))' in ln:
            ln = '__CPROVER_requires(__CPROVER_is_fresh(self, sizeof(XmppSocket)) && __CPROVER_is_fresh(self->m_socket, sizeof(QSslSocket)))'
        lines.append(ln)
    lines.insert(2, '__CPROVER_assigns(self->m_socket->pending, self->m_socket->reads, gh_read_bytes, gh_takes)')
    lines += ['//: post.no_byte_pending_at_the_start_of_the_slot_is_left_in_the_socket',
              '__CPROVER_ensures(self->m_socket->pending == 0)',
              '//: post.exactly_the_pending_bytes_are_decoded_and_handed_to_processData_once',
              '__CPROVER_ensures(gh_read_bytes == __CPROVER_old(self->m_socket->pending) && gh_takes == __CPROVER_old(gh_takes) + 1)']
    return '\n'.join(lines) + '\n'


def concrete_prof():
    calls = {
        'QSslSocket::readAll/0': ('fnret', 'QSslSocket_readAll', 'cbytes'), 'QSslSocket::read/1': ('fnret', 'QSslSocket_read', 'cbytes'),
        'QSslSocket::bytesAvailable/0': ('fn', 'QSslSocket_bytesAvailable'),
        'fn:fromUtf8/1': ('fnret', 'qt_fromUtf8', 'ctext'),
        'XmppSocket::processData/1': ('callee', 'XmppSocket_processData'),
    }
    t = {'QString': 'ctext', 'QByteArray': 'cbytes', 'XmppSocket': 'XmppSocket', 'QXmpp::Private::XmppSocket': 'XmppSocket', 'QSslSocket': 'QSslSocket'}
    return Profile(types=t, class_types={'ctext', 'cbytes', 'XmppSocket', 'QSslSocket'}, calls=calls)


LEMMA_ACC = """
/* LEMMA (contracts only): a read that the parser rejects is invisible.  [processData(d1) rejected ; processData(d2)] leaves the same
   members, asks the oracles about the same text and emits the same events as ONE call processData(d1 ++ d2).  By induction: any
   number of reads none of which completes the buffered text, followed by one that does, behaves like one read of their concatenation. */
void h_lemma_rejected_read_is_invisible(void) {
  XmppSocket a, b; qtext d1 = nondet_ulong(), d2 = nondet_ulong(), buf = nondet_ulong(), cache = nondet_ulong();
  __CPROVER_assume(text_wf(d1) && (d1 >> 8) == 0 && text_wf(d2) && (d2 >> 8) == 0 && text_wf(buf) && (buf >> 8) == 0 && text_input(cache));
  g_k = nondet_int(); __CPROVER_assume(g_k >= 0);
  a.m_dataBuffer = buf; a.m_streamOpenElement = cache; b = a;
  /* two reads */
  gh_ev_total = 0; gh_open_cnt = 0; gh_stanza_cnt = 0; gh_closed_cnt = 0; gh_parse_calls = 0;
  XmppSocket_processData(&a, d1);
  __CPROVER_assume(gh_parse_calls == 1 && !gh_parse_ok);                /* hypothesis: the first read was handed to the parser and rejected */
  __CPROVER_assert(gh_ev_total == 0, "[lemma.rejected_read_emits_nothing]");
  XmppSocket_processData(&a, d2);
  unsigned a_total = gh_ev_total, a_open = gh_open_cnt, a_open_pos = gh_open_pos, a_st = gh_stanza_cnt, a_k_pos = gh_stanza_k_pos, a_cl = gh_closed_cnt, a_cl_pos = gh_closed_pos, a_parse = gh_parse_calls;
  qdom a_open_node = gh_open_node, a_k_node = gh_stanza_k_node, a_last = gh_stanza_last_node; qtext a_in = gh_parse_input; bool a_ok = gh_parse_ok;
  /* one read of d1 ++ d2 */
  gh_ev_total = 0; gh_open_cnt = 0; gh_stanza_cnt = 0; gh_closed_cnt = 0; gh_parse_calls = 1;
  XmppSocket_processData(&b, text_cat(d1, d2));
  bool keepalive = gh_parse_calls == 1;
  __CPROVER_assert(a.m_dataBuffer == b.m_dataBuffer, "[lemma.same_buffer_as_one_read]");
  __CPROVER_assert(a.m_streamOpenElement == b.m_streamOpenElement, "[lemma.same_cached_open_tag_as_one_read]");
  __CPROVER_assert(a_parse == gh_parse_calls && (keepalive || (a_in == gh_parse_input && a_ok == gh_parse_ok)), "[lemma.parser_sees_the_same_text_as_one_read]");
  __CPROVER_assert(a_total == gh_ev_total && a_open == gh_open_cnt && a_st == gh_stanza_cnt && a_cl == gh_closed_cnt, "[lemma.same_number_of_events_of_each_kind_as_one_read]");
  __CPROVER_assert(a_open == 0 || (a_open_pos == gh_open_pos && a_open_node == gh_open_node), "[lemma.same_stream_open_event_as_one_read]");
  __CPROVER_assert(!(gh_parse_ok && !keepalive && (unsigned)g_k < a_st) || (a_k_node == gh_stanza_k_node && a_k_pos == gh_stanza_k_pos), "[lemma.same_stanza_at_every_position_as_one_read]");
  __CPROVER_assert(a_cl == 0 || a_cl_pos == gh_closed_pos, "[lemma.same_stream_close_event_as_one_read]");
}
"""

LEMMA_UTF8 = """
/* BOUNDED LEMMA on the real readyRead lambda with the concrete byte model: two socket reads a, b of <= 4 bytes each.
   XmppSocket_processData is represented by the one clause of its verified contract that matters while a top-level element is
   incomplete (post.on_parse_failure_buffer_is_old_plus_data): the buffer becomes old ++ data. */
void XmppSocket_processData(XmppSocket *self, const ctext *data) {
  ctext r; int ok = ctext_cat(&r, &self->m_dataBuffer, data);
  MODEL_LIMIT(ok, "buffered text longer than U8_MAX code units");
  self->m_dataBuffer = r;
}
PROTO_LAMBDA
unsigned char nondet_uchar(void);
void h_two_reads(void) {
  cbytes a, b, whole; int k;
  a.n = nondet_int(); b.n = nondet_int();
  __CPROVER_assume(a.n >= 0 && a.n <= 4 && b.n >= 0 && b.n <= 4);
  for (k = 0; k < U8_MAX; k++) { a.b[k] = nondet_uchar(); b.b[k] = nondet_uchar(); }
  for (k = 0; k < U8_MAX; k++) { if (k >= a.n) a.b[k] = 0; if (k >= b.n) b.b[k] = 0; }
  /* XML has no U+0000: the bytes of a valid stream contain no NUL (QString::fromUtf8(QByteArray) would stop there) */
  for (k = 0; k < U8_MAX; k++) __CPROVER_assume((k >= a.n || a.b[k] != 0) && (k >= b.n || b.b[k] != 0));
  int ok = cbytes_cat(&whole, &a, &b);
  __CPROVER_assume(ok);
  int straddle = boundary_inside_multibyte_sequence(&whole, a.n);
  int bom = a.n > 0 && read_starts_with_bom_bytes(&b);
#if defined(FINDING_EXCLUDED)
  __CPROVER_assume(!straddle && !bom);
#elif defined(FINDING_ONLY_MULTIBYTE)
  __CPROVER_assume(straddle);
#elif defined(FINDING_ONLY_BOM)
  __CPROVER_assume(bom && !straddle);
#endif
  QSslSocket sock; XmppSocket xs;
  sock.reads = 0; xs.m_socket = &sock; xs.m_dataBuffer.n = 0;
  for (k = 0; k < U8_MAX; k++) xs.m_dataBuffer.u[k] = 0;
  sock.pending = a; XmppSocket_onReadyRead(&xs);
  sock.pending = b; XmppSocket_onReadyRead(&xs);
  ctext want; qt_fromUtf8(&want, &whole);
  __CPROVER_assert(sock.reads == 2 && sock.pending.n == 0, "[lemma.each_read_is_taken_completely_once]");
  __CPROVER_assert(ctext_eq(&xs.m_dataBuffer, &want), "[lemma.text_after_two_reads_is_the_decoding_of_all_bytes_received]");
}
"""


LEMMA_FIRST_READ = """
/* LEMMA (contracts only): base case of the framing argument.  Whatever an earlier connection left behind in the XmppSocket, after the
   connection handlers (connected; with direct TLS: then encrypted) have announced the stream with started(), the first read is framed
   from this connection's own text only: the parser is asked about d ++ [close tag if d has none], and a rejected first read leaves
   exactly d in the buffer. */
void h_lemma_first_read_of_a_connection(void) {
  XmppSocket s; qtext d = nondet_ulong();
  s.m_dataBuffer = nondet_ulong(); s.m_streamOpenElement = nondet_ulong(); s.m_directTls = nondet_bool(); s.m_socket = 0;
  __CPROVER_assume(text_wf(d) && (d >> 16) == 0 && text_input(s.m_dataBuffer) && text_input(s.m_streamOpenElement));
  g_k = nondet_int(); __CPROVER_assume(g_k >= 0);
  gh_started_cnt = 0;
  XmppSocket_onConnected(&s);
  if (s.m_directTls) XmppSocket_onEncrypted(&s);
  __CPROVER_assert(gh_started_cnt == 1 && gh_started_buffer == text_empty() && gh_started_cache == text_empty(), "[lemma.stream_is_announced_once_in_the_initial_framing_state]");
  gh_ev_total = 0; gh_open_cnt = 0; gh_stanza_cnt = 0; gh_closed_cnt = 0; gh_parse_calls = 0;
  XmppSocket_processData(&s, d);
  __CPROVER_assert(gh_parse_calls == 0 || gh_parse_input == text_cat(d, HAS_CLOSE(d) ? text_empty() : CLOSE_TAG), "[lemma.first_read_is_framed_from_this_connections_text_only]");
  __CPROVER_assert(!(gh_parse_calls == 1 && !gh_parse_ok) || s.m_dataBuffer == d, "[lemma.rejected_first_read_leaves_exactly_its_own_text]");
}
"""


def build_connection_lambdas(b, src, mkhead, pd, proofs):
    """connected / encrypted lambdas of setSocket: every started() is emitted in the initial framing state (empty buffer, empty cached
    stream header) -- the precondition under which the first read of a connection is framed"""
    fn = astx.find_function(src, 'XmppSocket::setSocket', 'setSocket')
    texts = {}
    for signal, cname, specf in (('connected', 'XmppSocket_onConnected', 'connected.spec'), ('encrypted', 'XmppSocket_onEncrypted', 'encrypted.spec')):
        lam = find_lambda_connected_to(fn, signal)
        sp = b.spec(specf)
        t = Target(SRC, 'XmppSocket::setSocket', 'operator()', cname, this='XmppSocket', lowerer_cls=LambdaLowerer)
        t.decl = lam
        txt = b.lower(t, sp)
        b.functions[-1]['function'] = 'XmppSocket::setSocket::<lambda connected to %s>' % signal
        texts[cname] = (txt, sp)
    for cname, (txt, sp) in texts.items():
        short = cname.replace('XmppSocket_', '')
        f = b.write(short + '.c', mkhead() + txt + 'void h_%s(void) { XmppSocket *self; gh_started_cnt = nondet_uint(); %s(self); }\n' % (short, cname))
        p = Proof(short + '_lambda', f, 'h_' + short, enforce=cname, kind='complete', loop_contracts=False, include_dirs=[QT], timeout=300,
                  note='loop-free; every previous content of buffer and cached header')
        p.labels = {'post': {cname: sp.labels}}
        p.expect_post = len(sp.labels)
        proofs.append(p)
    f = b.write('lemma_first_read.c', mkhead() + '#define DATA (data)\n' + b.prototype(pd) + b.prototype(texts['XmppSocket_onConnected'][0]) + b.prototype(texts['XmppSocket_onEncrypted'][0]) + LEMMA_FIRST_READ)
    p = Proof('lemma.first_read_of_a_connection', f, 'h_lemma_first_read_of_a_connection', enforce=None,
              replace=['XmppSocket_processData', 'XmppSocket_onConnected', 'XmppSocket_onEncrypted'], kind='complete', loop_contracts=False, include_dirs=[QT], timeout=300,
              note='uses only the contracts of the connected / encrypted lambdas and of processData')
    p.expect_post = 3
    proofs.append(p)


def build_lambda_opaque(b, prof, mkhead, pd, lam, proofs):
    """the readyRead lambda (opaque bytes): contract of processData with data := fromUtf8(bytes of this read)"""
    from vlib.unit import Spec
    lsp = Spec(b.subst(lambda_spec(rd('processData.spec'))))
    t = Target(SRC, 'XmppSocket::setSocket', 'operator()', 'XmppSocket_onReadyRead', this='XmppSocket', lowerer_cls=LambdaLowerer)
    t.decl = lam
    lam_c = b.lower(t, lsp)
    if b.last.loops:
        raise Unsupported('the readyRead slot contains a loop: the contract of the unit describes ONE take-decode-deliver step per signal; a slot that drains '
                          'the socket in several steps needs a loop contract over processData and a chunk-wise decoding lemma (not provided)')
    b.functions[-1]['function'] = 'XmppSocket::setSocket::<lambda connected to QSslSocket::readyRead>'
    f = b.write('readyRead.c', mkhead() + '#define DATA (data)\n' + b.prototype(pd) + '#undef DATA\n#define DATA DECODED(gh_read_bytes)\n' + lam_c + """
void h_readyRead(void) {
  XmppSocket *self;
  g_k = nondet_int(); gh_parse_calls = nondet_uint(); gh_read_bytes = nondet_int(); gh_takes = nondet_uint();
  XmppSocket_onReadyRead(self);
}
""")
    p = Proof('readyRead_lambda', f, 'h_readyRead', enforce='XmppSocket_onReadyRead', replace=['XmppSocket_processData'], kind='complete', loop_contracts=False,
              include_dirs=[QT], timeout=600, note='loop-free; processData through its verified contract; the bytes of the read are opaque')
    p.labels = {'post': {'XmppSocket_onReadyRead': lsp.labels}}
    p.expect_post = len(lsp.labels)
    proofs.append(p)


def build_lambda_concrete(cb, src, lam, proofs):
    """the same lambda, bounded concrete bytes: decode(a) ++ decode(b) == decode(a ++ b)"""
    cprof = cb.profile
    crec, _ = ctx.emit_record(src, 'XmppSocket', 'XmppSocket', 'XmppSocket', cprof, opaque_ok=True)
    ct = Target(SRC, 'XmppSocket::setSocket', 'operator()', 'XmppSocket_onReadyRead', this='XmppSocket', lowerer_cls=LambdaLowerer)
    ct.decl = lam
    clam = cb.lower(ct, None)
    if cb.last.loops:
        raise Unsupported('the readyRead slot contains a loop (see readyRead_lambda)')
    cb.functions[-1]['function'] = 'XmppSocket::setSocket::<lambda connected to QSslSocket::readyRead> (bounded concrete byte model)'
    ctext_c = '#include "base.h"\n' + rd('utf8_model.h') + CONCRETE_MODEL + crec + '\n' + cb.context() + '\n' + LEMMA_UTF8.replace('PROTO_LAMBDA', clam)
    f = cb.write('two_reads.c', ctext_c)
    bound = 'two socket reads of <= 4 bytes each (every byte value except NUL); QString::fromUtf8 = concrete model units/C03/utf8_model.h'
    for pid, define, finding, note in (
            ('utf8.two_reads.boundary_between_characters', 'FINDING_EXCLUDED', None, 'read boundary not inside a well-formed multi-byte sequence and second read not starting with EF BB BF: must hold'),
            ('utf8.two_reads.boundary_inside_multibyte_sequence', 'FINDING_ONLY_MULTIBYTE', FINDING, 'restricted to the discriminator of ' + FINDING),
            ('utf8.two_reads.second_read_starts_with_EF_BB_BF', 'FINDING_ONLY_BOM', FINDING_BOM, 'restricted to the discriminator of ' + FINDING_BOM)):
        p = Proof(pid, f, 'h_two_reads', enforce=None, kind='bounded', loop_contracts=False, unwind=U8_MAX + 1, defines=[define], include_dirs=[QT], timeout=600,
                  bound_text=bound, note=note)
        p.expect_post = 2
        if finding:
            p.finding = finding
        proofs.append(p)


def build(work, tier):
    from vlib.unit import Spec
    prof = opaque_prof()
    b = Builder('C03', work, prof)
    src = os.path.join(configure.REPO, SRC)
    rec, fields = ctx.emit_record(src, 'XmppSocket', 'XmppSocket', 'XmppSocket', prof, opaque_ok=True)
    for need in ('m_dataBuffer', 'm_streamOpenElement', 'm_socket'):
        if need not in fields:
            raise Unsupported('XmppSocket has no member %s any more (anchor state of C03)' % need)
    # ---------------------------------------------------------------- processData (opaque texts, oracles)
    sp = b.spec('processData.spec')
    pd = b.lower(Target(SRC, 'XmppSocket::processData', 'processData', 'XmppSocket_processData', this='XmppSocket', parent=None), sp)
    if len(prof.literal_ids.ids) > 200:
        raise ToolError('more string literals than atom names')
    def mkhead():
        # literal table and context (enum / namespace-scope constants the lowered code refers to) as of now
        return '#include "base.h"\n' + prof.literal_ids.table() + b.subst(rd('model.h')) + SOCKET_MODEL + rec + '\n' + b.context() + '\n' + b.subst(rd('spec_defs.h'))
    head = mkhead()
    proofs = []
    harness = """
void h_processData(void) {
  XmppSocket *self; qtext data;
  g_k = nondet_int(); gh_parse_calls = nondet_uint();
  XmppSocket_processData(self, data);
}
"""
    f = b.write('processData.c', head + '#define DATA (data)\n' + pd + harness)
    p = Proof('processData', f, 'h_processData', enforce='XmppSocket_processData', kind='contract', include_dirs=[QT], timeout=600, expect_loops=1,
              note='every buffered text, new text and cached header (free-monoid texts), every answer of the four oracles, a root with any number of children')
    p.labels = {'post': {'XmppSocket_processData': sp.labels}, 'inv': {'XmppSocket_processData': sp.inv_labels.get(0, [])}}
    p.expect_post = len(sp.labels)
    proofs.append(p)
    # ---------------------------------------------------------------- lemma over the contract only
    f = b.write('lemma_rejected_read.c', head + '#define DATA (data)\n' + b.prototype(pd) + LEMMA_ACC)
    p = Proof('lemma.rejected_read_is_invisible', f, 'h_lemma_rejected_read_is_invisible', enforce=None, replace=['XmppSocket_processData'], kind='complete',
              loop_contracts=False, include_dirs=[QT], timeout=600,
              note='uses only the contract of processData (three calls replaced by it); texts of one chunk each')
    p.expect_post = 8
    proofs.append(p)
    # the same comparison on the REAL body (three inlined calls, loops closed by the loop contract): the property's postcondition at the text
    # level -- what is delivered after [d1 (rejected); d2] is what ONE read of d1 ++ d2 delivers
    f = b.write('split_two_reads.c', head + '#define DATA (data)\n' + pd + LEMMA_ACC.replace('h_lemma_rejected_read_is_invisible', 'h_split_two_reads_vs_one_read'))
    p = Proof('split.two_reads_deliver_what_one_read_delivers', f, 'h_split_two_reads_vs_one_read', enforce=None, replace=[], kind='contract',
              loop_contracts=True, expect_loops=1, include_dirs=[QT], timeout=900,
              note='real processData inlined three times (no contract replacement); texts of one chunk each; any number of children')
    p.labels = {'inv': {'XmppSocket_processData': sp.inv_labels.get(0, [])}}
    p.expect_post = 8
    proofs.append(p)
    # ---------------------------------------------------------------- base case: the connected / encrypted lambdas of setSocket
    try:
        build_connection_lambdas(b, src, mkhead, pd, proofs)
    except (Unsupported, astx.ExtractError) as e:
        proofs.append(UndecidedProof('connection_start', str(e)))
    head = mkhead()
    cb = Builder('C03', work, concrete_prof())
    try:
        fn = astx.find_function(src, 'XmppSocket::setSocket', 'setSocket')
        lam = find_lambda_connected_to(fn, 'readyRead')
    except (Unsupported, astx.ExtractError) as e:
        lam = None
        proofs.append(UndecidedProof('readyRead_lambda', str(e)))
    if lam is not None:
        try:
            build_lambda_opaque(b, prof, mkhead, pd, lam, proofs)
        except Unsupported as e:
            proofs.append(UndecidedProof('readyRead_lambda', str(e)))
        try:
            build_lambda_concrete(cb, src, lam, proofs)
        except Unsupported as e:
            proofs.append(UndecidedProof('utf8.two_reads', str(e)))
    functions = b.functions + cb.functions
    fired = dict(b.fired)
    for k, v in cb.fired.items():
        fired[k] = fired.get(k, 0) + v
    native_note = ''
    if tier == 'thorough':
        # second SAT back end on the central proof
        p0 = proofs[0]
        p2 = Proof('processData.minisat', p0.cfile, p0.entry, enforce=p0.enforce, kind='contract', include_dirs=[QT], timeout=1800, expect_loops=1, solver=(),
                   note='same proof, built-in minisat back end')
        p2.labels = p0.labels
        p2.expect_post = p0.expect_post
        proofs.append(p2)
        # the concrete decoder model against the real QString::fromUtf8 (4.7 million inputs); a disagreement is a tool error
        from vlib import native
        try:
            rc, out = native.run_driver(os.path.join(HERE, 'replay_split.cpp'), ['model'], extra_cxx=['-I' + HERE], timeout=900)
        except native.NativeError as e:
            raise ToolError('native driver: %s' % e)
        if rc != 0:
            raise ToolError('units/C03/utf8_model.h disagrees with QString::fromUtf8 of the installed Qt: ' + out[-600:])
        native_note = '; thorough tier: ' + out.strip().splitlines()[-1]
        for fid, args in ((FINDING, ['two', 'c3', 'a9']), (FINDING_BOM, ['two', '78', 'efbbbf']), ('control (boundary between characters)', ['two', '41', 'c3a9'])):
            try:
                rc, out = native.run_driver(os.path.join(HERE, 'replay_split.cpp'), args, extra_cxx=['-I' + HERE], timeout=300)
                native_note += '; native replay %s %s: %s' % (fid, ' '.join(args), 'REPRODUCED' if rc == 1 else 'NOT-REPRODUCED' if rc == 0 else 'replay failed')
            except native.NativeError as e:
                native_note += '; native replay %s failed to build: %s' % (fid, str(e)[-200:])
    return {
        'proofs': proofs, 'functions': functions, 'dropped': b.dropped + cb.dropped, 'fired': fired, 'hooks': [],
        'assumed': ASSUMED, 'assumes': scan_assumes(rd('model.h') + SOCKET_MODEL + LEMMA_ACC + LEMMA_FIRST_READ + LEMMA_UTF8), 'not_covered': NOT_COVERED,
        'explanation': EXPLANATION + native_note,
    }


_NATIVE_CACHE = {}


def find_input(unit, proof, ob, label, work):
    """a failed obligation is replayed on the real XmppSocket over loopback TCP with the driver mode that exercises the input class of
    the failed proof (the class, not CBMC's particular values, is what the obligations are about: texts and bytes are opaque there)"""
    from vlib import native
    drv = os.path.join(HERE, 'replay_split.cpp')
    if proof.id.startswith('utf8.two_reads'):
        tries = [(['two', '78', 'efbbbf'] if 'EF_BB_BF' in proof.id else ['two', 'e282', 'ac'] if 'between' not in proof.id else ['two', 'c3', 'a9'], 1,
                  'bytes of the message body before | after the read boundary (hex)')]
    elif proof.id.startswith(('onConnected', 'onEncrypted', 'lemma.first_read')):
        tries = [(['reconnect'], 1, 'one XmppSocket: first connection reset by the peer inside an element, then a second connection with a valid stream')]
    else:
        tries = [(['big'], 1, 'a stream with one 100 KB element delivered in reads of 4096 bytes, compared with one read'),
                 (['split2'], 3, 'corpus of four streams x every 2-way split; exit 3 = a split outside the recorded UTF-8 finding classes changes the delivery')]
    last = None
    for args, want, meaning in tries:
        key = tuple(args)
        if key not in _NATIVE_CACHE:
            _NATIVE_CACHE[key] = native.run_driver(drv, args, extra_cxx=['-I' + HERE], timeout=900)
        rc, out = _NATIVE_CACHE[key]
        last = {'inputs': {'driver': 'units/C03/replay_split.cpp', 'args': args, 'reproduced_exit_code': want, 'meaning': meaning}, 'native_output': out[-3000:], 'reproduced': rc == want}
        if rc == want:
            break
    return last


def native_replay(rp):
    from vlib import native
    inp = rp.get('inputs') or {}
    args = inp.get('args', ['two', 'c3', 'a9'])
    rc, out = native.run_driver(os.path.join(HERE, 'replay_split.cpp'), args, extra_cxx=['-I' + HERE], timeout=900)
    return rc == inp.get('reproduced_exit_code', 1), out[-3000:]
