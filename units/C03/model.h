/* units/C03/model.h -- Qt models (ASSUMED contracts) and ghost event log for XmppSocket::processData
 *
 * A-TEXT   (free monoid)  A QString is a finite SEQUENCE of at most TEXT_K opaque non-empty chunks (atoms); the literal "x" is the
 *          one-chunk text whose atom is the literal's id; the empty string is the empty sequence.  append / prepend / + are
 *          sequence concatenation (associative by construction), isEmpty = "no chunk".  Equality of sequences implies equality of
 *          the strings they denote under EVERY interpretation of the chunks, so "buffer == old ++ data" proved here holds for all
 *          strings.  The inputs of a proof are texts of 0..2 chunks: one chunk already stands for an arbitrary non-empty string.
 * A-ORACLE QRegularExpression::match(..).hasMatch() / captured(), QString::trimmed().isEmpty() and QDomDocument::setContent are
 *          UNINTERPRETED functions of the text they are applied to (and of the regular expression).  Nothing is known about them
 *          except that equal arguments give equal answers; captured(0) of a successful match is non-empty.
 * A-DOM-SEQ  the element children of a node are a finite sequence c_0 .. c_(n-1) in document order:
 *          firstChildElement() = c_0 (null if n = 0), nextSiblingElement(c_k) = c_(k+1) (null if k+1 = n).
 * A-SIGNAL emitting a signal is a synchronous call that does not touch the XmppSocket's own members (the slots connected by the
 *          library -- handleStanza / handlePacketReceived -- do not re-enter processData).                                       */
#ifndef C03_MODEL_H
#define C03_MODEL_H
#include "base.h"
typedef int qdom;

/* ---------------------------------------------------------------- text = sequence of at most TEXT_K atoms
   packed into one 64-bit word: atom i (1..255; 0 = no atom) in byte i, normal form "non-zero bytes first".  Atoms are names only;
   255 names are far more than the chunks one call can create, so distinct chunks can always have distinct names. */
#define TEXT_K 8
typedef unsigned long long qtext;
#define T_AT(t, i) ((unsigned)(((t) >> (8 * (i))) & 0xFFull))
static inline int text_len(qtext t) {
  return (T_AT(t, 0) != 0) + (T_AT(t, 1) != 0) + (T_AT(t, 2) != 0) + (T_AT(t, 3) != 0) + (T_AT(t, 4) != 0) + (T_AT(t, 5) != 0) + (T_AT(t, 6) != 0) + (T_AT(t, 7) != 0);
}
/* well-formed: non-zero atoms first, zeros after */
static inline bool text_wf(qtext t) {
  return (T_AT(t, 0) != 0 || T_AT(t, 1) == 0) && (T_AT(t, 1) != 0 || T_AT(t, 2) == 0) && (T_AT(t, 2) != 0 || T_AT(t, 3) == 0) && (T_AT(t, 3) != 0 || T_AT(t, 4) == 0) &&
         (T_AT(t, 4) != 0 || T_AT(t, 5) == 0) && (T_AT(t, 5) != 0 || T_AT(t, 6) == 0) && (T_AT(t, 6) != 0 || T_AT(t, 7) == 0);
}
#define text_empty() ((qtext)0)
#define text_atom(x) ((qtext)(unsigned char)(x))
#define text_eq(x, y) ((x) == (y))
static inline qtext text_cat(qtext x, qtext y) {
  int n = text_len(x);
  MODEL_LIMIT(n + text_len(y) <= TEXT_K, "text longer than TEXT_K chunks");
  return n == 0 ? y : n == 1 ? (x | (y << 8)) : n == 2 ? (x | (y << 16)) : n == 3 ? (x | (y << 24)) : n == 4 ? (x | (y << 32)) : n == 5 ? (x | (y << 40)) :
         n == 6 ? (x | (y << 48)) : n == 7 ? (x | (y << 56)) : x;
}
#define text_cat3(a, b, c) text_cat(text_cat((a), (b)), (c))
/* an input about which nothing else is known: well-formed, at most two chunks */
static inline bool text_input(qtext t) { return text_wf(t) && (t >> 16) == 0; }

/* QString member functions (scalar model: the object is passed by address where it is modified) */
static inline void qtext_append(qtext *x, qtext y) { *x = text_cat(*x, y); }
static inline void qtext_prepend(qtext *x, qtext y) { *x = text_cat(y, *x); }
static inline void qtext_clear(qtext *x) { *x = text_empty(); }
static inline bool qtext_isEmpty(qtext x) { return x == 0; }
/* size() / length(): the sum of the (unknown, positive) lengths of the chunks -- additive over concatenation by construction.
   MODEL: one chunk has at most 2^27 characters, so a text of TEXT_K chunks stays below QString's own limit of 2^30. */
int __CPROVER_uninterpreted_text_chunk_len(unsigned char atom);
#define MAX_CHUNK_LEN (1 << 27)
static inline int text_chunk_len(unsigned a) {
  if (a == 0) return 0;
  int l = __CPROVER_uninterpreted_text_chunk_len((unsigned char)a);
  __CPROVER_assume(l >= 1 && l <= MAX_CHUNK_LEN);
  return l;
}
static inline int qtext_size(qtext t) {
  return text_chunk_len(T_AT(t, 0)) + text_chunk_len(T_AT(t, 1)) + text_chunk_len(T_AT(t, 2)) + text_chunk_len(T_AT(t, 3)) +
         text_chunk_len(T_AT(t, 4)) + text_chunk_len(T_AT(t, 5)) + text_chunk_len(T_AT(t, 6)) + text_chunk_len(T_AT(t, 7));
}

/* ---------------------------------------------------------------- oracles */
bool __CPROVER_uninterpreted_text_is_whitespace(qtext t);        /* trimmed().isEmpty() of a non-empty text */
unsigned char __CPROVER_uninterpreted_text_trimmed(qtext t);     /* the chunk "t without leading and trailing white space" */
bool __CPROVER_uninterpreted_re_has_match(int re, qtext subject);
unsigned char __CPROVER_uninterpreted_re_captured0(int re, qtext subject);
bool __CPROVER_uninterpreted_xml_parses(qtext t);                /* QDomDocument::setContent(t, namespaceProcessing = true) succeeds */
qdom __CPROVER_uninterpreted_xml_root(qtext t);                  /* ... and this is then documentElement() */

#define WS_ONLY(t) ((t) == 0 || __CPROVER_uninterpreted_text_is_whitespace(t))
static inline qtext qtext_trimmed(qtext t) {
  if (WS_ONLY(t)) return text_empty();
  unsigned char c = __CPROVER_uninterpreted_text_trimmed(t);
  __CPROVER_assume(c != 0);
  return text_atom(c);
}

/* the two regular expressions of processData.  The lowering rule for `static const QRegularExpression x(literal)` refuses (exit 2)
   any pattern other than the ones recorded in unit.py: the oracle assumption names THESE expressions. */
typedef int qregex;
#define RE_STREAM_OPEN 1
#define RE_STREAM_CLOSE 2
#define HAS_OPEN(t) __CPROVER_uninterpreted_re_has_match(RE_STREAM_OPEN, (t))
#define HAS_CLOSE(t) __CPROVER_uninterpreted_re_has_match(RE_STREAM_CLOSE, (t))
#define OPEN_TAG_OF(t) text_atom(__CPROVER_uninterpreted_re_captured0(RE_STREAM_OPEN, (t)))
typedef struct qrematch { qregex re; bool has; qtext subject; } qrematch;
static inline void qregex_match(qrematch *m, qregex re, qtext subject) {
  m->re = re; m->subject = subject; m->has = __CPROVER_uninterpreted_re_has_match(re, subject);
  __CPROVER_assume(!m->has || __CPROVER_uninterpreted_re_captured0(re, subject) != 0);
}
static inline bool qrematch_hasMatch(const qrematch *m) { return m->has; }
static inline qtext qrematch_captured(const qrematch *m) {
  if (!m->has) return text_empty();
  return text_atom(__CPROVER_uninterpreted_re_captured0(m->re, m->subject));
}

/* ---------------------------------------------------------------- DOM: parse oracle + children as a sequence (A-DOM-SEQ) */
qdom __CPROVER_uninterpreted_dom_child_at(qdom parent, int k);
int __CPROVER_uninterpreted_dom_child_count(qdom parent);
#define CHILD(r, k) __CPROVER_uninterpreted_dom_child_at((r), (k))
#define NCHILD(r) __CPROVER_uninterpreted_dom_child_count(r)
#define MAX_CHILDREN 1000000000
static inline void dom_seq_axioms(qdom r, int k) {
  __CPROVER_assume(NCHILD(r) >= 0 && NCHILD(r) <= MAX_CHILDREN);
  __CPROVER_assume((CHILD(r, k) != 0) == (k >= 0 && k < NCHILD(r)));
}

/* ghost: parser calls, and the iteration cursor of firstChildElement / nextSiblingElement (loop invariants may not call functions,
   so the values the invariant needs are mirrored in plain variables) */
unsigned gh_parse_calls; qtext gh_parse_input; bool gh_parse_ok;
qdom gh_it_root; int gh_it_idx; qdom gh_it_node; int gh_it_cnt; qdom gh_it_wit;
int g_k;                                           /* witness index: an arbitrary position in the list of children */

typedef struct QDomDocument { bool ok; qdom root; } QDomDocument;
static inline void QDomDocument_ctor(QDomDocument *d) { d->ok = false; d->root = 0; }
static inline bool QDomDocument_setContent(QDomDocument *d, qtext t, bool nsProcessing) {
  MODEL_LIMIT(nsProcessing, "setContent without namespace processing");
  gh_parse_calls++; gh_parse_input = t;
  d->ok = __CPROVER_uninterpreted_xml_parses(t);
  gh_parse_ok = d->ok;
  d->root = d->ok ? __CPROVER_uninterpreted_xml_root(t) : 0;
  __CPROVER_assume(!d->ok || d->root != 0);        /* a document that parsed has a document element */
  return d->ok;
}
static inline qdom QDomDocument_documentElement(const QDomDocument *d) { return d->root; }
/* iteration: firstChildElement() starts a cursor (parent, index); nextSiblingElement() of the cursor node is the child at index + 1.
   The cursor is ghost state because loop invariants cannot mention CHILD(..): by A-DOM-SEQ the node handed out at index k IS
   CHILD(parent, k), so the next sibling depends on the index only. */
static inline qdom qdom_firstChildElement_seq(qdom r) {
  MODEL_LIMIT(r != 0, "firstChildElement() of a null element");
  dom_seq_axioms(r, 0); dom_seq_axioms(r, g_k);
  gh_it_root = r; gh_it_idx = 0; gh_it_cnt = NCHILD(r); gh_it_node = CHILD(r, 0); gh_it_wit = CHILD(r, g_k);
  return gh_it_node;
}
static inline qdom qdom_nextSiblingElement_seq(qdom e) {
  if (e == 0) return 0;                                  /* a null element has no siblings */
  MODEL_LIMIT(e == gh_it_node && gh_it_idx >= 0 && gh_it_idx < MAX_CHILDREN, "nextSiblingElement() of a node that is not the current node of the child iteration");
  gh_it_idx = gh_it_idx + 1;
  dom_seq_axioms(gh_it_root, gh_it_idx);
  gh_it_node = CHILD(gh_it_root, gh_it_idx);
  return gh_it_node;
}

/* ---------------------------------------------------------------- event log (signals of XmppSocket), order preserved
   gh_ev_total events so far; every event records its position.  Stanza events: the g_k-th one is kept (witness). */
unsigned gh_ev_total;
unsigned gh_open_cnt, gh_open_pos; qdom gh_open_node;
unsigned gh_stanza_cnt; unsigned gh_stanza_k_pos; qdom gh_stanza_k_node; unsigned gh_stanza_first_pos; qdom gh_stanza_last_node;
unsigned gh_closed_cnt, gh_closed_pos;
static inline void ev_streamReceived(qdom e) { gh_open_cnt++; gh_open_pos = gh_ev_total; gh_open_node = e; gh_ev_total++; }
static inline void ev_stanzaReceived(qdom e) {
  if (gh_stanza_cnt == 0) gh_stanza_first_pos = gh_ev_total;
  if (g_k >= 0 && gh_stanza_cnt == (unsigned)g_k) { gh_stanza_k_pos = gh_ev_total; gh_stanza_k_node = e; }
  gh_stanza_last_node = e;
  gh_stanza_cnt++; gh_ev_total++;
}
static inline void ev_streamClosed(void) { gh_closed_cnt++; gh_closed_pos = gh_ev_total; gh_ev_total++; }
/* started(): the owner (QXmppOutgoingClient / incoming server) sends its stream header and from now on every read of this connection is
   framed by processData.  The framing state at the moment of the emission is recorded. */
unsigned gh_started_cnt; qtext gh_started_buffer, gh_started_cache;
static inline void ev_started(qtext buffer, qtext cache) { gh_started_cnt++; gh_started_buffer = buffer; gh_started_cache = cache; }
#endif
