/* units/C03/utf8_model.h -- BOUNDED CONCRETE model of QString::fromUtf8(const QByteArray &) of Qt 5.15 (QUtf8::convertToUnicode,
 * stateless form) and of QString / QByteArray as short arrays.  ASSUMED contract A-UTF8-DEC; plain C that is also valid C++:
 * the same text is compiled into the native driver (replay_split.cpp, mode `model`) and compared there with the real
 * QString::fromUtf8 on every sequence of <= 4 bytes over a 27-byte class-representative alphabet and on random 8-byte strings.
 *
 * What Qt 5.15 does (read from qutfcodec.cpp / qutfcodec_p.h and confirmed by that differential run):
 *   - the input ends at its first NUL byte (the QByteArray overload measures it with qstrnlen); NUL is not an XML character, so
 *     the lemma is stated for inputs without it;
 *   - a leading EF BB BF of THE CALL'S input is skipped (it is a byte-order mark only at the very start of a stream, but the
 *     stateless function cannot know where the stream started);
 *   - each well-formed RFC 3629 sequence gives its code point (one UTF-16 unit, or a surrogate pair above U+FFFF);
 *   - every byte that does not start a well-formed sequence -- including the bytes of a sequence CUT OFF BY THE END OF THE
 *     INPUT -- gives one U+FFFD and decoding resumes at the next byte.  No state is carried to the next call.             */
#ifndef C03_UTF8_MODEL_H
#define C03_UTF8_MODEL_H
#define U8_MAX 8                          /* bytes of one input (two reads of <= 4 bytes, concatenated) */
typedef struct cbytes { int n; unsigned char b[U8_MAX]; } cbytes;       /* QByteArray, n <= U8_MAX */
typedef struct ctext { int n; unsigned short u[U8_MAX]; } ctext;        /* QString (UTF-16 code units); a byte yields at most one unit */

static inline int u8_is_cont(unsigned char c) { return (c & 0xC0) == 0x80; }

/* Qt's QUtf8Functions::fromUtf8<QUtf8BaseTraits>: first byte at in->b[i]; returns the number of bytes consumed (1..4) and the
   code point in *cp, or 0 for Error / EndOfString (the caller then emits U+FFFD for this one byte) */
static inline int qt_utf8_one(const cbytes *in, int i, unsigned *cp)
{
    unsigned char b = in->b[i];
    int need; unsigned min_uc, uc;
    if (b < 0x80) { *cp = b; return 1; }
    if (b <= 0xC1) return 0;
    else if (b < 0xE0) { need = 2; min_uc = 0x80; uc = b & 0x1Fu; }
    else if (b < 0xF0) { need = 3; min_uc = 0x800; uc = b & 0x0Fu; }
    else if (b < 0xF5) { need = 4; min_uc = 0x10000; uc = b & 0x07u; }
    else return 0;
    if (in->n - (i + 1) < need - 1) return 0;            /* cut off by the end of the input (or an error): U+FFFD either way */
    if (!u8_is_cont(in->b[i + 1])) return 0;
    uc = (uc << 6) | (in->b[i + 1] & 0x3Fu);
    if (need > 2) {
        if (!u8_is_cont(in->b[i + 2])) return 0;
        uc = (uc << 6) | (in->b[i + 2] & 0x3Fu);
        if (need > 3) {
            if (!u8_is_cont(in->b[i + 3])) return 0;
            uc = (uc << 6) | (in->b[i + 3] & 0x3Fu);
        }
    }
    if (uc < min_uc) return 0;                            /* overlong */
    if ((uc >= 0xD800 && uc <= 0xDFFF) || uc > 0x10FFFF) return 0;
    *cp = uc;
    return need;
}

static inline void qt_fromUtf8(ctext *out, const cbytes *in)
{
    int i = 0, k;
    cbytes cut = *in;                                     /* QString::fromUtf8(const QByteArray &) = fromUtf8(data, qstrnlen(data, size)) */
    for (k = U8_MAX - 1; k >= 0; k--) if (k < in->n && in->b[k] == 0) cut.n = k;
    in = &cut;
    out->n = 0;
    for (k = 0; k < U8_MAX; k++) out->u[k] = 0;
    if (in->n >= 3 && in->b[0] == 0xEF && in->b[1] == 0xBB && in->b[2] == 0xBF) i = 3;       /* "BOM" of this call */
    for (k = 0; k < U8_MAX; k++) {
        unsigned cp = 0; int used;
        if (i >= in->n) break;
        used = qt_utf8_one(in, i, &cp);
        if (used == 0) { out->u[out->n++] = 0xFFFD; i += 1; }
        else if (cp < 0x10000) { out->u[out->n++] = (unsigned short)cp; i += used; }
        else { out->u[out->n++] = (unsigned short)(0xD800 + ((cp - 0x10000) >> 10)); out->u[out->n++] = (unsigned short)(0xDC00 + ((cp - 0x10000) & 0x3FF)); i += used; }
    }
}

/* concatenation (MODEL: capacity U8_MAX) */
static inline int cbytes_cat(cbytes *r, const cbytes *x, const cbytes *y)
{
    int k;
    if (x->n < 0 || y->n < 0 || x->n + y->n > U8_MAX) return 0;
    r->n = x->n + y->n;
    for (k = 0; k < U8_MAX; k++) r->b[k] = k < x->n ? x->b[k] : (k - x->n < y->n ? y->b[k - x->n] : 0);
    return 1;
}
static inline int ctext_cat(ctext *r, const ctext *x, const ctext *y)
{
    int k;
    if (x->n < 0 || y->n < 0 || x->n + y->n > U8_MAX) return 0;
    r->n = x->n + y->n;
    for (k = 0; k < U8_MAX; k++) r->u[k] = k < x->n ? x->u[k] : (k - x->n < y->n ? y->u[k - x->n] : 0);
    return 1;
}
static inline int ctext_eq(const ctext *x, const ctext *y)
{
    int k;
    if (x->n != y->n) return 0;
    for (k = 0; k < U8_MAX; k++) if (k < x->n && x->u[k] != y->u[k]) return 0;
    return 1;
}

/* ---- specification side: RFC 3629 section 4 (ABNF table), written independently of Qt's algorithm.
   Length of the well-formed sequence that starts at s->b[i] (all of it inside s), or 0. */
static inline int rfc3629_len(const cbytes *s, int i)
{
    int left = s->n - i;
    unsigned char b0, b1;
    if (left < 1) return 0;
    b0 = s->b[i];
    if (b0 <= 0x7F) return 1;                                                      /* UTF8-1 */
    if (left < 2) return 0;
    b1 = s->b[i + 1];
    if (b0 >= 0xC2 && b0 <= 0xDF) return u8_is_cont(b1) ? 2 : 0;                   /* UTF8-2 */
    if (b0 >= 0xE0 && b0 <= 0xEF) {                                                /* UTF8-3 */
        if (left < 3 || !u8_is_cont(s->b[i + 2])) return 0;
        if (b0 == 0xE0) return (b1 >= 0xA0 && b1 <= 0xBF) ? 3 : 0;
        if (b0 == 0xED) return (b1 >= 0x80 && b1 <= 0x9F) ? 3 : 0;
        return u8_is_cont(b1) ? 3 : 0;
    }
    if (b0 >= 0xF0 && b0 <= 0xF4) {                                                /* UTF8-4 */
        if (left < 4 || !u8_is_cont(s->b[i + 2]) || !u8_is_cont(s->b[i + 3])) return 0;
        if (b0 == 0xF0) return (b1 >= 0x90 && b1 <= 0xBF) ? 4 : 0;
        if (b0 == 0xF4) return (b1 >= 0x80 && b1 <= 0x8F) ? 4 : 0;
        return u8_is_cont(b1) ? 4 : 0;
    }
    return 0;
}
/* discriminator of finding C03-utf8-split: reading `whole` (= a ++ b) from its start, character by character (ill-formed bytes
   one at a time), some well-formed multi-byte sequence starts before the read boundary `cut` and ends after it */
static inline int boundary_inside_multibyte_sequence(const cbytes *whole, int cut)
{
    int i = 0, k, hit = 0;
    for (k = 0; k < U8_MAX; k++) {
        int l;
        if (i >= whole->n) break;
        l = rfc3629_len(whole, i);
        if (l == 0) l = 1;
        if (i < cut && i + l > cut) hit = 1;
        i += l;
    }
    return hit;
}
/* second input class with the same root cause: a read that does not open the stream begins with EF BB BF (U+FEFF, a legal XML
   character, e.g. as zero-width no-break space): the per-read decoder drops it as a "byte-order mark" */
static inline int read_starts_with_bom_bytes(const cbytes *b)
{
    return b->n >= 3 && b->b[0] == 0xEF && b->b[1] == 0xBB && b->b[2] == 0xBF;
}
#endif
