// C10 native replay (finding C10-F2): the REAL QXmppClient with QXmppCarbonManagerV2 against two scripted plain-TCP loopback servers.
// Attempt 1 (server A, script "SASL2 + bind2" with carbons offered inline): the connection is cut
//   replay_bind2 cut-after-sasl2-success  -> right after A sent <success xmlns='urn:xmpp:sasl:2'> carrying <bound xmlns='urn:xmpp:bind:0'/>
//                                            (the bind2 result is stored, the session is not open yet: A has not sent its features)
//   replay_bind2 cut-before-sasl2-success -> right after the client's <authenticate/> (control: nothing stored)
// Attempt 2 (server B, script "STARTTLS-less SASL + legacy bind", no SASL2 / bind2 at all): a following connection attempt must run the
// negotiation from the start: this session did NOT use bind2, so carbons have not been enabled inline and QXmppCarbonManagerV2 must
// enable them with an <iq><enable xmlns='urn:xmpp:carbons:2'/></iq> once the session is established.
// Observed: SessionBegin::bind2Used reported for session 2, CarbonManager::enabled(), and whether the enable request reaches B.
// Prints the observations, then REPRODUCED (exit 0) / NOT-REPRODUCED (exit 1).
#include <QCoreApplication>
#include <QTcpServer>
#include <QTcpSocket>
#include <QTimer>
#include <cstdio>

#include "QXmppCarbonManagerV2.h"
#include "QXmppClient.h"
#include "QXmppConfiguration.h"
#include "QXmppLogger.h"
#include "QXmppOutgoingClient.h"

static const char *HEADER = "<?xml version='1.0'?><stream:stream xmlns='jabber:client' xmlns:stream='http://etherx.jabber.org/streams' id='s1' from='example.org' version='1.0'>";

static QByteArray iqId(const QByteArray &buf)
{
    const int i = buf.lastIndexOf("id=\"");
    return i < 0 ? QByteArray("x") : buf.mid(i + 4, buf.indexOf('"', i + 4) - (i + 4));
}

int main(int argc, char **argv)
{
    QCoreApplication app(argc, argv);
    const QString mode = argc > 1 ? QString::fromLatin1(argv[1]) : QStringLiteral("cut-after-sasl2-success");

    QTcpServer serverA, serverB;
    if (!serverA.listen(QHostAddress::LocalHost, 0) || !serverB.listen(QHostAddress::LocalHost, 0)) {
        std::printf("cannot listen on loopback\n");
        return 2;
    }
    QXmppClient client;
    client.addNewExtension<QXmppCarbonManagerV2>();
    QXmppConfiguration cfg;
    cfg.setHost(QStringLiteral("127.0.0.1"));
    cfg.setPort(serverA.serverPort());
    cfg.setDomain(QStringLiteral("example.org"));
    cfg.setUser(QStringLiteral("alice"));
    cfg.setPassword(QStringLiteral("pw"));
    cfg.setResource(QStringLiteral("r"));
    cfg.setAutoReconnectionEnabled(false);
    cfg.setStreamSecurityMode(QXmppConfiguration::TLSDisabled);
    cfg.setDisabledSaslMechanisms({});   // allow PLAIN (the scripted servers offer nothing else)

    // ---- server A: SASL2 + bind2 (carbons inline), cut at the chosen point
    QByteArray recvA;
    bool aRequestedCarbonsInline = false, aSentSuccess = false;
    QObject::connect(&serverA, &QTcpServer::newConnection, [&]() {
        QTcpSocket *s = serverA.nextPendingConnection();
        QObject::connect(s, &QTcpSocket::readyRead, [&, s]() {
            recvA += s->readAll();
            if (recvA.contains("<stream:stream") && !recvA.contains("<authenticate")) {
                if (!recvA.contains("@sent-features@")) {
                    recvA += "@sent-features@";
                    s->write(HEADER);
                    s->write("<stream:features><authentication xmlns='urn:xmpp:sasl:2'><mechanism>PLAIN</mechanism>"
                             "<inline><bind xmlns='urn:xmpp:bind:0'><inline><feature var='urn:xmpp:carbons:2'/></inline></bind></inline>"
                             "</authentication></stream:features>");
                }
                return;
            }
            if (recvA.contains("</authenticate>") && !aSentSuccess) {
                aRequestedCarbonsInline = recvA.contains("urn:xmpp:bind:0") && recvA.contains("urn:xmpp:carbons:2");
                std::printf("SERVER A: <authenticate/> received, bind2 requested: %s, carbons requested inline: %s\n",
                            recvA.contains("urn:xmpp:bind:0") ? "yes" : "no", aRequestedCarbonsInline ? "yes" : "no");
                aSentSuccess = true;
                if (mode == "cut-after-sasl2-success") {
                    s->write("<success xmlns='urn:xmpp:sasl:2'><authorization-identifier>alice@example.org/r</authorization-identifier><bound xmlns='urn:xmpp:bind:0'/></success>");
                    s->flush();
                    std::printf("SERVER A: sent SASL2 <success/> with <bound/>; cutting the connection before the post-authentication features\n");
                    QTimer::singleShot(200, s, [s]() { s->abort(); });
                } else {
                    std::printf("SERVER A: cutting the connection before answering <authenticate/>\n");
                    s->abort();
                }
            }
        });
    });

    // ---- server B: SASL PLAIN + legacy bind only; records whether carbons are enabled by IQ after the session is established
    QByteArray recvB, afterSessionB;
    int stepB = 0;
    QObject::connect(&serverB, &QTcpServer::newConnection, [&]() {
        QTcpSocket *s = serverB.nextPendingConnection();
        std::printf("SERVER B: client connected (attempt 2)\n");
        QObject::connect(s, &QTcpSocket::readyRead, [&, s]() {
            const QByteArray chunk = s->readAll();
            recvB += chunk;
            if (stepB == 4) {
                afterSessionB += chunk;
                if (chunk.contains("urn:xmpp:carbons:2")) {
                    s->write("<iq xmlns='jabber:client' type='result' id='" + iqId(chunk.left(chunk.indexOf("urn:xmpp:carbons:2"))) + "'/>");
                }
                return;
            }
            if (stepB == 0 && recvB.contains("<stream:stream")) {
                recvB.clear();
                s->write(HEADER);
                s->write("<stream:features><mechanisms xmlns='urn:ietf:params:xml:ns:xmpp-sasl'><mechanism>PLAIN</mechanism></mechanisms></stream:features>");
                stepB = 1;
            } else if (stepB == 1 && recvB.contains("<auth")) {
                recvB.clear();
                s->write("<success xmlns='urn:ietf:params:xml:ns:xmpp-sasl'/>");
                stepB = 2;
            } else if (stepB == 2 && recvB.contains("<stream:stream")) {
                recvB.clear();
                s->write(HEADER);
                s->write("<stream:features><bind xmlns='urn:ietf:params:xml:ns:xmpp-bind'/></stream:features>");
                stepB = 3;
            } else if (stepB == 3 && recvB.contains("urn:ietf:params:xml:ns:xmpp-bind") && recvB.contains("</iq>")) {
                const QByteArray id = iqId(recvB.left(recvB.indexOf("urn:ietf:params:xml:ns:xmpp-bind")));
                recvB.clear();
                s->write("<iq xmlns='jabber:client' type='result' id='" + id + "'><bind xmlns='urn:ietf:params:xml:ns:xmpp-bind'><jid>alice@example.org/r</jid></bind></iq>");
                stepB = 4;
                std::printf("SERVER B: negotiation finished without SASL2 / bind2 (session established on attempt 2)\n");
            }
        });
    });

    // QXmppClient::stream() is private: the stream object is a QObject child of the client
    QXmppOutgoingClient *stream = client.findChild<QXmppOutgoingClient *>();
    if (!stream) {
        std::printf("stream object not found\n");
        return 2;
    }
    int sessions = 0;
    int bind2UsedSession2 = -1, carbonsEnabledFlagSession2 = -1;
    QObject::connect(stream, &QXmppOutgoingClient::connected, [&](const QXmpp::Private::SessionBegin &session) {
        ++sessions;
        bind2UsedSession2 = session.bind2Used;
        carbonsEnabledFlagSession2 = stream->carbonManager().enabled();
        std::printf("CLIENT session established: SessionBegin.bind2Used=%d, CarbonManager::enabled()=%d\n", int(session.bind2Used), carbonsEnabledFlagSession2);
    });
    bool reconnected = false;
    QObject::connect(&client, &QXmppClient::disconnected, [&]() {
        std::printf("CLIENT signal disconnected\n");
        if (!reconnected) {
            reconnected = true;
            // the application reconnects; this time the (other) server offers no SASL2
            QTimer::singleShot(100, &app, [&]() {
                cfg.setPort(serverB.serverPort());
                std::printf("CLIENT: attempt 2 (connectToServer)\n");
                client.connectToServer(cfg);
            });
        }
    });
    client.connectToServer(cfg);

    QTimer::singleShot(3500, &app, &QCoreApplication::quit);
    app.exec();

    if (stepB != 4 || sessions != 1) {
        std::printf("script did not reach an established session on attempt 2 (stepB=%d sessions=%d)\n", stepB, sessions);
        return 2;
    }
    const bool enableRequestSent = afterSessionB.contains("<enable") && afterSessionB.contains("urn:xmpp:carbons:2");
    std::printf("session 2 (no bind2 on the wire): reported bind2Used=%d, CarbonManager::enabled()=%d, carbons enable request sent to B: %s\n",
                bind2UsedSession2, carbonsEnabledFlagSession2, enableRequestSent ? "yes" : "NO");
    // C10: the second attempt runs the negotiation from the start; nothing of the aborted attempt may describe the new session
    const bool violated = bind2UsedSession2 == 1 || !enableRequestSent;
    std::printf("%s\n", violated ? "REPRODUCED" : "NOT-REPRODUCED");
    return violated ? 0 : 1;
}
