/* units/C10/callees.h -- ghost event log and the contracts of the callees that are replaced by their contract in the verified
 * functions (goto-instrument --replace-call-with-contract).  None of these has a body here.  QXmpp callees listed here are
 * either verified in another unit (named) or listed as `assumed` in unit.py. */

/* ---- ghost event log (unsigned counters: exact `== old + 1` clauses, no overflow preconditions) ------------------------------ */
unsigned gh_sent;              /* payloads handed to XmppSocket::sendData */
int gh_sent_last;              /* class (XML_<T>) of the last one */
unsigned gh_sock_disconnects;  /* XmppSocket::disconnectFromHost calls */
unsigned gh_connects;          /* QXmppOutgoingClientPrivate::connectToHost calls (connection attempts) */
int gh_connect_type; qstr gh_connect_host; quint16 gh_connect_port;   /* the address of the last attempt */
unsigned gh_errors;            /* setError calls (errorOccurred notifications) */
unsigned gh_ack_closed;        /* StreamAckManager::onSessionClosed calls */
unsigned gh_iq_closed;         /* OutgoingIqManager::onSessionClosed calls */
bool gh_iq_closed_resumable;   /* SessionEnd::smCanResume it was last called with */
unsigned gh_iq_opened;         /* OutgoingIqManager::onSessionOpened calls */
bool gh_iq_opened_resumed;     /* SessionBegin::smResumed it was last called with */
unsigned gh_iq_cancel_all;     /* runs of OutgoingIqManager::cancelAll (every outstanding request completed with a Disconnected error) */
unsigned gh_carbon_opened, gh_csi_opened;   /* CarbonManager / CsiManager::onSessionOpened calls */
unsigned gh_ev_disconnected;   /* `disconnected` signal emissions */
bool gh_ev_disconnected_resumable;
unsigned gh_ev_connected;      /* `connected` signal emissions ("session established" reports) */
bool gh_ev_connected_smEnabled, gh_ev_connected_smResumed, gh_ev_connected_bind2Used, gh_ev_connected_fastTokenChanged; int gh_ev_connected_authenticationMethod;

/* negotiation steps (units/C10/steps.h): a step (authenticate / resume / bind / enable stream management) is PENDING from the moment
   its request is sent and its continuation registered until that continuation runs */
bool gh_step_pending;          /* a step has been started and its continuation has not run yet */
unsigned gh_steps;             /* steps started (continuations registered / contract-only starters called) */
int gh_cont_last;              /* which continuation the last QXmppTask::then registered (CONT_<function>_<n>) */

/* the managers have been told about every session end / begin that has been announced so far (consistency of the ghost log;
   required on entry so that "managers first, then the signal" can be checked at the emission site) */
#define LOG_SYNC_CLOSE (gh_iq_closed == gh_ev_disconnected && gh_ack_closed == gh_ev_disconnected)
#define LOG_SYNC_OPEN  (gh_iq_opened == gh_ev_connected)

#define D (self->d)
#define C2S (self->d->c2sStreamManager)
/* invariant of the address fallback: "try the next address" is pending only while no session is open and an address is left.
   Established by socketError (proved, post.fallback_invariant); see unit.py `assumed` for its preservation by the other functions */
#define INV_TRYNEXT(d) ((d)->nextAddressState != NAS__TryNext || (!(d)->sessionStarted && (d)->nextServerAddressIndex < (d)->serverAddresses.n))
/* discriminator of finding C10-F1: the connection is lost while a session is open and a see-other-host redirect is pending */
#define F1_CLASS(d) ((d)->sessionStarted && (d)->redirect.has && (d)->nextAddressState != NAS__TryNext)
#if defined(F1_EXCLUDED)
#define F1_SPLIT(d) (!F1_CLASS(d))
#elif defined(F1_ONLY)
#define F1_SPLIT(d) (F1_CLASS(d))
#else
#define F1_SPLIT(d) (1)
#endif
/* discriminator of finding C10-F2: the connection is lost while a bind2 result (SASL2 <success/> with <bound/>) waits for the session to open */
#define F2_CLASS(d) ((d)->bind2Bound.has)
#if defined(F2_EXCLUDED)
#define F2_SPLIT(d) (!F2_CLASS(d))
#elif defined(F2_ONLY)
#define F2_SPLIT(d) (F2_CLASS(d))
#else
#define F2_SPLIT(d) (1)
#endif
/* a bind2 result is pending only until the session opens: openSession consumes it when it sets the session flag (proved,
   post.bind2_result_of_this_negotiation_is_consumed); its only other writer is the SASL2 continuation (inventory), which runs during
   negotiation.  Keeps the input classes of the two findings disjoint. */
#define INV_BIND2(d) (!((d)->sessionStarted && (d)->bind2Bound.has))

/* ---- the wire and the socket (A-WIRE: the only ways bytes / a close / a connection attempt leave the verified functions) ------ */
bool XmppSocket_sendData(XmppSocket *self, qxml data)
__CPROVER_assigns(gh_sent, gh_sent_last)
__CPROVER_ensures(gh_sent == __CPROVER_old(gh_sent) + 1 && gh_sent_last == data)
;
void XmppSocket_disconnectFromHost(XmppSocket *self)
__CPROVER_assigns(gh_sock_disconnects)
__CPROVER_ensures(gh_sock_disconnects == __CPROVER_old(gh_sock_disconnects) + 1)
;
/* QXmppOutgoingClientPrivate::connectToHost(address): configures the TLS layer of the QSslSocket and starts ONE connection attempt to
   `address` (XmppSocket::connectToHost -> QSslSocket::connectToHost[Encrypted]); Qt calls only.  Touches the socket, nothing else. */
void QXmppOutgoingClientPrivate_connectToHost(QXmppOutgoingClientPrivate *self, const ServerAddress *address)
__CPROVER_assigns(gh_connects, gh_connect_type, gh_connect_host, gh_connect_port, self->socket.m_directTls, __CPROVER_object_whole(self->socket.m_socket))
__CPROVER_ensures(gh_connects == __CPROVER_old(gh_connects) + 1)
__CPROVER_ensures(gh_connect_type == address->type && gh_connect_host == address->host && gh_connect_port == address->port)
;
void QXmppOutgoingClient_setError(QXmppOutgoingClient *self, qstr text, ConnectionError *details)
__CPROVER_assigns(gh_errors)
__CPROVER_ensures(gh_errors == __CPROVER_old(gh_errors) + 1)
;

/* ---- session end ------------------------------------------------------------------------------------------------------------ */
/* units/C09 closed.spec (verified there on the real body): stream management is disabled, nothing else is touched */
void StreamAckManager_onSessionClosed(StreamAckManager *self)
__CPROVER_assigns(self->m_enabled, gh_ack_closed)
__CPROVER_ensures(!self->m_enabled && gh_ack_closed == __CPROVER_old(gh_ack_closed) + 1)
;
/* units/C07 onSessionClosed.spec (verified there on the real body): every outstanding request is completed with a Disconnected
   error iff the session cannot be resumed, otherwise the table is kept */
void OutgoingIqManager_onSessionClosed(OutgoingIqManager *self, const SessionEnd *session)
__CPROVER_assigns(self->opaque, gh_iq_closed, gh_iq_closed_resumable, gh_iq_cancel_all)
__CPROVER_ensures(gh_iq_closed == __CPROVER_old(gh_iq_closed) + 1 && gh_iq_closed_resumable == session->smCanResume)
__CPROVER_ensures(gh_iq_cancel_all == __CPROVER_old(gh_iq_cancel_all) + (session->smCanResume ? 0u : 1u))
;
/* Q_EMIT disconnected(session): by the time the application hears about the end of the session the client must be in the
   disconnected state (no session reported) and its managers must have been told */
void QXmppOutgoingClient_sig_disconnected(QXmppOutgoingClient *self, const SessionEnd *session)
__CPROVER_requires(!self->d->sessionStarted)
__CPROVER_requires(gh_iq_closed == gh_ev_disconnected + 1 && gh_ack_closed == gh_ev_disconnected + 1)
__CPROVER_assigns(gh_ev_disconnected, gh_ev_disconnected_resumable)
__CPROVER_ensures(gh_ev_disconnected == __CPROVER_old(gh_ev_disconnected) + 1 && gh_ev_disconnected_resumable == session->smCanResume)
;

/* ---- session begin ---------------------------------------------------------------------------------------------------------- */
/* units/C07 onSessionOpened.spec (verified there): requests of the previous session are cancelled iff the stream was not resumed */
void OutgoingIqManager_onSessionOpened(OutgoingIqManager *self, const SessionBegin *session)
__CPROVER_assigns(self->opaque, gh_iq_opened, gh_iq_opened_resumed, gh_iq_cancel_all)
__CPROVER_ensures(gh_iq_opened == __CPROVER_old(gh_iq_opened) + 1 && gh_iq_opened_resumed == session->smResumed)
__CPROVER_ensures(gh_iq_cancel_all == __CPROVER_old(gh_iq_cancel_all) + (session->smResumed ? 0u : 1u))
;
void CarbonManager_onSessionOpened(CarbonManager *self, const SessionBegin *session)
__CPROVER_assigns(self->opaque, gh_carbon_opened)
__CPROVER_ensures(gh_carbon_opened == __CPROVER_old(gh_carbon_opened) + 1)
;
/* may (re)send the client state indication */
void CsiManager_onSessionOpened(CsiManager *self, const SessionBegin *session)
__CPROVER_assigns(self->opaque, gh_csi_opened, gh_sent, gh_sent_last)
__CPROVER_ensures(gh_csi_opened == __CPROVER_old(gh_csi_opened) + 1)
;
bool FastTokenManager_tokenChanged(const FastTokenManager *self)
__CPROVER_requires(1)
__CPROVER_assigns()
__CPROVER_ensures(1)
;
/* Q_EMIT connected(session): "session established" is reported only once the session flag is set and the request table has been
   told about the new session (a request sent by a handler of this signal must not be cancelled as a left-over of the old session) */
void QXmppOutgoingClient_sig_connected(QXmppOutgoingClient *self, const SessionBegin *session)
__CPROVER_requires(self->d->sessionStarted)
__CPROVER_requires(gh_iq_opened == gh_ev_connected + 1)
__CPROVER_assigns(gh_ev_connected, gh_ev_connected_smEnabled, gh_ev_connected_smResumed, gh_ev_connected_bind2Used, gh_ev_connected_fastTokenChanged, gh_ev_connected_authenticationMethod)
__CPROVER_ensures(gh_ev_connected == __CPROVER_old(gh_ev_connected) + 1)
__CPROVER_ensures(gh_ev_connected_smEnabled == session->smEnabled && gh_ev_connected_smResumed == session->smResumed && gh_ev_connected_bind2Used == session->bind2Used)
__CPROVER_ensures(gh_ev_connected_fastTokenChanged == session->fastTokenChanged && gh_ev_connected_authenticationMethod == session->authenticationMethod)
;
