/* units/C10/variants.h -- value types handed to the continuations (before the generated variant structs) */
typedef struct StanzaError { qstr text; int opaque; } StanzaError;          /* QXmppStanza::Error: text() and the rest */
typedef struct QXmppSuccess { char unused; } QXmppSuccess;                  /* QXmpp::Success {} */
typedef struct QXmppErrorValue { qstr description; int error; } QXmppErrorValue;   /* QXmppError { description, error } */
typedef struct AuthErrPair { qstr first; int second; } AuthErrPair;          /* std::pair<QString, QXmpp::AuthenticationError> */
typedef struct OptFlag { bool has; } OptFlag;                                /* std::optional<T> of which only has_value() is used */
