/* units/C10/lemma_neg.h -- lemma harness over the CONTRACTS of the negotiation handlers (the callers of openSession()).
 *
 * One negotiation event = the server's <stream:features/> arrive, or the reply of the pending step arrives and its continuation
 * runs.  From ANY negotiating state (no session open, the step the event belongs to is over), whatever the event and its payload:
 * at most one session is reported, the session flag is set exactly when it is reported, and once the session is open no step is
 * pending -- so the precondition of every negotiation handler (NEGOTIATING) is false from then on: nothing can report the session a
 * second time on this connection (only closeSession clears the flag, lemma 2 in lemma.h).
 * Every function called is replaced by its contract; the assumptions are the arbitrary state and the environment's choice of event. */
#undef D
#undef C2S
void h_lemma_negotiation(void)
{
  QXmppOutgoingClient c; QXmppOutgoingClientPrivate d; QSslSocket s; QXmppConfigurationPrivate cp;
  QXmppStreamFeatures f; QXmppStreamFeaturesPrivate fp;
  BindResult br; Sasl2Result s2; NonSaslOptionsResult no; SuccessOrError se; SaslResult sr;
  __CPROVER_assume(QXmppOutgoingClientPrivate_ENUMS_VALID(&d)); c.d = &d; d.q = &c; d.socket.m_socket = &s; d.config.d = &cp; f.d = &fp;
  gh_sent = nondet_uint(); gh_sent_last = nondet_int(); gh_sock_disconnects = nondet_uint(); gh_errors = nondet_uint();
  gh_iq_opened = nondet_uint(); gh_iq_cancel_all = nondet_uint(); gh_carbon_opened = nondet_uint(); gh_csi_opened = nondet_uint();
  gh_ev_connected = nondet_uint(); gh_steps = nondet_uint(); gh_step_pending = nondet_bool(); gh_cont_last = nondet_int();
  __CPROVER_assume(!d.sessionStarted && !gh_step_pending && gh_iq_opened == gh_ev_connected);
  __CPROVER_assume(br.index < VARIANT_ALTS_BindResult && s2.index < VARIANT_ALTS_Sasl2Result && no.index < VARIANT_ALTS_NonSaslOptionsResult && se.index < VARIANT_ALTS_SuccessOrError && sr.index < VARIANT_ALTS_SaslResult);
  unsigned conn0 = gh_ev_connected, steps0 = gh_steps;
  int ev = nondet_int();
  if (ev == 0) QXmppOutgoingClient_handleStreamFeatures(&c, &f);
  else if (ev == 1) startSmResume_cont0(&c);
  else if (ev == 2) startSmEnable_cont0(&c);
  else if (ev == 3) startResourceBinding_cont0(&c, &br);
  else if (ev == 4) startSasl2Auth_cont1(&c, &s2);
  else if (ev == 5) { __CPROVER_assume(d.listener.index == IDX_NonSaslAuthManager); startNonSaslAuth_cont0(&c, &no); }
  else if (ev == 6) startNonSaslAuth_cont1(&c, &se);
  else if (ev == 7) handleStreamFeatures_cont0(&c, &sr);
  __CPROVER_assert(gh_ev_connected - conn0 <= 1u, "[lemma.one_negotiation_event_reports_at_most_one_session]");
  __CPROVER_assert((gh_steps - steps0) + (gh_ev_connected - conn0) <= 1u, "[lemma.one_negotiation_event_starts_a_further_step_or_opens_the_session_never_both]");
  __CPROVER_assert((!d.sessionStarted) == !(gh_ev_connected == conn0 + 1), "[lemma.the_session_flag_is_set_exactly_when_the_session_is_reported]");
  __CPROVER_assert(!(d.sessionStarted && gh_step_pending), "[lemma.no_step_is_pending_once_the_session_is_open]");
}
