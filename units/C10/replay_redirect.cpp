// C10 native replay: the REAL QXmppClient against two scripted plain-TCP loopback servers A and B (script: STARTTLS-less SASL PLAIN +
// legacy resource binding, the first script family named in the property's quantifier).
//   replay_redirect redirect-established -> A completes the negotiation (session established), then sends
//        <stream:error><see-other-host>127.0.0.1:portB</see-other-host></stream:error> and closes.  The connection to A is lost;
//        the property asks: no session reported any more (isConnected() false, state() != Connected, `disconnected` emitted),
//        and on the connection to B a session is reported only after B has finished the negotiation.      (finding C10-F1)
//   replay_redirect redirect-early       -> A sends the see-other-host error right after the stream header (no session yet): control
//   replay_redirect <mode>-with-close    -> as the redirect modes, with </stream:stream> in the same TCP chunk as the error (observation only)
//   replay_redirect drop-established     -> A completes the negotiation and then just drops the TCP connection: control
// Observation points: (1) right after the client's TCP connection to A is gone, (2) when B has received the client's stream header
// and has NOT answered anything yet (negotiation with B not even started), (3) at the end.
// Prints the observations, then REPRODUCED (exit 0) / NOT-REPRODUCED (exit 1).
#include <QCoreApplication>
#include <QTcpServer>
#include <QTcpSocket>
#include <QTimer>
#include <cstdio>

#include "QXmppClient.h"
#include "QXmppConfiguration.h"
#include "QXmppLogger.h"

static const char *HEADER = "<?xml version='1.0'?><stream:stream xmlns='jabber:client' xmlns:stream='http://etherx.jabber.org/streams' id='s1' from='example.org' version='1.0'>";

struct Script {
    QByteArray received;
    int step = 0;   // 0 wait header, 1 wait <auth, 2 wait restart header, 3 wait bind iq, 4 session established
    bool hold = false;          // B: do not answer the first stream header until released
    QTcpSocket *sock = nullptr;
    bool sawHeader = false;
};

static QByteArray iqId(const QByteArray &buf)
{
    const int i = buf.lastIndexOf("id=\"");
    return i < 0 ? QByteArray("x") : buf.mid(i + 4, buf.indexOf('"', i + 4) - (i + 4));
}

// one step of the scripted, protocol-conforming server; returns true when the session is established on this connection
static bool advance(Script &s)
{
    if (s.step == 0 && s.received.contains("<stream:stream")) {
        s.sawHeader = true;
        if (s.hold) {
            return false;
        }
        s.received.clear();
        s.sock->write(HEADER);
        s.sock->write("<stream:features><mechanisms xmlns='urn:ietf:params:xml:ns:xmpp-sasl'><mechanism>PLAIN</mechanism></mechanisms></stream:features>");
        s.step = 1;
    } else if (s.step == 1 && s.received.contains("<auth")) {
        s.received.clear();
        s.sock->write("<success xmlns='urn:ietf:params:xml:ns:xmpp-sasl'/>");
        s.step = 2;
    } else if (s.step == 2 && s.received.contains("<stream:stream")) {
        s.received.clear();
        s.sock->write(HEADER);
        s.sock->write("<stream:features><bind xmlns='urn:ietf:params:xml:ns:xmpp-bind'/></stream:features>");
        s.step = 3;
    } else if (s.step == 3 && s.received.contains("urn:ietf:params:xml:ns:xmpp-bind") && s.received.contains("</iq>")) {
        const QByteArray id = iqId(s.received.left(s.received.indexOf("urn:ietf:params:xml:ns:xmpp-bind")));
        s.received.clear();
        s.sock->write("<iq xmlns='jabber:client' type='result' id='" + id + "'><bind xmlns='urn:ietf:params:xml:ns:xmpp-bind'><jid>alice@example.org/r</jid></bind></iq>");
        s.step = 4;
        return true;
    }
    return false;
}

int main(int argc, char **argv)
{
    QCoreApplication app(argc, argv);
    const QString mode = argc > 1 ? QString::fromLatin1(argv[1]) : QStringLiteral("redirect-established");

    QTcpServer serverA, serverB;
    if (!serverA.listen(QHostAddress::LocalHost, 0) || !serverB.listen(QHostAddress::LocalHost, 0)) {
        std::printf("cannot listen on loopback\n");
        return 2;
    }
    QXmppClient client;
    int connectedSignals = 0, disconnectedSignals = 0;
    int connectedWhenALost = -1, disconnectedWhenALost = -1;
    int isConnectedAfterALost = -1, stateAfterALost = -1;
    int isConnectedBeforeBAnswers = -1, stateBeforeBAnswers = -1, connectedSignalsBeforeBAnswers = -1;
    QObject::connect(&client, &QXmppClient::connected, [&]() { ++connectedSignals; std::printf("CLIENT signal connected (#%d)\n", connectedSignals); });
    QObject::connect(&client, &QXmppClient::disconnected, [&]() { ++disconnectedSignals; std::printf("CLIENT signal disconnected (#%d)\n", disconnectedSignals); });

    Script a, b;
    // RFC 6120 4.9.1.1: the server closes the stream after the error; "-with-close" sends the closing tag in the same TCP chunk
    const QByteArray closeTag = mode.endsWith("-with-close") ? QByteArray("</stream:stream>") : QByteArray();
    b.hold = true;
    QObject::connect(&serverA, &QTcpServer::newConnection, [&]() {
        a.sock = serverA.nextPendingConnection();
        QObject::connect(a.sock, &QTcpSocket::disconnected, [&]() {
            // (1) the client's connection to A is gone
            // (the client needs a moment to notice; B keeps silent for 500 ms, so this is still before negotiation 2 starts)
            QTimer::singleShot(150, &app, [&]() {
                if (isConnectedAfterALost < 0) {
                    isConnectedAfterALost = client.isConnected();
                    stateAfterALost = int(client.state());
                    connectedWhenALost = connectedSignals;
                    disconnectedWhenALost = disconnectedSignals;
                    std::printf("OBSERVE(1) connection to A lost: isConnected()=%d state()=%d connected-signals=%d disconnected-signals=%d\n",
                                isConnectedAfterALost, stateAfterALost, connectedWhenALost, disconnectedWhenALost);
                }
            });
        });
        QObject::connect(a.sock, &QTcpSocket::readyRead, [&]() {
            a.received += a.sock->readAll();
            if (mode.startsWith("redirect-early") && a.step == 0 && a.received.contains("<stream:stream")) {
                a.sock->write(HEADER);
                a.sock->write("<stream:error><see-other-host xmlns='urn:ietf:params:xml:ns:xmpp-streams'>127.0.0.1:" + QByteArray::number(serverB.serverPort()) + "</see-other-host></stream:error>" + closeTag);
                a.step = 9;
                return;
            }
            if (advance(a)) {
                std::printf("SERVER A: negotiation finished (session established on connection 1)\n");
                // let the client process the bind result first, then lose the connection
                QTimer::singleShot(300, &app, [&]() {
                    std::printf("after negotiation with A: isConnected()=%d connected-signals=%d\n", int(client.isConnected()), connectedSignals);
                    if (mode.startsWith("redirect-established")) {
                        a.sock->write("<stream:error><see-other-host xmlns='urn:ietf:params:xml:ns:xmpp-streams'>127.0.0.1:" + QByteArray::number(serverB.serverPort()) + "</see-other-host></stream:error>" + closeTag);
                        a.sock->flush();
                    } else {
                        a.sock->abort();   // drop-established
                    }
                });
            }
        });
    });
    QObject::connect(&serverB, &QTcpServer::newConnection, [&]() {
        b.sock = serverB.nextPendingConnection();
        std::printf("SERVER B: client connected (redirect followed)\n");
        QObject::connect(b.sock, &QTcpSocket::readyRead, [&]() {
            b.received += b.sock->readAll();
            const bool first = !b.sawHeader;
            if (advance(b)) {
                std::printf("SERVER B: negotiation finished (session established on connection 2)\n");
            }
            if (first && b.sawHeader && b.hold) {
                // (2) B has the client's stream header and has answered NOTHING: the negotiation with B has not begun
                QTimer::singleShot(500, &app, [&]() {
                    isConnectedBeforeBAnswers = client.isConnected();
                    stateBeforeBAnswers = int(client.state());
                    connectedSignalsBeforeBAnswers = connectedSignals;
                    std::printf("OBSERVE(2) B has not answered the stream header yet: isConnected()=%d state()=%d (ConnectedState=%d)\n",
                                isConnectedBeforeBAnswers, stateBeforeBAnswers, int(QXmppClient::ConnectedState));
                    b.hold = false;
                    advance(b);
                });
            }
        });
    });

    QXmppLogger logger;
    logger.setLoggingType(QXmppLogger::SignalLogging);
    client.setLogger(&logger);
    QObject::connect(&logger, &QXmppLogger::message, [](QXmppLogger::MessageType t, const QString &text) {
        if (t == QXmppLogger::WarningMessage || t == QXmppLogger::InformationMessage) {
            std::printf("CLIENT-LOG: %s\n", text.toUtf8().constData());
        }
    });
    QXmppConfiguration cfg;
    cfg.setHost(QStringLiteral("127.0.0.1"));
    cfg.setPort(serverA.serverPort());
    cfg.setDomain(QStringLiteral("example.org"));
    cfg.setUser(QStringLiteral("alice"));
    cfg.setPassword(QStringLiteral("pw"));
    cfg.setResource(QStringLiteral("r"));
    cfg.setAutoReconnectionEnabled(false);
    cfg.setStreamSecurityMode(QXmppConfiguration::TLSDisabled);
    cfg.setUseSasl2Authentication(false);
    cfg.setDisabledSaslMechanisms({});   // allow PLAIN (the scripted server offers nothing else)
    client.connectToServer(cfg);

    QTimer::singleShot(3000, &app, &QCoreApplication::quit);
    app.exec();

    std::printf("END: connected-signals=%d disconnected-signals=%d isConnected()=%d; negotiation with B completed: %s\n", connectedSignals, disconnectedSignals, int(client.isConnected()),
                b.step == 4 ? "yes" : "no");
    bool violated = false;
    if (connectedWhenALost < 0 && !mode.startsWith("redirect-early")) {
        std::printf("script did not reach the loss of connection 1\n");
        return 2;
    }
    if (mode.startsWith("redirect-early")) {
        // no session on connection 1; on connection 2 a session may be reported only after B finished
        violated = isConnectedBeforeBAnswers == 1 || connectedSignalsBeforeBAnswers > 0 || connectedSignals > 1;
    } else {
        // C10: after the loss of an established connection no session is reported ...
        const bool stillReported = isConnectedAfterALost == 1 || stateAfterALost == int(QXmppClient::ConnectedState);
        const bool noDisconnectedEvent = connectedWhenALost >= 1 && disconnectedWhenALost == 0;
        // ... and on the next connection a session is reported only after negotiation has really finished
        const bool reportedBeforeNegotiation = isConnectedBeforeBAnswers == 1 || stateBeforeBAnswers == int(QXmppClient::ConnectedState);
        std::printf("session still reported after the connection was lost: %s; no disconnected notification for the lost session: %s; session reported on connection 2 before its negotiation started: %s\n",
                    stillReported ? "YES" : "no", noDisconnectedEvent ? "YES" : "no", reportedBeforeNegotiation ? "YES" : "no");
        violated = stillReported || noDisconnectedEvent || reportedBeforeNegotiation;
    }
    std::printf("%s\n", violated ? "REPRODUCED" : "NOT-REPRODUCED");
    return violated ? 0 : 1;
}
