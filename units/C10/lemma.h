/* units/C10/lemma.h -- lemma harnesses over the CONTRACTS of the connection/session functions (DESIGN 1, 6/C10).
 *
 * Every function called below is replaced by its contract (each contract is enforced on the real body by its own proof), so these
 * harnesses use no repository code.  The __CPROVER_assume statements are the arbitrary start state and the environment's choices
 * (which event happens next), the proved fallback invariant INV_TRYNEXT, the consistency of the ghost log, and -- for the
 * proofs with -DF1_EXCLUDED -DF2_EXCLUDED -- the exclusion of the input classes of findings C10-F1 and C10-F2; nothing else about QXmpp. */
#undef D
#undef C2S
#define LD (&d)

#define LEMMA_STATE \
  QXmppOutgoingClient c; QXmppOutgoingClientPrivate d; QSslSocket s; \
  __CPROVER_assume(QXmppOutgoingClientPrivate_ENUMS_VALID(&d)); c.d = &d; d.q = &c; d.socket.m_socket = &s; \
  gh_sent = nondet_uint(); gh_sent_last = nondet_int(); gh_sock_disconnects = nondet_uint(); gh_connects = nondet_uint(); gh_errors = nondet_uint(); \
  gh_ack_closed = nondet_uint(); gh_iq_closed = nondet_uint(); gh_iq_opened = nondet_uint(); gh_iq_cancel_all = nondet_uint(); \
  gh_carbon_opened = nondet_uint(); gh_csi_opened = nondet_uint(); gh_ev_disconnected = nondet_uint(); gh_ev_connected = nondet_uint();

/* (1) connection loss at ANY point, followed by the start of the next stream, leaves no trace of the lost connection:
 *     from any state (any listener, any flags, any stream attributes, any stream-management state, redirect pending or not) */
void h_lemma_reset(void)
{
  LEMMA_STATE
  __CPROVER_assume(INV_TRYNEXT(LD) && LOG_SYNC_CLOSE && INV_BIND2(LD) && F1_SPLIT(LD) && F2_SPLIT(LD));
  unsigned ev0 = gh_ev_disconnected, cn0 = gh_connects;
  bool had_session = d.sessionStarted;
  bool can_resume = d.c2sStreamManager.m_canResume; qstr sm_id = d.c2sStreamManager.m_smId;
  QXmppOutgoingClient__q_socketDisconnected(&c);      /* the socket reports the loss of the connection */
  __CPROVER_assert(!d.isAuthenticated && !d.sessionStarted, "[lemma.after_connection_loss_the_client_is_neither_authenticated_nor_in_a_session]");
  __CPROVER_assert(gh_ev_disconnected - ev0 <= 1u && (!had_session || gh_ev_disconnected == ev0 + 1), "[lemma.the_end_of_an_open_session_is_reported_exactly_once]");
  __CPROVER_assert(gh_connects - cn0 <= 1u, "[lemma.at_most_one_new_connection_attempt_is_started]");
  QXmppOutgoingClient_handleStart(&c);                /* the next connection attempt reaches the start of its stream */
  __CPROVER_assert(!d.isAuthenticated, "[lemma.next_attempt_starts_unauthenticated]");
  __CPROVER_assert(!d.sessionStarted, "[lemma.next_attempt_starts_without_a_reported_session]");
  __CPROVER_assert(d.listener.index == IDX_QXmppOutgoingClientPtr && d.listener.alt_QXmppOutgoingClientPtr == &c, "[lemma.next_attempt_starts_with_the_client_itself_as_listener]");
  __CPROVER_assert(d.streamId == 0 && d.streamFrom == 0 && d.streamVersion == 0, "[lemma.next_attempt_starts_without_stream_attributes_of_the_lost_stream]");
  __CPROVER_assert(!d.c2sStreamManager.m_streamResumed && !d.c2sStreamManager.m_enabled && d.c2sStreamManager.m_request == SMREQ_NONE, "[lemma.next_attempt_starts_with_cleared_per_stream_stream_management_state]");
  __CPROVER_assert(!d.bind2Bound.has, "[lemma.next_attempt_starts_without_a_bind2_result_of_the_lost_connection]");
  __CPROVER_assert(d.c2sStreamManager.m_canResume == can_resume && d.c2sStreamManager.m_smId == sm_id, "[lemma.resumption_data_is_retained_for_the_next_attempt]");
}

/* (2) "session established" is reported at most once per connection: openSession is the only function that sets the session flag
 *     and reports (inventory in unit.py), it requires the flag to be clear, and nothing that runs on a live connection clears it;
 *     only the loss of the connection does, and it reports the end exactly once */
void h_lemma_once(void)
{
  LEMMA_STATE
  StreamErrorElement se;
  /* no address fallback is pending when a session opens (assumed: see unit.py `assumed`, A-TRYNEXT) */
  __CPROVER_assume(!d.sessionStarted && !gh_step_pending && LOG_SYNC_OPEN && LOG_SYNC_CLOSE && d.nextAddressState != NAS__TryNext);
  unsigned conn0 = gh_ev_connected, disc0 = gh_ev_disconnected;
  QXmppOutgoingClient_openSession(&c);
  __CPROVER_assert(d.sessionStarted && gh_ev_connected == conn0 + 1, "[lemma.session_established_is_reported_once_when_the_session_opens]");
  /* anything that can happen on the live connection afterwards (any number of times: the assertion is an invariant of each) */
  int ev = nondet_int();
  if (ev == 0) QXmppOutgoingClient_handleStart(&c);
  else if (ev == 1) QXmppOutgoingClient_disconnectFromHost(&c);
  else if (ev == 2) QXmppOutgoingClient_handleStreamError(&c, &se);
  else if (ev == 3) QXmppOutgoingClient_socketError(&c, nondet_int());
  __CPROVER_assert(d.sessionStarted && gh_ev_connected == conn0 + 1 && gh_ev_disconnected == disc0, "[lemma.nothing_on_a_live_connection_re_enables_a_second_session_report]");
  __CPROVER_assert(INV_TRYNEXT(LD), "[lemma.fallback_invariant_kept_on_a_live_connection]");
  /* the connection is lost */
  __CPROVER_assume(F1_SPLIT(LD) && F2_SPLIT(LD) && INV_BIND2(LD));
  QXmppOutgoingClient__q_socketDisconnected(&c);
  __CPROVER_assert(!d.sessionStarted && gh_ev_disconnected == disc0 + 1 && gh_ev_connected == conn0 + 1, "[lemma.loss_of_the_connection_ends_the_session_with_one_report_and_allows_the_next_one]");
}
