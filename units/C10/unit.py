"""C10 -- losing the connection at any point leaves a consistent client that can reconnect (claimed narrowly: DESIGN 6/C10, 7).

Real functions lowered on every run (src/client/QXmppOutgoingClient.cpp unless noted):
  QXmppOutgoingClient::{_q_socketDisconnected, closeSession, openSession, handleStart, disconnectFromHost, isConnected, isAuthenticated,
  socketError, handleStreamError, socket}, QXmppOutgoingClientPrivate::connectToNextAddress, C2sStreamManager::{onStreamStart, onStreamClosed,
  canResume, enabled, streamResumed} (the getters from QXmppOutgoingClient.h), XmppSocket::{isConnected (base/Stream.cpp), socket},
  QXmppClient::{state, isConnected} (src/client/QXmppClient.cpp);
  the callers of openSession(): QXmppOutgoingClient::{startSmResume, startSmEnable, startResourceBinding, handleStreamFeatures, configuration} and the
  continuation lambdas of startSmResume, startSmEnable, startResourceBinding, startSasl2Auth, startNonSaslAuth (both), handleStreamFeatures (SASL),
  C2sStreamManager::{canRequestResume, canRequestEnable, onStreamFeatures}, the QXmppStreamFeatures / QXmppConfiguration getters they use.
Findings C10-F1 / C10-F2 (units/C10/findings.json) are keyed by the state on entry of _q_socketDisconnected; native drivers replay_redirect.cpp /
replay_bind2.cpp.  The AST inventory (closed world for the session flag, the session signals and the bind2 result) runs as a proof of its own.
"""
import os, re
from concurrent.futures import ThreadPoolExecutor
from vlib.unit import Builder, Target, Spec, VERIF, scan_assumes
from vlib.runner import Proof, ToolError
from vlib.cxx2c import strip_type, Unsupported
from vlib import ctx, astx, configure
import lowering
from lowering import C10Lowerer, profile, extend_profile, extend_profile_negotiation, variant_alternatives, alt_cname, register_variant, find_lambdas, lambda_call_operator

QT = os.path.join(VERIF, 'qtmodel')
HERE = os.path.dirname(os.path.abspath(__file__))
OC = 'src/client/QXmppOutgoingClient.cpp'
STREAM = 'src/base/Stream.cpp'
CL = 'src/client/QXmppClient.cpp'
FINDING = 'C10-F1'
STUBS = ['XmppSocket_sendData', 'XmppSocket_disconnectFromHost', 'QXmppOutgoingClientPrivate_connectToHost', 'QXmppOutgoingClient_setError',
         'StreamAckManager_onSessionClosed', 'OutgoingIqManager_onSessionClosed', 'QXmppOutgoingClient_sig_disconnected',
         'OutgoingIqManager_onSessionOpened', 'CarbonManager_onSessionOpened', 'CsiManager_onSessionOpened', 'FastTokenManager_tokenChanged',
         'QXmppOutgoingClient_sig_connected']
FINDING2 = 'C10-F2'
NEG_STUBS = ['QXmppOutgoingClient_handleStarttls', 'CsiManager_onStreamFeatures', 'qtask_then', 'C2sStreamManager_requestResume', 'C2sStreamManager_requestEnable', 'BindManager_bindAddress', 'NonSaslAuthManager_authenticate',
             'setListener_BindManager', 'setListener_SaslManager', 'SaslManager_authenticate', 'QXmppOutgoingClient_startSasl2Auth', 'QXmppOutgoingClient_startNonSaslAuth',
             'QXmppConfiguration_setUser', 'QXmppConfiguration_setDomain', 'QXmppConfiguration_setResource', 'QXmppConfiguration_setJid', 'QXmppConfiguration_resource',
             'QXmppConfiguration_user', 'QXmppConfiguration_password', 'QXmppConfiguration_nonSASLAuthMechanism', 'FastTokenManager_onSasl2Success',
             'C2sStreamManager_onSasl2Success', 'C2sStreamManager_onBind2Bound']
BOTH_EXCLUDED = ('F1_EXCLUDED', 'F2_EXCLUDED')

NEG_HARNESS = '''
void h_startSmResume(void) { gh_init(); QXmppOutgoingClient *self; QXmppOutgoingClient_startSmResume(self); }
void h_startSmEnable(void) { gh_init(); QXmppOutgoingClient *self; QXmppOutgoingClient_startSmEnable(self); }
void h_startResourceBinding(void) { gh_init(); QXmppOutgoingClient *self; QXmppOutgoingClient_startResourceBinding(self); }
void h_startSmResume_cont(void) { gh_init(); const QXmppOutgoingClient *self; startSmResume_cont0(self); }
void h_startSmEnable_cont(void) { gh_init(); const QXmppOutgoingClient *self; startSmEnable_cont0(self); }
void h_startResourceBinding_cont(void) { gh_init(); const QXmppOutgoingClient *self; BindResult *r; startResourceBinding_cont0(self, r); }
void h_startSasl2Auth_cont(void) { gh_init(); const QXmppOutgoingClient *self; Sasl2Result *r; startSasl2Auth_cont1(self, r); }
void h_startNonSaslAuth_cont0(void) { gh_init(); const QXmppOutgoingClient *self; NonSaslOptionsResult *r; startNonSaslAuth_cont0(self, r); }
void h_startNonSaslAuth_cont1(void) { gh_init(); const QXmppOutgoingClient *self; SuccessOrError *r; startNonSaslAuth_cont1(self, r); }
void h_handleStreamFeatures(void) { gh_init(); QXmppOutgoingClient *self; const QXmppStreamFeatures *f; QXmppOutgoingClient_handleStreamFeatures(self, f); }
void h_handleStreamFeatures_cont(void) { gh_init(); const QXmppOutgoingClient *self; SaslResult *r; handleStreamFeatures_cont0(self, r); }
'''


def rd(name):
    return open(os.path.join(HERE, name)).read()


def path(rel):
    return os.path.join(configure.REPO, rel)


def prewarm(jobs):
    configure.configure()
    with ThreadPoolExecutor(max_workers=6) as ex:
        list(ex.map(lambda j: _try_dump(*j), jobs))


def _try_dump(src, filt):
    try:
        astx.dump(src, filt)
    except astx.ExtractError:
        pass


def listener_model(alts, prof):
    lw = C10Lowerer({'inner': []}, 'x', prof)
    lines = ['typedef struct Listener {', '  size_t index;   /* std::variant::index() */']
    for a in alts:
        lines.append('  %s %s;' % (lw.ctype(a), alt_cname(a)))
    lines.append('} Listener;')
    out = ['#define LISTENER_ALTS %d' % len(alts)]
    for i, a in enumerate(alts):
        out.append('#define IDX_%s %d' % (alt_cname(a)[4:], i))
    return '\n'.join(lines), '\n'.join(out)


def listener_setters(alts):
    out = []
    for i, a in enumerate(alts):
        if a.endswith('*'):
            n = alt_cname(a)[4:]
            out.append('/* listener = <%s>: std::variant converting assignment */\nstatic inline void Listener_set_%s(Listener *l, %s p) { l->index = %d; l->%s = p; }'
                       % (a, n, a.replace('*', ' *'), i, alt_cname(a)))
    return '\n'.join(out)


def unnamed_enum_constants(record_decl):
    """`enum { Current, TryNext } nextAddressState;`: the enumerators of the unnamed enum(s) declared inside the class, with values"""
    out = {}
    for c in record_decl.get('inner', []):
        if c.get('kind') == 'EnumDecl' and not c.get('name'):
            nxt = 0
            for e in c.get('inner', []):
                if e.get('kind') != 'EnumConstantDecl':
                    continue
                v = None
                for i in e.get('inner', []):
                    vi = ctx._const_value(i)
                    if vi is not None:
                        v = vi
                if v is None:
                    v = nxt
                out[e['name']] = v
                nxt = v + 1
    return out


# ---------------------------------------------------------------------- closed-world inventory (DESIGN 5.7)
WATCH_FIELDS = ('sessionStarted', 'isAuthenticated')
WATCH_OBJECTS = ('bind2Bound',)      # std::optional member: operator= and reset() are its writers
WATCH_CALLS = ('openSession', 'closeSession', 'connected', 'disconnected')
# functions whose bodies are verified in this unit: what they write / emit / call is governed by their contracts (frame conditions,
# event counters), so the inventory only has to bound what happens OUTSIDE them
VERIFIED = {'openSession', 'closeSession', '_q_socketDisconnected', 'handleStart', 'disconnectFromHost', 'socketError', 'handleStreamError', 'isConnected',
            'isAuthenticated', 'connectToNextAddress', 'onStreamStart', 'onStreamClosed'}
EXPECTED = {
    # who (outside the verified functions) writes the session / authentication flags and the bind2 result; True = inside a continuation
    ('write', 'sessionStarted'): set(),
    ('write', 'isAuthenticated'): {('startSasl2Auth', True, 'true'), ('startNonSaslAuth', True, 'true'), ('handleStreamFeatures', True, 'true')},
    ('write', 'bind2Bound'): {('startSasl2Auth', True, 'operator=')},
    # who announces a session / its end, who ends a session
    ('call', 'connected'): set(),
    ('call', 'disconnected'): set(),
    ('call', 'closeSession'): set(),
    # who declares the session open: exactly the six call sites that are under contract in the negotiation part (build(): `continuation`, handleStreamFeatures)
    ('call', 'openSession'): {('startSasl2Auth', True), ('startNonSaslAuth', True), ('startSmResume', True), ('startSmEnable', True),
                              ('startResourceBinding', True), ('handleStreamFeatures', False)},
}


def inventory():
    """every write of sessionStarted / isAuthenticated and every call of openSession / closeSession / the connected and
    disconnected signals in the client's TU.  The contracts speak about these functions only; a new writer or caller makes
    the closed-world premise false -> ToolError (exit 2)."""
    docs, _ = astx.dump(path(OC), 'QXmppOutgoingClient')
    found = {k: set() for k in EXPECTED}

    def skip(n):
        while n.get('kind') in ('ImplicitCastExpr', 'ParenExpr', 'ExprWithCleanups', 'MaterializeTemporaryExpr') and n.get('inner'):
            n = n['inner'][0]
        return n

    def walk(n, fn, lam):
        k = n.get('kind')
        if k == 'BinaryOperator' and n.get('opcode') == '=':
            lhs = skip(n['inner'][0])
            if lhs.get('kind') == 'MemberExpr' and lhs.get('name') in WATCH_FIELDS:
                rhs = skip(n['inner'][1])
                val = ('true' if rhs.get('value') else 'false') if rhs.get('kind') == 'CXXBoolLiteralExpr' else '?'
                found[('write', lhs['name'])].add((fn, lam, val))
            if lhs.get('kind') == 'MemberExpr' and lhs.get('name') in WATCH_OBJECTS:
                # inside a generic lambda the assignment to a class-typed member is still an unresolved (dependent) `=`
                found[('write', lhs['name'])].add((fn, lam, 'operator='))
        if k in ('CompoundAssignOperator', 'UnaryOperator') and n.get('inner'):
            lhs = skip(n['inner'][0])
            if k == 'CompoundAssignOperator' or n.get('opcode') in ('++', '--', '&'):
                if lhs.get('kind') == 'MemberExpr' and lhs.get('name') in WATCH_FIELDS:
                    found[('write', lhs['name'])].add((fn, lam, '?'))
        if k == 'CXXMemberCallExpr':
            me = skip(n['inner'][0])
            if me.get('kind') == 'MemberExpr' and me.get('name') in WATCH_CALLS:
                found[('call', me['name'])].add((fn, lam))
            if me.get('kind') == 'MemberExpr' and me.get('inner'):
                obj = skip(me['inner'][0])
                if obj.get('kind') == 'MemberExpr' and obj.get('name') in WATCH_OBJECTS and me.get('name') in ('reset', 'emplace', 'swap'):
                    found[('write', obj['name'])].add((fn, lam, me['name']))
        if k == 'CXXOperatorCallExpr' and len(n.get('inner', [])) >= 2:
            callee = n['inner'][0]
            while 'referencedDecl' not in callee and callee.get('inner'):
                callee = callee['inner'][0]
            if callee.get('referencedDecl', {}).get('name') == 'operator=':
                obj = skip(n['inner'][1])
                if obj.get('kind') == 'MemberExpr' and obj.get('name') in WATCH_OBJECTS:
                    found[('write', obj['name'])].add((fn, lam, 'operator='))
        for c in n.get('inner', []):
            if isinstance(c, dict):
                if c.get('kind') == 'LambdaExpr':
                    for b_ in [x for x in c.get('inner', []) if x.get('kind') == 'CompoundStmt']:
                        walk(b_, fn, True)
                    continue
                walk(c, fn, lam)

    seen = set()

    def top(d):
        if d.get('kind') in ('CXXMethodDecl', 'CXXConstructorDecl', 'CXXDestructorDecl', 'FunctionDecl') and astx.has_body(d):
            if d['id'] not in seen:
                seen.add(d['id'])
                walk(d, d.get('name'), False)
            return
        if d.get('kind') in ('CXXRecordDecl', 'NamespaceDecl'):
            for c in d.get('inner', []):
                if isinstance(c, dict):
                    top(c)
    for d in docs:
        top(d)
    problems = []
    inside = {k: {x for x in v if x[0] in VERIFIED and not x[1]} for k, v in found.items()}
    for k, exp in EXPECTED.items():
        outside = found[k] - inside[k]
        if outside != exp:
            problems.append('%s %s outside the verified functions: expected %s, found %s' % (k[0], k[1], sorted(exp), sorted(outside)))
    # the private data is reachable only through QXmppOutgoingClient.cpp / QXmppOutgoingClient_p.h
    others = []
    pat = re.compile(r'\b(sessionStarted|closeSession|openSession|bind2Bound)\b')
    for root, _, files in os.walk(path('src')):
        for f in files:
            if not f.endswith(('.cpp', '.h')) or f in ('QXmppOutgoingClient.cpp', 'QXmppOutgoingClient_p.h', 'QXmppOutgoingClient.h'):
                continue
            if pat.search(open(os.path.join(root, f), errors='replace').read()):
                others.append(os.path.relpath(os.path.join(root, f), configure.REPO))
    return found, problems, others


def build(work, tier):
    jobs = [(path(OC), 'QXmppOutgoingClient::'), (path(OC), 'QXmppOutgoingClientPrivate'), (path(OC), 'XmppSocket'), (path(OC), 'C2sStreamManager'),
            (path(OC), 'QXmppOutgoingClient'), (path(OC), 'SessionEnd'), (path(OC), 'SessionBegin'), (path(OC), 'ServerAddress'), (path(OC), 'SeeOtherHost'),
            (path(OC), 'StreamErrorElement'), (path(STREAM), 'XmppSocket::isConnected'), (path(CL), 'QXmppClient::'), (path(CL), 'QXmppClientPrivate'), (path(CL), 'QXmppClient')]
    prewarm(jobs)
    # ------------------------------------------------------------------ the listener variant, from the real field type
    fields, priv_decl = ctx.record_fields(path(OC), 'QXmppOutgoingClientPrivate', 'QXmppOutgoingClientPrivate')
    lt = dict(fields).get('listener')
    if lt is None:
        raise Unsupported('QXmppOutgoingClientPrivate has no member `listener` (renamed/restructured code)')
    keys = {strip_type(lt['qualType']), strip_type(lt.get('desugaredQualType', lt['qualType']))}
    alts = variant_alternatives(lt.get('desugaredQualType', lt['qualType']))
    C10Lowerer.listener_alts = alts
    prof = extend_profile_negotiation(extend_profile(profile(keys)))
    prof.types.update({'QSharedDataPointer<QXmppConfigurationPrivate>': 'QXmppConfigurationPrivate*', 'QXmppConfigurationPrivate': 'QXmppConfigurationPrivate'})
    b = Builder('C10', work, prof)
    common = rd('common.inc').strip()

    def spec(fname):
        return Spec(b.subst(rd(fname).replace('@COMMON@', common)))

    # ------------------------------------------------------------------ records (field lists from the real classes)
    def record(src, filt, cls, cname=None, need=()):
        text, names = ctx.emit_record(path(src), filt, cls, cname or cls, prof, opaque_ok=True)
        for f in need:
            if not re.search(r'\b%s;' % f, text):
                raise Unsupported('record %s: member %s missing or of an unmodelled type (renamed/restructured code)' % (cls, f))
        return text
    r_soh = record(OC, 'SeeOtherHost', 'SeeOtherHost', need=['host', 'port'])
    r_addr = record(OC, 'ServerAddress', 'ServerAddress', need=['type', 'host', 'port'])
    r_send = record(OC, 'SessionEnd', 'SessionEnd', need=['smCanResume'])
    r_sbeg = record(OC, 'SessionBegin', 'SessionBegin', need=['smEnabled', 'smResumed', 'bind2Used', 'fastTokenChanged', 'authenticationMethod'])
    r_c2s = record(OC, 'C2sStreamManager', 'C2sStreamManager', need=['m_canResume', 'm_enabled', 'm_streamResumed', 'm_request', 'm_smId'])
    r_sock = record(OC, 'XmppSocket', 'XmppSocket', need=['m_socket', 'm_directTls'])
    r_conf = 'typedef struct QXmppConfigurationPrivate QXmppConfigurationPrivate;\n' + record('src/client/QXmppConfiguration.cpp', 'QXmppConfiguration', 'QXmppConfiguration', need=['d'])
    r_starttls = record(OC, 'StarttlsManager', 'StarttlsManager')
    r_see = record(OC, 'StreamErrorElement', 'StreamErrorElement', need=['condition', 'text'])
    lstruct, ldefs = listener_model(alts, prof)
    r_priv = record(OC, 'QXmppOutgoingClientPrivate', 'QXmppOutgoingClientPrivate',
                    need=['socket', 'streamAckManager', 'iqManager', 'serverAddresses', 'nextServerAddressIndex', 'nextAddressState', 'streamId', 'streamFrom',
                          'streamVersion', 'redirect', 'isAuthenticated', 'sessionStarted', 'authenticationMethod', 'bind2Bound', 'listener', 'fastTokenManager',
                          'c2sStreamManager', 'carbonManager', 'csiManager'])
    r_client = record(OC, 'QXmppOutgoingClient', 'QXmppOutgoingClient', need=['d'])
    r_pubpriv = record(CL, 'QXmppClientPrivate', 'QXmppClientPrivate', need=['stream'])
    r_pub = record(CL, 'QXmppClient', 'QXmppClient', need=['d'])
    nas = unnamed_enum_constants(priv_decl)
    for k in ('Current', 'TryNext'):
        if k not in nas:
            raise Unsupported('QXmppOutgoingClientPrivate: unnamed enum with enumerator %s not found (renamed/restructured code)' % k)
    nas_defs = 'enum { %s };   /* unnamed enum of QXmppOutgoingClientPrivate::nextAddressState */' % ', '.join('NAS__%s = %d' % kv for kv in nas.items())
    records = '\n'.join(['typedef struct QXmppOutgoingClient QXmppOutgoingClient;', r_soh, r_addr, r_send, r_sbeg, rd('model2.h'), r_see, r_conf, r_sock, r_starttls, r_c2s,
                         lstruct, ldefs, listener_setters(alts), r_priv, r_client, nas_defs, 'typedef struct QXmppClient QXmppClient;', r_pubpriv, r_pub,
                         '#define SOCK_STATE (self->d->stream->d->socket.m_socket->state)'])
    # type invariant of the private object: its enum-typed members hold declared enumerators (generated from the class definition)
    inv, _ = ctx.enum_field_invariant(path(OC), 'QXmppOutgoingClientPrivate', 'QXmppOutgoingClientPrivate')
    records += '\n#define QXmppOutgoingClientPrivate_ENUMS_VALID(p) (' + inv.replace('%s', 'p') + ')\n'

    # ------------------------------------------------------------------ lowering of the real functions
    lowered, specs = {}, {}
    lws = []

    def low(src, filt, name, cname, this, specfile=None, **kw):
        sp = spec(specfile) if specfile else None
        t = Target(src, filt, name, cname, this=this, parent=kw.pop('parent', None), lowerer_cls=C10Lowerer, **kw)
        lowered[cname] = b.lower(t, sp)
        specs[cname] = sp
        lws.append(b.last)
        return b.last

    Q = 'QXmppOutgoingClient_'
    low(OC, 'QXmppOutgoingClient::', '_q_socketDisconnected', Q + '_q_socketDisconnected', 'QXmppOutgoingClient', 'socketDisconnected.spec')
    low(OC, 'QXmppOutgoingClient::', 'closeSession', Q + 'closeSession', 'QXmppOutgoingClient', 'closeSession.spec')
    low(OC, 'QXmppOutgoingClient::', 'openSession', Q + 'openSession', 'QXmppOutgoingClient', 'openSession.spec')
    low(OC, 'QXmppOutgoingClient::', 'handleStart', Q + 'handleStart', 'QXmppOutgoingClient', 'handleStart.spec')
    low(OC, 'QXmppOutgoingClient::', 'disconnectFromHost', Q + 'disconnectFromHost', 'QXmppOutgoingClient', 'disconnectFromHost.spec')
    low(OC, 'QXmppOutgoingClient::', 'isConnected', Q + 'isConnected', 'QXmppOutgoingClient', 'isConnected.spec')
    low(OC, 'QXmppOutgoingClient::', 'isAuthenticated', Q + 'isAuthenticated', 'QXmppOutgoingClient', 'isAuthenticated.spec')
    low(OC, 'QXmppOutgoingClient::', 'socketError', Q + 'socketError', 'QXmppOutgoingClient', 'socketError.spec')
    low(OC, 'QXmppOutgoingClient::', 'handleStreamError', Q + 'handleStreamError', 'QXmppOutgoingClient', 'handleStreamError.spec')
    low(OC, 'QXmppOutgoingClientPrivate', 'connectToNextAddress', 'QXmppOutgoingClientPrivate_connectToNextAddress', 'QXmppOutgoingClientPrivate', 'connectToNextAddress.spec')
    low(OC, 'C2sStreamManager', 'onStreamStart', 'C2sStreamManager_onStreamStart', 'C2sStreamManager', 'streamstart.spec')
    low(OC, 'C2sStreamManager', 'onStreamClosed', 'C2sStreamManager_onStreamClosed', 'C2sStreamManager', 'streamclosed.spec')
    # real one-line helpers, verified inline with their callers (no contract of their own)
    helpers = []
    for g in ('canResume', 'enabled', 'streamResumed'):
        low(OC, 'C2sStreamManager', g, 'C2sStreamManager_' + g, 'C2sStreamManager')
        helpers.append('C2sStreamManager_' + g)
    low(STREAM, 'XmppSocket::isConnected', 'isConnected', 'XmppSocket_isConnected', 'XmppSocket')
    low(OC, 'XmppSocket', 'socket', 'XmppSocket_socket', 'XmppSocket')
    low(OC, 'QXmppOutgoingClient::', 'socket', Q + 'socket', 'QXmppOutgoingClient')
    low(CL, 'QXmppClient::', 'state', 'QXmppClient_state', 'QXmppClient', 'clientState.spec')
    low(CL, 'QXmppClient::', 'isConnected', 'QXmppClient_isConnected', 'QXmppClient', 'clientIsConnected.spec')
    helpers += ['XmppSocket_isConnected', 'XmppSocket_socket', Q + 'socket']
    need_unnamed = set().union(*[getattr(x, 'need_unnamed', set()) for x in lws])
    if not need_unnamed <= set(nas):
        raise Unsupported('unnamed-enum constants %s not declared in QXmppOutgoingClientPrivate' % sorted(need_unnamed - set(nas)))

    # ------------------------------------------------------------------ closed world: writers of the flags, emitters of the signals
    # a deviation does not stop the proofs (a new writer inside a verified function is caught by its frame condition, exit 1); it is
    # reported through a proof of its own whose only obligation is a failing MODEL_LIMIT (exit 2: the closed-world premise is unknown)
    found, problems, others = inventory()
    inv_msg = ''
    if problems or others:
        inv_msg = re.sub(r'[^\w ,:;=\[\]\(\)\._/\-]', ' ', 'closed-world inventory differs: %s %s' % ('; '.join(problems), others))[:900]

    # ------------------------------------------------------------------ assemble one C file
    payload = sorted(set().union(*[getattr(x, 'need_payload', set()) for x in lws]))
    payload_defs = '\n'.join('#define XML_%s %d' % (t, i + 1) for i, t in enumerate(payload))
    main_fns = [Q + n for n in ('closeSession', '_q_socketDisconnected', 'openSession', 'handleStart', 'disconnectFromHost', 'isConnected', 'isAuthenticated', 'socketError',
                                'handleStreamError')] + ['QXmppOutgoingClientPrivate_connectToNextAddress', 'C2sStreamManager_onStreamStart', 'C2sStreamManager_onStreamClosed', 'QXmppClient_state', 'QXmppClient_isConnected']
    bare = '\n'.join(lowered[f].split('\n')[0] + ';' for f in main_fns + helpers)
    ctxt = b.context()
    seen = set()
    ctxt = '\n'.join(l for l in ctxt.split('\n') if not (l.startswith(('enum {', 'static const')) and (l in seen or seen.add(l))))
    order = helpers + ['C2sStreamManager_onStreamStart', 'C2sStreamManager_onStreamClosed', 'QXmppOutgoingClientPrivate_connectToNextAddress'] + \
        [Q + n for n in ('closeSession', '_q_socketDisconnected', 'openSession', 'handleStart', 'disconnectFromHost', 'isConnected', 'isAuthenticated', 'socketError', 'handleStreamError')] + ['QXmppClient_state', 'QXmppClient_isConnected']
    body = '\n'.join(lowered[f] for f in order)
    gh_init = ('static void gh_init(void) { gh_sent = nondet_uint(); gh_sent_last = nondet_int(); gh_sock_disconnects = nondet_uint(); gh_connects = nondet_uint(); gh_errors = nondet_uint();\n'
               '  gh_ack_closed = nondet_uint(); gh_iq_closed = nondet_uint(); gh_iq_opened = nondet_uint(); gh_iq_cancel_all = nondet_uint(); gh_carbon_opened = nondet_uint();\n'
               '  gh_csi_opened = nondet_uint(); gh_ev_disconnected = nondet_uint(); gh_ev_connected = nondet_uint(); gh_iq_closed_resumable = nondet_bool(); gh_ev_disconnected_resumable = nondet_bool();\n'
               '  gh_step_pending = nondet_bool(); gh_steps = nondet_uint(); gh_cont_last = nondet_int(); }\n')
    harness = gh_init + '''
void h_socketDisconnected(void) { gh_init(); QXmppOutgoingClient *self; QXmppOutgoingClient__q_socketDisconnected(self); }
void h_closeSession(void) { gh_init(); QXmppOutgoingClient *self; QXmppOutgoingClient_closeSession(self); }
void h_openSession(void) { gh_init(); QXmppOutgoingClient *self; QXmppOutgoingClient_openSession(self); }
void h_handleStart(void) { gh_init(); QXmppOutgoingClient *self; QXmppOutgoingClient_handleStart(self); }
void h_disconnectFromHost(void) { gh_init(); QXmppOutgoingClient *self; QXmppOutgoingClient_disconnectFromHost(self); }
void h_isConnected(void) { gh_init(); QXmppOutgoingClient *self; QXmppOutgoingClient_isConnected(self); }
void h_isAuthenticated(void) { gh_init(); QXmppOutgoingClient *self; QXmppOutgoingClient_isAuthenticated(self); }
void h_socketError(void) { gh_init(); QXmppOutgoingClient *self; int e; QXmppOutgoingClient_socketError(self, e); }
void h_handleStreamError(void) { gh_init(); QXmppOutgoingClient *self; const StreamErrorElement *e; QXmppOutgoingClient_handleStreamError(self, e); }
void h_connectToNextAddress(void) { gh_init(); QXmppOutgoingClientPrivate *self; QXmppOutgoingClientPrivate_connectToNextAddress(self); }
void h_onStreamStart(void) { gh_init(); C2sStreamManager *self; C2sStreamManager_onStreamStart(self); }
void h_onStreamClosed(void) { gh_init(); C2sStreamManager *self; C2sStreamManager_onStreamClosed(self); }
void h_clientState(void) { gh_init(); const QXmppClient *self; QXmppClient_state(self); }
void h_clientIsConnected(void) { gh_init(); const QXmppClient *self; QXmppClient_isConnected(self); }
'''
    # every contracted callee stays a known symbol even if the code under check no longer calls it (a removed call must end in a
    # failed postcondition, not in a tool error of --replace-call-with-contract)
    keep = 'void *const gh_keep_stubs[] = { %s };\n' % ', '.join('(void *)%s' % x for x in STUBS)
    head = '\n'.join(['#include "opaque.h"', prof.literal_ids.table(), rd('model.h'), records, ctxt, payload_defs, b.subst(rd('callees.h')), keep, bare])
    f = b.write('c10.c', '\n'.join([head, body, harness]))
    # lemma file: the same declarations, every function only as a prototype with its contract
    protos = ''.join(b.prototype(lowered[fn]) for fn in order if specs.get(fn))
    lem = b.subst(rd('lemma.h'))
    flem = b.write('c10_lemma.c', '\n'.join([head, protos, lem]))

    # ------------------------------------------------------------------ the callers of openSession(): step starters and continuations
    C10Lowerer.listener_alts = alts
    r_bound = record(OC, 'BoundAddress', 'BoundAddress', need=['user', 'domain', 'resource'])
    r_perr = record(OC, 'ProtocolError', 'ProtocolError', need=['text'])
    r_nsopt = record(OC, 'NonSaslAuthOptions', 'NonSaslAuthOptions', need=['plain', 'digest'])
    r_s2succ = record(OC, 'Sasl2::Success', 'Success', 'Sasl2Success', need=['authorizationIdentifier', 'bound', 'smResumed'])
    tmp_lw = C10Lowerer({'inner': []}, 'x', prof)
    vstructs, vdefs = [], []
    conts = {}      # cname -> (operator() decl, description)

    def continuation(fn_name, ordinal, cname, vname=None):
        fn = astx.find_function(path(OC), 'QXmppOutgoingClient::', fn_name)
        lams = find_lambdas(fn)
        if ordinal >= len(lams):
            raise Unsupported('%s: continuation lambda #%d not found (restructured code)' % (fn_name, ordinal))
        op = lambda_call_operator(lams[ordinal])
        pvs = [c for c in op.get('inner', []) if c.get('kind') == 'ParmVarDecl']
        if vname:
            if len(pvs) != 1:
                raise Unsupported('%s: continuation #%d takes %d parameters' % (fn_name, ordinal, len(pvs)))
            t = pvs[0]['type']
            full = t.get('desugaredQualType', t['qualType'])
            if vname not in lowering.VARIANTS:
                valts = variant_alternatives(full)
                vstructs.append(register_variant(prof, [t['qualType'], full], vname, valts, tmp_lw))
                vdefs.append('#define VARIANT_ALTS_%s %d' % (vname, len(valts)))
                vdefs.extend('#define VIDX_%s_%s %d' % (vname, alt_cname(a)[4:], i) for i, a in enumerate(valts))
            else:
                for k in (t['qualType'], full):
                    prof.types[strip_type(k)] = vname
        elif pvs:
            raise Unsupported('%s: continuation #%d unexpectedly takes parameters' % (fn_name, ordinal))
        conts[cname] = (op, 'QXmppOutgoingClient::%s::<lambda#%d> (continuation)' % (fn_name, ordinal))

    prof.types['std::pair<QString,AuthenticationError>'] = 'AuthErrPair'
    continuation('startSmResume', 0, 'startSmResume_cont0')
    continuation('startSmEnable', 0, 'startSmEnable_cont0')
    continuation('startResourceBinding', 0, 'startResourceBinding_cont0', 'BindResult')
    continuation('startSasl2Auth', 1, 'startSasl2Auth_cont1', 'Sasl2Result')
    continuation('startNonSaslAuth', 0, 'startNonSaslAuth_cont0', 'NonSaslOptionsResult')
    continuation('startNonSaslAuth', 1, 'startNonSaslAuth_cont1', 'SuccessOrError')
    continuation('handleStreamFeatures', 0, 'handleStreamFeatures_cont0', 'SaslResult')
    neg_lowered, neg_specs, neg_lws = {}, {}, []

    def lowneg(cname, specfile, name=None, decl=None, this='QXmppOutgoingClient', src=OC, filt='QXmppOutgoingClient::', label=None):
        sp = spec(specfile) if specfile else None
        t = Target(src, filt, name or 'operator()', cname, this=this, lowerer_cls=C10Lowerer)
        if decl is not None:
            t.decl = decl
        neg_lowered[cname] = b.lower(t, sp)
        if label:
            b.functions[-1]['function'] = label
        neg_specs[cname] = sp
        neg_lws.append(b.last)
    for g in ('canRequestEnable', 'canRequestResume'):
        lowneg('C2sStreamManager_' + g, None, name=g, this='C2sStreamManager', filt='C2sStreamManager')
    for n_ in ('startSmResume', 'startSmEnable', 'startResourceBinding'):
        lowneg(Q + n_, n_ + '.spec', name=n_)
    for cname, specfile in (('startSmResume_cont0', 'startSmResume_cont.spec'), ('startSmEnable_cont0', 'startSmEnable_cont.spec'),
                            ('startResourceBinding_cont0', 'startResourceBinding_cont.spec'), ('startSasl2Auth_cont1', 'startSasl2Auth_cont.spec'),
                            ('startNonSaslAuth_cont1', 'startNonSaslAuth_cont1.spec'), ('startNonSaslAuth_cont0', 'startNonSaslAuth_cont0.spec'),
                            ('handleStreamFeatures_cont0', 'handleStreamFeatures_cont.spec')):
        lowneg(cname, specfile, decl=conts[cname][0], label=conts[cname][1])
    # ---- handleStreamFeatures (its own openSession call site): records and real getters as in units/C04
    CONF, FEAT = 'src/client/QXmppConfiguration.cpp', 'src/base/QXmppStreamFeatures.cpp'
    prof.types.update({'QSharedDataPointer<QXmppStreamFeaturesPrivate>': 'QXmppStreamFeaturesPrivate*', 'QXmppStreamFeaturesPrivate': 'QXmppStreamFeaturesPrivate'})
    prof.class_types.update({'QXmppConfigurationPrivate', 'QXmppStreamFeaturesPrivate'})
    prof.calls.update({'op->:QXmppConfigurationPrivate*': ('expr', '{0}'), 'op->:QXmppStreamFeaturesPrivate*': ('expr', '{0}'),
                       'QXmppStreamFeatures::streamManagementMode/0': ('callee', 'QXmppStreamFeatures_streamManagementMode')})
    r_confpriv = record(CONF, 'QXmppConfiguration', 'QXmppConfigurationPrivate', need=['useSasl2Authentication', 'useSASLAuthentication', 'useNonSASLAuthentication'])
    r_featpriv = record(FEAT, 'QXmppStreamFeatures', 'QXmppStreamFeaturesPrivate', need=['bindMode', 'nonSaslAuthMode', 'authMechanisms', 'sasl2Feature', 'streamManagementMode'])
    r_feat = record(FEAT, 'QXmppStreamFeatures', 'QXmppStreamFeatures', need=['d'])
    hsf_helpers = []
    for g in ('useNonSASLAuthentication', 'useSASLAuthentication', 'useSasl2Authentication'):
        lowneg('QXmppConfiguration_' + g, None, name=g, this='QXmppConfiguration', src=CONF, filt='QXmppConfiguration')
        hsf_helpers.append('QXmppConfiguration_' + g)
    for g in ('nonSaslAuthMode', 'bindMode', 'authMechanisms', 'sasl2Feature', 'streamManagementMode'):
        lowneg('QXmppStreamFeatures_' + g, None, name=g, this='QXmppStreamFeatures', src=FEAT, filt='QXmppStreamFeatures')
        hsf_helpers.append('QXmppStreamFeatures_' + g)
    lowneg(Q + 'configuration', None, name='configuration')
    lowneg('C2sStreamManager_onStreamFeatures', None, name='onStreamFeatures', this='C2sStreamManager', filt='C2sStreamManager')
    hsf_helpers += [Q + 'configuration', 'C2sStreamManager_onStreamFeatures']
    lowneg(Q + 'handleStreamFeatures', 'handleStreamFeatures.spec', name='handleStreamFeatures')
    cont_ids = []
    for lw_ in neg_lws:
        for i in range(len(getattr(lw_, 'continuations', []))):
            cont_ids.append('CONT_%s_%d' % (lw_.cname, i))
    cont_defs = '\n'.join('#define %s %d' % (c_, i + 1) for i, c_ in enumerate(cont_ids))
    neg_payload = sorted(set().union(*[getattr(x, 'need_payload', set()) for x in neg_lws]) - set(payload))
    neg_payload_defs = '\n'.join('#define XML_%s %d' % (t_, len(payload) + i + 1) for i, t_ in enumerate(neg_payload))
    neg_order = hsf_helpers + ['C2sStreamManager_canRequestEnable', 'C2sStreamManager_canRequestResume'] + [Q + n_ for n_ in ('startSmResume', 'startSmEnable', 'startResourceBinding')] + \
        ['startSmResume_cont0', 'startSmEnable_cont0', 'startResourceBinding_cont0', 'startSasl2Auth_cont1', 'startNonSaslAuth_cont1', 'startNonSaslAuth_cont0', 'handleStreamFeatures_cont0', Q + 'handleStreamFeatures']
    ctxt2 = b.context()
    seen2 = set()
    ctxt2 = '\n'.join(l for l in ctxt2.split('\n') if not (l.startswith(('enum {', 'static const')) and (l in seen2 or seen2.add(l))))
    neg_head = '\n'.join(['#include "opaque.h"', prof.literal_ids.table(), rd('model.h'), records, ctxt2, payload_defs, neg_payload_defs, b.subst(rd('callees.h')),
                          r_confpriv, r_featpriv, r_feat, r_bound, r_perr, r_nsopt, rd('variants.h'), r_s2succ] + vstructs + vdefs + [cont_defs, b.subst(rd('steps.h')),
                          'void *const gh_keep_stubs[] = { %s };' % ', '.join('(void *)%s' % x for x in STUBS + NEG_STUBS),
                          ''.join(b.prototype(lowered[fn]) for fn in (Q + 'openSession', Q + 'handleStart', Q + 'disconnectFromHost')),
                          '\n'.join(neg_lowered[fn].split('\n')[0] + ';' for fn in neg_order)])
    neg_harness = gh_init + NEG_HARNESS
    fneg = b.write('c10_neg.c', '\n'.join([neg_head, lowered['C2sStreamManager_streamResumed'], '\n'.join(neg_lowered[fn] for fn in neg_order), neg_harness]))

    stubs = STUBS
    proofs = []

    def proof(pid, entry, enforce, replace, defines=BOTH_EXCLUDED, note='', finding=None, cfile=None):
        sp = specs.get(enforce) or neg_specs[enforce]
        p = Proof(pid, cfile or f, entry, enforce=enforce, replace=replace, kind='complete', include_dirs=[QT], timeout=600, loop_contracts=False,
                  defines=list(defines), note=note)
        p.labels = {'post': {enforce: sp.labels}}
        p.expect_post = len(sp.labels)
        if finding:
            p.finding = finding
        proofs.append(p)
        return p

    proof('C2sStreamManager.onStreamStart', 'h_onStreamStart', 'C2sStreamManager_onStreamStart', [], note='loop-free; every state of the manager')
    proof('C2sStreamManager.onStreamClosed', 'h_onStreamClosed', 'C2sStreamManager_onStreamClosed', [], note='loop-free')
    proof('handleStart', 'h_handleStart', Q + 'handleStart', stubs + ['C2sStreamManager_onStreamStart'],
          note='loop-free; every client state; onStreamStart through its (verified) contract')
    proof('connectToNextAddress', 'h_connectToNextAddress', 'QXmppOutgoingClientPrivate_connectToNextAddress', stubs,
          note='loop-free; address list of any length (element i = uninterpreted function of the list and i)')
    proof('closeSession', 'h_closeSession', Q + 'closeSession', stubs, note='loop-free; every client state; the three notifications through their contracts (order checked at the call sites)')
    proof('openSession', 'h_openSession', Q + 'openSession', stubs, note='loop-free; every client state without an open session')
    proof('_q_socketDisconnected', 'h_socketDisconnected', Q + '_q_socketDisconnected', stubs + [Q + 'closeSession', 'QXmppOutgoingClientPrivate_connectToNextAddress'],
          note='loop-free; every client state except the input classes of findings %s and %s; closeSession and connectToNextAddress through their (verified) contracts' % (FINDING, FINDING2))
    proof('_q_socketDisconnected.finding-F1', 'h_socketDisconnected', Q + '_q_socketDisconnected', stubs + [Q + 'closeSession', 'QXmppOutgoingClientPrivate_connectToNextAddress'],
          defines=('F1_ONLY', 'F2_EXCLUDED'), finding=FINDING, note='same contract restricted to the input class of %s (session open and redirect pending): fails' % FINDING)
    proof('_q_socketDisconnected.finding-F2', 'h_socketDisconnected', Q + '_q_socketDisconnected', stubs + [Q + 'closeSession', 'QXmppOutgoingClientPrivate_connectToNextAddress'],
          defines=('F2_ONLY', 'F1_EXCLUDED'), finding=FINDING2, note='same contract restricted to the input class of %s (a bind2 result is pending): fails' % FINDING2)
    proof('disconnectFromHost', 'h_disconnectFromHost', Q + 'disconnectFromHost', stubs + ['C2sStreamManager_onStreamClosed'], note='loop-free; onStreamClosed through its (verified) contract')
    proof('isConnected', 'h_isConnected', Q + 'isConnected', [], note='loop-free; real XmppSocket::isConnected inlined; socket pointer may be null')
    proof('isAuthenticated', 'h_isAuthenticated', Q + 'isAuthenticated', [], note='loop-free')
    proof('QXmppClient.state', 'h_clientState', 'QXmppClient_state', [], note='loop-free; real QXmppOutgoingClient::isConnected / socket, XmppSocket::isConnected / socket inlined; every socket state')
    proof('QXmppClient.isConnected', 'h_clientIsConnected', 'QXmppClient_isConnected', [], note='loop-free; real callees inlined')
    proof('socketError', 'h_socketError', Q + 'socketError', stubs + ['QXmppOutgoingClientPrivate_connectToNextAddress'],
          note='loop-free; every socket error, socket state, client state; establishes the fallback invariant')
    proof('handleStreamError', 'h_handleStreamError', Q + 'handleStreamError', stubs, note='loop-free; every stream error (see-other-host or a defined condition)')

    # ---- the callers of openSession(): openSession / handleStart / disconnectFromHost and the verified starters through their contracts
    nstubs = STUBS + NEG_STUBS
    sess = [Q + 'openSession', Q + 'handleStart', Q + 'disconnectFromHost']
    starters = [Q + 'startSmResume', Q + 'startSmEnable', Q + 'startResourceBinding']
    for n_ in ('startSmResume', 'startSmEnable', 'startResourceBinding'):
        proof(n_, 'h_' + n_, Q + n_, nstubs, cfile=fneg, note='loop-free; the step starter: sends its request and registers exactly one continuation')
    proof('startSmResume.continuation', 'h_startSmResume_cont', 'startSmResume_cont0', nstubs + sess + starters, cfile=fneg,
          note='loop-free; every stream-management / bind availability; openSession and startResourceBinding through their (verified) contracts: openSession requires that no session is open and no step is pending at each call site')
    proof('startSmEnable.continuation', 'h_startSmEnable_cont', 'startSmEnable_cont0', nstubs + sess + starters, cfile=fneg, note='loop-free')
    proof('startResourceBinding.continuation', 'h_startResourceBinding_cont', 'startResourceBinding_cont0', nstubs + sess + starters, cfile=fneg,
          note='loop-free; every bind result (bound address / stanza error / protocol error); real C2sStreamManager::canRequestEnable inlined')
    proof('startSasl2Auth.continuation', 'h_startSasl2Auth_cont', 'startSasl2Auth_cont1', nstubs + sess + starters, cfile=fneg,
          note='loop-free; every SASL2 result (success with/without bound, resumed, failed / error pair)')
    proof('startNonSaslAuth.continuation-options', 'h_startNonSaslAuth_cont0', 'startNonSaslAuth_cont0', nstubs + sess + starters, cfile=fneg,
          note='loop-free; every options result; the authentication request is the one further step')
    proof('startNonSaslAuth.continuation-auth', 'h_startNonSaslAuth_cont1', 'startNonSaslAuth_cont1', nstubs + sess + starters, cfile=fneg, note='loop-free')
    proof('handleStreamFeatures.continuation-sasl', 'h_handleStreamFeatures_cont', 'handleStreamFeatures_cont0', nstubs + sess + starters, cfile=fneg,
          note='loop-free; SASL success restarts the stream (handleStart through its verified contract), failure gives up')

    proof('handleStreamFeatures', 'h_handleStreamFeatures', Q + 'handleStreamFeatures', nstubs + sess + starters, cfile=fneg,
          note='loop-free; every feature set, configuration and stream-management state; real getters of QXmppStreamFeatures / QXmppConfiguration and C2sStreamManager::onStreamFeatures / canRequestResume / canRequestEnable inlined; handleStarttls contract-only (verified in units/C04)')

    ops = [Q + n for n in ('_q_socketDisconnected', 'handleStart', 'openSession', 'disconnectFromHost', 'handleStreamError', 'socketError')]
    nlem1 = len(re.findall(r'"\[lemma\.', lem.split('void h_lemma_once')[0]))
    nlem2 = len(re.findall(r'"\[lemma\.', lem.split('void h_lemma_once')[1]))
    p = Proof('lemma_connection_loss_then_new_stream', flem, 'h_lemma_reset', enforce=None, replace=ops, include_dirs=[QT], kind='complete', loop_contracts=False, timeout=600,
              defines=list(BOTH_EXCLUDED), note='from ANY client state outside the input classes of findings %s, %s: socket disconnected, then the next stream starts; contracts only' % (FINDING, FINDING2))
    p.expect_post = nlem1
    proofs.append(p)
    p = Proof('lemma_session_reported_once_per_connection', flem, 'h_lemma_once', enforce=None, replace=ops, include_dirs=[QT], kind='complete', loop_contracts=False, timeout=600,
              defines=list(BOTH_EXCLUDED), note='openSession, any one event on the live connection, then the loss of the connection; contracts only')
    p.expect_post = nlem2
    proofs.append(p)

    finv = b.write('c10_inventory.c', '#include "base.h"\nvoid h_inventory(void) { %s __CPROVER_assert(1, "[lemma.closed_world_inventory_of_flag_writers_and_signal_emitters_matches]"); }\n'
                   % (('MODEL_LIMIT(0, "%s");' % inv_msg) if inv_msg else ''))
    lemn = b.subst(rd('lemma_neg.h'))
    neg_contracted = [fn for fn in neg_order if neg_specs.get(fn)]
    flemn = b.write('c10_lemma_neg.c', '\n'.join([neg_head, ''.join(b.prototype(neg_lowered[fn]) for fn in neg_contracted), lemn]))
    p = Proof('lemma_negotiation_event', flemn, 'h_lemma_negotiation', enforce=None, replace=[fn for fn in neg_contracted if 'cont' in fn or fn.endswith('handleStreamFeatures')],
              include_dirs=[QT], kind='complete', loop_contracts=False, timeout=600, defines=list(BOTH_EXCLUDED),
              note='any one negotiation event (features, or the continuation of any step with any payload) from any negotiating state; contracts only')
    p.expect_post = len(re.findall(r'"\[lemma\.', lemn))
    proofs.append(p)
    p = Proof('inventory', finv, 'h_inventory', enforce=None, replace=[], include_dirs=[QT], kind='complete', loop_contracts=False, timeout=60,
              note='AST inventory over the client TU compared with the expected writer / emitter / caller sets (unit.py EXPECTED)')
    p.expect_post = 1
    proofs.append(p)

    native_note = ''
    if tier == 'thorough':
        res = []
        for mode in ('redirect-established', 'redirect-early', 'drop-established', 'cut-after-sasl2-success', 'cut-before-sasl2-success'):
            rc, out = _run_script(mode)
            res.append('%s: %s' % (mode, 'REPRODUCED' if (rc == 0 and 'NOT-REPRODUCED' not in out) else ('NOT-REPRODUCED' if rc == 1 else 'replay failed')))
        native_note = '; native replay against the real library (%s: redirect-*/drop-*, %s: cut-*): ' % (FINDING, FINDING2) + ', '.join(res)
    unit_text = rd('model.h') + rd('model2.h') + rd('callees.h') + rd('steps.h') + rd('variants.h') + rd('lemma_neg.h') + rd('lemma.h') + open(os.path.join(QT, 'opaque.h')).read()
    inv_text = '; '.join('%s %s: %s' % (k[0], k[1], ', '.join('%s%s%s' % (x[0], '[continuation]' if x[1] else '', ('=' + x[2]) if len(x) > 2 else '') for x in sorted(v)))
                         for k, v in sorted(found.items()))
    return {
        'proofs': proofs, 'functions': b.functions, 'dropped': b.dropped, 'fired': b.fired, 'hooks': [],
        'assumed': ASSUMED, 'assumes': scan_assumes(unit_text), 'not_covered': NOT_COVERED,
        'explanation': 'inventory over the client TU (writers of the flags, emitters of the session signals, callers of openSession/closeSession): ' + inv_text + native_note,
    }


ASSUMED = [
    'A-QSOCKET (units/C10/model.h): QAbstractSocket::state() / QSslSocket::isEncrypted() / errorString() read fields of the socket object',
    'A-WIRE: XmppSocket::sendData / XmppSocket::disconnectFromHost / QXmppOutgoingClientPrivate::connectToHost are the only ways bytes, a close request and a connection attempt leave the verified functions (ghost event log); connectToHost (Qt TLS configuration + XmppSocket::connectToHost) touches only the socket and starts exactly one attempt to the given address; serializeXml payloads are classified by the C++ type passed',
    'A-SIGNAL: Q_EMIT connected/disconnected = synchronous call of the connected slots, modelled as contracted callees that record the event; the slots (QXmppClient and the application) and the continuations completed by OutgoingIqManager::cancelAll are assumed not to re-enter the client in a way that changes sessionStarted / isAuthenticated / the redirect (e.g. by calling connectToServer from a disconnected handler) before the emitting function returns',
    'StreamAckManager::onSessionClosed (units/C09 closed.spec) and OutgoingIqManager::onSessionOpened / onSessionClosed (units/C07) are used through abstract restatements of the contracts verified in those units: ack manager disabled; outstanding requests cancelled iff not resumed / not resumable',
    'CarbonManager::onSessionOpened, CsiManager::onSessionOpened (may send the CSI state), FastTokenManager::tokenChanged, QXmppOutgoingClient::setError: contracts without verified bodies (event recorders)',
    'A-STD-VECTOR / A-STD-OPTIONAL / A-STD-VARIANT-ORDER (units/C10/model.h, model2.h): std::vector<ServerAddress> as (length, element = uninterpreted function of list and index, at() out of range is an obligation); std::optional as {has, value}; variants as tagged structs; `m_request = {}` selects the first alternative',
    'A-TRYNEXT: "try next address" is pending only while no session is open and an address is left (required by _q_socketDisconnected). socketError -- the only function that sets TryNext -- is proved to establish and keep it, connectToNextAddress clears the request; that openSession is never reached while the request is pending (the socket reported an error but is still connected) is NOT proved',
    'Q_ASSERT(!d->sessionStarted) in openSession is compiled out in the verified (release) configuration; the contract of openSession requires it instead and the unit checks nothing at the call sites inside continuations (see not_covered)',
    'lemma harnesses: the __CPROVER_assume statements are the arbitrary start state, the environment\'s choice of the next event, A-TRYNEXT, consistency of the ghost log, and the exclusion of the input class of finding C10-F1 (which is checked by its own proof and reported as KNOWN-FINDING)',
    'opaque strings (qtmodel/opaque.h); std::unique_ptr<QXmppOutgoingClientPrivate> d as a plain valid pointer',
    'A-THEN / A-STEP (units/C10/steps.h): QXmppTask::then registers the continuation of the step whose request was just sent (ghost: a step is pending); the continuation runs after the registering function has returned, when that step is over, and steps are strictly sequential (one listener): every continuation and handleStreamFeatures are entered with no session open and no step pending (NEGOTIATING). That the server sends <stream:features/> only while no session is open is the protocol-conformance premise of the property',
    'contract-only (bodies not verified here): startSasl2Auth, startNonSaslAuth (each starts exactly one step and installs its listener), handleStarttls (verified against the TLS gate in units/C04; here: never opens the session, starts at most one step), the request senders C2sStreamManager::requestResume/requestEnable, BindManager::bindAddress, SaslManager::authenticate, NonSaslAuthManager::authenticate, setListener<T>, QXmppConfiguration setters/getters (touch only the configuration), FastTokenManager/C2sStreamManager::onSasl2Success, C2sStreamManager::onBind2Bound, CsiManager::onStreamFeatures (none starts a step or opens the session)',
    'values handed to continuations as tagged structs generated from the real parameter types (alternative order from the type, A-STD-VARIANT-ORDER); std::get on the inactive alternative is an obligation; the template argument of std::holds_alternative<T> is read from the source text',
]
NOT_COVERED = [
    'the product "every protocol-conforming server script x every cut point x up to three connection attempts": only the per-function reset/close/open mechanisms the anchors name and two lemma harnesses over their contracts are decided (DESIGN 7)',
    '"a following connection attempt runs the negotiation from the start and succeeds": liveness over the event loop, the socket and the server; not addressed. (Observed in the native replay, not under contract: when the server sends </stream:stream> in the same TCP chunk as the see-other-host error, XmppSocket::processData emits streamClosed after the redirect connection has already been started, and QXmppOutgoingClient::disconnectFromHost then closes the NEW connection and gives up resumption -- the redirect is not followed; replay_redirect redirect-early-with-close)',
    'a second <stream:features/> on an OPEN session (non-conforming server) would reach handleStreamFeatures outside its precondition NEGOTIATING; openSession\'s precondition is established at all six call sites only under that precondition (A-THEN / A-STEP)',
    'bodies of startSasl2Auth / startNonSaslAuth (request construction), handlePacketReceived (dispatch to the listener; units/C04), the listener objects that complete the steps (Sasl/Sasl2/Bind/NonSasl managers: when and with what a continuation is run)',
    'QXmppOutgoingClient::connectToHost / connectToAddressList (DNS lookup, address list construction), QXmppClient (reconnection timer, connectToServer, state(), stateChanged), PingManager timers',
    '"completes or retains every outstanding request": covered only as "the request table and the ack manager are told exactly once, with the right resumability flag" (their behaviour is units/C07 and C09); StreamAckManager::resetCache is not called on connection loss by design (unacknowledged stanzas are kept for resumption) and is outside this unit',
    're-entrancy of slots connected to connected/disconnected and of request continuations (A-SIGNAL)',
]


# ---------------------------------------------------------------------- native replay (real library, two scripted loopback servers; replay_redirect.cpp, replay_bind2.cpp)
_native_cache = {}


def _run_script(mode):
    if mode not in _native_cache:
        from vlib import native
        try:
            driver = 'replay_bind2.cpp' if mode.startswith('cut-') else 'replay_redirect.cpp'
            rc, out = native.run_driver(os.path.join(HERE, driver), args=[mode], timeout=60)
        except Exception as e:   # build problem of the working tree: no verdict from the replay
            rc, out = 2, 'native replay not possible: %s' % e
        _native_cache[mode] = (rc, out)
    return _native_cache[mode]


SCRIPTS = {'QXmppOutgoingClient__q_socketDisconnected': ['redirect-established', 'cut-after-sasl2-success', 'drop-established', 'redirect-early'],
           'QXmppOutgoingClient_closeSession': ['drop-established'], 'QXmppOutgoingClient_openSession': ['redirect-established', 'redirect-early'],
           'QXmppOutgoingClient_handleStreamError': ['redirect-early', 'redirect-established'], 'QXmppOutgoingClient_isConnected': ['drop-established', 'redirect-established']}


def find_input(unit, p, o, lab, work):
    """a failed obligation of a connection-state function is replayed with the server scripts that reach it: the real client must
    report no session after the connection is lost and must not report one on the next connection before its negotiation finished"""
    for mode in SCRIPTS.get(p.enforce or '', []):
        rc, out = _run_script(mode)
        if rc == 0 and 'REPRODUCED' in out and 'NOT-REPRODUCED' not in out:
            if lab and 'bind2' in lab and not mode.startswith('cut-'):
                continue
            return {'inputs': {'server_script': mode, 'client_configuration': 'TLSDisabled, PLAIN allowed, everything else default'},
                    'reproduced': True, 'native_output': out[-3000:]}
    return None


def native_replay(rp):
    mode = (rp.get('inputs') or {}).get('server_script')
    if not mode:
        return False, 'replay file names no server script'
    rc, out = _run_script(mode)
    return (rc == 0 and 'NOT-REPRODUCED' not in out), out
