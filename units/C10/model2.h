/* units/C10/model2.h -- std::optional / std::variant / std::vector views over the generated records (after them) */
typedef struct OptSeeOtherHost { bool has; SeeOtherHost v; } OptSeeOtherHost;            /* std::optional<StreamErrorElement::SeeOtherHost> */
/* StreamErrorElement::Condition = std::variant<StreamError, SeeOtherHost> (tagged struct) */
typedef struct StreamCondition { bool is_redirect; int err; SeeOtherHost soh; } StreamCondition;
static inline SeeOtherHost *StreamCondition_get_if_SeeOtherHost(const StreamCondition *c) { return c->is_redirect ? (SeeOtherHost *)&c->soh : NULL; }
static inline int StreamCondition_get_StreamError(const StreamCondition *c) { MODEL_LIMIT(!c->is_redirect, "std::get on the inactive alternative (throws)"); return c->err; }
/* std::vector<ServerAddress>::at(i): throws std::out_of_range for i >= size() -- inside a Qt slot that is a crash, hence an obligation */
static inline void AddrVec_at(ServerAddress *r, const AddrVec *v, size_t i)
{
  __CPROVER_assert(i < v->n, "[post.address_index_is_within_the_address_list] std::vector::at(i) with i >= size() throws");
  r->type = __CPROVER_uninterpreted_addr_type(v->id, i);
  r->host = __CPROVER_uninterpreted_addr_host(v->id, i);
  r->port = __CPROVER_uninterpreted_addr_port(v->id, i);
}
qstr __CPROVER_uninterpreted_stream_error_name(int e);
static inline qstr StreamErrorElement_streamErrorToString(int e) { return __CPROVER_uninterpreted_stream_error_name(e); }
