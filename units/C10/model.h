/* units/C10/model.h -- Qt / libstdc++ models (ASSUMED) and placeholder records of the C10 unit (before the generated records).
 * The Qt socket part and the opaque handles are those of units/C04/model.h; C10 adds the socket state, std::vector<ServerAddress>,
 * std::optional members of the client's private data and the request variant of C2sStreamManager. */

/* ---- Qt (assumed) -------------------------------------------------------------------------------------------------
 * A-QSOCKET  QAbstractSocket::state() reads the socket's state (UnconnectedState .. ClosingState); isEncrypted() reads one flag;
 *            errorString() is some string; startClientEncryption() starts the handshake and transmits no XMPP data by itself. */
typedef struct QSslSocket { bool encrypted; bool handshake_started; int state; qstr errorString; } QSslSocket;
static inline void QSslSocket_startClientEncryption(QSslSocket *s) { s->handshake_started = true; }
bool gh_supportsSsl;

typedef int qtask;      /* QXmppTask<T>: opaque handle */
typedef int qpromise;   /* QXmppPromise<void>: 0 = pending, 1 = finished */
typedef int qnonza;     /* an empty nonza struct (StarttlsProceed) */
typedef int qxml;       /* a serialised element handed to the socket: classified by the C++ type it was serialised from (XML_<T>) */
typedef int qstrlist;   /* QStringList: opaque, 0 = empty list */
static inline void qpromise_finish(qpromise *p) { *p = 1; }

/* std::variant<NoRequest, ResumeRequest, EnableRequest> C2sStreamManager::m_request: its index; `m_request = {}` selects NoRequest
 * (A-STD-VARIANT-ORDER; same model as units/C09/types.h) */
typedef int sm_request;
enum { SMREQ_NONE = 0, SMREQ_RESUME = 1, SMREQ_ENABLE = 2 };

/* records the unit does not look into (their members are contracted callees) */
typedef struct NonSaslAuthManager { int opaque; } NonSaslAuthManager;
typedef struct SaslManager { int opaque; } SaslManager;
typedef struct Sasl2Manager { int opaque; } Sasl2Manager;
typedef struct BindManager { int opaque; } BindManager;
typedef struct CsiManager { int opaque; } CsiManager;
typedef struct PingManager { int opaque; } PingManager;
typedef struct CarbonManager { int opaque; } CarbonManager;
typedef struct FastTokenManager { int opaque; } FastTokenManager;
typedef struct OutgoingIqManager { int opaque; } OutgoingIqManager;
/* StreamAckManager: the one member the property speaks about ("ack manager disabled"); its real body is under contract in units/C09 */
typedef struct StreamAckManager { bool m_enabled; int opaque; } StreamAckManager;
typedef struct Sasl2StreamFeature { int opaque; } Sasl2StreamFeature;
typedef struct OptSasl2Feature { bool has; Sasl2StreamFeature v; } OptSasl2Feature;     /* std::optional<Sasl2::StreamFeature> */
static inline const Sasl2StreamFeature *OptSasl2Feature_value(const OptSasl2Feature *o) { MODEL_LIMIT(o->has, "std::optional::value() on an empty optional (throws)"); return &o->v; }
typedef struct OptNonza { bool has; } OptNonza;                                          /* std::optional<empty nonza struct> */
typedef struct ConnectionError { int value; } ConnectionError;                           /* std::variant<SocketError, TimeoutError, StreamError, ...>: the value it was built from */
typedef struct Bind2Bound { int opaque; } Bind2Bound;                                    /* Bind2Bound: handed to C2sStreamManager::onBind2Bound, not looked into */
typedef struct OptBind2Bound { bool has; Bind2Bound v; } OptBind2Bound;                   /* std::optional<Bind2Bound> */

/* std::vector<ServerAddress> (A-STD-VECTOR): n elements; element i is a function of (vector value, i); at(i) throws for i >= n */
typedef struct AddrVec { size_t n; int id; } AddrVec;
int __CPROVER_uninterpreted_addr_type(int vec, size_t i);
qstr __CPROVER_uninterpreted_addr_host(int vec, size_t i);
quint16 __CPROVER_uninterpreted_addr_port(int vec, size_t i);
