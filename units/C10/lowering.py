"""C10: lowering profile and Lowerer subclass for the client's connection/session state handlers (QXmppOutgoingClient.cpp).
Copied from units/C04/lowering.py (std::visit / std::variant listener / serializeXml / continuation handling) and extended
with the rules at the end of this file (C10 section).

Unit-local extensions of the lowering (all mechanical, all must-fire):
  * reference-returning getters of a modelled class (`QXmppConfiguration &configuration()`) return a pointer;
  * `std::visit(overloaded{lambda...}, variant)` becomes a switch over the variant's index; the arm of alternative i is the
    body of the *instantiated* `operator()` (taken from the AST) whose parameter type is that alternative;
  * `serializeXml(T{...})` becomes the payload class constant XML_<T> (what is sent is classified by its C++ type);
  * `task.then(ctx, lambda)` registers a continuation (the lambda body is NOT run here; it is a separate target);
  * `d->setListener<T>(args)` becomes the contracted callee setListener_<T>.
"""
import re
from vlib.cxx2c import Lowerer, Unsupported, qt, dqt, strip_type, split_top, line_of
from vlib.opaque_profile import opaque_profile

PRIV = 'QXmpp::Private::'
# strip_type() of `enum (unnamed enum at <path>/QXmppOutgoingClient_p.h:L:C)` (the path depends on the tree under check)
UNNAMED_ENUM = re.compile(r'(QXmppOutgoingClientPrivate::)?\(unnamed at [^)]*QXmppOutgoingClient_p\.h:\d+:\d+\)')


def short(t):
    """type name without namespace qualification and cv/ref decoration"""
    return strip_type(t).replace(PRIV, '').replace('QXmpp::', '')


def variant_alternatives(type_str):
    """alternative list of a std::variant type string, in declaration order"""
    s = strip_type(type_str)
    m = re.match(r'(?:std::)?variant<(.*)>$', s)
    if not m:
        raise Unsupported('not a std::variant: %s' % type_str)
    return [short(a) for a in split_top(m.group(1))]


def alt_cname(alt):
    return 'alt_' + re.sub(r'\W+', '_', alt.replace('*', 'Ptr')).strip('_')


class C10Lowerer(Lowerer):
    listener_alts = None     # filled by the unit from the real field type of QXmppOutgoingClientPrivate::listener

    def __init__(self, *a, **kw):
        super().__init__(*a, **kw)
        self.continuations = []   # LambdaExpr nodes passed to .then(), in source order
        self.ret_ref = False

    # ---------------------------------------------------------------- C10: Q_ASSERT and the unnamed enum of nextAddressState
    def cast(self, n):
        """Q_ASSERT(cond) is compiled to static_cast<void>(false && (cond)) in the verified (release) configuration: cond is never
        evaluated.  It is dropped (and listed) provided it is side-effect free; what it asserts is stated by the unit's contracts."""
        if n.get('castKind') == 'ToVoid':
            sub = self.skip(n['inner'][0])
            if sub.get('kind') == 'BinaryOperator' and sub.get('opcode') == '&&':
                left = self.skip(sub['inner'][0])
                if left.get('kind') == 'CXXBoolLiteralExpr' and not left.get('value') and self.pure(sub['inner'][1]):
                    self.fire('Q_ASSERT:compiled-out')
                    self.dropped.append({'call': 'Q_ASSERT(cond) = static_cast<void>(false && (cond))', 'line': line_of(n)})
                    return '((void)0)'
        return super().cast(n)

    def declref(self, n):
        rd = n.get('referencedDecl', {})
        if rd.get('kind') == 'EnumConstantDecl' and UNNAMED_ENUM.fullmatch(strip_type(rd.get('type', {}).get('qualType', ''))):
            # enumerator of the unnamed enum `enum { Current, TryNext } nextAddressState`: its value is emitted by the unit from the
            # same class definition (unit.py: unnamed_enum_constants)
            self.fire('enum:unnamed:' + rd['name'])
            self.need_unnamed = getattr(self, 'need_unnamed', set())
            self.need_unnamed.add(rd['name'])
            return 'NAS__' + rd['name']
        return super().declref(n)

    # ---------------------------------------------------------------- reference-returning getters
    def lower(self, extra_params=()):
        m = re.match(r'auto (\(.*\)(?: const)?(?: noexcept)?) -> (.+)$', qt(self.decl))
        if m:
            # lambda call operator written with a trailing return type: `auto (...) const -> R`  ==  `R (...) const`
            self.decl = dict(self.decl, type=dict(self.decl['type'], qualType='%s %s' % (m.group(2), m.group(1))))
            self.fire('signature:trailing-return-type')
        rett = qt(self.decl).split('(')[0].strip()
        if rett.endswith('&') and not rett.endswith('&&'):
            try:
                ct = self.ctype(rett)
            except Unsupported:
                ct = None
            if ct in self.p.class_types:
                self.ret_ref = True
        text = super().lower(extra_params)
        if self.ret_ref:
            lines = text.split('\n')
            sig = lines[0]
            m = re.match(r'void (\w+)\((.*)\)$', sig)
            ps = [p for p in split_top(m.group(2)) if not p.strip().endswith('*_ret')]
            lines[0] = '%s *%s(%s)' % (self.ret_ctype, m.group(1), ','.join(ps).strip())
            self.signature = lines[0]
            self.fire('return:class-reference-as-pointer')
            text = '\n'.join(lines)
        return text

    def ret(self, n, sp):
        if self.ret_ref and n.get('inner'):
            e = self.expr(self.skip(n['inner'][0]))
            self.flush(sp)
            self.emit('%sreturn %s;' % (sp, self.addr_of(e)))
            return
        return super().ret(n, sp)

    # ---------------------------------------------------------------- free-function calls with unit rules
    def fncall(self, n):
        rd = self.callee_ref(n)
        name = rd.get('name', '?')
        if name == 'visit':
            return self.lower_visit(n)
        if name == 'serializeXml':
            return self.lower_serialize(n)
        return super().fncall(n)

    def lower_serialize(self, n):
        arg = self.skip(n['inner'][1])
        t = short(qt(arg))
        if not re.fullmatch(r'\w+', t):
            raise Unsupported('serializeXml of %s' % qt(arg))
        if not self.pure(arg) and arg.get('kind') not in ('CXXTemporaryObjectExpr', 'CXXConstructExpr', 'InitListExpr', 'CXXFunctionalCastExpr'):
            raise Unsupported('serializeXml argument with side effects')
        self.fire('fn:serializeXml<%s>' % t)
        self.need_payload = getattr(self, 'need_payload', set())
        self.need_payload.add(t)
        return 'XML_' + t

    def lower_visit(self, n):
        """visit(overloaded{l1, l2, ...}, v): switch over v's index; arm i = the instantiated operator() for alternative i"""
        args = n['inner'][1:]
        if len(args) != 2:
            raise Unsupported('visit with %d arguments' % len(args))
        ov = self.skip(args[0])
        var = self.skip(args[1])
        alts = variant_alternatives(dqt(var))
        if self.listener_alts is None or alts != self.listener_alts:
            raise Unsupported('visit over a variant other than the listener: %s' % dqt(var))
        lambdas = []

        def collect(x):
            if x.get('kind') == 'LambdaExpr':
                lambdas.append(x)
                return
            for c in x.get('inner', []):
                if isinstance(c, dict):
                    collect(c)
        collect(ov)
        if not lambdas:
            raise Unsupported('visit without lambda visitors')
        v = '(%s)' % self.addr(var)
        res = self.newtmp()
        rt = self.ntype(self.skip(n))
        out = ['%s %s;' % (rt, res), 'switch (%s->index)' % v, '{']
        for i, alt in enumerate(alts):
            arm = self.visit_arm(lambdas, alt)
            if arm is None:
                raise Unsupported('visit: no instantiated visitor body for alternative %s' % alt)
            op, is_ptr_param = arm
            pv = [c for c in op['inner'] if c.get('kind') == 'ParmVarDecl'][0]
            body = [c for c in op['inner'] if c.get('kind') == 'CompoundStmt'][0]
            stmts = [c for c in body.get('inner', [])]
            if len(stmts) != 1 or stmts[0].get('kind') != 'ReturnStmt' or not stmts[0].get('inner'):
                raise Unsupported('visit: visitor body is not a single return statement')
            field = '%s->%s' % (v, alt_cname(alt))
            saved = self.locals.get(pv['id'])
            mv = '_alt%d' % i
            if alt.endswith('*'):
                # parameter `auto *manager` bound to the stored pointer
                bind = '%s %s = %s;' % (self.ctype(alt), mv, field)
                self.locals[pv['id']] = (mv, self.ctype(alt), False)
            else:
                # parameter `auto &manager` bound to the stored object
                bind = '%s *%s = &%s;' % (self.ctype(alt), mv, field)
                self.locals[pv['id']] = (mv, self.ctype(alt), True)
            saved_pre = self.pre
            self.pre = []
            e = self.expr(stmts[0]['inner'][0])
            arm_pre = self.pre
            self.pre = saved_pre
            if saved is None:
                del self.locals[pv['id']]
            else:
                self.locals[pv['id']] = saved
            out.append('  case %d: /* %s */' % (i, alt))
            out.append('  {')
            out.append('    ' + bind)
            out.extend('    ' + p for p in arm_pre)
            out.append('    %s = %s;' % (res, e))
            out.append('    break;')
            out.append('  }')
            self.fire('visit:arm:%s' % alt)
        out.append('  default:')
        out.append('    MODEL_LIMIT(0, "valueless or out-of-range variant index"); %s = 0;' % res)
        out.append('}')
        out.append('/* ghost hook visit_result */ gh_visit_result = %s;' % res)
        self.pre.extend(out)
        self.fire('fn:visit/overloaded-lambdas')
        return res

    def visit_arm(self, lambdas, alt):
        """the unique instantiated operator() with a body whose (decayed) parameter type is `alt`"""
        found = []
        for lam in lambdas:
            rec = [c for c in lam.get('inner', []) if c.get('kind') == 'CXXRecordDecl']
            if not rec:
                continue
            for c in rec[0].get('inner', []):
                cands = []
                if c.get('kind') == 'FunctionTemplateDecl':
                    cands = [x for x in c.get('inner', []) if x.get('kind') == 'CXXMethodDecl']
                elif c.get('kind') == 'CXXMethodDecl' and c.get('name') == 'operator()':
                    cands = [c]
                for op in cands:
                    if not any(x.get('kind') == 'CompoundStmt' for x in op.get('inner', [])):
                        continue
                    pvs = [x for x in op['inner'] if x.get('kind') == 'ParmVarDecl']
                    if len(pvs) != 1:
                        continue
                    pt = qt(pvs[0])
                    if 'auto' in pt:
                        continue   # the uninstantiated generic pattern
                    if short(pt) == alt:
                        found.append((op, pt.strip().endswith('*')))
        if len(found) != 1:
            return None
        return found[0]

    def case_stmt(self, st, ind):
        """as the base class, but a label is followed by a null statement so that a declaration may follow it in C"""
        sp = '  ' * ind
        k = st.get('kind')
        if k == 'CaseStmt':
            ce = st['inner'][0]
            v = ce.get('value')
            if v is None:
                v = self.expr(ce)
            self.emit('%scase %s: ;' % (sp, v))
            self.case_stmt(st['inner'][-1], ind)
            return
        if k == 'DefaultStmt':
            self.emit(sp + 'default: ;')
            self.case_stmt(st['inner'][-1], ind)
            return
        self.stmt(st, ind + 1)

    # ---------------------------------------------------------------- continuations
    def lambda_expr(self, n):
        self.continuations.append(n)
        self.fire('expr:LambdaExpr:continuation')
        return 'CONT_%s_%d' % (self.cname, len(self.continuations) - 1)


def set_listener(lw, node, args):
    """d->setListener<T>(args...)  ->  (*setListener_T(d, args...))   (contracted callee, units/C04/callees.h)"""
    t = short(qt(node))
    if not re.fullmatch(r'\w+', t):
        raise Unsupported('setListener<%s>' % qt(node))
    lw.repo_callees.add('setListener_' + t)
    return '(*setListener_%s(%s))' % (t, ', '.join(args))


def ref_getter(cname):
    def rule(lw, node, args):
        lw.repo_callees.add(cname)
        return '(*%s(%s))' % (cname, ', '.join(args))
    return rule


def listener_assign(lw, node, args):
    """d->listener = <pointer alternative>"""
    rhs = lw.skip(node['inner'][2])
    t = short(qt(rhs))
    if t not in (lw.listener_alts or []):
        raise Unsupported('assignment of %s to the listener variant' % qt(rhs))
    return 'Listener_set_%s(%s, %s)' % (alt_cname(t)[4:], args[0], args[1])


def from_dom(lw, node, args):
    """X::fromDom(el) (static): the callee is chosen by the result type"""
    t = short(dqt(lw.skip(node)))
    if t == 'std::optional<StarttlsProceed>':
        tmp = lw.newtmp()
        lw.repo_callees.add('StarttlsProceed_fromDom')
        lw.pre.append('OptNonza %s; StarttlsProceed_fromDom(&%s, %s);' % (tmp, tmp, ', '.join(args)))
        return tmp
    if t == 'std::variant<StreamErrorElement,QXmppError>':
        tmp = lw.newtmp()
        lw.repo_callees.add('StreamErrorElement_fromDom')
        lw.pre.append('StreamErrorResult %s; StreamErrorElement_fromDom(&%s, %s);' % (tmp, tmp, ', '.join(args)))
        return tmp
    raise Unsupported('fromDom returning %s' % t)


def get_if(lw, node, args):
    """std::get_if<StreamErrorElement>(&result)"""
    t = short(dqt(lw.skip(node)))
    if t.replace(' ', '') in ('StreamErrorElement*', 'add_pointer_t<StreamErrorElement>', 'typenameremove_reference<StreamErrorElement>::type*'):
        return 'StreamErrorResult_get_if_element(%s)' % args[0]
    raise Unsupported('get_if yielding %s' % t)


def empty_nonza(lw, node):
    if [c for c in node.get('inner', []) if isinstance(c, dict) and c.get('kind')]:
        raise Unsupported('initialiser list of a nonza struct with members')
    return '((qnonza)0)'


def element_received(lw, node, args):
    """Q_EMIT elementReceived(element, handled): `handled` is a bool& out-parameter (clang's MemberExpr carries no signature)"""
    h = lw.skip(node['inner'][2])
    if h.get('kind') != 'DeclRefExpr' or lw.ntype(h) != 'bool':
        raise Unsupported('elementReceived: second argument is not a bool lvalue')
    lw.repo_callees.add('QXmppOutgoingClient_elementReceived')
    return 'QXmppOutgoingClient_elementReceived(%s, %s, %s)' % (args[0], args[1], lw.addr_of(args[2]))


def features_ctor(lw, node, target):
    """QXmppStreamFeatures(): a value class owning a fresh private object -- both live on the stack of the lowered function"""
    dst = target or lw.newtmp()
    if not target:
        lw.pre.append('QXmppStreamFeatures %s;' % dst)
    priv = lw.newtmp()
    lw.pre.append('QXmppStreamFeaturesPrivate %s;' % priv)
    lw.pre.append('%s.d = &%s;' % (dst, priv))
    return dst


def profile(listener_type_keys):
    types = {
        'QXmppOutgoingClient': 'QXmppOutgoingClient', 'QXmppOutgoingClientPrivate': 'QXmppOutgoingClientPrivate',
        'std::unique_ptr<QXmppOutgoingClientPrivate>': 'QXmppOutgoingClientPrivate*',
        'QXmppConfiguration': 'QXmppConfiguration', 'QXmppConfiguration::StreamSecurityMode': 'int',
        'QXmppStreamFeatures': 'QXmppStreamFeatures', 'QXmppStreamFeatures::Mode': 'int',
        'QSslSocket': 'QSslSocket', 'XmppSocket': 'XmppSocket', PRIV + 'XmppSocket': 'XmppSocket',
        'StarttlsManager': 'StarttlsManager', PRIV + 'StarttlsManager': 'StarttlsManager',
        'NonSaslAuthManager': 'NonSaslAuthManager', PRIV + 'NonSaslAuthManager': 'NonSaslAuthManager',
        'SaslManager': 'SaslManager', PRIV + 'SaslManager': 'SaslManager',
        'Sasl2Manager': 'Sasl2Manager', PRIV + 'Sasl2Manager': 'Sasl2Manager',
        'BindManager': 'BindManager', PRIV + 'BindManager': 'BindManager',
        'C2sStreamManager': 'C2sStreamManager', PRIV + 'C2sStreamManager': 'C2sStreamManager',
        'CsiManager': 'CsiManager', PRIV + 'CsiManager': 'CsiManager',
        'PingManager': 'PingManager', PRIV + 'PingManager': 'PingManager',
        'StreamAckManager': 'StreamAckManager', PRIV + 'StreamAckManager': 'StreamAckManager',
        'OutgoingIqManager': 'OutgoingIqManager', PRIV + 'OutgoingIqManager': 'OutgoingIqManager',
        'HandleElementResult': 'int', PRIV + 'HandleElementResult': 'int',
        'AuthenticationMethod': 'int', PRIV + 'AuthenticationMethod': 'int',
        'QXmppTask<void>': 'qtask',
        'QXmppTask<QXmpp::Private::SaslManager::AuthResult>': 'qtask',
        'QXmppTask<std::variant<QXmpp::Success,std::pair<QString,QXmpp::AuthenticationError>>>': 'qtask',
        'QByteArray': 'qxml',
        'QStringList': 'qstrlist', 'QList<QString>': 'qstrlist',
        'std::optional<QXmpp::Private::Sasl2::StreamFeature>': 'OptSasl2Feature',
        'std::optional<Sasl2::StreamFeature>': 'OptSasl2Feature', 'std::optional<StreamFeature>': 'OptSasl2Feature',
        'QXmpp::Private::Sasl2::StreamFeature': 'Sasl2StreamFeature', 'Sasl2::StreamFeature': 'Sasl2StreamFeature',
        'QXmppLoggable': 'QXmppOutgoingClient', 'QObject': 'QXmppOutgoingClient',
        'QXmpp::StreamError': 'int', 'StreamError': 'int',
        'QXmppOutgoingClient::ConnectionError': 'ConnectionError',
        'SendDataInterface': 'XmppSocket', PRIV + 'SendDataInterface': 'XmppSocket',
        'std::optional<QXmpp::Private::StarttlsProceed>': 'OptNonza', 'std::optional<StarttlsProceed>': 'OptNonza',
        'QXmppPromise<void>': 'qpromise',
        'std::variant<StreamErrorElement,QXmppError>': 'StreamErrorResult', 'std::variant<QXmpp::Private::StreamErrorElement,QXmppError>': 'StreamErrorResult',
        'StreamErrorElement': 'StreamErrorElement', PRIV + 'StreamErrorElement': 'StreamErrorElement',
        'typename remove_reference<StreamErrorElement>::type': 'StreamErrorElement',
        'StarttlsProceed': 'qnonza', PRIV + 'StarttlsProceed': 'qnonza',
    }
    for k in listener_type_keys:
        types[k] = 'Listener'
    class_types = {'QXmppOutgoingClient', 'QXmppOutgoingClientPrivate', 'QXmppConfiguration', 'QXmppStreamFeatures', 'QSslSocket', 'XmppSocket',
                   'StarttlsManager', 'NonSaslAuthManager', 'SaslManager', 'Sasl2Manager', 'BindManager', 'C2sStreamManager', 'CsiManager',
                   'PingManager', 'StreamAckManager', 'OutgoingIqManager', 'Listener', 'OptSasl2Feature', 'Sasl2StreamFeature', 'ConnectionError',
                   'OptNonza', 'StreamErrorResult', 'StreamErrorElement'}
    calls = {
        'op->:QXmppOutgoingClientPrivate*': ('expr', '{0}'),
        # --- Qt
        'QSslSocket::isEncrypted/0': ('expr', '({0})->encrypted'),
        'QSslSocket::startClientEncryption/0': ('fn', 'QSslSocket_startClientEncryption'),
        'fn:supportsSsl/0': ('const', 'gh_supportsSsl'),
        'qstrlist::isEmpty/0': ('expr', '{0} == 0'),
        'OptSasl2Feature::has_value/0': ('expr', '({0})->has'),
        'OptSasl2Feature::value/0': ('expr', '(*OptSasl2Feature_value({0}))'),
        # --- one-line getters of QXmpp value classes (d-pointer fields): assumed pure getters, see unit 'assumed'
        'QXmppConfiguration::streamSecurityMode/0': ('callee', 'QXmppConfiguration_streamSecurityMode'),
        'QXmppConfiguration::useNonSASLAuthentication/0': ('callee', 'QXmppConfiguration_useNonSASLAuthentication'),
        'QXmppConfiguration::useSASLAuthentication/0': ('callee', 'QXmppConfiguration_useSASLAuthentication'),
        'QXmppConfiguration::useSasl2Authentication/0': ('callee', 'QXmppConfiguration_useSasl2Authentication'),
        'QXmppStreamFeatures::tlsMode/0': ('callee', 'QXmppStreamFeatures_tlsMode'),
        'QXmppStreamFeatures::nonSaslAuthMode/0': ('callee', 'QXmppStreamFeatures_nonSaslAuthMode'),
        'QXmppStreamFeatures::bindMode/0': ('callee', 'QXmppStreamFeatures_bindMode'),
        'QXmppStreamFeatures::authMechanisms/0': ('callee', 'QXmppStreamFeatures_authMechanisms'),
        'QXmppStreamFeatures::sasl2Feature/0': ref_getter('QXmppStreamFeatures_sasl2Feature'),
        # --- lowered real one-liners of the client
        'QXmppOutgoingClient::socket/0': ('callee', 'QXmppOutgoingClient_socket'),
        'QXmppOutgoingClient::configuration/0': ref_getter('QXmppOutgoingClient_configuration'),
        'QXmppOutgoingClient::streamAckManager/0': ref_getter('QXmppOutgoingClient_streamAckManager'),
        'QXmppOutgoingClient::iqManager/0': ref_getter('QXmppOutgoingClient_iqManager'),
        'XmppSocket::socket/0': ('callee', 'XmppSocket_socket'),
        'QXmppOutgoingClient::disconnectFromHost/0': ('callee', 'QXmppOutgoingClient_disconnectFromHost'),
        'QXmppOutgoingClient::handleStarttls/1': ('callee', 'QXmppOutgoingClient_handleStarttls'),
        'QXmppOutgoingClient::handleStreamFeatures/1': ('callee', 'QXmppOutgoingClient_handleStreamFeatures'),
        'QXmppOutgoingClient::handleElement/1': ('callee', 'QXmppOutgoingClient_handleElement'),
        'QXmppOutgoingClient::handleStart/0': ('callee', 'QXmppOutgoingClient_handleStart'),
        'StarttlsManager::handleElement/1': ('callee', 'StarttlsManager_handleElement'),
        # --- contracted callees (units/C04/callees.h): the wire, the guarded negotiation steps, the other listeners
        'XmppSocket::sendData/1': ('callee', 'XmppSocket_sendData'),
        'XmppSocket::disconnectFromHost/0': ('callee', 'XmppSocket_disconnectFromHost'),
        'C2sStreamManager::onStreamClosed/0': ('callee', 'C2sStreamManager_onStreamClosed'),
        'C2sStreamManager::onStreamFeatures/1': ('callee', 'C2sStreamManager_onStreamFeatures'),
        'C2sStreamManager::canRequestResume/0': ('callee', 'C2sStreamManager_canRequestResume'),
        'C2sStreamManager::canRequestEnable/0': ('callee', 'C2sStreamManager_canRequestEnable'),
        'C2sStreamManager::handleElement/1': ('callee', 'C2sStreamManager_handleElement'),
        'CsiManager::onStreamFeatures/1': ('callee', 'CsiManager_onStreamFeatures'),
        'PingManager::onDataReceived/0': ('callee', 'PingManager_onDataReceived'),
        'NonSaslAuthManager::handleElement/1': ('callee', 'NonSaslAuthManager_handleElement'),
        'SaslManager::handleElement/1': ('callee', 'SaslManager_handleElement'),
        'Sasl2Manager::handleElement/1': ('callee', 'Sasl2Manager_handleElement'),
        'BindManager::handleElement/1': ('callee', 'BindManager_handleElement'),
        'QXmppOutgoingClient::startNonSaslAuth/0': ('callee', 'QXmppOutgoingClient_startNonSaslAuth'),
        'QXmppOutgoingClient::startSasl2Auth/1': ('callee', 'QXmppOutgoingClient_startSasl2Auth'),
        'QXmppOutgoingClient::startResourceBinding/0': ('callee', 'QXmppOutgoingClient_startResourceBinding'),
        'QXmppOutgoingClient::startSmResume/0': ('callee', 'QXmppOutgoingClient_startSmResume'),
        'QXmppOutgoingClient::startSmEnable/0': ('callee', 'QXmppOutgoingClient_startSmEnable'),
        'QXmppOutgoingClient::openSession/0': ('callee', 'QXmppOutgoingClient_openSession'),
        'QXmppOutgoingClient::setError/2': ('callee', 'QXmppOutgoingClient_setError'),
        'QXmppOutgoingClient::handleStanza/1': ('callee', 'QXmppOutgoingClient_handleStanza'),
        'QXmppOutgoingClient::handleStreamError/1': ('callee', 'QXmppOutgoingClient_handleStreamError'),
        'SaslManager::authenticate/3': ('callee', 'SaslManager_authenticate'),
        'StarttlsManager::task/0': ('callee', 'StarttlsManager_task'),
        'QXmppOutgoingClientPrivate::setListener/0': set_listener,
        'QXmppOutgoingClientPrivate::setListener/1': set_listener,
        'qtask::then/2': ('fn', 'qtask_then'),
        'Listener::index/0': ('expr', '({0})->index'),
        'op=:Listener:QXmppOutgoingClient*': listener_assign,
        'op=:Listener:C2sStreamManager*': listener_assign,
        'ctor:ConnectionError(int)': ('init', '{{ {0} }}'),
        'qpromise::finish/0': ('fnmut', 'qpromise_finish'),
        'qstr::clear/0': ('expr', '{0} = 0'),
        'C2sStreamManager::onStreamStart/0': ('callee', 'C2sStreamManager_onStreamStart'),
        'fn:fromDom/1': from_dom,
        'fn:get_if/1': get_if,
        'fn:isStreamFeatures/1': ('callee', 'QXmppStreamFeatures_isStreamFeatures'),
        'StreamAckManager::handleStanza/1': ('callee', 'StreamAckManager_handleStanza'),
        'OutgoingIqManager::handleStanza/1': ('callee', 'OutgoingIqManager_handleStanza'),
        'QXmppOutgoingClient::elementReceived/2': element_received,
        'ctor:QXmppStreamFeatures()': features_ctor,
        'QXmppStreamFeatures::parse/1': ('callee', 'QXmppStreamFeatures_parse'),
        'OptNonza::operator bool/0': ('expr', '({0})->has'),
        'ctor:OptNonza()': ('init', '{{ false }}'),
        'expr:InitListExpr:qnonza': empty_nonza,
        'ctor:OptNonza(qnonza)': ('init', '{{ true }}'),
    }
    p = opaque_profile(types=types, class_types=class_types, calls=calls,
                       pure_fns={'configuration', 'socket', 'streamSecurityMode', 'tlsMode', 'domain', 'user', 'jidBare'})
    p.default_args['qstr'] = '0'
    return p


# ====================================================================== C10 section
def init_aggregate(ctype):
    """T{a, b, ...}: aggregate initialisation of a generated record, positional like the original"""
    def rule(lw, n):
        es = [lw.expr(c) for c in n.get('inner', [])]
        t = lw.newtmp()
        lw.pre.append('%s %s = { %s };' % (ctype, t, ', '.join(es) if es else '0'))
        return t
    return rule


def signal_emit(cname):
    """Q_EMIT sig(arg): signal emission = synchronous call of the connected slots (DESIGN 8, A-SIGNAL): a contracted callee"""
    def rule(lw, node, args):
        lw.repo_callees.add(cname)
        return '%s(%s)' % (cname, ', '.join(args))
    return rule


def get_if_c10(lw, node, args):
    """std::get_if<T>(&variant)"""
    t = short(dqt(lw.skip(node))).replace(' ', '')
    if 'SeeOtherHost' in t and t.endswith('*'):
        return 'StreamCondition_get_if_SeeOtherHost(%s)' % args[0]
    return get_if(lw, node, args)


def std_get_c10(lw, node, args):
    """std::get<StreamError>(streamError.condition)"""
    t = short(dqt(lw.skip(node))).replace(' ', '')
    if t in ('StreamError',) or lw.ntype(lw.skip(node)) == 'int':
        a = lw.skip(node['inner'][1])
        if lw.tkey(a) == 'StreamCondition':
            return 'StreamCondition_get_StreamError(%s)' % args[0]
    raise Unsupported('std::get yielding %s' % t)


def opt_assign_soh(lw, node, args):
    """d->redirect = std::move(*redirect)   (std::optional<SeeOtherHost>::operator=(SeeOtherHost &&))"""
    return '((%s)->has = true, (%s)->v = %s)' % (args[0], args[0], strip_amp_(args[1]))


def strip_amp_(a):
    return a[1:] if a.startswith('&') and not a.startswith('&&') else '(*%s)' % a


def extend_profile(p):
    """rules for the connection / session functions (C10); everything C04 needed stays"""
    p.type_patterns.append((UNNAMED_ENUM, 'int'))
    p.types.update({
        'SessionEnd': 'SessionEnd', PRIV + 'SessionEnd': 'SessionEnd',
        'SessionBegin': 'SessionBegin', PRIV + 'SessionBegin': 'SessionBegin',
        'ServerAddress': 'ServerAddress', PRIV + 'ServerAddress': 'ServerAddress',
        'ServerAddress::ConnectionType': 'int', PRIV + 'ServerAddress::ConnectionType': 'int',
        'std::vector<ServerAddress>': 'AddrVec', 'std::vector<QXmpp::Private::ServerAddress>': 'AddrVec',
        'StreamErrorElement::SeeOtherHost': 'SeeOtherHost', PRIV + 'StreamErrorElement::SeeOtherHost': 'SeeOtherHost', 'SeeOtherHost': 'SeeOtherHost',
        'std::optional<StreamErrorElement::SeeOtherHost>': 'OptSeeOtherHost', 'std::optional<QXmpp::Private::StreamErrorElement::SeeOtherHost>': 'OptSeeOtherHost',
        'std::optional<Bind2Bound>': 'OptBind2Bound', 'std::optional<QXmpp::Private::Bind2Bound>': 'OptBind2Bound',
        'StreamErrorElement::Condition': 'StreamCondition', PRIV + 'StreamErrorElement::Condition': 'StreamCondition',
        'std::variant<QXmpp::StreamError,QXmpp::Private::StreamErrorElement::SeeOtherHost>': 'StreamCondition',
        'std::variant<StreamError,SeeOtherHost>': 'StreamCondition',
        'FastTokenManager': 'FastTokenManager', PRIV + 'FastTokenManager': 'FastTokenManager',
        'CarbonManager': 'CarbonManager', PRIV + 'CarbonManager': 'CarbonManager',
        'QAbstractSocket::SocketError': 'int', 'QAbstractSocket::SocketState': 'int',
        'std::variant<NoRequest,ResumeRequest,EnableRequest>': 'sm_request',
        'std::variant<QXmpp::Private::C2sStreamManager::NoRequest,QXmpp::Private::C2sStreamManager::ResumeRequest,QXmpp::Private::C2sStreamManager::EnableRequest>': 'sm_request',
        'QIODevice': 'QSslSocket', 'QAbstractSocket': 'QSslSocket',
        'QXmppClient': 'QXmppClient', 'QXmppClientPrivate': 'QXmppClientPrivate', 'std::unique_ptr<QXmppClientPrivate>': 'QXmppClientPrivate*',
        'QXmppClient::State': 'int',
    })
    p.class_types.update({'QXmppClient', 'QXmppClientPrivate', 'SessionEnd', 'SessionBegin', 'ServerAddress', 'AddrVec', 'SeeOtherHost', 'OptSeeOtherHost', 'OptBind2Bound', 'StreamCondition',
                          'FastTokenManager', 'CarbonManager'})
    p.calls.update({
        # --- std::optional / std::vector / std::variant members of the client's private data (units/C10/model.h)
        'OptSeeOtherHost::operator bool/0': ('expr', '({0})->has'),
        'op->:OptSeeOtherHost': ('expr', '(&({0})->v)'),
        'OptSeeOtherHost::reset/0': ('expr', '({0})->has = false'),
        'OptSeeOtherHost::has_value/0': ('expr', '({0})->has'),
        'op*:OptSeeOtherHost': ('expr', '(({0})->v)'),
        'op=:OptSeeOtherHost:SeeOtherHost': opt_assign_soh,
        'OptBind2Bound::has_value/0': ('expr', '({0})->has'),
        'OptBind2Bound::reset/0': ('expr', '({0})->has = false'),
        'AddrVec::size/0': ('expr', '({0})->n'),
        'AddrVec::at/1': ('fnret', 'AddrVec_at', 'ServerAddress'),
        'expr:InitListExpr:SessionEnd': init_aggregate('SessionEnd'),
        'expr:InitListExpr:SessionBegin': init_aggregate('SessionBegin'),
        'expr:InitListExpr:ServerAddress': init_aggregate('ServerAddress'),
        'op*:SeeOtherHost*': ('expr', '(*{0})'),
        # --- Qt socket state (units/C10/model.h A-QSOCKET)
        'QSslSocket::state/0': ('expr', '({0})->state'),
        'QSslSocket::errorString/0': ('expr', '({0})->errorString'),
        # --- real functions of the client lowered in this unit
        'QXmppOutgoingClient::closeSession/0': ('callee', 'QXmppOutgoingClient_closeSession'),
        'QXmppOutgoingClientPrivate::connectToNextAddress/0': ('callee', 'QXmppOutgoingClientPrivate_connectToNextAddress'),
        'XmppSocket::isConnected/0': ('callee', 'XmppSocket_isConnected'),
        'C2sStreamManager::canResume/0': ('callee', 'C2sStreamManager_canResume'),
        'C2sStreamManager::enabled/0': ('callee', 'C2sStreamManager_enabled'),
        'C2sStreamManager::streamResumed/0': ('callee', 'C2sStreamManager_streamResumed'),
        'op->:QXmppClientPrivate*': ('expr', '{0}'),
        'QXmppOutgoingClient::isConnected/0': ('callee', 'QXmppOutgoingClient_isConnected'),
        # --- contracted callees (units/C10/callees.h)
        'QXmppOutgoingClientPrivate::connectToHost/1': ('callee', 'QXmppOutgoingClientPrivate_connectToHost'),
        'StreamAckManager::onSessionClosed/0': ('callee', 'StreamAckManager_onSessionClosed'),
        'OutgoingIqManager::onSessionClosed/1': ('callee', 'OutgoingIqManager_onSessionClosed'),
        'OutgoingIqManager::onSessionOpened/1': ('callee', 'OutgoingIqManager_onSessionOpened'),
        'CarbonManager::onSessionOpened/1': ('callee', 'CarbonManager_onSessionOpened'),
        'CsiManager::onSessionOpened/1': ('callee', 'CsiManager_onSessionOpened'),
        'FastTokenManager::tokenChanged/0': ('callee', 'FastTokenManager_tokenChanged'),
        'QXmppOutgoingClient::disconnected/1': signal_emit('QXmppOutgoingClient_sig_disconnected'),
        'QXmppOutgoingClient::connected/1': signal_emit('QXmppOutgoingClient_sig_connected'),
        'fn:get_if/1': get_if_c10,
        'fn:get/1': std_get_c10,
        'fn:streamErrorToString/1': ('fn', 'StreamErrorElement_streamErrorToString'),
        'ctor:ConnectionError(int)': ('init', '{{ {0} }}'),
        'qstr::arg/2': ('expr', 'qstr_concat(qstr_concat({0}, {1}), {2})'),
    })
    p.pure_fns.update({'canResume', 'enabled', 'streamResumed', 'isConnected', 'state', 'errorString', 'host', 'port', 'streamErrorToString'})
    return p


# ====================================================================== C10 follow-up: the callers of openSession()
# Generic tagged-struct model of std::variant values handed to continuations (A-STD-VARIANT-ORDER): registered by the unit from the
# REAL parameter type of the continuation (alternative list in declaration order); std::get_if / std::holds_alternative / std::get
# are lowered to tests of the index (std::get on the inactive alternative throws: an obligation, not an assumption).
VARIANTS = {}     # C struct name -> [(short C++ alternative, C type, field name)]


def register_variant(prof, cpp_types, cname, alts, lw):
    """alts: short C++ alternative names in declaration order; returns the C struct text"""
    rows = []
    for a in alts:
        rows.append((a, lw.ctype(a), alt_cname(a)))
    if len({r[1] for r in rows}) != len(rows):
        raise Unsupported('variant %s: two alternatives share a C type' % cname)
    VARIANTS[cname] = rows
    for t in cpp_types:
        prof.types[strip_type(t)] = cname
    prof.class_types.add(cname)
    return 'typedef struct %s {\n  size_t index;   /* std::variant::index() */\n%s\n} %s;' % (cname, '\n'.join('  %s %s;' % (r[1], r[2]) for r in rows), cname)


def _variant_of(lw, n):
    """(struct name, C expression of the variant object) if n denotes (a pointer to / reference to) a registered variant"""
    n = lw.skip(n)
    while n.get('kind') == 'CallExpr' and lw.callee_ref(n).get('name') in ('move', 'forward'):
        n = lw.skip(n['inner'][1])
    if n.get('kind') == 'UnaryOperator' and n.get('opcode') == '&':
        n = lw.skip(n['inner'][0])
    try:
        t = lw.ntype(n).rstrip('*')
    except Unsupported:
        return None, None, n
    if t in VARIANTS or t == 'Listener':
        return t, lw.expr(n), n
    return None, None, n


def _alt_by_ctype(vt, ct):
    rows = [(i, r) for i, r in enumerate(VARIANTS[vt]) if r[1] == ct]
    if len(rows) != 1:
        raise Unsupported('variant %s has no unique alternative of C type %s' % (vt, ct))
    return rows[0]


def _obj(e):
    """C lvalue expression -> expression usable before `.field`"""
    return '(%s)' % e


def variant_get_if(lw, node, args):
    vt, ve, _ = _variant_of(lw, node['inner'][1])
    if vt in VARIANTS:
        ct = lw.ntype(lw.skip(node)).rstrip('*')
        i, r = _alt_by_ctype(vt, ct)
        lw.fire('variant:get_if:%s:%s' % (vt, r[0]))
        return '(%s.index == %d ? &%s.%s : NULL)' % (_obj(ve), i, _obj(ve), r[2])
    return get_if_c10(lw, node, args)


def variant_get(lw, node, args):
    vt, ve, _ = _variant_of(lw, node['inner'][1])
    if vt == 'Listener':
        # std::get<Manager>(d->listener): the current listener must be that manager (std::get throws otherwise)
        ct = lw.ntype(lw.skip(node))
        alts = lw.listener_alts or []
        idx = [i for i, a in enumerate(alts) if lw.ctype(a) == ct]
        if len(idx) != 1:
            raise Unsupported('std::get<%s> on the listener variant' % ct)
        lw.pre.append('__CPROVER_assert(%s.index == %d, "[post.std_get_names_the_active_alternative] std::get<%s>(listener) would throw");' % (_obj(ve), idx[0], ct))
        lw.fire('variant:get:Listener:%s' % ct)
        return '%s.%s' % (_obj(ve), alt_cname(alts[idx[0]]))
    if vt in VARIANTS:
        ct = lw.ntype(lw.skip(node))
        i, r = _alt_by_ctype(vt, ct)
        lw.pre.append('__CPROVER_assert(%s.index == %d, "[post.std_get_names_the_active_alternative] std::get<%s> would throw");' % (_obj(ve), i, r[0]))
        lw.fire('variant:get:%s:%s' % (vt, r[0]))
        return '%s.%s' % (_obj(ve), r[2])
    return std_get_c10(lw, node, args)


def _template_arg_from_source(lw, node, fname):
    """std::holds_alternative<T>(v): clang's JSON does not carry T; it is read back from the source text of the call (which must parse)"""
    b = node.get('range', {}).get('begin', {})
    for k in ('spellingLoc', 'expansionLoc'):
        if k in b:
            b = b[k]
            break
    off = b.get('offset')
    if off is None:
        return None
    for path_ in getattr(lw, 'source_files', []):
        try:
            data = open(path_, 'rb').read()
        except OSError:
            continue
        m = re.match(r'(?:std::)?%s\s*<\s*([\w:]+)\s*>\s*\(' % fname, data[off:off + 200].decode('utf-8', 'replace'))
        if m:
            return m.group(1)
    return None


def variant_holds(lw, node, args):
    vt, ve, _ = _variant_of(lw, node['inner'][1])
    if vt not in VARIANTS:
        raise Unsupported('holds_alternative on an unmodelled variant')
    t = _template_arg_from_source(lw, node, 'holds_alternative')
    if t is None:
        raise Unsupported('holds_alternative: template argument not readable from the source')
    last = t.split('::')[-1]
    rows = [(i, r) for i, r in enumerate(VARIANTS[vt]) if r[0].split('::')[-1] == last]
    if len(rows) != 1:
        raise Unsupported('holds_alternative<%s>: no unique alternative in %s' % (t, vt))
    lw.fire('variant:holds_alternative:%s:%s' % (vt, rows[0][1][0]))
    return '(%s.index == %d)' % (_obj(ve), rows[0][0])


def decomposition_pair(first_ct, second_ct):
    """auto [a, b] = <pair expression>;   (structured binding of a std::pair modelled as {first, second})"""
    def rule(lw, v, sp):
        inner = [c for c in v.get('inner', []) if isinstance(c, dict) and c.get('kind')]
        binds = [c for c in inner if c.get('kind') == 'BindingDecl']
        init = [c for c in inner if c.get('kind') != 'BindingDecl']
        if len(binds) != 2 or len(init) != 1:
            raise Unsupported('structured binding of a pair with %d names' % len(binds))
        e = lw.expr(init[0])
        lw.flush(sp)
        for bd, ct, f in ((binds[0], first_ct, 'first'), (binds[1], second_ct, 'second')):
            cn, _ = lw.declare_local(bd, sp, ctype=ct)
            lw.emit('%s%s %s = %s.%s;' % (sp, ct, cn, _obj(e), f))
    return rule


def extend_profile_negotiation(p):
    p.types.update({
        'BoundAddress': 'BoundAddress', PRIV + 'BoundAddress': 'BoundAddress', 'typename remove_reference<BoundAddress>::type': 'BoundAddress',
        'ProtocolError': 'ProtocolError', PRIV + 'ProtocolError': 'ProtocolError', 'typename remove_reference<ProtocolError>::type': 'ProtocolError',
        'QXmppStanza::Error': 'StanzaError', 'typename remove_reference<Error>::type': 'StanzaError',
        'QXmpp::BindError': 'int', 'BindError': 'int',
        'QXmpp::AuthenticationError': 'int', 'AuthenticationError': 'int', 'typename std::remove_reference<AuthenticationError &>::type': 'int',
        'std::tuple_element<1,std::pair<QString,QXmpp::AuthenticationError>>::type': 'int',
        'std::tuple_element<0,std::pair<QString,QXmpp::AuthenticationError>>::type': 'qstr',
        'std::pair<QString,QXmpp::AuthenticationError>': 'AuthErrPair',
        'QXmpp::Success': 'QXmppSuccess', 'Success': 'QXmppSuccess',
        'QXmppError': 'QXmppErrorValue',
        'QXmpp::Private::Sasl2::Success': 'Sasl2Success', 'Sasl2::Success': 'Sasl2Success', 'typename remove_reference<Success>::type': 'Sasl2Success',
        'add_pointer_t<QXmpp::Private::Sasl2::Success>': 'Sasl2Success*',
        'NonSaslAuthOptions': 'NonSaslAuthOptions', PRIV + 'NonSaslAuthOptions': 'NonSaslAuthOptions', 'typename remove_reference<NonSaslAuthOptions>::type': 'NonSaslAuthOptions',
        'std::optional<SmResumed>': 'OptFlag', 'std::optional<QXmpp::Private::SmResumed>': 'OptFlag',
        'std::optional<SmFailed>': 'OptFlag', 'std::optional<QXmpp::Private::SmFailed>': 'OptFlag',
        'Bind2Bound': 'Bind2Bound', PRIV + 'Bind2Bound': 'Bind2Bound',
        'typename std::remove_reference<optional<Bind2Bound> &>::type': 'OptBind2Bound',
        'QXmppConfiguration::NonSASLAuthMechanism': 'int',
        'QXmppTask<QXmpp::Private::BindManager::Result>': 'qtask', 'QXmppTask<BindManager::Result>': 'qtask',
        'QXmppTask<QXmpp::Private::NonSaslAuthManager::AuthResult>': 'qtask', 'QXmppTask<NonSaslAuthManager::AuthResult>': 'qtask',
        'QXmppTask<QXmpp::Private::NonSaslAuthManager::OptionsResult>': 'qtask', 'QXmppTask<NonSaslAuthManager::OptionsResult>': 'qtask',
        'QXmppTask<std::variant<QXmpp::Success,QXmppError>>': 'qtask', 'QXmppTask<std::variant<QXmpp::Private::NonSaslAuthOptions,QXmppError>>': 'qtask',
        'QXmppTask<std::variant<QXmpp::Private::BoundAddress,QXmppStanza::Error,QXmpp::Private::ProtocolError>>': 'qtask',
    })
    p.class_types.update({'BoundAddress', 'ProtocolError', 'StanzaError', 'AuthErrPair', 'QXmppSuccess', 'QXmppErrorValue', 'Sasl2Success', 'NonSaslAuthOptions', 'OptFlag', 'Bind2Bound'})
    p.calls.update({
        'fn:get_if/1': variant_get_if,
        'fn:move/1': lambda lw, node, args: lw.expr(node['inner'][1]),   # std::move(x) is x
        'fn:get/1': variant_get,
        'fn:holds_alternative/1': variant_holds,
        'decomposition:std::pair<QString,QXmpp::AuthenticationError>': decomposition_pair('qstr', 'int'),
        'StanzaError::text/0': ('expr', '({0})->text'),
        'expr:InitListExpr:int': lambda lw, n: _pure_or_fail(lw, n, '0 /* BindError{stanza error}: only the fact that the error is a bind error is represented */'),
        'OptFlag::operator bool/0': ('expr', '({0})->has'),
        'OptBind2Bound::operator bool/0': ('expr', '({0})->has'),
        'op=:OptBind2Bound:OptBind2Bound': ('expr', '*{0} = *{1}'),
        'op*:OptBind2Bound': ('expr', '(({0})->v)'),
        # --- real one-line getters of C2sStreamManager (QXmppOutgoingClient.h), lowered in this unit
        'C2sStreamManager::canRequestEnable/0': ('callee', 'C2sStreamManager_canRequestEnable'),
        'C2sStreamManager::canRequestResume/0': ('callee', 'C2sStreamManager_canRequestResume'),
        # --- the negotiation steps: real starters lowered here (SM resume / SM enable / bind) or contract-only (units/C10/steps.h)
        'C2sStreamManager::requestResume/0': ('callee', 'C2sStreamManager_requestResume'),
        'C2sStreamManager::requestEnable/0': ('callee', 'C2sStreamManager_requestEnable'),
        'BindManager::bindAddress/1': ('callee', 'BindManager_bindAddress'),
        'QXmppOutgoingClientPrivate::setListener/1': set_listener,
        'NonSaslAuthManager::authenticate/5': ('callee', 'NonSaslAuthManager_authenticate'),
        'QXmppConfiguration::setUser/1': ('callee', 'QXmppConfiguration_setUser'),
        'QXmppConfiguration::setDomain/1': ('callee', 'QXmppConfiguration_setDomain'),
        'QXmppConfiguration::setResource/1': ('callee', 'QXmppConfiguration_setResource'),
        'QXmppConfiguration::setJid/1': ('callee', 'QXmppConfiguration_setJid'),
        'QXmppConfiguration::resource/0': ('callee', 'QXmppConfiguration_resource'),
        'QXmppConfiguration::user/0': ('callee', 'QXmppConfiguration_user'),
        'QXmppConfiguration::password/0': ('callee', 'QXmppConfiguration_password'),
        'QXmppConfiguration::nonSASLAuthMechanism/0': ('callee', 'QXmppConfiguration_nonSASLAuthMechanism'),
        'FastTokenManager::onSasl2Success/1': ('callee', 'FastTokenManager_onSasl2Success'),
        'C2sStreamManager::onSasl2Success/1': ('callee', 'C2sStreamManager_onSasl2Success'),
        'C2sStreamManager::onBind2Bound/1': ('callee', 'C2sStreamManager_onBind2Bound'),
    })
    p.pure_fns.update({'description', 'text'})
    return p


def _pure_or_fail(lw, n, text):
    for c in n.get('inner', []):
        if isinstance(c, dict) and c.get('kind') and not lw.pure(c):
            raise Unsupported('initialiser with side effects')
    return text


def find_lambdas(fn_decl):
    """LambdaExpr nodes of a function in source order (nested ones after their parent).  Nested lambdas are looked for in the
    concrete (for a generic lambda: instantiated) call operator of the parent, where their own instantiations live."""
    found = []

    def walk(n):
        for c in n.get('inner', []):
            if not isinstance(c, dict):
                continue
            if c.get('kind') == 'LambdaExpr':
                found.append(c)
                try:
                    op = lambda_call_operator(c)
                    body = [x for x in op.get('inner', []) if x.get('kind') == 'CompoundStmt']
                except Unsupported:
                    body = [x for x in c.get('inner', []) if x.get('kind') == 'CompoundStmt']
                for b_ in body:
                    walk(b_)
                continue
            walk(c)
    walk(fn_decl)
    return found


def lambda_call_operator(lam):
    """the unique body-carrying, concrete (instantiated for a generic lambda) operator() of a LambdaExpr"""
    rec = [c for c in lam.get('inner', []) if c.get('kind') == 'CXXRecordDecl']
    if not rec:
        raise Unsupported('lambda without closure record')
    ops = []
    for c in rec[0].get('inner', []):
        cands = []
        if c.get('kind') == 'FunctionTemplateDecl':
            cands = [x for x in c.get('inner', []) if x.get('kind') == 'CXXMethodDecl']
        elif c.get('kind') == 'CXXMethodDecl' and c.get('name') == 'operator()':
            cands = [c]
        for op in cands:
            if not any(x.get('kind') == 'CompoundStmt' for x in op.get('inner', [])):
                continue
            if any(re.search(r'\bauto\b', qt(x)) for x in op.get('inner', []) if x.get('kind') == 'ParmVarDecl'):
                continue    # the uninstantiated generic pattern
            ops.append(op)
    if len(ops) != 1:
        raise Unsupported('lambda: %d concrete operator() bodies' % len(ops))
    return ops[0]
