/* units/C10/steps.h -- negotiation steps: ghost "a step is pending", models of the values handed to continuations, and the contracts
 * of the callees of the step starters / continuations that are replaced by their contract (none has a body here).
 *
 * A negotiation STEP (authenticate, resume, bind, enable stream management) is started by sending a request and registering a
 * continuation with QXmppTask::then; it is PENDING until that continuation runs.  The client negotiates strictly one step at a time
 * (there is one listener).  "Session established" may be declared only when no step is pending: openSession requires !gh_step_pending. */
/* ghost (declared in callees.h): gh_step_pending, gh_steps, gh_cont_last */
#define NO_STEP_STARTED (gh_steps == __CPROVER_old(gh_steps))
#define ONE_STEP_STARTED (gh_steps == __CPROVER_old(gh_steps) + 1 && gh_step_pending)
#define SESSION_NOT_OPENED (gh_ev_connected == __CPROVER_old(gh_ev_connected) && !D->sessionStarted)
#define SESSION_OPENED_ONCE (gh_ev_connected == __CPROVER_old(gh_ev_connected) + 1 && D->sessionStarted)
/* property: in one run a continuation does at most ONE of {start a further negotiation step, declare the session open} */
#define AT_MOST_ONE_OF_STEP_AND_OPEN ((gh_steps - __CPROVER_old(gh_steps)) + (gh_ev_connected - __CPROVER_old(gh_ev_connected)) <= 1u)
/* state in which a continuation / the features handler runs: still negotiating, and the step it belongs to is over */
#define NEGOTIATING (!D->sessionStarted && !gh_step_pending && LOG_SYNC_OPEN)
/* what openSession / a step starter may write (their contracts' assigns clauses) */
#define OPEN_SESSION_ASSIGNS D->sessionStarted, D->bind2Bound.has, D->iqManager.opaque, D->carbonManager.opaque, D->csiManager.opaque, gh_sent, gh_sent_last, gh_iq_opened, gh_iq_opened_resumed, gh_iq_cancel_all, gh_carbon_opened, gh_csi_opened, gh_ev_connected, gh_ev_connected_smEnabled, gh_ev_connected_smResumed, gh_ev_connected_bind2Used, gh_ev_connected_fastTokenChanged, gh_ev_connected_authenticationMethod
#define STEP_ASSIGNS D->listener, gh_step_pending, gh_steps, gh_cont_last
#define GIVE_UP_ASSIGNS C2S.m_canResume, gh_sock_disconnects, gh_errors
/* the two flags follow the events: the session flag is set exactly when the session was reported in this run, and a step is pending
   afterwards only if this run started one (on entry none is pending) */
/* (written over negations: a havocked C bool may hold any non-zero byte in CBMC) */
#define FLAGS_FOLLOW_EVENTS_A ((!D->sessionStarted) == !(gh_ev_connected == __CPROVER_old(gh_ev_connected) + 1))
#define FLAGS_FOLLOW_EVENTS_B (gh_steps != __CPROVER_old(gh_steps) || !gh_step_pending)
#define GAVE_UP (gh_sock_disconnects == __CPROVER_old(gh_sock_disconnects) + 1)
#define NOT_GIVEN_UP (gh_sock_disconnects == __CPROVER_old(gh_sock_disconnects))

/* QXmppTask<T>::then(context, continuation): registers the continuation of the step whose task this is (A-THEN: the continuation
   runs after the registering function has returned, when the step's reply has arrived) */
qtask qtask_then(qtask t, const QXmppOutgoingClient *context, int continuation)
__CPROVER_assigns(gh_step_pending, gh_steps, gh_cont_last)
__CPROVER_ensures(gh_step_pending && gh_steps == __CPROVER_old(gh_steps) + 1 && gh_cont_last == continuation)
;
/* the requests of the three steps whose starters are verified here: each sends its request and returns the task of its reply */
qtask C2sStreamManager_requestResume(C2sStreamManager *self)
__CPROVER_assigns(self->m_request, gh_sent, gh_sent_last)
__CPROVER_ensures(gh_sent == __CPROVER_old(gh_sent) + 1)
;
qtask C2sStreamManager_requestEnable(C2sStreamManager *self)
__CPROVER_assigns(self->m_request, gh_sent, gh_sent_last)
__CPROVER_ensures(gh_sent == __CPROVER_old(gh_sent) + 1)
;
qtask BindManager_bindAddress(BindManager *self, qstr resource)
__CPROVER_assigns(self->opaque, gh_sent, gh_sent_last)
__CPROVER_ensures(gh_sent == __CPROVER_old(gh_sent) + 1)
;
qtask NonSaslAuthManager_authenticate(NonSaslAuthManager *self, bool plainText, qstr username, qstr password, qstr resource, qstr streamId)
__CPROVER_assigns(self->opaque, gh_sent, gh_sent_last)
__CPROVER_ensures(gh_sent == __CPROVER_old(gh_sent) + 1)
;
BindManager *setListener_BindManager(QXmppOutgoingClientPrivate *d, XmppSocket *socket)
__CPROVER_assigns(d->listener)
__CPROVER_ensures(d->listener.index == IDX_BindManager && __CPROVER_return_value == &d->listener.alt_BindManager)
;

/* contract-only starters of the authentication steps (their bodies build the requests; not verified here): each starts exactly one
   step and is called only while negotiating */
#define STARTER_STUB(LISTENER_IDX) \
__CPROVER_requires(!self->d->sessionStarted && !gh_step_pending) \
__CPROVER_assigns(gh_step_pending, gh_steps, gh_cont_last, gh_sent, gh_sent_last, self->d->listener) \
__CPROVER_ensures(gh_step_pending && gh_steps == __CPROVER_old(gh_steps) + 1 && self->d->listener.index == LISTENER_IDX)
void QXmppOutgoingClient_startSasl2Auth(QXmppOutgoingClient *self, const Sasl2StreamFeature *sasl2Feature)
STARTER_STUB(IDX_Sasl2Manager)
;
void QXmppOutgoingClient_startNonSaslAuth(QXmppOutgoingClient *self)
STARTER_STUB(IDX_NonSaslAuthManager)
;
SaslManager *setListener_SaslManager(QXmppOutgoingClientPrivate *d, XmppSocket *socket)
__CPROVER_assigns(d->listener)
__CPROVER_ensures(d->listener.index == IDX_SaslManager && __CPROVER_return_value == &d->listener.alt_SaslManager)
;
qtask SaslManager_authenticate(SaslManager *self, const QXmppConfiguration *config, qstrlist mechanisms, QXmppOutgoingClient *loggable)
__CPROVER_assigns(self->opaque, gh_sent, gh_sent_last)
__CPROVER_ensures(1)
;

/* configuration value class: setters / getters touch only the configuration (its private data is not looked into by this unit) */
void QXmppConfiguration_setUser(QXmppConfiguration *self, qstr v) __CPROVER_requires(1) __CPROVER_assigns() __CPROVER_ensures(1);
void QXmppConfiguration_setDomain(QXmppConfiguration *self, qstr v) __CPROVER_requires(1) __CPROVER_assigns() __CPROVER_ensures(1);
void QXmppConfiguration_setResource(QXmppConfiguration *self, qstr v) __CPROVER_requires(1) __CPROVER_assigns() __CPROVER_ensures(1);
void QXmppConfiguration_setJid(QXmppConfiguration *self, qstr v) __CPROVER_requires(1) __CPROVER_assigns() __CPROVER_ensures(1);
qstr QXmppConfiguration_resource(const QXmppConfiguration *self) __CPROVER_requires(1) __CPROVER_assigns() __CPROVER_ensures(1);
qstr QXmppConfiguration_user(const QXmppConfiguration *self) __CPROVER_requires(1) __CPROVER_assigns() __CPROVER_ensures(1);
qstr QXmppConfiguration_password(const QXmppConfiguration *self) __CPROVER_requires(1) __CPROVER_assigns() __CPROVER_ensures(1);
int QXmppConfiguration_nonSASLAuthMechanism(const QXmppConfiguration *self) __CPROVER_requires(1) __CPROVER_assigns() __CPROVER_ensures(1);

/* extensions told about a SASL2 success: FAST token bookkeeping; stream management (a resumed / newly enabled stream: units/C09
   onresumed.spec / onenabled.spec).  They start no step and do not open the session. */
void FastTokenManager_onSasl2Success(FastTokenManager *self, const Sasl2Success *success) __CPROVER_requires(1) __CPROVER_assigns(self->opaque) __CPROVER_ensures(1);
void C2sStreamManager_onSasl2Success(C2sStreamManager *self, const Sasl2Success *success)
__CPROVER_assigns(self->m_streamResumed, self->m_enabled, gh_sent, gh_sent_last)
__CPROVER_ensures(1)
;
void C2sStreamManager_onBind2Bound(C2sStreamManager *self, const Bind2Bound *bound)
__CPROVER_assigns(self->m_enabled, self->m_canResume, self->m_smId, self->m_resumeHost, self->m_resumePort, gh_sent, gh_sent_last)
__CPROVER_ensures(1)
;

/* ---- callees of handleStreamFeatures --------------------------------------------------------------------------------------------
 * handleStarttls (verified against the TLS gate in units/C04): returns true iff it took over (sent <starttls/> and registered the
 * continuation that starts the TLS handshake, or disconnected); it never opens the session.  gh_tls_handled records its answer. */
bool gh_tls_handled;
bool QXmppOutgoingClient_handleStarttls(QXmppOutgoingClient *self, const QXmppStreamFeatures *features)
__CPROVER_assigns(gh_tls_handled, STEP_ASSIGNS, GIVE_UP_ASSIGNS, gh_sent, gh_sent_last)
__CPROVER_ensures(gh_tls_handled == __CPROVER_return_value)
__CPROVER_ensures(!__CPROVER_return_value ==> (gh_steps == __CPROVER_old(gh_steps) && gh_step_pending == __CPROVER_old(gh_step_pending) && gh_sock_disconnects == __CPROVER_old(gh_sock_disconnects)))
__CPROVER_ensures(__CPROVER_return_value ==> (gh_steps - __CPROVER_old(gh_steps) <= 1u && (gh_steps != __CPROVER_old(gh_steps) || gh_step_pending == __CPROVER_old(gh_step_pending))))
;
void CsiManager_onStreamFeatures(CsiManager *self, const QXmppStreamFeatures *features) __CPROVER_requires(1) __CPROVER_assigns(self->opaque) __CPROVER_ensures(1);
