/* units/C09/callsite_model.h -- surroundings of QXmppOutgoingClient::handleElement / handleStanza (after the records and, with
 * MGR = self, the prototypes (= verified contracts) of StreamAckManager::handleStanza and StreamAckManager::send).
 */
/* ---- call log of ONE handleElement / handleStanza call */
int cs_sam_calls; qdom cs_sam_el;       /* StreamAckManager::handleStanza: how often, with which element */
bool cs_consumed_before_sam;            /* something that can consume the element ran before the ack manager saw it */
int cs_sam_sends; bool cs_send_is_stanza;   /* StreamAckManager::send: how often, was the last packet a stanza */
int cs_signals;
promise_id cs_new_promise;              /* identity of the promise a QXmppPacket built here gets (a NEW one: see the contracts' premise) */
bool gh_link_encrypted; int gh_cfg_security_mode;   /* socket()->isEncrypted(), configuration().streamSecurityMode(): pure getters */

/* the two entries into the ack manager: counted, then through the contracts verified on the real bodies
   (plain functions, not static inline: the contract symbols of the replaced callees must stay in the program even when a
   change removes their last call -- then the obligation has to fail, not the tool) */
bool cs_sam_handleStanza(StreamAckManager *m, qdom e) { if (cs_sam_calls < 1000) cs_sam_calls++; cs_sam_el = e; return StreamAckManager_handleStanza(m, e); }
task_id cs_sam_send(StreamAckManager *m, QXmppPacket *p) { if (cs_sam_sends < 1000) cs_sam_sends++; cs_send_is_stanza = p->m_isXmppStanza; return StreamAckManager_send(m, p); }
static inline void cs_consumer(void) { if (cs_sam_calls == 0) cs_consumed_before_sam = true; }
static inline void cs_signal(void) { if (cs_signals < 1000) cs_signals++; }

/* ---- everything else that may consume a received element (ASSUMED contracts: they are not about C09; none of them touches
   the ack manager or writes a stanza past it -- what they do write during stream negotiation is listed under not_covered) */
/* OutgoingIqManager::handleStanza (C07): consumes responses that match a pending request */
bool OIM_handleStanza(OutgoingIqManager *self, qdom stanza)
__CPROVER_assigns(*self)
;
bool cs_oim_handleStanza(OutgoingIqManager *m, qdom e) { cs_consumer(); return OIM_handleStanza(m, e); }
/* Q_EMIT elementReceived(element, handled): QXmppClient's extension chain (C08) */
static inline void cs_elementReceived(qdom e, bool *handled) { cs_consumer(); *handled = nondet_bool(); }
void QXmppStreamFeatures_parse(QXmppStreamFeatures *self, qdom e)
__CPROVER_assigns(*self)
;
void OC_handleStreamFeatures(QXmppOutgoingClient *self, const QXmppStreamFeatures *f)
__CPROVER_assigns(cs_signals)
;
void OC_handleStreamError(QXmppOutgoingClient *self, const StreamErrorElement *e)
__CPROVER_assigns(cs_signals)
;
void cs_handleStreamFeatures(QXmppOutgoingClient *c, const QXmppStreamFeatures *f) { cs_consumer(); OC_handleStreamFeatures(c, f); }
void cs_handleStreamError(QXmppOutgoingClient *c, const StreamErrorElement *e) { cs_consumer(); OC_handleStreamError(c, e); }
void StreamErrorElement_fromDom(StreamErrVariant *_ret, qdom e)
__CPROVER_assigns(*_ret)
__CPROVER_ensures(_ret->index == 0 || _ret->index == 1)
;
static inline StreamErrorElement *StreamErrVariant_getIf0(StreamErrVariant *v) { return v->index == 0 ? &v->alt0 : NULL; }
/* stanza value classes: parsers are unconstrained; setters record what the reply carries */
void QXmppIq_parse(QXmppIq *self, qdom e)
__CPROVER_assigns(*self)
;
void QXmppPresence_parse(QXmppPresence *self, qdom e)
__CPROVER_assigns(*self)
;
void QXmppMessage_parse(QXmppMessage *self, qdom e)
__CPROVER_assigns(*self)
;
static inline void QXmppIq_ctor0(QXmppIq *q) { q->type = 0; q->id = 0; q->to = 0; q->has_err = false; q->err.type = 0; q->err.cond = 0; }
static inline void QXmppIq_ctor(QXmppIq *q, int type) { QXmppIq_ctor0(q); q->type = type; }
static inline void QXmppIq_setId(QXmppIq *q, qstr id) { q->id = id; }
static inline void QXmppIq_setTo(QXmppIq *q, qstr to) { q->to = to; }
static inline void QXmppIq_setError(QXmppIq *q, const StanzaError *e) { q->has_err = true; q->err = *e; }
static inline void StanzaError_ctor2(StanzaError *e, int type, int cond) { e->type = type; e->cond = cond; }
/* QXmppPacket(const QXmppNonza &nonza, QXmppPromise = {}) (QXmppPacket.cpp:15-25): data = serializeXml(nonza),
   isXmppStanza = nonza.isXmppStanza(), promise = a new promise */
static inline void QXmppPacket_fromNonza(QXmppPacket *p, bool isStanza) { p->m_promise = cs_new_promise; p->m_data.kind = WB_PACKET; p->m_data.id = cs_new_promise; p->m_data.h = 0; p->m_isXmppStanza = isStanza; }
/* serializeXml(<stanza object>) used directly: stanza bytes that no packet of the ack manager carries */
static inline void serializeXml_rawStanza(WireBytes *r, const void *stanza) { r->kind = WB_RAW_STANZA; r->id = 0; r->h = 0; }
#define CS_IS_REQUEST(e) (qdom_tagName(e) == S("iq") && (qdom_attribute(e, S("type")) == S("get") || qdom_attribute(e, S("type")) == S("set")))
/* premises shared by the two call-site contracts: XEP-0198 counter wrap not implemented (stated, as for send); a packet
   built inside the call carries a NEW promise (neither stored nor reported) */
#define CS_PREMISES ((!MGR->m_enabled || MGR->m_lastOutgoingSequenceNumber < UINT_MAX) && (cs_new_promise != g_o || (!MAP(MGR).w_in && gh_reports_w == 0)) && \
                     0 <= cs_sam_sends && cs_sam_sends < 1000 && 0 <= cs_signals && gh_raw_stanza_writes <= gh_wire_n)
/* never called; keeps the remaining replaced callees' symbols in the program (same reason as above) */
void cs_keep_symbols(QXmppIq *q, QXmppPresence *p, QXmppMessage *m, QXmppStreamFeatures *f, StreamErrVariant *v) { QXmppIq_parse(q, 0); QXmppPresence_parse(p, 0); QXmppMessage_parse(m, 0); QXmppStreamFeatures_parse(f, 0); StreamErrorElement_fromDom(v, 0); }
