"""C09 -- stream management accounting: a stanza is confirmed only when acked, else resent, in order."""
import os
from vlib.unit import Builder, Target, VERIF, scan_assumes
from vlib.runner import Proof
from vlib import ctx
from vlib.configure import REPO
from profile import profile

SM = 'src/base/QXmppStreamManagement.cpp'
PK = 'src/base/QXmppPacket.cpp'
QT = os.path.join(VERIF, 'qtmodel')
HERE = os.path.dirname(os.path.abspath(__file__))


def rd(name):
    return open(os.path.join(HERE, name)).read()


def typecheck(cfile):
    """goto-cc accepts int <-> pointer mix-ups silently: compile the generated C (contract clauses stripped) with a
    strict ordinary compiler first, so that a lowering slip is a tool error (exit 2) and never a wrong proof"""
    import re, subprocess
    from vlib.runner import ToolError
    txt = open(cfile).read()
    txt = re.sub(r'^\s*__CPROVER_(requires|ensures|assigns|loop_invariant|decreases)\(.*\)\s*$', '', txt, flags=re.M)
    chk = cfile[:-2] + '.typecheck.c'
    open(chk, 'w').write(txt)
    cmd = ['gcc', '-std=gnu11', '-fsyntax-only', '-Werror=int-conversion', '-Werror=incompatible-pointer-types',
           '-Werror=implicit-function-declaration', '-Werror=return-type', '-Werror=implicit-int', '-DVERIF_CBMC', '-I', QT,
           '-D__CPROVER_assert(c,m)=((void)(c))', '-D__CPROVER_assume(c)=((void)(c))', chk]
    p = subprocess.run(cmd, stdout=subprocess.PIPE, stderr=subprocess.STDOUT, text=True)
    if p.returncode != 0:
        raise ToolError('generated C does not type-check strictly (%s): %s' % (os.path.basename(cfile), p.stdout[-1500:]))


def build(work, tier):
    prof = profile()
    b = Builder('C09', work, prof)
    sm, pk = os.path.join(REPO, SM), os.path.join(REPO, PK)
    # records generated from the real class definitions (a removed / renamed / retyped member is noticed)
    rec_packet, _ = ctx.emit_record(pk, 'QXmppPacket', 'QXmppPacket', 'QXmppPacket', prof)
    rec_ack, _ = ctx.emit_record(sm, 'SmAck', 'SmAck', 'SmAck', prof)
    rec_mgr, _ = ctx.emit_record(sm, 'StreamAckManager', 'StreamAckManager', 'StreamAckManager', prof)
    records = '\n'.join([rec_packet, rec_ack, 'typedef struct OptSmAck { bool has; SmAck v; } OptSmAck;',
                         'typedef struct OptSmRequest { bool has; } OptSmRequest;', rec_mgr]) + '\n'

    def sam(name):
        return Target(SM, 'StreamAckManager::' + name, name, 'StreamAckManager_' + name, this='StreamAckManager')

    def pkt(name):
        return Target(PK, 'QXmppPacket::' + name, name, 'QXmppPacket_' + name, this='QXmppPacket')

    # QXmppPacket members: real bodies, used inline by every caller (loop-free getters and the report)
    packet_fns = '\n'.join(b.lower(pkt(n)) for n in ('data', 'isXmppStanza', 'task', 'reportFinished')) + '\n'

    def assemble(body, harness):
        return ('#include "opaque.h"\n' + prof.literal_ids.table() + rd('types.h') + records + b.subst(rd('model.h')) + b.subst(rd('spec_macros.h'))
                + b.context() + '\n' + packet_fns + body + '\n' + harness + '\n')

    from vlib.unit import Spec
    proofs = []
    texts = []      # lowered functions, callee first
    jobs = []       # (proof id, cname, harness, spec, kwargs)

    def fn(target, sp):
        texts.append(b.lower(target, sp))

    def job(pid, cname, harness_args, sp, decls='', **kw):
        jobs.append((pid, cname, 'void h_%s(void) { %s %s(%s); }' % (pid, decls, cname, harness_args), sp, kw))

    M = 'StreamAckManager_'
    # ---------------------------------------------------------------- the two nonza senders (loop-free)
    sp = b.spec('sendreq.spec')
    fn(sam('sendAcknowledgementRequest'), sp)
    job('sendAcknowledgementRequest', M + 'sendAcknowledgementRequest', 's', sp, 'StreamAckManager *s;', kind='complete', loop_contracts=False)
    sp = b.spec('sendack.spec')
    fn(sam('sendAcknowledgement'), sp)
    job('sendAcknowledgement', M + 'sendAcknowledgement', 's', sp, 'StreamAckManager *s;', kind='complete', loop_contracts=False)
    # ---------------------------------------------------------------- setAcknowledgedSequenceNumber (erase loop)
    sp = b.spec('setack.spec')
    fn(sam('setAcknowledgedSequenceNumber'), sp)
    job('setAcknowledgedSequenceNumber', M + 'setAcknowledgedSequenceNumber', 's, h', sp, 'StreamAckManager *s; unsigned h;', expect_loops=1, timeout=900,
        note='every map size (no capacity bound), every h, every stored/unstored witness packet; erase loop closed by loop contract')
    # ---------------------------------------------------------------- handleAcknowledgement
    sp = b.spec('handleack.spec')
    fn(sam('handleAcknowledgement'), sp)
    job('handleAcknowledgement', M + 'handleAcknowledgement', 's, a', sp, 'StreamAckManager *s; SmAck *a;', kind='complete', loop_contracts=False,
        replace=[M + 'setAcknowledgedSequenceNumber'])
    # ---------------------------------------------------------------- inbound: the two parsers and handleStanza
    sp = b.spec('fromdom_ack.spec')
    fn(Target(SM, 'SmAck::fromDom', 'fromDom', 'SmAck_fromDom'), sp)
    b.functions[-1]['function'] = 'SmAck::fromDom'
    job('SmAck_fromDom', 'SmAck_fromDom', 'r, e', sp, 'OptSmAck *r; qdom e;', kind='complete', loop_contracts=False)
    sp = b.spec('fromdom_req.spec')
    fn(Target(SM, 'SmRequest::fromDom', 'fromDom', 'SmRequest_fromDom'), sp)
    b.functions[-1]['function'] = 'SmRequest::fromDom'
    job('SmRequest_fromDom', 'SmRequest_fromDom', 'r, e', sp, 'OptSmRequest *r; qdom e;', kind='complete', loop_contracts=False)
    sp = b.spec('handlestanza.spec')
    fn(sam('handleStanza'), sp)
    job('handleStanza', M + 'handleStanza', 's, e', sp, 'StreamAckManager *s; qdom e;', kind='complete', loop_contracts=False,
        replace=[M + 'setAcknowledgedSequenceNumber'],
        note='real bodies of SmAck::fromDom, SmRequest::fromDom, handleAcknowledgement, sendAcknowledgement inlined; the erase loop through its contract')
    # ---------------------------------------------------------------- outbound: internalSend and its two wrappers
    tmpl = rd('internalsend.spec.in')

    def send_spec(retfresh, retassign, kind, taskpost):
        t = tmpl.replace('@RETFRESH@', retfresh).replace('@RETASSIGN@', retassign).replace('@KIND@', kind).replace('@TASKPOST@', taskpost)
        return Spec(b.subst(t))
    sp = send_spec(' && __CPROVER_is_fresh(_ret, sizeof(*_ret))', ', *_ret', 'gh_report_kind_w == (_ret->f0 ? RK_SENT : RK_ERROR)',
                   '//: post.returned_task_belongs_to_the_packet\n__CPROVER_ensures(_ret->f1 == packet->m_promise)')
    fn(sam('internalSend'), sp)
    job('internalSend', M + 'internalSend', 's, r, p', sp, 'StreamAckManager *s; SendTuple *r; QXmppPacket *p;', kind='complete', loop_contracts=False,
        note='real body of sendAcknowledgementRequest inlined')
    sp = send_spec('', '', '(gh_report_kind_w == RK_SENT || gh_report_kind_w == RK_ERROR)',
                   '//: post.returned_task_belongs_to_the_packet\n__CPROVER_ensures(__CPROVER_return_value == packet->m_promise)')
    fn(sam('send'), sp)
    job('send', M + 'send', 's, p', sp, 'StreamAckManager *s; QXmppPacket *p;', kind='complete', loop_contracts=False, replace=[M + 'internalSend'])
    sp = send_spec('', '', 'gh_report_kind_w == (__CPROVER_return_value ? RK_SENT : RK_ERROR)', '')
    fn(sam('sendPacketCompat'), sp)
    job('sendPacketCompat', M + 'sendPacketCompat', 's, p', sp, 'StreamAckManager *s; QXmppPacket *p;', kind='complete', loop_contracts=False, replace=[M + 'internalSend'])
    # ---------------------------------------------------------------- (re)enable: resend, renumbering
    sp = b.spec('enable.spec')
    fn(sam('enableStreamManagement'), sp)
    job('enableStreamManagement', M + 'enableStreamManagement', 's, r', sp, 'StreamAckManager *s; bool r;', expect_loops=1, timeout=1200,
        note='every map size; both resend loops (over the saved copy with renumbering, and over the map itself) closed by loop contracts; real body of sendAcknowledgementRequest inlined')
    p_inv_enable = sp
    # ---------------------------------------------------------------- resetCache
    sp = b.spec('resetcache.spec')
    fn(sam('resetCache'), sp)
    job('resetCache', M + 'resetCache', 's', sp, 'StreamAckManager *s;', expect_loops=1, timeout=900, note='every map size; report loop closed by loop contract')
    # ---------------------------------------------------------------- session end
    sp = b.spec('closed.spec')
    fn(sam('onSessionClosed'), sp)
    job('onSessionClosed', M + 'onSessionClosed', 's', sp, 'StreamAckManager *s;', kind='complete', loop_contracts=False)

    body = '\n'.join(texts)
    for pid, cname, harness, sp, kw in jobs:
        f = b.write(pid + '.c', assemble(body, harness))
        typecheck(f)
        kw.setdefault('timeout', 600)
        p = Proof(pid, f, 'h_' + pid, enforce=cname, include_dirs=[QT], **kw)
        p.labels = {'post': {cname: sp.labels}, 'inv': {cname: sp.inv_labels.get(0, [])}}
        p.expect_post = len(sp.labels)
        proofs.append(p)

    text_all = rd('types.h') + rd('model.h') + open(os.path.join(QT, 'opaque.h')).read()
    return {
        'proofs': proofs, 'functions': b.functions, 'dropped': b.dropped, 'fired': b.fired, 'hooks': [],
        'assumed': [],
        'assumes': scan_assumes(text_all),
        'not_covered': [],
    }
