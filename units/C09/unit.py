"""C09 -- stream management accounting: a stanza is confirmed only when acked, else resent, in order."""
import os
from vlib.unit import Builder, Target, VERIF, scan_assumes
from vlib.runner import Proof
from vlib import ctx
from vlib.configure import REPO
from profile import profile

SM = 'src/base/QXmppStreamManagement.cpp'
PK = 'src/base/QXmppPacket.cpp'
QT = os.path.join(VERIF, 'qtmodel')
HERE = os.path.dirname(os.path.abspath(__file__))


# members of QXmppOutgoingClientPrivate that the verified functions touch, named as in the repository (a renamed member is a
# compile error of the generated C = exit 2); streamAckManager() / xmppSocket() / iqManager() are getters of these members
CLIENT_REC = ('typedef struct QXmppOutgoingClientPrivate { StreamAckManager streamAckManager; XmppSocket socket; OutgoingIqManager iqManager; } QXmppOutgoingClientPrivate;\n'
              'typedef struct QXmppOutgoingClient { QXmppOutgoingClientPrivate *d; } QXmppOutgoingClient;\n')


def rd(name):
    return open(os.path.join(HERE, name)).read()


def typecheck(cfile):
    """goto-cc accepts int <-> pointer mix-ups silently: compile the generated C (contract clauses stripped) with a
    strict ordinary compiler first, so that a lowering slip is a tool error (exit 2) and never a wrong proof"""
    import re, subprocess
    from vlib.runner import ToolError
    txt = open(cfile).read()
    txt = re.sub(r'^\s*__CPROVER_(requires|ensures|assigns|loop_invariant|decreases)\(.*\)[ \t]*(;?)[ \t]*$', r'\2', txt, flags=re.M)
    chk = cfile[:-2] + '.typecheck.c'
    open(chk, 'w').write(txt)
    cmd = ['gcc', '-std=gnu11', '-fsyntax-only', '-Werror=int-conversion', '-Werror=incompatible-pointer-types',
           '-Werror=implicit-function-declaration', '-Werror=return-type', '-Werror=implicit-int', '-DVERIF_CBMC', '-I', QT,
           '-D__CPROVER_assert(c,m)=((void)(c))', '-D__CPROVER_assume(c)=((void)(c))', chk]
    p = subprocess.run(cmd, stdout=subprocess.PIPE, stderr=subprocess.STDOUT, text=True)
    if p.returncode != 0:
        raise ToolError('generated C does not type-check strictly (%s): %s' % (os.path.basename(cfile), p.stdout[-1500:]))


def lower_ctor(b, prof, sm, spec):
    """StreamAckManager::StreamAckManager(XmppSocket &): member initialisers and the in-class default initialisers they
    refer to, extracted from the AST (vlib.cxx2c lowers function bodies only; this constructor's body must be empty)"""
    from vlib import astx
    from vlib.cxx2c import Lowerer, Unsupported, apply_splices
    import hashlib, re
    d = astx.find_function(sm, 'StreamAckManager::StreamAckManager', 'StreamAckManager')
    _, rec = ctx.record_fields(sm, 'StreamAckManager', 'StreamAckManager')
    inits = {}
    for c in rec['inner']:
        if c.get('kind') == 'FieldDecl' and c.get('hasInClassInitializer'):
            inits[c['name']] = [x for x in c.get('inner', []) if isinstance(x, dict) and x.get('kind') and not x['kind'].endswith('Comment')][-1]
    lw = Lowerer(d, 'StreamAckManager_ctor', prof, this_type='StreamAckManager')
    out = ['void StreamAckManager_ctor(StreamAckManager *self)', '/*@CONTRACT@*/', '{']
    for c in d['inner']:
        k = c.get('kind')
        if k == 'CXXCtorInitializer':
            name = c['anyInit']['name']
            e = lw.skip(c['inner'][0])
            if e.get('kind') == 'CXXDefaultInitExpr':
                if name not in inits:
                    raise Unsupported('constructor: member %s has no in-class initialiser' % name)
                out.append('  self->%s = %s;' % (name, lw.expr(inits[name])))
            elif e.get('kind') == 'CXXConstructExpr' and lw.ntype(e) == 'QMapUP' and not e.get('inner'):
                out.append('  QMapUP_ctor(&self->%s);' % name)
            elif e.get('kind') == 'DeclRefExpr' and 'XmppSocket' in e.get('type', {}).get('qualType', ''):
                out.append('  /* reference member %s bound to the constructor argument */' % name)
            else:
                raise Unsupported('constructor initialiser of %s: %s' % (name, e.get('kind')))
        elif k == 'CompoundStmt':
            if c.get('inner'):
                raise Unsupported('constructor body is not empty')
        elif k != 'ParmVarDecl':
            raise Unsupported('constructor child %s' % k)
    out.append('}')
    text = apply_splices('\n'.join(out), spec.contract, spec.loops)
    b0, e0 = astx.src_range(d)
    b.functions.append({'function': 'StreamAckManager::StreamAckManager', 'cname': 'StreamAckManager_ctor', 'file': SM, 'lines': [b0, e0], 'ast_hash': astx.node_hash(d),
                        'lowered_c_sha': hashlib.sha256(text.encode()).hexdigest()[:16], 'loops': 0, 'rules_fired': len(lw.fired), 'calls_dropped': 0})
    return text


def build(work, tier):
    prof = profile()
    b = Builder('C09', work, prof)
    sm, pk = os.path.join(REPO, SM), os.path.join(REPO, PK)
    # records generated from the real class definitions (a removed / renamed / retyped member is noticed)
    rec_packet, _ = ctx.emit_record(pk, 'QXmppPacket', 'QXmppPacket', 'QXmppPacket', prof)
    rec_ack, _ = ctx.emit_record(sm, 'SmAck', 'SmAck', 'SmAck', prof)
    rec_mgr, _ = ctx.emit_record(sm, 'StreamAckManager', 'StreamAckManager', 'StreamAckManager', prof)
    records = '\n'.join([rec_packet, rec_ack, 'typedef struct OptSmAck { bool has; SmAck v; } OptSmAck;',
                         'typedef struct OptSmRequest { bool has; } OptSmRequest;', rec_mgr]) + '\n'

    def sam(name):
        return Target(SM, 'StreamAckManager::' + name, name, 'StreamAckManager_' + name, this='StreamAckManager')

    def pkt(name):
        return Target(PK, 'QXmppPacket::' + name, name, 'QXmppPacket_' + name, this='QXmppPacket')

    # QXmppPacket members: real bodies, used inline by every caller (loop-free getters and the report)
    packet_fns = '\n'.join(b.lower(pkt(n)) for n in ('data', 'isXmppStanza', 'task', 'reportFinished')) + '\n'

    def assemble(body, harness):
        return ('#include "opaque.h"\n' + prof.literal_ids.table() + rd('types.h') + records + b.subst(rd('model.h')) + b.subst(rd('spec_macros.h'))
                + b.context() + '\n' + packet_fns + body + '\n' + harness + '\n')

    from vlib.unit import Spec
    proofs = []
    texts = []      # lowered functions, callee first
    jobs = []       # (proof id, cname, harness, spec, kwargs)

    T = {}

    def fn(target, sp):
        texts.append(b.lower(target, sp))
        T[target.cname] = texts[-1]

    def job(pid, cname, harness_args, sp, decls='', **kw):
        jobs.append((pid, cname, 'void h_%s(void) { %s %s(%s); }' % (pid, decls, cname, harness_args), sp, kw))

    M = 'StreamAckManager_'
    # ---------------------------------------------------------------- the two nonza senders (loop-free)
    sp = b.spec('sendreq.spec')
    fn(sam('sendAcknowledgementRequest'), sp)
    job('sendAcknowledgementRequest', M + 'sendAcknowledgementRequest', 's', sp, 'StreamAckManager *s;', kind='complete', loop_contracts=False)
    sp = b.spec('sendack.spec')
    fn(sam('sendAcknowledgement'), sp)
    job('sendAcknowledgement', M + 'sendAcknowledgement', 's', sp, 'StreamAckManager *s;', kind='complete', loop_contracts=False)
    # ---------------------------------------------------------------- setAcknowledgedSequenceNumber (erase loop)
    sp = b.spec('setack.spec')
    fn(sam('setAcknowledgedSequenceNumber'), sp)
    t_setack = texts[-1]
    job('setAcknowledgedSequenceNumber', M + 'setAcknowledgedSequenceNumber', 's, h', sp, 'StreamAckManager *s; unsigned h;', expect_loops=1, timeout=900,
        note='every map size (no capacity bound), every h, every stored/unstored witness packet; erase loop closed by loop contract')
    # ---------------------------------------------------------------- handleAcknowledgement
    sp = b.spec('handleack.spec')
    fn(sam('handleAcknowledgement'), sp)
    job('handleAcknowledgement', M + 'handleAcknowledgement', 's, a', sp, 'StreamAckManager *s; SmAck *a;', kind='complete', loop_contracts=False,
        replace=[M + 'setAcknowledgedSequenceNumber'])
    # ---------------------------------------------------------------- inbound: the two parsers and handleStanza
    sp = b.spec('fromdom_ack.spec')
    fn(Target(SM, 'SmAck::fromDom', 'fromDom', 'SmAck_fromDom'), sp)
    b.functions[-1]['function'] = 'SmAck::fromDom'
    job('SmAck_fromDom', 'SmAck_fromDom', 'r, e', sp, 'OptSmAck *r; qdom e;', kind='complete', loop_contracts=False)
    sp = b.spec('fromdom_req.spec')
    fn(Target(SM, 'SmRequest::fromDom', 'fromDom', 'SmRequest_fromDom'), sp)
    b.functions[-1]['function'] = 'SmRequest::fromDom'
    job('SmRequest_fromDom', 'SmRequest_fromDom', 'r, e', sp, 'OptSmRequest *r; qdom e;', kind='complete', loop_contracts=False)
    sp = b.spec('handlestanza.spec')
    fn(sam('handleStanza'), sp)
    job('handleStanza', M + 'handleStanza', 's, e', sp, 'StreamAckManager *s; qdom e;', kind='complete', loop_contracts=False,
        replace=[M + 'setAcknowledgedSequenceNumber'],
        note='real bodies of SmAck::fromDom, SmRequest::fromDom, handleAcknowledgement, sendAcknowledgement inlined; the erase loop through its contract')
    # ---------------------------------------------------------------- outbound: internalSend and its two wrappers
    tmpl = rd('internalsend.spec.in')

    def send_spec(retfresh, retassign, kind, taskpost):
        t = tmpl.replace('@RETFRESH@', retfresh).replace('@RETASSIGN@', retassign).replace('@KIND@', kind).replace('@TASKPOST@', taskpost)
        return Spec(b.subst(t))
    sp = send_spec(' && __CPROVER_is_fresh(_ret, sizeof(*_ret))', ', *_ret', 'gh_report_kind_w == (_ret->f0 ? RK_SENT : RK_ERROR)',
                   '//: post.returned_task_belongs_to_the_packet\n__CPROVER_ensures(_ret->f1 == packet->m_promise)')
    fn(sam('internalSend'), sp)
    job('internalSend', M + 'internalSend', 's, r, p', sp, 'StreamAckManager *s; SendTuple *r; QXmppPacket *p;', kind='complete', loop_contracts=False,
        note='real body of sendAcknowledgementRequest inlined')
    sp = send_spec('', '', '(gh_report_kind_w == RK_SENT || gh_report_kind_w == RK_ERROR)',
                   '//: post.returned_task_belongs_to_the_packet\n__CPROVER_ensures(__CPROVER_return_value == packet->m_promise)')
    fn(sam('send'), sp)
    job('send', M + 'send', 's, p', sp, 'StreamAckManager *s; QXmppPacket *p;', kind='complete', loop_contracts=False, replace=[M + 'internalSend'])
    sp = send_spec('', '', 'gh_report_kind_w == (__CPROVER_return_value ? RK_SENT : RK_ERROR)', '')
    fn(sam('sendPacketCompat'), sp)
    job('sendPacketCompat', M + 'sendPacketCompat', 's, p', sp, 'StreamAckManager *s; QXmppPacket *p;', kind='complete', loop_contracts=False, replace=[M + 'internalSend'])
    # ---------------------------------------------------------------- (re)enable: resend, renumbering
    sp = b.spec('enable.spec')
    fn(sam('enableStreamManagement'), sp)
    job('enableStreamManagement', M + 'enableStreamManagement', 's, r', sp, 'StreamAckManager *s; bool r;', expect_loops=1, timeout=1200,
        note='every map size; both resend loops (over the saved copy with renumbering, and over the map itself) closed by loop contracts; real body of sendAcknowledgementRequest inlined')
    t_enable = texts[-1]
    # ---------------------------------------------------------------- resetCache
    sp = b.spec('resetcache.spec')
    fn(sam('resetCache'), sp)
    job('resetCache', M + 'resetCache', 's', sp, 'StreamAckManager *s;', expect_loops=1, timeout=900, note='every map size; report loop closed by loop contract')
    # ---------------------------------------------------------------- constructor (initial state = base case of the induction)
    sp = b.spec('ctor.spec')
    texts.append(lower_ctor(b, prof, sm, sp))
    T[M + 'ctor'] = texts[-1]
    job('constructor', M + 'ctor', 's', sp, 'StreamAckManager *s;', kind='complete', loop_contracts=False)
    # ---------------------------------------------------------------- session end
    sp = b.spec('closed.spec')
    fn(sam('onSessionClosed'), sp)
    job('onSessionClosed', M + 'onSessionClosed', 's', sp, 'StreamAckManager *s;', kind='complete', loop_contracts=False)

    body = '#define MGR self\n' + '\n'.join(texts)
    for pid, cname, harness, sp, kw in jobs:
        f = b.write(pid + '.c', assemble(body, harness))
        typecheck(f)
        kw.setdefault('timeout', 600)
        p = Proof(pid, f, 'h_' + pid, enforce=cname, include_dirs=[QT], **kw)
        p.labels = {'post': {cname: sp.labels}, 'inv': {cname: sp.inv_labels.get(0, [])}}
        p.expect_post = len(sp.labels)
        proofs.append(p)

    # ---------------------------------------------------------------- C2sStreamManager (src/client/QXmppOutgoingClient.cpp)
    from profile import C09Lowerer
    OC = 'src/client/QXmppOutgoingClient.cpp'
    oc = os.path.join(REPO, OC)
    sp = b.spec('lastin.spec')
    t_lastin = b.lower(Target(SM, 'StreamAckManager::lastIncomingSequenceNumber', 'lastIncomingSequenceNumber', M + 'lastIncomingSequenceNumber', this='StreamAckManager'), sp)
    c2s_jobs = [('lastIncomingSequenceNumber', M + 'lastIncomingSequenceNumber', 'StreamAckManager *s;', 's', sp, [])]
    recs = []
    for filt, cls, cname in (('SmResumed', 'SmResumed', 'SmResumed'), ('SmResume', 'SmResume', 'SmResume'), ('SmEnabled', 'SmEnabled', 'SmEnabled')):
        recs.append(ctx.emit_record(sm, filt, cls, cname, prof)[0])
    recs.append('typedef struct OptSmResume { bool has; SmResume v; } OptSmResume;')
    recs.append(ctx.emit_record(oc, 'Sasl2::Authenticate', 'Authenticate', 'Sasl2Authenticate', prof, opaque_ok=True)[0])
    recs.append(ctx.emit_record(oc, 'Sasl2::StreamFeature', 'StreamFeature', 'Sasl2StreamFeature', prof, opaque_ok=True)[0])
    # q->streamAckManager() / q->xmppSocket(): getters of the client's one ack manager and socket
    recs.append(CLIENT_REC)
    recs.append(ctx.emit_record(oc, 'C2sStreamManager', 'C2sStreamManager', 'C2sStreamManager', prof, opaque_ok=True)[0])
    c2s_texts = []
    C = 'C2sStreamManager_'
    for name, specf, decls, args, repl in (
            ('onResumed', 'onresumed.spec', 'C2sStreamManager *s; SmResumed *r;', 's, r', [M + 'setAcknowledgedSequenceNumber', M + 'enableStreamManagement']),
            ('onEnabled', 'onenabled.spec', 'C2sStreamManager *s; SmEnabled *e;', 's, e', [M + 'enableStreamManagement', C + 'setResumeAddress']),
            ('requestResume', 'requestresume.spec', 'C2sStreamManager *s;', 's', []),
            ('onSasl2Authenticate', 'sasl2auth.spec', 'C2sStreamManager *s; Sasl2Authenticate *a; Sasl2StreamFeature *f;', 's, a, f', []),
            ('onStreamStart', 'streamstart.spec', 'C2sStreamManager *s;', 's', []),
            ('onStreamClosed', 'streamclosed.spec', 'C2sStreamManager *s;', 's', [])):
        sp = b.spec(specf)
        c2s_texts.append(b.lower(Target(OC, 'C2sStreamManager::' + name, name, C + name, this='C2sStreamManager', lowerer_cls=C09Lowerer), sp))
        c2s_jobs.append((name, C + name, decls, args, sp, repl))
    c2s_body = ('#define MGR self\n' + b.prototype(T[M + 'setAcknowledgedSequenceNumber']) + b.prototype(T[M + 'enableStreamManagement']) + t_lastin + '\n'
                + '\n'.join(recs) + '\n' + rd('c2s_model.h') + '#undef MGR\n#define MGR (&self->q->d->streamAckManager)\n' + '\n'.join(c2s_texts))
    for pid, cname, decls, args, sp, repl in c2s_jobs:
        f = b.write(pid + '.c', assemble(c2s_body, 'void h_%s(void) { %s %s(%s); }' % (pid, decls, cname, args)))
        typecheck(f)
        p = Proof(pid, f, 'h_' + pid, enforce=cname, include_dirs=[QT], kind='complete', loop_contracts=False, timeout=600, replace=repl,
                  note=('callees through their contracts: ' + ', '.join(repl)) if repl else '')
        p.labels = {'post': {cname: sp.labels}}
        p.expect_post = len(sp.labels)
        proofs.append(p)

    # ---------------------------------------------------------------- call sites: QXmppOutgoingClient::handleElement / handleStanza
    # every received element reaches StreamAckManager::handleStanza first and exactly once; every stanza written here goes out
    # through StreamAckManager::send.  Both enter the ack manager through the contracts enforced above.
    sp_iq = b.spec('iq_isstanza.spec')
    t_isst = b.lower(Target('src/base/QXmppIq.cpp', 'QXmppIq::isXmppStanza', 'isXmppStanza', 'QXmppIq_isXmppStanza', this='QXmppIq'), sp_iq)
    t_isfeat = b.lower(Target('src/base/QXmppStreamFeatures.cpp', 'QXmppStreamFeatures::isStreamFeatures', 'isStreamFeatures', 'QXmppStreamFeatures_isStreamFeatures'))
    b.functions[-1]['function'] = 'QXmppStreamFeatures::isStreamFeatures'
    sp_hs = b.spec('oc_handlestanza.spec')
    t_ochs = b.lower(Target(OC, 'QXmppOutgoingClient::handleStanza', 'handleStanza', 'OC_handleStanza', this='QXmppOutgoingClient', lowerer_cls=C09Lowerer), sp_hs)
    sp_he = b.spec('oc_handleelement.spec')
    t_oche = b.lower(Target(OC, 'QXmppOutgoingClient::handleElement', 'handleElement', 'OC_handleElement', this='QXmppOutgoingClient', lowerer_cls=C09Lowerer), sp_he)
    cs_body = ('#define MGR self\n' + b.prototype(T[M + 'handleStanza']) + b.prototype(T[M + 'send']) + CLIENT_REC + t_isst + '\n' + t_isfeat + '\n'
               + b.subst(rd('callsite_model.h')) + '#undef MGR\n#define MGR (&self->d->streamAckManager)\n'
               + 'bool OC_handleStanza(QXmppOutgoingClient *self, qdom stanza);\n'
               + 'static inline bool cs_fallback_handleStanza(QXmppOutgoingClient *c, qdom e) { cs_consumer(); return OC_handleStanza(c, e); }\n'
               + t_ochs + '\n' + t_oche)
    parsers = ['QXmppIq_parse', 'QXmppPresence_parse', 'QXmppMessage_parse']
    for pid, cname, decls, args, sp, repl, note in (
            ('QXmppIq_isXmppStanza', 'QXmppIq_isXmppStanza', 'QXmppIq *q;', 'q', sp_iq, [], ''),
            ('OutgoingClient_handleStanza', 'OC_handleStanza', 'QXmppOutgoingClient *c; qdom e;', 'c, e', sp_hs, [M + 'send'] + parsers,
             'StreamAckManager::send through its verified contract'),
            ('OutgoingClient_handleElement', 'OC_handleElement', 'QXmppOutgoingClient *c; qdom e;', 'c, e', sp_he,
             [M + 'handleStanza', M + 'send', 'OIM_handleStanza', 'QXmppStreamFeatures_parse', 'OC_handleStreamFeatures', 'OC_handleStreamError', 'StreamErrorElement_fromDom'] + parsers,
             'StreamAckManager::handleStanza and ::send through their verified contracts; real body of the fallback handleStanza and of isStreamFeatures inlined')):
        f = b.write(pid + '.c', assemble(cs_body, 'void h_%s(void) { %s %s(%s); }' % (pid, decls, cname, args)))
        typecheck(f)
        p = Proof(pid, f, 'h_' + pid, enforce=cname, include_dirs=[QT], kind='complete', loop_contracts=False, timeout=600, replace=repl, note=note)
        p.labels = {'post': {cname: sp.labels}}
        p.expect_post = len(sp.labels)
        proofs.append(p)

    # ---------------------------------------------------------------- inductive accounting lemma over the contracts only
    ops = [M + n for n in ('internalSend', 'handleStanza', 'setAcknowledgedSequenceNumber', 'enableStreamManagement', 'resetCache', 'onSessionClosed')]
    lem = b.subst(rd('lemma.h'))
    f = b.write('lemma.c', assemble('#define MGR self\n' + ''.join(b.prototype(T[o]) for o in ops + [M + 'ctor']), lem))
    typecheck(f)
    p = Proof('lemma_accounting_invariant', f, 'h_lemma', enforce=None, replace=ops, include_dirs=[QT], kind='complete', loop_contracts=False, timeout=600,
              note='one arbitrary operation from an arbitrary state satisfying the invariant; operations used through their contracts only')
    p.expect_post = lem.count('"[lemma.') - 1
    proofs.append(p)
    p = Proof('lemma_base_case', f, 'h_lemma_base', enforce=None, replace=[M + 'ctor'], include_dirs=[QT], kind='complete', loop_contracts=False, timeout=300,
              note='the freshly constructed manager (constructor through its contract) satisfies the invariant')
    p.expect_post = 1
    proofs.append(p)

    text_all = rd('lemma.h') + rd('types.h') + rd('model.h') + rd('c2s_model.h') + open(os.path.join(QT, 'opaque.h')).read()
    return {
        'proofs': proofs, 'functions': b.functions, 'dropped': b.dropped, 'fired': b.fired, 'hooks': [],
        'assumed': [
            'A-QMAP (units/C09/model.h) QMap<unsigned, QXmppPacket> = interval of keys [first, first+n) + witness view: begin/end/++/key/*/-> walk the keys in ascending order; erase(begin()) removes the smallest key and yields the new begin(); insert(k, v) into an empty map or with k = largest key + 1 appends; copy construction copies; clear() empties. Any other insert sets `broken`, which falsifies the PROVED representation invariant (violation, not assumption); erase elsewhere than begin() is a model limit (exit 2)',
            'witness idiom: all ghost observations are kept for one arbitrary packet identity g_o >= 1; a packet\'s bytes are named after its promise (PKT_WF, naming convention of the ghost model)',
            'QXmppPromise<SendResult>::finish(result) is the delivery report of the packet that carries the promise, task() is the task of that promise (event recorder; QXmppPromise itself is C13)',
            'XmppSocket::sendData(bytes) hands the bytes to the socket: appended to the wire log; the write may succeed or fail (nondeterministic result)',
            'serializeXml(SmAck{h}) is an <a h=h/>, serializeXml(SmRequest{}) an <r/>, serializeXml(SmResume{h, previd}) a <resume h previd/> (what the toXml members write is codec property C01)',
            'abstract DOM and opaque strings (qtmodel/opaque.h): tagName / namespaceURI / attribute are functions of the element; QString::toUInt is a function of the string',
            'QXmppOutgoingClient::streamAckManager() / xmppSocket() / iqManager() are getters of the members d->streamAckManager / d->socket / d->iqManager; C2sStreamManager::setResumeAddress touches only the resume host and port (contract not verified here)',
            'call sites (units/C09/callsite_model.h): OutgoingIqManager::handleStanza (C07), the elementReceived signal = QXmppClient extension chain (C08), QXmppStreamFeatures::parse, handleStreamFeatures, handleStreamError, StreamErrorElement::fromDom, QXmppIq/QXmppPresence/QXmppMessage::parse are unconstrained callees that do not touch the ack manager and write no stanza past it; socket()->isEncrypted() and configuration().streamSecurityMode() are pure getters; QXmppPacket(nonza, {}) carries serializeXml(nonza), nonza.isXmppStanza() (static class of a by-value object; QXmppIq::isXmppStanza is lowered and checked) and a NEW promise; serializeXml(<stanza object>) written to the socket directly is classified as a stanza past the ack manager by its C++ class (QXmppIq, QXmppMessage, QXmppPresence)',
            'stated preconditions: on send with stream management on, lastOutgoingSequenceNumber < 2^32-1 (QXmpp does not implement the XEP-0198 wrap-around of the outgoing counter); a packet object is handed to send() once (it is neither stored nor reported); fewer than 2^62 socket writes per history (ghost counter range)',
            'lemma harness: the __CPROVER_assume statements are the induction hypothesis (an arbitrary state satisfying the invariant) and the environment\'s choice of operation and argument',
        ],
        'assumes': scan_assumes(text_all),
        'not_covered': [
            'wrap-around of the outgoing sequence counter at 2^32 (precondition above; the inbound counter wraps as XEP-0198 prescribes and is covered)',
            'C2sStreamManager::handleElement / onSasl2Success / onBind2Bound (the dispatch that decides WHEN onResumed / onEnabled run), requestEnable, onStreamFeatures, setResumeAddress; that C2sStreamManager::m_enabled and StreamAckManager::m_enabled stay equal',
            'other writers / consumers in QXmppOutgoingClient.cpp and QXmppClient.cpp that are NOT under contract here: handlePacketReceived (dispatch to the current listener: while a negotiation listener is installed received elements do not reach handleElement), sendIq (OutgoingIqManager, :1181) / PingManager (:1136) / QXmppClient::sendPacket, send, sendSensitive, reply (QXmppClient.cpp:504-576) which all call StreamAckManager::send or sendPacketCompat; direct socket writes of nonzas (StreamOpen :642, StarttlsRequest :892, SmResume :1416, SmEnable :1426, CSI :1553) and of pre-session IQ stanzas written directly BEFORE stream management can be enabled (BindManager::bindAddress :949, NonSaslAuthManager :1011/:1035); stanzas the extension chain sends from inside elementReceived; when resetCache / onSessionClosed are called on connection loss (C10)',
            'byte content of what is written: the wire log records WHICH packet\'s data() is handed to the socket and the h of <a/>/<resume/>; XML serialisation is C01, delivery of the report to the application\'s continuation is C13',
            'sendPacketCompat callers relying on its bool result; handlePacketSent (declared, never defined)',
        ],
        'explanation': 'Call sites: QXmppOutgoingClient::handleElement and ::handleStanza are lowered and enter the ack manager through the verified contracts of StreamAckManager::handleStanza and ::send: every received element is handed to the ack manager exactly once and before anything else can consume it (so every message/presence/iq is counted), and the automatic error reply goes out through StreamAckManager::send, never through the socket directly. Every member of StreamAckManager, the four QXmppPacket members, SmAck::fromDom, SmRequest::fromDom and six members of C2sStreamManager are lowered from the working tree on every run. Loops (erase loop of setAcknowledgedSequenceNumber, both resend loops of enableStreamManagement, report loop of resetCache) are closed by loop contracts for maps of any size. The history part of the property follows from the inductive lemma over the contracts.',
    }


# ---------------------------------------------------------------------- native replay (real library, real StreamAckManager)
_search = {}


def _native(args, timeout=900):
    from vlib import native
    return native.run_driver(os.path.join(HERE, 'replay_sm.cpp'), args=args, timeout=timeout)


def find_input(unit, p, o, lab, work):
    """a failed obligation is the verdict; as a help for the report, look for a concrete failing history by running every
    history of up to 4 operations over a small alphabet on the REAL StreamAckManager built from the tree under check"""
    if os.environ.get('VERIF_C09_NO_NATIVE'):
        return {'inputs': None, 'reproduced': False, 'native_search': 'disabled by VERIF_C09_NO_NATIVE'}
    depth = int(os.environ.get('VERIF_C09_SEARCH_DEPTH', '4'))
    if depth not in _search:
        _search[depth] = _native(['search', str(depth)])
    rc, out = _search[depth]
    line = next((l for l in out.splitlines() if l.startswith('VIOLATED ')), None)
    if rc == 1 and line:
        history = line[len('VIOLATED '):].split(' : ')[0].split()
        return {'inputs': {'history': history}, 'reproduced': True, 'native_output': line,
                'native_search': 'exhaustive over histories of <= %d operations on the real library' % depth}
    return {'inputs': None, 'reproduced': False, 'native_search': (out.strip().splitlines() or ['no output'])[-1]}


def native_replay(rp):
    rc, out = _native(['run'] + list(rp['inputs']['history']))
    return (rc == 1 and 'VIOLATED' in out), out
