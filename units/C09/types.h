/* units/C09/types.h -- value types of the C09 unit (stream-management accounting), before the generated records
 *
 * Identities.  A QXmppPromise<SendResult> is modelled by the identity of its shared state (promise_id); copies of a
 * packet share it, which is exactly what QXmppPromise does.  One arbitrary identity g_o >= 1 is the WITNESS packet
 * (DESIGN 5.2): all ghost observations are kept for that packet only; since g_o is arbitrary they hold for every packet.
 * Identity 0 stands for "some packet other than the witness".
 *
 * Bytes.  A QByteArray handed to the socket is described by what it is: the serialisation of packet <id>, an <r/>, or
 * an <a h=../>.  A packet's m_data carries the identity of its own promise (naming convention, see PKT_WF). */
#ifndef C09_TYPES_H
#define C09_TYPES_H
#include <limits.h>
typedef unsigned promise_id;     /* QXmppPromise<QXmpp::SendResult> */
typedef unsigned task_id;        /* QXmppTask<QXmpp::SendResult>: the promise it observes */
typedef int send_result;         /* QXmpp::SendResult = std::variant<SendSuccess, QXmppError> */
typedef int SendSuccess;         /* QXmpp::SendSuccess { bool acknowledged } -> RK_ACKED / RK_SENT */
typedef int QXmppError;          /* QXmppError { description, error } -> RK_ERROR (text and error enum not represented) */
enum { RK_NONE = 0, RK_ACKED = 1 /* SendSuccess{true} */, RK_SENT = 2 /* SendSuccess{false} */, RK_ERROR = 3 /* QXmppError */ };
typedef struct WireBytes { int kind; unsigned id; unsigned h; } WireBytes;
enum { WB_NONE = 0, WB_PACKET = 1 /* data() of packet <id> */, WB_REQ = 2 /* <r xmlns=urn:xmpp:sm:3/> */, WB_ACK = 3 /* <a h=<h>/> */,
       WB_RESUME = 4 /* <resume h=<h> previd=<id (a string id)>/> */,
       WB_RAW_STANZA = 5 /* serializeXml(<object of a stanza class>) that is not the data() of a packet given to the ack manager */ };
typedef unsigned vpromise_id;    /* QXmppPromise<void> of a pending resume/enable request (C07/C13 are about it) */
typedef unsigned vtask_id;       /* QXmppTask<void> */
typedef int sm_request;          /* std::variant<NoRequest, ResumeRequest, EnableRequest> m_request: its index */
typedef int ResumeRequest;
enum { SMREQ_NONE = 0, SMREQ_RESUME = 1, SMREQ_ENABLE = 2 };
typedef struct OutgoingIqManager { int opaque; } OutgoingIqManager;
typedef struct QXmppStreamFeatures { int opaque; } QXmppStreamFeatures;
typedef struct StreamErrorElement { int opaque; } StreamErrorElement;
typedef struct StreamErrVariant { int index; StreamErrorElement alt0; } StreamErrVariant;
typedef struct StanzaError { int type; int cond; } StanzaError;
typedef struct QXmppIq { int type; int id; int to; bool has_err; StanzaError err; } QXmppIq;      /* id / to are opaque string ids */
typedef struct QXmppPresence { int opaque; } QXmppPresence;
typedef struct QXmppMessage { int opaque; } QXmppMessage;
typedef struct XmppSocket { char unused; } XmppSocket;
typedef struct SmRequest { char unused; } SmRequest;
typedef struct SendTuple { bool f0; task_id f1; } SendTuple;    /* std::tuple<bool, QXmppTask<SendResult>> */

/* QMap<unsigned, QXmppPacket>: INTERVAL of keys + WITNESS view (DESIGN 5.5).
 * Stored keys are [first, first+n).  The witness packet g_o is stored iff w_in, then under key w_key; every other stored
 * value is "a packet that is not the witness".  `broken` records that an operation left the representation the model can
 * describe (insert of a key that is neither the successor of the largest key nor into an empty map; the same packet
 * stored twice): the representation invariant MAP_WF is then false, and it is a PROVED postcondition of every operation
 * of StreamAckManager, not an assumption. */
typedef struct QMapUP { unsigned first; unsigned n; bool w_in; unsigned w_key; bool w_stanza; bool broken; } QMapUP;
typedef struct QMapUP_it { const QMapUP *m; unsigned i; } QMapUP_it;     /* position i in [0, n]; key = first + i */
#endif
