/* units/C09/lemma.h -- inductive accounting lemma over the CONTRACTS of the StreamAckManager operations (DESIGN 1, 6/C09).
 *
 * Every operation below is replaced by its contract (each contract is enforced on the real body by its own proof), so this
 * harness uses no repository code.  It shows: if Inv holds and any one operation runs (any argument), Inv holds again and
 * the step facts of the property hold.  By induction over the length of the history that gives, for every finite history
 * of sends, inbound elements, server acks (stale, exact, beyond), resumptions, re-enables, cache resets and session ends:
 *   - no delivery report fires twice; a stored stanza is unreported; every stanza handed to send() is stored or reported once
 *   - a report says "acknowledged" only if a handled-count >= its number was processed while it was stored
 *   - a reported (covered or failed) stanza is never written to the socket again; a re-enable resends exactly the stored ones
 *   - the handled-count equals the number of message/presence/iq elements received on the session (mod 2^32), and that
 *     is the h of every <a/> answer
 * The assumptions in this file are the induction hypothesis and the environment's choices, nothing about QXmpp. */
#undef MGR
#define MGR s
bool gl_sent_w;        /* the witness packet has been handed to send() at some point */
bool gl_cov_w;         /* a handled-count >= its number was processed while the witness was stored */
unsigned gl_rx;        /* message/presence/iq elements received since the session's counters were reset (mod 2^32) */
#define INV_LEMMA(s) (INV_SM(s) && INV_ACC(s) && (gl_sent_w ? (MAP(s).w_in || gh_reports_w == 1) : (!MAP(s).w_in && gh_reports_w == 0)) && \
                      (!(gh_reports_w == 1 && gh_report_kind_w == RK_ACKED) || gl_cov_w) && (s)->m_lastIncomingSequenceNumber == gl_rx)

void h_lemma(void)
{
  StreamAckManager mgr; StreamAckManager *s = &mgr;
  /* an arbitrary state satisfying the invariant (induction hypothesis) */
  g_o = nondet_uint(); gh_reports_w = nondet_int(); gh_report_kind_w = nondet_int();
  gh_wire_n = nondet_ulong(); gh_wire_cnt_w = nondet_ulong(); gh_wire_pos_w = nondet_ulong();
  gh_req_n = nondet_ulong(); gh_req_pos = nondet_ulong(); gh_ack_n = nondet_ulong(); gh_ack_pos = nondet_ulong(); gh_ack_h = nondet_uint();
  gl_sent_w = nondet_bool(); gl_cov_w = nondet_bool(); gl_rx = nondet_uint();
  __CPROVER_assume(GHOST_OK && INV_LEMMA(s));
  /* pre-state snapshot */
  bool o_in = MAP(s).w_in; unsigned o_key = MAP(s).w_key; int o_rep = gh_reports_w; unsigned long long o_cnt = gh_wire_cnt_w;
  bool o_enabled = s->m_enabled;
  int op = nondet_int();
  if (op == 0) {
    /* send any packet; a given packet is handed to send() once; XEP-0198 counter wrap-around is not implemented (stated) */
    QXmppPacket pkt; SendTuple ret;
    __CPROVER_assume(PKT_WF(&pkt));
    __CPROVER_assume(!(s->m_enabled && pkt.m_isXmppStanza) || s->m_lastOutgoingSequenceNumber < UINT_MAX);
    if (pkt.m_promise == g_o) { __CPROVER_assume(!gl_sent_w); gl_sent_w = true; }
    StreamAckManager_internalSend(s, &ret, &pkt);
  } else if (op == 1) {
    /* any inbound element: stanza, nonza, <r/>, <a h=any/> */
    qdom el = nondet_int();
    bool is_ack = EL_IS_ACK(el), is_req = EL_IS_REQ(el); unsigned h = EL_H(el);
    if (is_ack && o_enabled && o_in && o_key <= h) gl_cov_w = true;
    gl_rx += EL_IS_STANZA(el) ? 1u : 0u;
    unsigned long long o_ack_n = gh_ack_n;
    StreamAckManager_handleStanza(s, el);
    __CPROVER_assert(!(is_req && o_enabled) || (gh_ack_n == o_ack_n + 1 && gh_ack_h == gl_rx), "[lemma.answer_to_ack_request_carries_the_number_of_stanzas_received]");
  } else if (op == 2) {
    /* resumption accepted with any h (C2sStreamManager::onResumed, first half) */
    unsigned h = nondet_uint();
    if (o_in && o_key <= h) gl_cov_w = true;
    StreamAckManager_setAcknowledgedSequenceNumber(s, h);
  } else if (op == 3) {
    /* stream management enabled on a resumed (false) or a new (true) session */
    bool reset = nondet_bool();
    if (reset) gl_rx = 0;
    StreamAckManager_enableStreamManagement(s, reset);
    __CPROVER_assert(gh_wire_cnt_w == o_cnt + (o_in ? 1 : 0), "[lemma.reenable_resends_exactly_the_stored_stanzas_once]");
  } else if (op == 4) {
    StreamAckManager_resetCache(s);
  } else {
    StreamAckManager_onSessionClosed(s);
  }
  __CPROVER_assert(INV_SM(s), "[lemma.representation_invariant_preserved]");
  __CPROVER_assert(gh_reports_w <= 1, "[lemma.no_report_fires_twice]");
  __CPROVER_assert(!MAP(s).w_in || gh_reports_w == 0, "[lemma.stored_stanza_is_unreported]");
  __CPROVER_assert(gl_sent_w ? (MAP(s).w_in || gh_reports_w == 1) : (!MAP(s).w_in && gh_reports_w == 0), "[lemma.every_sent_stanza_is_stored_or_reported_exactly_once]");
  __CPROVER_assert(!(gh_reports_w == 1 && gh_report_kind_w == RK_ACKED) || gl_cov_w, "[lemma.acknowledged_only_if_a_handled_count_covered_it]");
  __CPROVER_assert(!(o_rep == 1) || gh_wire_cnt_w == o_cnt, "[lemma.reported_stanza_is_never_written_again]");
  __CPROVER_assert(s->m_lastIncomingSequenceNumber == gl_rx, "[lemma.handled_count_equals_number_of_stanzas_received]");
}

/* base case: a freshly constructed manager, nothing sent, nothing received, nothing reported */
void h_lemma_base(void)
{
  StreamAckManager mgr; StreamAckManager *s = &mgr;
  g_o = nondet_uint(); __CPROVER_assume(g_o >= 1);
  gh_reports_w = 0; gh_report_kind_w = RK_NONE; gl_sent_w = false; gl_cov_w = false; gl_rx = 0;
  gh_wire_n = 0; gh_wire_cnt_w = 0; gh_wire_pos_w = 0; gh_req_n = 0; gh_req_pos = 0; gh_ack_n = 0; gh_ack_pos = 0; gh_ack_h = 0;   /* nothing written yet */
  StreamAckManager_ctor(s);
  __CPROVER_assert(GHOST_OK && INV_LEMMA(s), "[lemma.initial_state_satisfies_the_invariant]");
}
