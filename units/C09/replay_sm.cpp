// C09 native replay: run a history of stream-management operations on the REAL QXmpp::Private::StreamAckManager (real
// XmppSocket without a connection; what it hands to the socket is captured through the logger exactly as TestClient does)
// and evaluate the C09 property on what can be observed from outside: the delivery report of every send task and the
// order and content of the bytes handed to the socket.
//
// usage: replay_sm run <op> <op> ...        one history
//        replay_sm search <depth>           every history over a small alphabet up to <depth> operations
// ops:   S<id>  send stanza <message id='id'/>      N<id>  send nonza <foo id='id'/>
//        A<h>   inbound <a xmlns='urn:xmpp:sm:3' h='h'/>     R  inbound <r xmlns='urn:xmpp:sm:3'/>
//        M / P / I  inbound message / presence / iq          X  inbound nonza <x xmlns='urn:example'/>
//        E0 / E1    enableStreamManagement(false / true)     H<h>  resumption accepted: setAcknowledgedSequenceNumber(h); enableStreamManagement(false)
//        C  resetCache()     D  onSessionClosed()
// The expectation is an independent reference written from the property statement (numbers = position among the stanzas
// sent with stream management on; renumbered 1..n on a new session), not from the code.
// output: "OK <history>" or "VIOLATED <history> : <what>"; exit 0 / 1 (2 = usage).
#include "QXmppLogger.h"
#include "QXmppPacket_p.h"
#include "QXmppStreamManagement_p.h"
#include "XmppSocket.h"

#include <QCoreApplication>
#include <QDomDocument>
#include <QStringList>
#include <cstdio>
#include <map>
#include <vector>

using namespace QXmpp::Private;

struct Report {
    int count = 0;
    bool acked = false;
    bool error = false;
};

struct World {
    QXmppLogger logger;
    XmppSocket socket { nullptr };
    StreamAckManager mgr { socket };
    QObject ctx;
    QStringList wire;
    std::map<int, Report> reports;

    // reference state of the property
    bool enabled = false;
    std::vector<std::pair<unsigned, int>> stored;   // (number, packet id) in send order
    unsigned lastOut = 0;
    unsigned rx = 0;
    std::map<int, int> expectedReports;             // id -> number of reports that must have fired
    std::map<int, bool> expectedAcked;
    QString fail;

    World()
    {
        logger.setLoggingType(QXmppLogger::SignalLogging);
        QObject::connect(&socket, &QXmppLoggable::logMessage, &logger, &QXmppLogger::log);
        QObject::connect(&logger, &QXmppLogger::message, &ctx, [this](QXmppLogger::MessageType type, const QString &text) {
            if (type == QXmppLogger::SentMessage) {
                wire << text;
            }
        });
    }

    static QString stanzaXml(int id) { return QStringLiteral("<message id='%1'/>").arg(id); }
    static QString nonzaXml(int id) { return QStringLiteral("<foo id='%1'/>").arg(id); }
    void bad(const QString &what)
    {
        if (fail.isEmpty()) {
            fail = what;
        }
    }
    void expectWire(const QStringList &expected, const QString &op)
    {
        if (wire != expected) {
            bad(QStringLiteral("%1: handed to the socket [%2], expected [%3]").arg(op, wire.join(QStringLiteral(" | ")), expected.join(QStringLiteral(" | "))));
        }
        wire.clear();
    }
    static bool isReq(const QString &xml) { return xml.startsWith(QStringLiteral("<r ")) || xml.startsWith(QStringLiteral("<r/")); }
    void checkReports(const QString &op)
    {
        QCoreApplication::processEvents();
        for (const auto &[id, want] : expectedReports) {
            const Report got = reports[id];
            if (got.count != want) {
                bad(QStringLiteral("%1: packet %2 reported %3 times, expected %4").arg(op).arg(id).arg(got.count).arg(want));
            } else if (want == 1 && got.acked != expectedAcked[id]) {
                bad(QStringLiteral("%1: packet %2 reported acknowledged=%3, expected %4").arg(op).arg(id).arg(got.acked).arg(expectedAcked[id]));
            }
        }
    }
    void send(int id, bool stanza)
    {
        const QString xml = stanza ? stanzaXml(id) : nonzaXml(id);
        QXmppPacket packet(xml.toUtf8(), stanza, QXmppPromise<QXmpp::SendResult>());
        auto task = mgr.send(std::move(packet));
        task.then(&ctx, [this, id](QXmpp::SendResult &&r) {
            Report &rep = reports[id];
            rep.count++;
            if (auto *ok = std::get_if<QXmpp::SendSuccess>(&r)) {
                rep.acked = ok->acknowledged;
            } else {
                rep.error = true;
            }
        });
        QStringList w { xml };
        if (enabled && stanza) {
            stored.push_back({ ++lastOut, id });
            expectedReports[id] = 0;
            w << QStringLiteral("<r xmlns=\"urn:xmpp:sm:3\"/>");
        } else {
            expectedReports[id] = 1;
            expectedAcked[id] = false;
        }
        expectWire(w, QStringLiteral("send %1").arg(id));
    }
    void ack(unsigned h, const QString &op)
    {
        while (!stored.empty() && stored.front().first <= h) {
            expectedReports[stored.front().second] = 1;
            expectedAcked[stored.front().second] = true;
            stored.erase(stored.begin());
        }
    }
    void inbound(const QString &xml, const QString &op)
    {
        QDomDocument doc;
        doc.setContent(xml, true);
        mgr.handleStanza(doc.documentElement());
    }
    void enable(bool reset, const QString &op)
    {
        mgr.enableStreamManagement(reset);
        enabled = true;
        QStringList w;
        for (const auto &[num, id] : stored) {
            w << stanzaXml(id);
        }
        if (!stored.empty()) {
            w << QStringLiteral("<r xmlns=\"urn:xmpp:sm:3\"/>");
        }
        if (reset) {
            unsigned n = 0;
            for (auto &e : stored) {
                e.first = ++n;
            }
            lastOut = n;
            rx = 0;
        }
        expectWire(w, op);
    }
    bool step(const QString &op)
    {
        const QChar c = op.at(0);
        const unsigned arg = op.mid(1).toUInt();
        if (c == u'S' || c == u'N') {
            send(int(arg), c == u'S');
        } else if (c == u'A') {
            inbound(QStringLiteral("<a xmlns='urn:xmpp:sm:3' h='%1'/>").arg(arg), op);
            if (enabled) {
                ack(arg, op);
            }
            expectWire({}, op);
        } else if (c == u'R') {
            inbound(QStringLiteral("<r xmlns='urn:xmpp:sm:3'/>"), op);
            expectWire(enabled ? QStringList { QStringLiteral("<a xmlns=\"urn:xmpp:sm:3\" h=\"%1\"/>").arg(rx) } : QStringList {}, op);
        } else if (c == u'M' || c == u'P' || c == u'I') {
            inbound(c == u'M' ? QStringLiteral("<message xmlns='jabber:client'/>") : c == u'P' ? QStringLiteral("<presence xmlns='jabber:client'/>") : QStringLiteral("<iq xmlns='jabber:client' type='get' id='1'/>"), op);
            rx++;
            expectWire({}, op);
        } else if (c == u'X') {
            inbound(QStringLiteral("<x xmlns='urn:example'/>"), op);
            expectWire({}, op);
        } else if (c == u'E') {
            enable(arg != 0, op);
        } else if (c == u'H') {
            mgr.setAcknowledgedSequenceNumber(arg);
            ack(arg, op);
            enable(false, op);
        } else if (c == u'C') {
            mgr.resetCache();
            for (const auto &[num, id] : stored) {
                expectedReports[id] = 1;
                expectedAcked[id] = false;
            }
            stored.clear();
            expectWire({}, op);
        } else if (c == u'D') {
            mgr.onSessionClosed();
            enabled = false;
            expectWire({}, op);
        } else {
            return false;
        }
        checkReports(op);
        return true;
    }
};

static int runHistory(const QStringList &ops, bool quietOk)
{
    World w;
    for (const auto &op : ops) {
        if (!w.step(op)) {
            fprintf(stderr, "unknown operation %s\n", qPrintable(op));
            return 2;
        }
        if (!w.fail.isEmpty()) {
            break;
        }
    }
    if (!w.fail.isEmpty()) {
        printf("VIOLATED %s : %s\n", qPrintable(ops.join(u' ')), qPrintable(w.fail));
        return 1;
    }
    if (!quietOk) {
        printf("OK %s\n", qPrintable(ops.join(u' ')));
    }
    return 0;
}

static long searched = 0;
static bool search(QStringList &prefix, int depth, int nextId)
{
    if (!prefix.isEmpty()) {
        searched++;
        if (runHistory(prefix, true) == 1) {
            return true;
        }
    }
    if (depth == 0) {
        return false;
    }
    QStringList alphabet { QStringLiteral("S%1").arg(nextId), QStringLiteral("N%1").arg(nextId), QStringLiteral("A0"), QStringLiteral("A1"), QStringLiteral("A2"), QStringLiteral("A9"),
                           QStringLiteral("R"), QStringLiteral("M"), QStringLiteral("X"), QStringLiteral("E0"), QStringLiteral("E1"), QStringLiteral("H1"), QStringLiteral("C"), QStringLiteral("D") };
    for (const auto &op : alphabet) {
        prefix << op;
        const bool found = search(prefix, depth - 1, nextId + ((op.at(0) == u'S' || op.at(0) == u'N') ? 1 : 0));
        prefix.removeLast();
        if (found) {
            return true;
        }
    }
    return false;
}

int main(int argc, char **argv)
{
    QCoreApplication app(argc, argv);
    if (argc >= 3 && QString::fromUtf8(argv[1]) == QStringLiteral("run")) {
        QStringList ops;
        for (int i = 2; i < argc; i++) {
            ops << QString::fromUtf8(argv[i]);
        }
        return runHistory(ops, false);
    }
    if (argc == 3 && QString::fromUtf8(argv[1]) == QStringLiteral("search")) {
        QStringList prefix;
        const bool found = search(prefix, QString::fromUtf8(argv[2]).toInt(), 1);
        if (!found) {
            printf("NONE %ld histories up to depth %s satisfy the property\n", searched, argv[2]);
        }
        return found ? 1 : 0;
    }
    fprintf(stderr, "usage: %s run <op>... | search <depth>\n", argv[0]);
    return 2;
}
