/* units/C09/c2s_model.h -- C2sStreamManager's surroundings (after the generated records SmResume, SmEnabled, C2sStreamManager) */
/* serializeXml(SmResume{h, previd}): what SmResume::toXml writes is the codec property C01 */
static inline void serializeXml_SmResume(WireBytes *r, const SmResume *a) { r->kind = WB_RESUME; r->id = (unsigned)a->previd; r->h = a->h; }
/* C2sStreamManager::setResumeAddress(location): parses host:port (not part of C09); touches the resume address only */
bool C2sStreamManager_setResumeAddress(C2sStreamManager *self, qstr address)
__CPROVER_assigns(self->m_resumeHost, self->m_resumePort)
;
