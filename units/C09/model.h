/* units/C09/model.h -- ghost state, Qt container model (assumed), observation points (assumed)
 * comes after the generated records QXmppPacket / SmAck / StreamAckManager (field names are the repository's). */

/* ---------------------------------------------------------------- ghost state (DESIGN 5.1, 5.2) */
unsigned g_o;                        /* witness packet identity, >= 1, arbitrary */
int gh_reports_w;                    /* how many times the promise of packet g_o was finished */
send_result gh_report_kind_w;        /* what the last report said (RK_*) */
unsigned long long gh_wire_n;        /* number of byte arrays handed to the socket so far (length of the wire log) */
unsigned long long gh_wire_cnt_w;    /* how many of them were the bytes of packet g_o */
unsigned long long gh_wire_pos_w;    /* 1-based index in the wire log of the last transmission of packet g_o */
unsigned long long gh_req_n, gh_req_pos;              /* <r/> elements written, index of the last one */
unsigned long long gh_ack_n, gh_ack_pos; unsigned gh_ack_h;   /* <a h=../> elements written, index and h of the last one */
unsigned long long gh_resume_n, gh_resume_pos; unsigned gh_resume_h; qstr gh_resume_previd;   /* <resume h=.. previd=../> elements written */
vpromise_id gh_request_promise; ResumeRequest gh_request_alt;     /* the pending request's promise (not part of C09) */
unsigned long long gh_raw_stanza_writes;   /* stanzas handed to the socket directly, i.e. past the ack manager (neither numbered nor stored) */
#define WIRE_MAX (1ull << 62)

/* ---------------------------------------------------------------- representation invariant of C09 */
#define MAP(s) ((s)->m_unacknowledgedStanzas)
/* keys are one contiguous ascending range that starts at >= 1 and does not wrap; the witness lies inside it */
#define MAP_WF(m) (!(m).broken && ((m).n == 0 || ((m).first >= 1 && (m).n - 1 <= UINT_MAX - (m).first)) && \
                   (!(m).w_in || ((m).n > 0 && (m).w_key >= (m).first && (m).w_key - (m).first < (m).n)))
/* ... and its largest key is the last outgoing sequence number: keys = (lastOut - n, lastOut] */
#define INV_SM(s) (MAP_WF(MAP(s)) && (MAP(s).n == 0 || MAP(s).first + (MAP(s).n - 1) == (s)->m_lastOutgoingSequenceNumber))
/* a packet value names its bytes after its promise */
#define PKT_WF(p) ((p)->m_data.kind == WB_PACKET && (p)->m_data.id == (p)->m_promise)
/* accounting invariant (witness form): no report fires twice, and a stored packet has not been reported */
#define INV_ACC(s) (0 <= gh_reports_w && gh_reports_w <= 1 && (!MAP(s).w_in || gh_reports_w == 0))
#define GHOST_OK (g_o >= 1 && INV_ACC(MGR) && gh_wire_n <= WIRE_MAX && gh_wire_cnt_w <= gh_wire_n && gh_req_n <= gh_wire_n && gh_ack_n <= gh_wire_n)

/* ---------------------------------------------------------------- A-QMAP: QMap<unsigned, QXmppPacket> (Qt; assumed) */
static inline void QMapUP_ctor(QMapUP *m) { m->first = 0; m->n = 0; m->w_in = false; m->w_key = 0; m->w_stanza = false; m->broken = false; }
static inline bool QMapUP_isEmpty(const QMapUP *m) { MODEL_LIMIT(!m->broken, "QMap outside the interval representation"); return m->n == 0; }
static inline void QMapUP_clear(QMapUP *m) { m->first = 0; m->n = 0; m->w_in = false; m->broken = false; }
static inline void QMapUP_begin(QMapUP_it *r, QMapUP *m) { MODEL_LIMIT(!m->broken, "QMap outside the interval representation"); r->m = m; r->i = 0; }
static inline void QMapUP_end(QMapUP_it *r, QMapUP *m) { MODEL_LIMIT(!m->broken, "QMap outside the interval representation"); r->m = m; r->i = m->n; }
static inline bool QMapUP_it_ne(const QMapUP_it *a, const QMapUP_it *b) { MODEL_LIMIT(a->m == b->m, "comparison of iterators of different maps"); return a->i != b->i; }
static inline void QMapUP_it_inc(QMapUP_it *a) { __CPROVER_assert(a->i < a->m->n, "[safety.iterator_not_advanced_past_end] ++ on end()"); a->i++; }
static inline unsigned QMapUP_it_key(const QMapUP_it *a) { __CPROVER_assert(a->i < a->m->n, "[safety.iterator_dereferenced_in_range] key() on end()"); return a->m->first + a->i; }
/* value the iterator points at: the witness packet if it is stored under this key, otherwise some other packet */
static inline void QMapUP_it_value(QXmppPacket *out, const QMapUP_it *a)
{
  __CPROVER_assert(a->i < a->m->n, "[safety.iterator_dereferenced_in_range] * or -> on end()");
  if (a->m->w_in && a->m->w_key == a->m->first + a->i) { out->m_promise = g_o; out->m_data.kind = WB_PACKET; out->m_data.id = g_o; out->m_data.h = 0; out->m_isXmppStanza = a->m->w_stanza; }
  else { out->m_promise = 0; out->m_data.kind = WB_PACKET; out->m_data.id = 0; out->m_data.h = 0; out->m_isXmppStanza = nondet_bool(); }
}
static inline void QMapUP_it_assign(QMapUP_it *d, const QMapUP_it *s) { *d = *s; }
/* erase(pos): represented at begin() only (anything else: model limit) */
static inline void QMapUP_erase(QMapUP_it *r, QMapUP *m, const QMapUP_it *pos)
{
  MODEL_LIMIT(!m->broken, "QMap outside the interval representation");
  __CPROVER_assert(pos->m == m && pos->i < m->n, "[safety.erase_of_valid_iterator] erase(end()) or foreign iterator");
  MODEL_LIMIT(pos->i == 0, "QMap::erase elsewhere than at begin()");
  if (m->w_in && m->w_key == m->first) m->w_in = false;
  m->first++; m->n--;
  r->m = m; r->i = 0;
}
/* insert(key, value): into the empty map, or the successor of the largest key; anything else breaks the representation
   invariant (checked by the callers' postconditions), it is not silently accepted */
static inline void QMapUP_insert(QMapUP *m, unsigned key, const QXmppPacket *v)
{
  MODEL_LIMIT(!m->broken, "QMap outside the interval representation");
  MODEL_LIMIT(PKT_WF(v), "packet bytes not named after the packet");
  if (m->n == 0) { m->first = key; m->n = 1; }
  else if (m->n - 1 < UINT_MAX - m->first && key == m->first + m->n) { m->n++; }
  else { m->broken = true; }
  if (v->m_promise == g_o) { if (m->w_in) m->broken = true; m->w_in = true; m->w_key = key; m->w_stanza = v->m_isXmppStanza; }
}

/* ---------------------------------------------------------------- observation points (assumed event semantics) */
/* QXmppPromise<SendResult>::finish(result): the delivery report of that promise's packet (C13 is about finish itself) */
static inline void QXmppPromise_finish(promise_id p, send_result r) { if (p == g_o) { gh_reports_w++; gh_report_kind_w = r; } }
static inline task_id QXmppPromise_task(promise_id p) { return p; }
/* XmppSocket::sendData(bytes): the bytes are handed to the socket (appended to the wire log); the write may fail */
static inline bool XmppSocket_sendData(XmppSocket *s, const WireBytes *b)
{
  gh_wire_n++;
  if (b->kind == WB_PACKET && b->id == g_o) { gh_wire_cnt_w++; gh_wire_pos_w = gh_wire_n; }
  else if (b->kind == WB_REQ) { gh_req_n++; gh_req_pos = gh_wire_n; }
  else if (b->kind == WB_ACK) { gh_ack_n++; gh_ack_pos = gh_wire_n; gh_ack_h = b->h; }
  else if (b->kind == WB_RAW_STANZA) { gh_raw_stanza_writes++; }
  else if (b->kind == WB_RESUME) { gh_resume_n++; gh_resume_pos = gh_wire_n; gh_resume_h = b->h; gh_resume_previd = (qstr)b->id; }
  return nondet_bool();
}
/* serializeXml(SmAck{h}) / serializeXml(SmRequest{}): what SmAck::toXml / SmRequest::toXml write is the codec property C01 */
static inline void serializeXml_SmAck(WireBytes *r, const SmAck *a) { r->kind = WB_ACK; r->id = 0; r->h = a->seqNo; }
static inline void serializeXml_SmRequest(WireBytes *r, const SmRequest *a) { r->kind = WB_REQ; r->id = 0; r->h = 0; }
/* A-QT-NUM: QString::toUInt is a function of the string (uninterpreted) */
unsigned __CPROVER_uninterpreted_c09_toUInt(qstr s);
static inline unsigned c09_qstr_toUInt(qstr s) { return __CPROVER_uninterpreted_c09_toUInt(s); }
