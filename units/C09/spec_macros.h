/* shorthands used by the C09 contracts: pre-state (function contracts) and loop-entry (loop contracts) values.
   MGR is the StreamAckManager the clause talks about: `self` in its own members, `(&self->q->d->streamAckManager)` in C2sStreamManager,
   `(&self->d->streamAckManager)` in QXmppOutgoingClient
   (redefined in front of each function; macros expand where the clause stands) */
#define O_W_IN     __CPROVER_old(MGR->m_unacknowledgedStanzas.w_in)
#define O_W_KEY    __CPROVER_old(MGR->m_unacknowledgedStanzas.w_key)
#define O_W_STANZA __CPROVER_old(MGR->m_unacknowledgedStanzas.w_stanza)
#define O_N        __CPROVER_old(MGR->m_unacknowledgedStanzas.n)
#define O_FIRST    __CPROVER_old(MGR->m_unacknowledgedStanzas.first)
#define O_LASTOUT  __CPROVER_old(MGR->m_lastOutgoingSequenceNumber)
#define O_LASTIN   __CPROVER_old(MGR->m_lastIncomingSequenceNumber)
#define O_ENABLED  __CPROVER_old(MGR->m_enabled)
#define O_REPORTS  __CPROVER_old(gh_reports_w)
#define O_KIND     __CPROVER_old(gh_report_kind_w)
#define O_WIRE_N   __CPROVER_old(gh_wire_n)
#define O_WIRE_CNT __CPROVER_old(gh_wire_cnt_w)
#define O_WIRE_POS __CPROVER_old(gh_wire_pos_w)
#define O_REQ_N    __CPROVER_old(gh_req_n)
#define O_REQ_POS  __CPROVER_old(gh_req_pos)
#define O_ACK_N    __CPROVER_old(gh_ack_n)
#define O_ACK_POS  __CPROVER_old(gh_ack_pos)
#define O_ACK_H    __CPROVER_old(gh_ack_h)
#define LE_W_IN    __CPROVER_loop_entry(MGR->m_unacknowledgedStanzas.w_in)
#define LE_W_KEY   __CPROVER_loop_entry(MGR->m_unacknowledgedStanzas.w_key)
#define LE_W_STANZA __CPROVER_loop_entry(MGR->m_unacknowledgedStanzas.w_stanza)
#define LE_N       __CPROVER_loop_entry(MGR->m_unacknowledgedStanzas.n)
#define LE_FIRST   __CPROVER_loop_entry(MGR->m_unacknowledgedStanzas.first)
#define LE_REPORTS __CPROVER_loop_entry(gh_reports_w)
#define LE_KIND    __CPROVER_loop_entry(gh_report_kind_w)
#define LE_WIRE_N  __CPROVER_loop_entry(gh_wire_n)
#define LE_WIRE_CNT __CPROVER_loop_entry(gh_wire_cnt_w)
#define LE_WIRE_POS __CPROVER_loop_entry(gh_wire_pos_w)

/* booleans are compared by truth value, never with == (a havocked _Bool byte may be any non-zero value) */
#define BEQ(a, b) ((a) ? (b) : !(b))
/* --- the acknowledgement clauses of the property, for a handled-count h (used by setAcknowledgedSequenceNumber,
       handleAcknowledgement and handleStanza) */
#define REPORTS_UNCHANGED (gh_reports_w == O_REPORTS && gh_report_kind_w == O_KIND)
#define WITNESS_VIEW_UNCHANGED (BEQ(MAP(MGR).w_in, O_W_IN) && (O_W_IN ==> (MAP(MGR).w_key == O_W_KEY && BEQ(MAP(MGR).w_stanza, O_W_STANZA))))
#define MAP_UNCHANGED (!MAP(MGR).broken && MAP(MGR).n == O_N && (O_N == 0 || MAP(MGR).first == O_FIRST) && WITNESS_VIEW_UNCHANGED)
/* a stored packet whose number is <= h: reported exactly once, as acknowledged, and no longer stored */
#define ACK_COVERED(h)  ((O_W_IN && O_W_KEY <= (h)) ==> (!MAP(MGR).w_in && gh_reports_w == O_REPORTS + 1 && gh_report_kind_w == RK_ACKED))
/* a stored packet whose number is > h: still stored under the same number, not reported */
#define ACK_BEYOND(h)   ((O_W_IN && O_W_KEY > (h)) ==> (MAP(MGR).w_in && MAP(MGR).w_key == O_W_KEY && BEQ(MAP(MGR).w_stanza, O_W_STANZA) && REPORTS_UNCHANGED))
/* a packet that is not stored: nothing is reported for it */
#define ACK_ABSENT      (!O_W_IN ==> (!MAP(MGR).w_in && REPORTS_UNCHANGED))
/* the stored key range afterwards is exactly the old one without the keys <= h */
#define ACK_RANGE(h)    ((O_N == 0 || (h) < O_FIRST) ? (MAP(MGR).n == O_N && (O_N == 0 || MAP(MGR).first == O_FIRST)) : \
                         ((h) - O_FIRST >= O_N - 1 ? MAP(MGR).n == 0 : (MAP(MGR).n == O_N - ((h) - O_FIRST + 1) && MAP(MGR).first == (h) + 1)))
#define WIRE_UNCHANGED (gh_wire_n == O_WIRE_N && gh_wire_cnt_w == O_WIRE_CNT && gh_wire_pos_w == O_WIRE_POS && gh_req_n == O_REQ_N && gh_req_pos == O_REQ_POS && gh_ack_n == O_ACK_N && gh_ack_pos == O_ACK_POS && gh_ack_h == O_ACK_H)
/* --- inbound elements (abstract DOM, opaque strings) */
#define EL_IS_ACK(e) (qdom_tagName(e) == S("a") && qdom_namespaceURI(e) == S("urn:xmpp:sm:3"))
#define EL_IS_REQ(e) (qdom_tagName(e) == S("r") && qdom_namespaceURI(e) == S("urn:xmpp:sm:3"))
#define EL_IS_STANZA(e) (qdom_tagName(e) == S("message") || qdom_tagName(e) == S("presence") || qdom_tagName(e) == S("iq"))
#define EL_H(e) c09_qstr_toUInt(qdom_attribute(e, S("h")))
#define STORE_CASE (self->m_enabled && packet->m_isXmppStanza)
