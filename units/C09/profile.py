"""C09: lowering profile for StreamAckManager / QXmppPacket (interval+witness model of QMap<uint, QXmppPacket>,
promise identities, wire log; opaque strings and abstract DOM for handleStanza and the two fromDom parsers)."""
import re
from vlib.cxx2c import Lowerer, Unsupported, strip_amp, line_of, qt
from vlib.opaque_profile import opaque_profile

SR = 'std::variant<QXmpp::SendSuccess,QXmppError>'
TYPES = {
    'QMap<unsigned int,QXmppPacket>': 'QMapUP',
    'QMap<unsigned int,QXmppPacket>::iterator': 'QMapUP_it',
    'QMap<unsigned int,QXmppPacket>::const_iterator': 'QMapUP_it',
    'QXmppPacket': 'QXmppPacket',
    'QXmppPromise<QXmpp::SendResult>': 'promise_id', 'QXmppPromise<SendResult>': 'promise_id', 'QXmppPromise<%s>' % SR: 'promise_id',
    'QXmppTask<QXmpp::SendResult>': 'task_id', 'QXmppTask<SendResult>': 'task_id', 'QXmppTask<%s>' % SR: 'task_id',
    'QXmpp::SendResult': 'send_result', 'SendResult': 'send_result', SR: 'send_result',
    'QXmpp::SendSuccess': 'SendSuccess', 'SendSuccess': 'SendSuccess', 'QXmppError': 'QXmppError',
    'QByteArray': 'WireBytes',
    'QXmpp::Private::XmppSocket': 'XmppSocket', 'XmppSocket': 'XmppSocket',
    'QXmpp::Private::SmAck': 'SmAck', 'SmAck': 'SmAck',
    'QXmpp::Private::SmRequest': 'SmRequest', 'SmRequest': 'SmRequest',
    'std::optional<SmAck>': 'OptSmAck', 'std::optional<QXmpp::Private::SmAck>': 'OptSmAck',
    'std::optional<SmRequest>': 'OptSmRequest', 'std::optional<QXmpp::Private::SmRequest>': 'OptSmRequest',
    'std::tuple<bool,QXmppTask<SendResult>>': 'SendTuple', 'std::tuple<bool,QXmppTask<QXmpp::SendResult>>': 'SendTuple',
    'std::tuple<bool,QXmppTask<%s>>' % SR: 'SendTuple',
    'QXmpp::Private::StreamAckManager': 'StreamAckManager', 'StreamAckManager': 'StreamAckManager',
    'QXmppOutgoingClient': 'QXmppOutgoingClient',
    'QXmpp::Private::C2sStreamManager': 'C2sStreamManager', 'C2sStreamManager': 'C2sStreamManager',
    'QXmpp::Private::SmResumed': 'SmResumed', 'SmResumed': 'SmResumed',
    'QXmpp::Private::SmResume': 'SmResume', 'SmResume': 'SmResume',
    'QXmpp::Private::SmEnabled': 'SmEnabled', 'SmEnabled': 'SmEnabled',
    'std::optional<SmResume>': 'OptSmResume', 'std::optional<QXmpp::Private::SmResume>': 'OptSmResume',
    'Sasl2::Authenticate': 'Sasl2Authenticate', 'QXmpp::Private::Sasl2::Authenticate': 'Sasl2Authenticate',
    'Sasl2::StreamFeature': 'Sasl2StreamFeature', 'QXmpp::Private::Sasl2::StreamFeature': 'Sasl2StreamFeature',
    'std::variant<NoRequest,ResumeRequest,EnableRequest>': 'sm_request',
    'std::variant<QXmpp::Private::C2sStreamManager::NoRequest,QXmpp::Private::C2sStreamManager::ResumeRequest,QXmpp::Private::C2sStreamManager::EnableRequest>': 'sm_request',
    'QXmpp::Private::C2sStreamManager::ResumeRequest': 'ResumeRequest', 'ResumeRequest': 'ResumeRequest',
    'QXmppPromise<void>': 'vpromise_id', 'QXmppTask<void>': 'vtask_id',
    # call sites in QXmppOutgoingClient (handleElement, handleStanza)
    'std::unique_ptr<QXmppOutgoingClientPrivate>': 'QXmppOutgoingClientPrivate*',
    'QXmpp::Private::OutgoingIqManager': 'OutgoingIqManager', 'OutgoingIqManager': 'OutgoingIqManager',
    'QXmpp::Private::HandleElementResult': 'int', 'HandleElementResult': 'int',
    'QXmppStreamFeatures': 'QXmppStreamFeatures',
    'std::variant<StreamErrorElement,QXmppError>': 'StreamErrVariant', 'std::variant<QXmpp::Private::StreamErrorElement,QXmppError>': 'StreamErrVariant',
    'QXmpp::Private::StreamErrorElement': 'StreamErrorElement', 'StreamErrorElement': 'StreamErrorElement',
    'typename remove_reference<StreamErrorElement>::type': 'StreamErrorElement',
    'add_pointer_t<QXmpp::Private::StreamErrorElement>': 'StreamErrorElement*', 'add_pointer_t<StreamErrorElement>': 'StreamErrorElement*',
    'QXmppIq': 'QXmppIq', 'QXmppPresence': 'QXmppPresence', 'QXmppMessage': 'QXmppMessage',
    'QXmppStanza::Error': 'StanzaError', 'QXmppIq::Type': 'int', 'QXmppStanza::Error::Type': 'int', 'QXmppStanza::Error::Condition': 'int',
}
# C++ classes whose objects are XMPP stanzas (isXmppStanza() overridden to true: QXmppIq.cpp, QXmppMessage.cpp, QXmppPresence.cpp;
# the QXmppIq override is lowered and checked by the unit).  Everything else serialised with serializeXml(T) is a nonza.
STANZA_CLASSES = {'QXmppIq': 'QXmppIq_isXmppStanza', 'QXmppMessage': None, 'QXmppPresence': None}
NONZA_CLASSES = {'SmAck', 'SmRequest', 'SmResume'}
CLASS_TYPES = {'QMapUP', 'QMapUP_it', 'QXmppPacket', 'WireBytes', 'XmppSocket', 'SmAck', 'SmRequest', 'OptSmAck', 'OptSmRequest',
               'SendTuple', 'StreamAckManager', 'QXmppOutgoingClient', 'C2sStreamManager', 'SmResumed',
               'SmResume', 'SmEnabled', 'OptSmResume', 'Sasl2Authenticate', 'Sasl2StreamFeature',
               'QXmppOutgoingClientPrivate', 'OutgoingIqManager', 'QXmppStreamFeatures', 'StreamErrVariant', 'StreamErrorElement',
               'QXmppIq', 'QXmppPresence', 'QXmppMessage', 'StanzaError'}


def member_ret(cname, ctype):
    """member function of a repository class that returns a class by value: the lowered signature is f(self, _ret, args...)"""
    def rule(lw, node, args):
        lw.repo_callees.add(cname)
        t = lw.newtmp()
        lw.pre.append('%s %s; %s(%s, &%s%s);' % (ctype, t, cname, args[0], t, ''.join(', ' + a for a in args[1:])))
        return t
    return rule


def report_finished(lw, node, args):
    """packet.reportFinished(SendResult &&): the rvalue argument is materialised and passed by address"""
    lw.repo_callees.add('QXmppPacket_reportFinished')
    t = lw.newtmp()
    lw.pre.append('send_result %s = %s;' % (t, args[1]))
    return 'QXmppPacket_reportFinished(%s, &%s)' % (args[0], t)


def it_deref(lw, node, args):
    t = lw.newtmp()
    lw.pre.append('QXmppPacket %s; QMapUP_it_value(&%s, %s);' % (t, t, args[0]))
    return t


def it_arrow(lw, node, args):
    return '(&%s)' % it_deref(lw, node, args)


def from_dom(lw, node, args):
    """static SmAck::fromDom / SmRequest::fromDom, told apart by the (resolved) return type"""
    t = lw.ntype(lw.skip(node))
    cname = {'OptSmAck': 'SmAck_fromDom', 'OptSmRequest': 'SmRequest_fromDom', 'StreamErrVariant': 'StreamErrorElement_fromDom'}.get(t)
    if cname is None:
        raise Unsupported('fromDom returning %s' % t)
    lw.repo_callees.add(cname)
    tmp = lw.newtmp()
    lw.pre.append('%s %s; %s(&%s, %s);' % (t, tmp, cname, tmp, args[0]))
    return tmp


def serialize_xml(lw, node, args):
    a = lw.skip(node['inner'][1])
    t = lw.ntype(a)
    fn = {'SmAck': 'serializeXml_SmAck', 'SmRequest': 'serializeXml_SmRequest', 'SmResume': 'serializeXml_SmResume'}.get(t)
    if fn is None and t in STANZA_CLASSES:
        # serializeXml(<stanza object>): bytes of a stanza that is NOT the data() of a packet the ack manager was given
        fn = 'serializeXml_rawStanza'
        lw.fire('serializeXml<stanza class %s>' % t)
    if fn is None:
        raise Unsupported('serializeXml of %s' % t)
    tmp = lw.newtmp()
    lw.pre.append('WireBytes %s; %s(&%s, %s);' % (tmp, fn, tmp, args[0]))
    return tmp


def packet_from_nonza(lw, n, target):
    """QXmppPacket(const QXmppNonza &, QXmppPromise = {}): data = serializeXml(nonza), isXmppStanza = nonza.isXmppStanza()
    (virtual; decided here by the STATIC class of a by-value object, anything else is refused), promise = a new one"""
    a = lw.skip(n['inner'][0])
    t = lw.ntype(a)
    if a.get('kind') != 'DeclRefExpr' or t not in STANZA_CLASSES or qt(a).strip().endswith('&'):
        raise Unsupported('QXmppPacket built from %s %s' % (a.get('kind'), qt(a)))
    isfn = STANZA_CLASSES[t]
    if isfn is None:
        raise Unsupported('QXmppPacket built from a %s (isXmppStanza of that class is not lowered by this unit)' % t)
    lw.repo_callees.add(isfn)
    dst = target
    if not dst:
        dst = lw.newtmp()
        lw.pre.append('QXmppPacket %s;' % dst)
    lw.pre.append('QXmppPacket_fromNonza(&%s, %s(%s));' % (dst, isfn, lw.addr(a)))
    return dst


def std_move(lw, node, args):
    """std::move(x) is x (the shared ('arg', 0) rule would yield the ADDRESS of a by-reference scalar)"""
    return lw.expr(node['inner'][1])


def tuple_get(lw, node, args):
    if lw.tkey(lw.skip(node['inner'][1])) == 'sm_request':
        # std::get<ResumeRequest>(m_request): the alternative itself (its only member, the request's promise, is a ghost id)
        return 'gh_request_alt'
    m = re.search(r'__tuple_element_t<(\d+)', qt(lw.skip(node['inner'][0])) + ' ' + qt(node))
    if not m:
        raise Unsupported('std::get without a readable index')
    return '%s.f%s' % (strip_amp(args[0]), m.group(1))


def init_aggregate(ctype):
    """T{a, b}: aggregate initialisation of a generated record, positional like the original"""
    def rule(lw, n):
        es = [lw.expr(c) for c in n.get('inner', [])]
        t = lw.newtmp()
        lw.pre.append('%s %s = { %s };' % (ctype, t, ', '.join(es) if es else '0'))
        return t
    return rule


def init_send_success(lw, n):
    (a,) = n['inner']
    return '(%s ? RK_ACKED : RK_SENT)' % lw.expr(a)


def init_error(lw, n):
    """QXmppError{description, error}: only the fact that the report is an error is represented"""
    for c in n.get('inner', []):
        if not lw.pure(c):
            raise Unsupported('QXmppError initialiser with side effects')
    lw.dropped.append({'call': 'QXmppError{description, error} -> RK_ERROR (text and error value not represented)', 'line': line_of(n)})
    return 'RK_ERROR'


def opt_some(lw, n, target):
    """std::optional<T>(T&&)"""
    a = lw.arg(n['inner'][0])
    dst = target
    if not dst:
        dst = lw.newtmp()
        lw.pre.append('%s %s;' % (lw.ntype(n), dst))
    lw.pre.append('%s.has = true; %s.v = %s;' % (dst, dst, strip_amp(a)))
    return dst


def opt_some_empty(lw, n, target):
    """std::optional<SmRequest>(SmRequest&&): the payload has no members"""
    a = lw.arg(n['inner'][0])
    dst = target
    if not dst:
        dst = lw.newtmp()
        lw.pre.append('%s %s;' % (lw.ntype(n), dst))
    lw.pre.append('%s.has = true;' % dst)
    return dst


def rangefor_desugared(lw, n, rinit, lv, body, ind):
    """range-for over the map model: clang's own desugaring (__range, __begin, __end; __begin != __end; ++__begin;
    auto &x = *__begin) is lowered statement by statement"""
    init, rng, beg, end, cond, inc, lvd, body = n['inner']
    lw.stmt(rng, ind)
    lw.stmt(beg, ind)
    lw.stmt(end, ind)
    lw.loop(None, cond, inc, {'kind': 'CompoundStmt', 'inner': [lvd, body]}, ind)


class C09Lowerer(Lowerer):
    """Q_ASSERT(cond) is compiled to static_cast<void>(false && (cond)) in the verified configuration: cond is never
    evaluated; it is dropped (and listed) provided it is side-effect free"""

    def cast(self, n):
        if n.get('castKind') == 'ToVoid':
            sub = self.skip(n['inner'][0])
            if sub.get('kind') == 'BinaryOperator' and sub.get('opcode') == '&&':
                left = self.skip(sub['inner'][0])
                if left.get('kind') == 'CXXBoolLiteralExpr' and not left.get('value') and self.pure(sub['inner'][1]):
                    self.fire('Q_ASSERT:compiled-out')
                    self.dropped.append({'call': 'Q_ASSERT(cond) = static_cast<void>(false && (cond))', 'line': line_of(n)})
                    return '((void)0)'
        return super().cast(n)


def profile():
    return opaque_profile(
        pure_fns={'holds_alternative', 'socket', 'configuration', 'streamSecurityMode', 'isEncrypted'},
        field_rules={'ResumeRequest::p': 'gh_request_promise'},
        types=TYPES,
        class_types=CLASS_TYPES,
        calls={
            # QMap<unsigned, QXmppPacket> (qt container; interval + witness model)
            'QMapUP::begin/0': ('fnret', 'QMapUP_begin'),
            'QMapUP::end/0': ('fnret', 'QMapUP_end'),
            'QMapUP::erase/1': ('fnret', 'QMapUP_erase'),
            'QMapUP::insert/2': ('fn', 'QMapUP_insert'),
            'QMapUP::isEmpty/0': ('fn', 'QMapUP_isEmpty'),
            'QMapUP::clear/0': ('fn', 'QMapUP_clear'),
            'QMapUP_it::key/0': ('fn', 'QMapUP_it_key'),
            'op!=:QMapUP_it:QMapUP_it': ('fn', 'QMapUP_it_ne'),
            'op=:QMapUP_it:QMapUP_it': ('fn', 'QMapUP_it_assign'),
            'op++:QMapUP_it': ('fn', 'QMapUP_it_inc'),
            'op->:QMapUP_it': it_arrow,
            'op*:QMapUP_it': it_deref,
            'rangefor:QMapUP': rangefor_desugared,
            # QXmppPacket (repository functions, lowered from QXmppPacket.cpp)
            'QXmppPacket::data/0': member_ret('QXmppPacket_data', 'WireBytes'),
            'QXmppPacket::isXmppStanza/0': ('callee', 'QXmppPacket_isXmppStanza'),
            'QXmppPacket::task/0': ('callee', 'QXmppPacket_task'),
            'QXmppPacket::reportFinished/1': report_finished,
            'promise_id::finish/1': ('fn', 'QXmppPromise_finish'),
            'promise_id::task/0': ('fn', 'QXmppPromise_task'),
            # results
            'expr:InitListExpr:SendSuccess': init_send_success,
            'expr:InitListExpr:QXmppError': init_error,
            'ctor:send_result(SendSuccess)': ('expr', '{0}'),
            'ctor:send_result(QXmppError)': ('expr', '{0}'),
            'ctor:SendTuple(bool,task_id)': ('init', '{{ {0}, {1} }}'),
            'fn:get/1': tuple_get,
            'fn:move/1': std_move,
            # StreamAckManager (repository functions)
            'StreamAckManager::internalSend/1': member_ret('StreamAckManager_internalSend', 'SendTuple'),
            'StreamAckManager::sendAcknowledgementRequest/0': ('callee', 'StreamAckManager_sendAcknowledgementRequest'),
            'StreamAckManager::sendAcknowledgement/0': ('callee', 'StreamAckManager_sendAcknowledgement'),
            'StreamAckManager::setAcknowledgedSequenceNumber/1': ('callee', 'StreamAckManager_setAcknowledgedSequenceNumber'),
            'StreamAckManager::handleAcknowledgement/1': ('callee', 'StreamAckManager_handleAcknowledgement'),
            'StreamAckManager::enableStreamManagement/1': ('callee', 'StreamAckManager_enableStreamManagement'),
            # C2sStreamManager: q->streamAckManager() is the getter of the client's one StreamAckManager
            'QXmppOutgoingClient::streamAckManager/0': ('expr', '{0}->d->streamAckManager'),
            'QXmppOutgoingClient::xmppSocket/0': ('expr', '{0}->d->socket'),
            'StreamAckManager::lastIncomingSequenceNumber/0': ('callee', 'StreamAckManager_lastIncomingSequenceNumber'),
            'C2sStreamManager::setResumeAddress/1': ('callee', 'C2sStreamManager_setResumeAddress'),
            'expr:InitListExpr:SmResume': init_aggregate('SmResume'),
            'op=:OptSmResume:SmResume': ('expr', '{v0}.has = true, {v0}.v = {v1}'),
            'op=:sm_request:ResumeRequest': ('expr', '{v0} = SMREQ_RESUME'),
            'vpromise_id::task/0': ('expr', '(vtask_id){0}'),
            # ---- call sites in QXmppOutgoingClient::handleElement / handleStanza (units/C09/callsite_model.h)
            'op->:QXmppOutgoingClientPrivate*': ('arg', 0),
            'QXmppOutgoingClient::iqManager/0': ('expr', '{0}->d->iqManager'),
            'StreamAckManager::handleStanza/1': ('expr', 'cs_sam_handleStanza({0}, {1})'),
            'StreamAckManager::send/1': ('expr', 'cs_sam_send({0}, {1})'),
            'OutgoingIqManager::handleStanza/1': ('expr', 'cs_oim_handleStanza({0}, {1})'),
            'QXmppOutgoingClient::handleStanza/1': ('expr', 'cs_fallback_handleStanza({0}, {1})'),
            'QXmppOutgoingClient::elementReceived/2': ('expr', 'cs_elementReceived({1}, &{2})'),
            'QXmppOutgoingClient::handleStreamFeatures/1': ('expr', 'cs_handleStreamFeatures({0}, {1})'),
            'QXmppOutgoingClient::handleStreamError/1': ('expr', 'cs_handleStreamError({0}, {1})'),
            'QSslSocket::isEncrypted/0': ('const', 'gh_link_encrypted'),
            '*::streamSecurityMode/0': ('const', 'gh_cfg_security_mode'),
            'fn:isStreamFeatures/1': ('callee', 'QXmppStreamFeatures_isStreamFeatures'),
            'ctor:QXmppStreamFeatures()': ('zero',),
            'QXmppStreamFeatures::parse/1': ('callee', 'QXmppStreamFeatures_parse'),
            'fn:get_if/1': ('fn', 'StreamErrVariant_getIf0'),
            'ctor:QXmppIq()': ('fn', 'QXmppIq_ctor0'),
            'ctor:QXmppIq(int)': ('fn', 'QXmppIq_ctor'),
            'ctor:QXmppPresence()': ('zero',),
            'ctor:QXmppMessage()': ('zero',),
            'ctor:StanzaError(int,int)': ('fn', 'StanzaError_ctor2'),
            'QXmppIq::setId/1': ('fn', 'QXmppIq_setId'),
            'QXmppIq::setTo/1': ('fn', 'QXmppIq_setTo'),
            'QXmppIq::setError/1': ('fn', 'QXmppIq_setError'),
            'QXmppIq::parse/1': ('callee', 'QXmppIq_parse'),
            'QXmppPresence::parse/1': ('callee', 'QXmppPresence_parse'),
            'QXmppMessage::parse/1': ('callee', 'QXmppMessage_parse'),
            'ctor:QXmppPacket(QXmppIq)': packet_from_nonza,
            '*::iqReceived/1': ('expr', 'cs_signal()'),
            '*::presenceReceived/1': ('expr', 'cs_signal()'),
            '*::messageReceived/1': ('expr', 'cs_signal()'),
            # socket and nonzas
            'XmppSocket::sendData/1': ('fn', 'XmppSocket_sendData'),
            'fn:serializeXml/1': serialize_xml,
            'expr:InitListExpr:SmAck': init_aggregate('SmAck'),
            'expr:InitListExpr:SmRequest': init_aggregate('SmRequest'),
            'fn:fromDom/1': from_dom,
            'OptSmAck::operator bool/0': ('expr', '{v0}.has'),
            'OptSmRequest::operator bool/0': ('expr', '{v0}.has'),
            'op*:OptSmAck': ('expr', '{v0}.v'),
            'ctor:OptSmAck()': ('zero',),
            'ctor:OptSmRequest()': ('zero',),
            'ctor:SmRequest()': ('zero',),
            'ctor:OptSmAck(SmAck)': opt_some,
            'ctor:OptSmRequest(SmRequest)': opt_some_empty,
            'qstr::toUInt/0': ('fn', 'c09_qstr_toUInt'),
        },
    )
