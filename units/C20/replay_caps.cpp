// C20 native replay driver.  Builds concrete service-discovery info sets, serialises them with the REAL
// QXmppDiscoveryIq::toXml of the library built from the working tree (this is what a peer receives in answer to a
// disco#info query), computes the XEP-0115 section 5.1 verification string from that XML with an INDEPENDENT
// implementation written here from the XEP text (no QXmpp code), and compares its SHA-1 with the REAL
// QXmppDiscoveryIq::verificationString() of the same object (this is what the client advertises in <c ver=.../>).
//
//   replay_caps all        run every scenario; print each mismatch; exit 1 if any scenario is violated
//   replay_caps regress    run the scenarios outside the input classes of the recorded findings (they hold on a correct tree)
//   replay_caps <name>     run one scenario: exit 1 if advertised hash != XEP hash of the answered info set
#include "QXmppDataForm.h"
#include "QXmppDiscoveryIq.h"

#include <QBuffer>
#include <QCryptographicHash>
#include <QDomDocument>
#include <QXmlStreamWriter>
#include <algorithm>
#include <cstdio>

// ---- XEP-0115 5.1, from the XEP text, over the XML of the disco#info answer.  Sorting is "i;octet" = by UTF-8 bytes.
static bool octetLess(const QString &a, const QString &b) { return a.toUtf8() < b.toUtf8(); }

static QByteArray xepHash(const QDomElement &query, QString *Sout)
{
    QString S;
    struct Id { QString c, t, l, n; };
    QList<Id> ids;
    QStringList feats;
    for (auto e = query.firstChildElement(); !e.isNull(); e = e.nextSiblingElement()) {
        if (e.tagName() == QLatin1String("identity")) {
            ids << Id { e.attribute("category"), e.attribute("type"), e.attributeNS("http://www.w3.org/XML/1998/namespace", "lang"), e.attribute("name") };
        } else if (e.tagName() == QLatin1String("feature")) {
            feats << e.attribute("var");
        }
    }
    // 2. sort the identities by category, then type, then xml:lang          3. category/type/lang/name<
    std::sort(ids.begin(), ids.end(), [](const Id &a, const Id &b) {
        if (a.c != b.c) return octetLess(a.c, b.c);
        if (a.t != b.t) return octetLess(a.t, b.t);
        if (a.l != b.l) return octetLess(a.l, b.l);
        return octetLess(a.n, b.n);
    });
    for (const auto &i : ids) S += i.c + '/' + i.t + '/' + i.l + '/' + i.n + '<';
    // 4. sort the features            5. feature<       (a repeated feature is one feature of the SET of supported features)
    std::sort(feats.begin(), feats.end(), octetLess);
    feats.erase(std::unique(feats.begin(), feats.end()), feats.end());
    for (const auto &f : feats) S += f + '<';
    // 6./7. extended information forms
    for (auto x = query.firstChildElement("x"); !x.isNull(); x = x.nextSiblingElement("x")) {
        QString formType;
        bool hasFormType = false;
        struct Fld { QString var; QStringList values; };
        QList<Fld> flds;
        for (auto f = x.firstChildElement("field"); !f.isNull(); f = f.nextSiblingElement("field")) {
            QStringList vs;
            for (auto v = f.firstChildElement("value"); !v.isNull(); v = v.nextSiblingElement("value")) vs << v.text();
            if (f.attribute("var") == QLatin1String("FORM_TYPE")) { hasFormType = true; formType = vs.value(0); }
            else flds << Fld { f.attribute("var"), vs };
        }
        if (!hasFormType) continue;                      // 5.4 (3.6): a form without FORM_TYPE is ignored
        S += formType + '<';
        std::sort(flds.begin(), flds.end(), [](const Fld &a, const Fld &b) { return octetLess(a.var, b.var); });
        for (auto &f : flds) {
            S += f.var + '<';
            std::sort(f.values.begin(), f.values.end(), octetLess);
            for (const auto &v : f.values) S += v + '<';
        }
    }
    if (Sout) *Sout = S;
    return QCryptographicHash::hash(S.toUtf8(), QCryptographicHash::Sha1);
}

static QXmppDataForm::Field fld(QXmppDataForm::Field::Type t, const QString &key, const QVariant &v)
{
    QXmppDataForm::Field f;
    f.setType(t);
    f.setKey(key);
    f.setValue(v);
    return f;
}

struct Scenario { const char *name; const char *what; QXmppDiscoveryIq iq; bool finding = false; };

static QXmppDiscoveryIq base(const QList<QXmppDataForm::Field> &extra)
{
    QXmppDiscoveryIq iq;
    iq.setType(QXmppIq::Result);
    iq.setQueryType(QXmppDiscoveryIq::InfoQuery);
    QXmppDiscoveryIq::Identity a; a.setCategory("client"); a.setType("pc"); a.setLanguage("en"); a.setName("Psi 0.11");
    QXmppDiscoveryIq::Identity b; b.setCategory("client"); b.setType("pc"); b.setLanguage("el"); b.setName(QString::fromUtf8("\xce\xa8 0.11"));
    iq.setIdentities({ a, b });
    iq.setFeatures({ "http://jabber.org/protocol/muc", "http://jabber.org/protocol/caps", "http://jabber.org/protocol/disco#items", "http://jabber.org/protocol/disco#info" });
    if (!extra.isEmpty()) {
        QXmppDataForm form;
        form.setType(QXmppDataForm::Result);
        QList<QXmppDataForm::Field> fs;
        fs << fld(QXmppDataForm::Field::HiddenField, "FORM_TYPE", QString("urn:xmpp:dataforms:softwareinfo"));
        fs << extra;
        form.setFields(fs);
        iq.setForm(form);
    }
    return iq;
}

int main(int argc, char **argv)
{
    using F = QXmppDataForm::Field;
    QList<Scenario> sc;
    sc.append({ "xep_5_3_complex", "XEP-0115 5.3 example (multi-valued ip_version, single-valued others)", base({ fld(F::ListMultiField, "ip_version", QStringList { "ipv6", "ipv4" }), fld(F::TextSingleField, "os", QString("Mac")), fld(F::TextSingleField, "os_version", QString("10.5.1")), fld(F::TextSingleField, "software", QString("Psi")), fld(F::TextSingleField, "software_version", QString("0.11")) }) });
    sc.append({ "no_form", "identities and features only", base({}) });
    sc.append({ "empty_single_value", "text-single field whose value is the empty string (serialised without <value/>)", base({ fld(F::TextSingleField, "os", QString("Mac")), fld(F::TextSingleField, "os_version", QString("")) }) });
    sc.append({ "empty_multi_value", "list-multi field with no values", base({ fld(F::ListMultiField, "ip_version", QStringList {}), fld(F::TextSingleField, "os", QString("Mac")) }) });
    sc.append({ "boolean_field", "boolean field (serialised as 1/0)", base({ fld(F::BooleanField, "muc#roominfo_x", true), fld(F::TextSingleField, "os", QString("Mac")) }) });
    sc.append({ "unset_value", "field whose value was never set (invalid QVariant)", base({ fld(F::TextSingleField, "os", QVariant()) }) });
    {
        auto iq = base({});
        auto f = iq.features(); f << "http://jabber.org/protocol/muc" << "http://jabber.org/protocol/caps";
        iq.setFeatures(f);
        sc.append({ "duplicate_features", "a feature listed twice", iq });
    }
    {
        auto iq = base({});
        iq.setFeatures({ QString::fromUtf8("urn:x:\xee\x80\x80"), QString::fromUtf8("urn:x:\xf0\x90\x80\x80") });   // U+E000 and U+10000
        sc.append({ "non_bmp_order", "features that UTF-16 code-unit order and i;octet order rank differently", iq });
    }
    {
        auto iq = base({ fld(F::TextSingleField, "os", QString("Mac")), fld(F::TextSingleField, "os", QString("Linux")) });
        sc.append({ "duplicate_field_var", "two fields with the same var", iq });
    }

    {   // the same info set as the XEP example, everything listed in another order, one feature twice
        auto iq = base({ fld(F::TextSingleField, "software_version", QString("0.11")), fld(F::TextSingleField, "software", QString("Psi")), fld(F::ListMultiField, "ip_version", QStringList { "ipv4", "ipv6" }), fld(F::TextSingleField, "os_version", QString("10.5.1")), fld(F::TextSingleField, "os", QString("Mac")) });
        auto ids = iq.identities(); std::reverse(ids.begin(), ids.end()); iq.setIdentities(ids);
        auto fs = iq.features(); std::reverse(fs.begin(), fs.end()); fs << fs.first(); iq.setFeatures(fs);
        sc.append({ "reordered_and_repeated", "XEP 5.3 example in another order, a feature twice (hash must still be q07IKJEyjvHSyhy//CH0CxmKi8w=)", iq });
    }
    {   // identities that differ only in one component each
        auto iq = base({});
        QList<QXmppDiscoveryIq::Identity> ids;
        const char *t[][4] = { { "client", "pc", "en", "B" }, { "client", "pc", "en", "A" }, { "client", "pc", "de", "Z" }, { "client", "bot", "en", "Z" }, { "account", "registered", "", "" }, { "client", "pc", "", "Z" } };
        for (auto &x : t) { QXmppDiscoveryIq::Identity i; i.setCategory(x[0]); i.setType(x[1]); i.setLanguage(x[2]); i.setName(x[3]); ids << i; }
        iq.setIdentities(ids);
        sc.append({ "identity_order", "identities that differ in exactly one of category / type / lang / name", iq });
    }
    for (auto &s : sc) {
        for (const char *f : { "empty_single_value", "empty_multi_value", "boolean_field", "unset_value", "non_bmp_order", "duplicate_field_var" }) {
            if (QLatin1String(s.name) == QLatin1String(f)) s.finding = true;
        }
    }

    const QString which = argc > 1 ? QString::fromLocal8Bit(argv[1]) : QString("all");
    int bad = 0, ran = 0;
    for (auto &s : sc) {
        if (which == "regress" ? s.finding : (which != "all" && which != s.name)) continue;
        ran++;
        QBuffer buf; buf.open(QIODevice::ReadWrite);
        QXmlStreamWriter w(&buf);
        s.iq.toXml(&w);
        QDomDocument doc; doc.setContent(buf.data(), true);
        QString S;
        const QByteArray want = xepHash(doc.documentElement().firstChildElement("query"), &S);
        const QByteArray got = s.iq.verificationString();
        // the same answer parsed back by the REAL parser (what a QXmpp peer computes for this answer)
        QXmppDiscoveryIq back; back.parse(doc.documentElement());
        const QByteArray peer = back.verificationString();
        const bool ok = got == want;
        std::printf("%-22s %s  advertised=%s  xep(answer)=%s  qxmpp-peer(answer)=%s\n   %s\n   S(xep) = %s\n", s.name, ok ? "HOLDS   " : "VIOLATED", got.toBase64().constData(), want.toBase64().constData(), peer.toBase64().constData(), s.what, S.toUtf8().constData());
        if (!ok) { bad++; std::printf("   answer = %s\n", buf.data().constData()); }
    }
    if (!ran) { std::printf("unknown scenario %s\n", argv[1]); return 2; }
    std::printf(bad ? "%d scenario(s) VIOLATED\n" : "ALL HOLD\n", bad);
    return bad ? 1 : 0;
}
