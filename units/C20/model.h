/* C20 -- unit-owned models: ASSUMED contracts of Qt / libstdc++ types used by the entity-capabilities code.
 *
 * Everything is a VALUE named by an int id; what is known about a value is only what the (uninterpreted) functions below say.
 * Uninterpreted functions satisfy congruence only (equal operands give equal results; nothing makes different operands give
 * equal results), so a proof of "output == the XEP's term" cannot be completed when the code sorts with another order, skips a
 * sort or the de-duplication, drops or swaps a component, hashes something else, ...
 *
 * A-STR-ORDER  QString::operator< is a strict total order on strings, operator>(a, b) is b < a.
 * A-STD-SORT   std::sort(begin, end[, cmp]) / QStringList::sort() replace the sequence by THE sorted permutation of its
 *              elements under the given strict (weak) order: a function of (sequence, order).  Lists of length <= 1 are unchanged.
 * A-DEDUP      QStringList::removeDuplicates() keeps the first occurrence of every element: a function of the sequence; the
 *              result is not longer than the argument and non-empty if the argument is.
 * A-JOIN       QStringList::join(sep) is e0 sep e1 sep ... e(n-1): a function of (sequence, sep); "" for the empty list, e0 for a one-element list.
 * A-QMAP       QMap<QString, Field>: insert / contains / take / value / keys are the finite-map operations (functions of the map value);
 *              keys() lists the keys in ascending order.
 * A-QVARIANT   QVariant conversions (Qt 5.15 qvariant.cpp): canConvert<QStringList>() holds for QString and QStringList values;
 *              toStringList() of a QString s is the one-element list [s] (also for s == ""), of a QStringList the list, else empty;
 *              toString() of a QString is the string, of a bool "true"/"false", of a one-element QStringList that element, else "".
 * A-SHA1/UTF8  QCryptographicHash(alg).addData(x).result() = H_alg(x); QString::toUtf8 = UTF-8 encoding: free constructors.
 * A-CONCAT     string concatenation: a value built from operands o1 .. ok is the left-nested term app(..app(app(o1,o2),o3)..,ok),
 *              empty operands dropped (s + "" = s).  Equal terms are equal strings (the converse is not assumed). */
#include "opaque.h"
typedef int ident;    /* a QXmppDiscoveryIq::Identity value */
typedef int qfield;   /* a QXmppDataForm::Field value */
typedef int qform;    /* a QXmppDataForm value */
typedef int qmap;     /* a QMap<QString, QXmppDataForm::Field> value; 0 = the empty map */
typedef int qvar;     /* a QVariant value */
typedef int qba;      /* a QByteArray value; 0 = empty */
#ifndef C20_BOUNDED
typedef struct QLst { int id; int n; } QLst;   /* a QList<T> value: n elements LAT(id, 0) .. LAT(id, n-1) */
#else
#define BL 4                                    /* bounded stand-in (bounded.h): a list is its (at most BL) elements */
typedef struct QLst { int n; int e[BL]; } QLst;
#endif

/* ---------------------------------------------------------------- strings */
#ifndef C20_BOUNDED
bool __CPROVER_uninterpreted_str_lt(qstr a, qstr b);
#define STR_LT(a, b) __CPROVER_uninterpreted_str_lt((a), (b))
#else
#define STR_LT(a, b) ((a) < (b))     /* bounded stand-in (bounded.h): one concrete strict total order on the string values */
#endif
/* A-STR-ORDER on the pair that is compared: asymmetric, irreflexive, total on distinct strings */
static inline bool qstr_lt(qstr a, qstr b)
{
  bool r = STR_LT(a, b), s = STR_LT(b, a);
  __CPROVER_assume(!(r && s));
  __CPROVER_assume(a == b ? (!r && !s) : (r || s));
  return r;
}
static inline bool qstr_gt(qstr a, qstr b) { return qstr_lt(b, a); }
/* QString::compare(other) (case sensitive): the sign of the same order (A-STR-ORDER), 0 exactly for equal strings */
static inline int qstr_compare(qstr a, qstr b) { return a == b ? 0 : (qstr_lt(a, b) ? -1 : 1); }

qstr __CPROVER_uninterpreted_str_app(qstr s, qstr a);
/* s ++ a (A-CONCAT) */
static inline qstr qs_app(qstr s, qstr a) { return a == 0 ? s : (s == 0 ? a : __CPROVER_uninterpreted_str_app(s, a)); }
/* the one-character strings the code appends */
static inline qstr qchar_str(quint16 c)
{
  MODEL_LIMIT(c == 60 || c == 47, "character literal other than '<' and '/'");
  return c == 60 ? S("<") : S("/");
}
/* QStringBuilder expression a + b + c ...: the sequence of its operands */
#define QSB_MAX 10
typedef struct QSB { int n; qstr a[QSB_MAX]; } QSB;
static inline void QSB_str_str(QSB *r, qstr a, qstr b) { QSB z = { 2, { a, b } }; *r = z; }
static inline void QSB_str_chr(QSB *r, qstr a, quint16 c) { QSB z = { 2, { a, qchar_str(c) } }; *r = z; }
static inline void QSB_sb_str(QSB *r, const QSB *x, qstr b)
{
  MODEL_LIMIT(x->n >= 0 && x->n < QSB_MAX, "QStringBuilder expression with more than QSB_MAX operands");
  *r = *x; r->a[x->n] = b; r->n = x->n + 1;
}
static inline void QSB_sb_chr(QSB *r, const QSB *x, quint16 c) { QSB_sb_str(r, x, qchar_str(c)); }
static inline void qstr_append(qstr *s, qstr a) { *s = qs_app(*s, a); }
static inline void qstr_append_chr(qstr *s, quint16 c) { *s = qs_app(*s, qchar_str(c)); }
#ifndef C20_BOUNDED
#define QSB_STEP(i) if (x->n > (i)) v = qs_app(v, x->a[i]);
static inline void qstr_append_sb(qstr *s, const QSB *x)
{
  qstr v = *s;
  QSB_STEP(0) QSB_STEP(1) QSB_STEP(2) QSB_STEP(3) QSB_STEP(4) QSB_STEP(5) QSB_STEP(6) QSB_STEP(7) QSB_STEP(8) QSB_STEP(9)
  *s = v;
}
#endif
qba __CPROVER_uninterpreted_utf8(qstr s);
static inline qba qstr_toUtf8(qstr s) { return s == 0 ? 0 : __CPROVER_uninterpreted_utf8(s); }

/* ---------------------------------------------------------------- identities: the four getters are functions of the value */
#ifndef C20_BOUNDED
qstr __CPROVER_uninterpreted_ident_category(ident e);
qstr __CPROVER_uninterpreted_ident_type(ident e);
qstr __CPROVER_uninterpreted_ident_language(ident e);
qstr __CPROVER_uninterpreted_ident_name(ident e);
#define ID_CAT(e) __CPROVER_uninterpreted_ident_category(e)
#define ID_TYPE(e) __CPROVER_uninterpreted_ident_type(e)
#define ID_LANG(e) __CPROVER_uninterpreted_ident_language(e)
#define ID_NAME(e) __CPROVER_uninterpreted_ident_name(e)
#else      /* bounded stand-in: an identity is an index into a table of NID concrete identities */
#define NID 8
typedef struct BIdent { qstr category, type, language, name; } BIdent;
BIdent gb_ident[NID];
#define ID_CAT(e) gb_ident[(e) & (NID - 1)].category
#define ID_TYPE(e) gb_ident[(e) & (NID - 1)].type
#define ID_LANG(e) gb_ident[(e) & (NID - 1)].language
#define ID_NAME(e) gb_ident[(e) & (NID - 1)].name
#endif
static inline qstr ident_category(ident e) { return ID_CAT(e); }
static inline qstr ident_type(ident e) { return ID_TYPE(e); }
static inline qstr ident_language(ident e) { return ID_LANG(e); }
static inline qstr ident_name(ident e) { return ID_NAME(e); }

/* ---------------------------------------------------------------- lists */
#define ORDER_STR_LT 1            /* QString::operator< : by UTF-16 code units */
#define CMP_identityLessThan 2    /* the file-static comparator of QXmppDiscoveryIq.cpp */
#define ORDER_OCTET 3             /* RFC 4790 i;octet: by the bytes of the UTF-8 encoding (what XEP-0115 prescribes) */
#define ORDER_OCTET_4TUPLE 4      /* identities: lexicographic on (category, type, lang, name), each compared by i;octet */
#ifndef C20_BOUNDED               /* (the bounded stand-in replaces lists, QVariant and QMap by the concrete models of bounded.h) */
int __CPROVER_uninterpreted_list_at(int l, int i);
int __CPROVER_uninterpreted_list_sorted(int l, int n, int order);
int __CPROVER_uninterpreted_list_dedup(int l, int n);
int __CPROVER_uninterpreted_list_dedup_n(int l, int n);
int __CPROVER_uninterpreted_list_single(int x);
qstr __CPROVER_uninterpreted_list_join(int l, int n, qstr sep);
#define LAT(l, i) __CPROVER_uninterpreted_list_at((l), (i))
/* the sorted permutation (A-STD-SORT), the duplicate-free list and its length (A-DEDUP), the join (A-JOIN): pure, also used by the specification */
static inline int l_sorted(int l, int n, int order) { return n <= 1 ? l : __CPROVER_uninterpreted_list_sorted(l, n, order); }
static inline int l_dedup(int l, int n) { return n <= 1 ? l : __CPROVER_uninterpreted_list_dedup(l, n); }
static inline int l_dedup_n(int l, int n) { return n <= 1 ? n : __CPROVER_uninterpreted_list_dedup_n(l, n); }
static inline qstr l_join(int l, int n, qstr sep) { return n <= 0 ? 0 : n == 1 ? LAT(l, 0) : __CPROVER_uninterpreted_list_join(l, n, sep); }
#define L_SINGLE(x) __CPROVER_uninterpreted_list_single(x)
/* the one-element list [x]: its element 0 is x */
static inline int l_single(int x) { int l = L_SINGLE(x); __CPROVER_assume(LAT(l, 0) == x); return l; }

static inline int qlst_size(const QLst *l) { return l->n; }
static inline int qlst_at(const QLst *l, int i)
{
  __CPROVER_assert(0 <= i && i < l->n, "[safety.list_index_in_range] QList element access within the list");
  return LAT(l->id, i);
}
/* A-UTF16-OCTET.  UTF-16 code-unit order and UTF-8 byte order agree on every pair of strings except when, at the first
   position where the two differ, one has a supplementary character (a surrogate pair, U+10000..) and the other a character in
   U+E000..U+FFFF.  The ghost flag says that no two strings of the info set form such a pair (discriminator of the recorded finding
   C20-utf16-collation); then sorting by QString's `<` -- and, for identities, by a comparator that is the lexicographic order
   of QString's `<` on the four components, which is what identityLessThan's contract says -- yields the i;octet-sorted list. */
bool gh_qstring_order_is_octet_order;
static inline void sort_orders_agree(int l, int n, int order)
{
  if (!gh_qstring_order_is_octet_order) return;
  if (order == ORDER_STR_LT) __CPROVER_assume(l_sorted(l, n, ORDER_STR_LT) == l_sorted(l, n, ORDER_OCTET));
  if (order == CMP_identityLessThan) __CPROVER_assume(l_sorted(l, n, CMP_identityLessThan) == l_sorted(l, n, ORDER_OCTET_4TUPLE));
}
static inline void std_sort3(QLst *b, QLst *e, int order)
{
  MODEL_LIMIT(b == e, "std::sort over begin()/end() of two different containers");
  sort_orders_agree(b->id, b->n, order);
  b->id = l_sorted(b->id, b->n, order);
  __CPROVER_assume(l_sorted(b->id, b->n, order) == b->id);      /* sorting a sorted list changes nothing */
}
static inline void std_sort2(QLst *b, QLst *e) { std_sort3(b, e, ORDER_STR_LT); }
static inline void qlst_sort(QLst *l) { std_sort3(l, l, ORDER_STR_LT); }   /* QStringList::sort(Qt::CaseSensitive) */
/* A-STD-UNIQUE  l.erase(std::unique(l.begin(), l.end()), l.end()) keeps one element of every run of ADJACENT equal elements: a function
   UNIQ of the list.  It is the duplicate-free list of A-DEDUP only when equal elements are adjacent, which is known here for
   a list that is sorted by QString's order; for any other list nothing relates UNIQ to the duplicate-free list.
   std::unique alone leaves the tail unspecified; only the erase-unique idiom on one container is represented. */
int __CPROVER_uninterpreted_list_uniq(int l, int n);
int __CPROVER_uninterpreted_list_uniq_n(int l, int n);
/* between the two calls the list value is a marker "unique pending on (list, n)" from which the erase recovers the operands */
int __CPROVER_uninterpreted_list_uniq_pending(int l, int n);
int __CPROVER_uninterpreted_list_uniq_pending_src(int p);
bool __CPROVER_uninterpreted_list_is_uniq_pending(int p);
static inline QLst *std_unique(QLst *b, QLst *e)
{
  MODEL_LIMIT(b == e, "std::unique over begin()/end() of two different containers");
  int p = __CPROVER_uninterpreted_list_uniq_pending(b->id, b->n);
  __CPROVER_assume(__CPROVER_uninterpreted_list_uniq_pending_src(p) == b->id && __CPROVER_uninterpreted_list_is_uniq_pending(p));
  b->id = p;                                                  /* front compacted, tail unspecified */
  return b;
}
static inline void qlst_erase(QLst *l, QLst *first, QLst *last)
{
  MODEL_LIMIT(first == l && last == l && __CPROVER_uninterpreted_list_is_uniq_pending(l->id), "QList::erase other than l.erase(std::unique(l.begin(), l.end()), l.end())");
  int src = __CPROVER_uninterpreted_list_uniq_pending_src(l->id), n = l->n;
  int id = n <= 1 ? src : __CPROVER_uninterpreted_list_uniq(src, n), m = n <= 1 ? n : __CPROVER_uninterpreted_list_uniq_n(src, n);
  __CPROVER_assume(0 <= m && m <= n && (n == 0 || m >= 1));
  if (l_sorted(src, n, ORDER_STR_LT) == src) __CPROVER_assume(id == l_dedup(src, n) && m == l_dedup_n(src, n));
  l->id = id; l->n = m;
}
static inline int qlst_removeDuplicates(QLst *l)
{
  int n = l->n, m = l_dedup_n(l->id, n);
  __CPROVER_assume(0 <= m && m <= n && (n == 0 || m >= 1));
  l->id = l_dedup(l->id, n);
  l->n = m;
  return n - m;
}
static inline qstr qlst_join(const QLst *l, quint16 sep) { return l_join(l->id, l->n, qchar_str(sep)); }
static inline bool qlst_isEmpty(const QLst *l) { return l->n == 0; }
/* QList::append(x) / operator<<(x) (A-QLIST): a function of (list, x); [x] for the empty list; the append succeeds */
#define QLIST_MAX 0x7ffffff   /* QList cannot hold more elements (allocation fails first) */
int __CPROVER_uninterpreted_list_push(int l, int n, int x);
static inline int l_push(int l, int n, int x) { return n <= 0 ? l_single(x) : __CPROVER_uninterpreted_list_push(l, n, x); }
static inline void qlst_append(QLst *l, int x)
{
  __CPROVER_assume(l->n >= 0 && l->n < QLIST_MAX);
  l->id = l_push(l->id, l->n, x);
  l->n = l->n + 1;
}

/* ---------------------------------------------------------------- QVariant */
enum { VK_INVALID = 0, VK_STRING = 1, VK_STRINGLIST = 2, VK_BOOL = 3 };
int __CPROVER_uninterpreted_var_kind(qvar v);
qstr __CPROVER_uninterpreted_var_str(qvar v);
int __CPROVER_uninterpreted_var_list(qvar v);
int __CPROVER_uninterpreted_var_list_n(qvar v);
bool __CPROVER_uninterpreted_var_bool(qvar v);
#define VK(v) __CPROVER_uninterpreted_var_kind(v)
#define VSTR(v) __CPROVER_uninterpreted_var_str(v)
#define VLIST(v) __CPROVER_uninterpreted_var_list(v)
#define VLISTN(v) __CPROVER_uninterpreted_var_list_n(v)
#define VBOOL(v) __CPROVER_uninterpreted_var_bool(v)
static inline bool qvar_canConvert_QStringList(qvar v)
{
  int k = VK(v);
  MODEL_LIMIT(k >= VK_INVALID && k <= VK_BOOL, "QVariant holding another type than QString / QStringList / bool");
  return k == VK_STRING || k == VK_STRINGLIST;
}
static inline void qvar_toStringList(QLst *r, qvar v)
{
  int k = VK(v);
  MODEL_LIMIT(k >= VK_INVALID && k <= VK_BOOL, "QVariant holding another type than QString / QStringList / bool");
  if (k == VK_STRINGLIST) { r->id = VLIST(v); r->n = VLISTN(v); __CPROVER_assume(r->n >= 0); }
  else if (k == VK_STRING) { r->id = l_single(VSTR(v)); r->n = 1; }
  else { r->id = 0; r->n = 0; }
}
bool __CPROVER_uninterpreted_var_tobool(qvar v);
static inline bool qvar_toBool(qvar v) { return VK(v) == VK_BOOL ? VBOOL(v) : __CPROVER_uninterpreted_var_tobool(v); }
static inline qstr qvar_toString(qvar v)
{
  int k = VK(v);
  MODEL_LIMIT(k >= VK_INVALID && k <= VK_BOOL, "QVariant holding another type than QString / QStringList / bool");
  if (k == VK_STRING) return VSTR(v);
  if (k == VK_BOOL) return VBOOL(v) ? S("true") : S("false");
  if (k == VK_STRINGLIST && VLISTN(v) == 1) return LAT(VLIST(v), 0);
  return 0;
}

/* ---------------------------------------------------------------- QMap<QString, Field> (A-QMAP) */
qmap __CPROVER_uninterpreted_map_ins(qmap m, qstr k, qfield f);
qmap __CPROVER_uninterpreted_map_del(qmap m, qstr k);
bool __CPROVER_uninterpreted_map_has(qmap m, qstr k);
qfield __CPROVER_uninterpreted_map_get(qmap m, qstr k);
int __CPROVER_uninterpreted_map_keys(qmap m);
int __CPROVER_uninterpreted_map_size(qmap m);
#define MAP_INS(m, k, f) __CPROVER_uninterpreted_map_ins((m), (k), (f))
#define MAP_DEL(m, k) __CPROVER_uninterpreted_map_del((m), (k))
#define MAP_HAS(m, k) __CPROVER_uninterpreted_map_has((m), (k))
#define MAP_KEYS(m) __CPROVER_uninterpreted_map_keys(m)
#define MAP_SIZE(m) __CPROVER_uninterpreted_map_size(m)
/* QMap::value(k): the stored field, a default-constructed field (value 0) if there is none */
static inline qfield map_value(qmap m, qstr k) { return MAP_HAS(m, k) ? __CPROVER_uninterpreted_map_get(m, k) : 0; }
static inline void qmap_insert(qmap *m, qstr k, qfield f) { *m = MAP_INS(*m, k, f); }
static inline bool qmap_contains(qmap m, qstr k) { return MAP_HAS(m, k); }
static inline qfield qmap_take(qmap *m, qstr k) { qfield f = map_value(*m, k); *m = MAP_DEL(*m, k); return f; }
static inline qfield qmap_value(qmap m, qstr k) { return map_value(m, k); }
/* keys(): ascending, i.e. already the sorted permutation of itself under QString's order */
static inline void qmap_keys(QLst *r, qmap m)
{
  r->id = MAP_KEYS(m); r->n = MAP_SIZE(m);
  __CPROVER_assume(r->n >= 0 && l_sorted(r->id, r->n, ORDER_STR_LT) == r->id);
  sort_orders_agree(r->id, r->n, ORDER_STR_LT);
}

#endif /* !C20_BOUNDED */
/* ---------------------------------------------------------------- QCryptographicHash */
typedef struct QHasher { int alg; qba data; bool added; } QHasher;
qba __CPROVER_uninterpreted_ba_cat(qba a, qba b);
qba __CPROVER_uninterpreted_hash(int alg, qba data);
#define HASH(alg, data) __CPROVER_uninterpreted_hash((alg), (data))
static inline void QHasher_ctor(QHasher *h, int alg) { h->alg = alg; h->data = 0; h->added = false; }
static inline void QHasher_addData(QHasher *h, qba d) { h->data = !h->added ? d : __CPROVER_uninterpreted_ba_cat(h->data, d); h->added = true; }
static inline qba QHasher_result(const QHasher *h) { return HASH(h->alg, h->data); }
