/* C20 -- BOUNDED stand-in (never counted as proved): concrete models of the containers for lists of at most BL elements.
 * The lowered real verificationString / identityLessThan run on two info sets that differ only by the order of identities,
 * the order and repetition of features, the order of form fields and the order of the values of each field; the two hashes
 * must be equal.  std::sort / QStringList::sort are a concrete (insertion) sort that calls the comparator -- for identities
 * the lowered real identityLessThan --, QString's order is one concrete strict total order on the string values,
 * removeDuplicates keeps first occurrences, QMap is a key-ordered association list, join concatenates. */
/* S += (o1 + o2 + ... + ok): one free constructor of the old value and the k operands (keeps the formula small; equal operands
   give equal results, which is all the comparison of the two runs needs) */
qstr __CPROVER_uninterpreted_str_appn(qstr s, int n, qstr a0, qstr a1, qstr a2, qstr a3, qstr a4, qstr a5, qstr a6, qstr a7, qstr a8, qstr a9);
static inline void qstr_append_sb(qstr *s, const QSB *x)
{
  *s = __CPROVER_uninterpreted_str_appn(*s, x->n, x->a[0], x->a[1], x->a[2], x->a[3], x->a[4], x->a[5], x->a[6], x->a[7], x->a[8], x->a[9]);
}
#define NFIELD 8
bool identityLessThan(ident i1, ident i2);
static inline int qlst_size(const QLst *l) { return l->n; }
static inline int qlst_at(const QLst *l, int i)
{
  __CPROVER_assert(0 <= i && i < l->n && i < BL, "[safety.list_index_in_range] QList element access within the list");
  return l->e[i];
}
static inline bool order_lt(int order, int a, int b) { return order == CMP_identityLessThan ? identityLessThan(a, b) : qstr_lt(a, b); }
static inline void l_sort_concrete(QLst *l, int order)
{
  MODEL_LIMIT(l->n >= 0 && l->n <= BL, "bounded stand-in: list longer than BL");
  for (int i = 1; i < BL; i++) {
    if (i >= l->n) break;
    for (int j = i; j > 0; j--) {
      if (!order_lt(order, l->e[j], l->e[j - 1])) break;
      int t = l->e[j]; l->e[j] = l->e[j - 1]; l->e[j - 1] = t;
    }
  }
}
static inline void std_sort3(QLst *b, QLst *e, int order) { MODEL_LIMIT(b == e, "std::sort over begin()/end() of two different containers"); l_sort_concrete(b, order); }
static inline void std_sort2(QLst *b, QLst *e) { std_sort3(b, e, ORDER_STR_LT); }
static inline void qlst_sort(QLst *l) { l_sort_concrete(l, ORDER_STR_LT); }
/* std::unique compacts runs of adjacent equal elements to the front; erase(that, end()) cuts the rest off */
QLst *gb_unique_of; int gb_unique_keep;
static inline QLst *std_unique(QLst *b, QLst *e)
{
  MODEL_LIMIT(b == e && b->n >= 0 && b->n <= BL, "std::unique over begin()/end() of two different containers / list longer than BL");
  int m = 0;
  for (int i = 0; i < BL; i++) {
    if (i >= b->n) break;
    if (m == 0 || b->e[m - 1] != b->e[i]) { b->e[m] = b->e[i]; m++; }
  }
  gb_unique_of = b; gb_unique_keep = m;
  return b;
}
static inline void qlst_erase(QLst *l, QLst *first, QLst *last)
{
  MODEL_LIMIT(first == l && last == l && gb_unique_of == l, "QList::erase other than l.erase(std::unique(l.begin(), l.end()), l.end())");
  for (int i = 0; i < BL; i++) if (i >= gb_unique_keep) l->e[i] = 0;
  l->n = gb_unique_keep; gb_unique_of = NULL;
}
static inline int qlst_removeDuplicates(QLst *l)
{
  MODEL_LIMIT(l->n >= 0 && l->n <= BL, "bounded stand-in: list longer than BL");
  QLst r; int m = 0;
  for (int i = 0; i < BL; i++) r.e[i] = 0;
  for (int i = 0; i < BL; i++) {
    if (i >= l->n) break;
    bool seen = false;
    for (int j = 0; j < BL; j++) if (j < m && r.e[j] == l->e[i]) seen = true;
    if (!seen) { r.e[m] = l->e[i]; m++; }
  }
  int removed = l->n - m;
  r.n = m; *l = r;
  return removed;
}
/* join: one free constructor of the separator and the (at most BL) elements; "" for the empty list, the element for a one-element list */
qstr __CPROVER_uninterpreted_str_join4(qstr sep, int n, qstr e0, qstr e1, qstr e2, qstr e3);
static inline bool qlst_isEmpty(const QLst *l) { return l->n == 0; }
static inline void qlst_append(QLst *l, int x)
{
  MODEL_LIMIT(l->n >= 0 && l->n < BL, "bounded stand-in: list longer than BL");
  l->e[l->n] = x; l->n = l->n + 1;
}
static inline qstr qlst_join(const QLst *l, quint16 sep)
{
  if (l->n <= 0) return 0;
  if (l->n == 1) return l->e[0];
  return __CPROVER_uninterpreted_str_join4(qchar_str(sep), l->n, l->e[0], l->e[1], l->e[2], l->e[3]);
}
/* fields, their values (QVariant = the field it belongs to) and the form */
enum { VK_INVALID = 0, VK_STRING = 1, VK_STRINGLIST = 2, VK_BOOL = 3 };
typedef struct BField { qstr key; int type; int kind; qstr s; bool b; QLst list; } BField;
BField gb_field[NFIELD];
typedef struct BForm { bool isnull; QLst fields; } BForm;
BForm gb_form[2];
#define FLD(f) gb_field[(f) < 0 || (f) >= NFIELD ? 0 : (f)]
static inline bool qform_isNull(qform f) { return gb_form[f & 1].isnull; }
static inline void qform_fields(QLst *r, qform f) { *r = gb_form[f & 1].fields; }
static inline qstr qfield_key(qfield f) { return FLD(f).key; }
static inline qvar qfield_value(qfield f) { return f; }
static inline int qfield_type(qfield f) { return FLD(f).type; }
static inline bool qvar_toBool(qvar v) { return FLD(v).kind == VK_BOOL && FLD(v).b; }
static inline bool qvar_canConvert_QStringList(qvar v) { return FLD(v).kind == VK_STRING || FLD(v).kind == VK_STRINGLIST; }
static inline void qvar_toStringList(QLst *r, qvar v)
{
  QLst z; z.n = 0; for (int i = 0; i < BL; i++) z.e[i] = 0;
  if (FLD(v).kind == VK_STRINGLIST) z = FLD(v).list;
  else if (FLD(v).kind == VK_STRING) { z.e[0] = FLD(v).s; z.n = 1; }
  *r = z;
}
static inline qstr qvar_toString(qvar v)
{
  if (FLD(v).kind == VK_STRING) return FLD(v).s;
  if (FLD(v).kind == VK_BOOL) return FLD(v).b ? S("true") : S("false");
  if (FLD(v).kind == VK_STRINGLIST && FLD(v).list.n == 1) return FLD(v).list.e[0];
  return 0;
}
/* QMap<QString, Field>: at most BL entries in ascending key order, packed into the map value itself:
   bits 0..2 the number of entries, entry i in bits 3+6i .. 8+6i = (key: 3 bits, field: 3 bits).  Keys are string values < 8
   (NSTR), fields are indices < NFIELD = 8; the empty map is 0. */
#define M_N(m) ((unsigned)(m) & 7u)
#define M_KEY(m, i) ((qstr)(((unsigned)(m) >> (3 + 6 * (i))) & 7u))
#define M_FLD(m, i) ((qfield)(((unsigned)(m) >> (6 + 6 * (i))) & 7u))
#define M_ENTRY(k, f, i) ((((unsigned)(k) & 7u) | (((unsigned)(f) & 7u) << 3)) << (3 + 6 * (i)))
static inline qmap map_pack(int n, const qstr *k, const qfield *v)
{
  unsigned m = (unsigned)n & 7u;
  for (int i = 0; i < BL; i++) if (i < n) m |= M_ENTRY(k[i], v[i], i);
  return (qmap)m;
}
static inline void qmap_insert(qmap *m, qstr k, qfield f)
{
  MODEL_LIMIT(k >= 0 && k < 8 && f >= 0 && f < 8, "bounded stand-in: key or field outside the packed range");
  qstr ks[BL + 1] = { 0 }; qfield vs[BL + 1] = { 0 }; int n = (int)M_N(*m), j = 0; bool placed = false;
  for (int i = 0; i < BL; i++) {
    if (i >= n) break;
    qstr ki = M_KEY(*m, i); qfield vi = M_FLD(*m, i);
    if (!placed && ki == k) { ks[j] = k; vs[j] = f; j++; placed = true; continue; }
    if (!placed && STR_LT(k, ki)) { ks[j] = k; vs[j] = f; j++; placed = true; }
    ks[j] = ki; vs[j] = vi; j++;
  }
  if (!placed) { ks[j] = k; vs[j] = f; j++; }
  MODEL_LIMIT(j <= BL, "bounded stand-in: more than BL map entries");
  *m = map_pack(j, ks, vs);
}
static inline bool qmap_contains(qmap m, qstr k) { for (int i = 0; i < BL; i++) if (i < (int)M_N(m) && M_KEY(m, i) == k) return true; return false; }
static inline qfield qmap_value(qmap m, qstr k) { for (int i = 0; i < BL; i++) if (i < (int)M_N(m) && M_KEY(m, i) == k) return M_FLD(m, i); return 0; }
static inline qfield qmap_take(qmap *m, qstr k)
{
  qfield f = qmap_value(*m, k);
  qstr ks[BL]; qfield vs[BL]; int n = (int)M_N(*m), j = 0;
  for (int i = 0; i < BL; i++) { ks[i] = 0; vs[i] = 0; }
  for (int i = 0; i < BL; i++) { if (i >= n) break; if (M_KEY(*m, i) == k) continue; ks[j] = M_KEY(*m, i); vs[j] = M_FLD(*m, i); j++; }
  *m = map_pack(j, ks, vs);
  return f;
}
static inline void qmap_keys(QLst *r, qmap m)
{
  for (int i = 0; i < BL; i++) r->e[i] = i < (int)M_N(m) ? M_KEY(m, i) : 0;
  r->n = (int)M_N(m);
}
/* the specification's ghost hooks are not part of this run */
typedef struct InfoSet { int unused; } InfoSet;
static inline InfoSet infoset_of(const void *q) { InfoSet s = { 0 }; return s; }
#define XEP_UNFOLD_I(s, i) ((void)(s))
#define XEP_UNFOLD_F(s, i) ((void)(s))
#define XEP_UNFOLD_M(s, i) ((void)(s))
#define XEP_UNFOLD_K(s, i) ((void)(s))
