"""C20: lowering profile for the entity-capabilities code (opaque strings, functional lists/maps, QStringBuilder sequences)."""
import re
from vlib import cxx2c
from vlib.cxx2c import Lowerer, Unsupported, strip_type, qt, dqt
from vlib.opaque_profile import opaque_profile

TYPES = {
    'QXmppDiscoveryIq': 'QXmppDiscoveryIq',
    'QXmppDiscoveryIqPrivate': 'QXmppDiscoveryIqPrivate',
    'QSharedDataPointer<QXmppDiscoveryIqPrivate>': 'QXmppDiscoveryIqPrivate*',
    'QXmppDiscoveryIq::Identity': 'ident',
    'QXmppDiscoveryIq::QueryType': 'int',
    'QList<QXmppDiscoveryIq::Identity>': 'QLst',
    'QStringList': 'QLst', 'QList<QString>': 'QLst',
    'QList<QXmppDataForm::Field>': 'QLst',
    'QXmppDataForm': 'qform', 'QXmppDataForm::Field': 'qfield', 'QXmppDataForm::Field::Type': 'int',
    'QMap<QString,QXmppDataForm::Field>': 'qmap',
    'QVariant': 'qvar', 'QByteArray': 'qba', 'QChar': 'quint16',
    'QCryptographicHash': 'QHasher', 'QCryptographicHash::Algorithm': 'int',
}
CLASS_TYPES = {'QXmppDiscoveryIq', 'QXmppDiscoveryIqPrivate', 'QLst', 'QSB', 'QHasher'}

# ---- second part: QXmppDiscoveryManager::capabilities and its two users (presence advertisement, disco#info answer)
TYPES2 = {
    'QXmppDiscoveryManager': 'QXmppDiscoveryManager', 'QXmppDiscoveryManagerPrivate': 'QXmppDiscoveryManagerPrivate',
    'std::unique_ptr<QXmppDiscoveryManagerPrivate>': 'QXmppDiscoveryManagerPrivate*',
    'std::unique_ptr<QXmppDiscoveryManagerPrivate>::pointer': 'QXmppDiscoveryManagerPrivate*',
    'QXmppClientPrivate': 'QXmppClientPrivate',
    'QXmppPresence': 'QXmppPresence', 'QXmppPresencePrivate': 'QXmppPresencePrivate',
    'QSharedDataPointer<QXmppPresencePrivate>': 'QXmppPresencePrivate*',
    'QList<QXmppClientExtension*>': 'QLst',
    'QXmppIq::Type': 'int', 'QXmppStanza::Error::Type': 'int', 'QXmppStanza::Error::Condition': 'int',
    'QXmppStanza::Error': 'StanzaError', 'Error': 'StanzaError',
    'std::variant<QXmppDiscoveryIq,QXmppStanza::Error>': 'IqResult',
}
CLASS_TYPES2 = {'QXmppDiscoveryManager', 'QXmppDiscoveryManagerPrivate', 'QXmppClientPrivate', 'QXmppPresence', 'QXmppPresencePrivate', 'StanzaError', 'IqResult'}
# pointers to objects whose identity is all that matters: opaque handles (0 = null pointer)
PTR_HANDLES = {'QXmppClient*': 'qclient', 'QXmppClientExtension*': 'qext'}


def is_builder(s):
    """QStringBuilder<..> expression templates over QString / char16_t / QChar / u"" literals (QT_USE_QSTRINGBUILDER)"""
    if not s.startswith('QStringBuilder<'):
        return False
    toks = set(t for t in re.split(r'[<>,\s]+', s.replace('typename QConcatenable', '').replace('::type', '')) if t) - {'QStringBuilder'}
    return bool(toks) and all(re.fullmatch(r'QString|QChar|char16_t(\[\d+\])?', t) for t in toks)


def canconvert_stringlist(lw, node, args):
    """QVariant::canConvert<T>(): the template argument is not part of clang's JSON for the member expression, so the
    token is read back from the source at the node's own range and must be canConvert<QStringList>"""
    r = node.get('range', {})

    def off(loc):
        for k in ('spellingLoc', 'expansionLoc'):
            if k in loc:
                loc = loc[k]
                break
        return loc.get('offset'), loc.get('tokLen', 0)
    b, _ = off(r.get('begin', {}))
    e, el = off(r.get('end', {}))
    for path in getattr(lw, 'source_files', []):
        try:
            data = open(path, 'rb').read()
        except OSError:
            continue
        if b is None or e is None:
            break
        text = data[b:e + el].decode('utf-8', 'replace')
        if re.search(r'\.\s*canConvert\s*<\s*QStringList\s*>\s*\(\s*\)\s*$', text):
            return 'qvar_canConvert_QStringList(%s)' % args[0]
        raise Unsupported('canConvert<T>() with T other than QStringList: %r' % text[-60:])
    raise Unsupported('canConvert<T>(): source range not available')


def rangefor_list(lw, n, rinit, lv, body, ind):
    """`for (T x : list)`: clang's desugaring (__range = list; __begin != __end; ++__begin; x = *__begin) as an index loop over
    a named copy `__rangeK` of the list value (begin/end are evaluated once, before the loop; models are values)"""
    sp = '  ' * ind
    r = lw.expr(rinit)
    lw.flush(sp)
    num = lw.loops
    lw.loops += 1
    idx, rng = '__i%d' % num, '__range%d' % num
    lw.names.update((idx, rng))
    v = lv['inner'][0]
    lw.emit('%sconst QLst %s = %s;' % (sp, rng, r))
    lw.emit('%sint %s = 0;' % (sp, idx))
    lw.emit('%sfor (; %s < qlst_size(&%s); %s++)' % (sp, idx, rng, idx))
    lw.emit('%s/*@LOOP%d@*/' % (sp, num))
    lw.emit(sp + '{')
    cn, ct = lw.declare_local(v, sp)
    lw.emit('%s  %s %s = qlst_at(&%s, %s);' % (sp, ct, cn, rng, idx))
    lw.block(body, ind + 1)
    lw.emit(sp + '}')


CALLS = {
    # ---- strings: QString operator< / operator> (A-STR-ORDER), appends
    'op<:qstr:qstr': ('fn', 'qstr_lt'),
    'op>:qstr:qstr': ('fn', 'qstr_gt'),
    'qstr::compare/1': ('fn', 'qstr_compare'),
    'op+:qstr:quint16': ('fnret', 'QSB_str_chr', 'QSB'),
    'op+:qstr:qstr': ('fnret', 'QSB_str_str', 'QSB'),
    'op+:qstr:char16_t[2]': ('fnret', 'QSB_str_str', 'QSB'),
    'op+:QSB:qstr': ('fnret', 'QSB_sb_str', 'QSB'),
    'op+:QSB:quint16': ('fnret', 'QSB_sb_chr', 'QSB'),
    'op+:QSB:char16_t[2]': ('fnret', 'QSB_sb_str', 'QSB'),
    'op+=:qstr:QSB': ('fn', 'qstr_append_sb'),
    'op+=:qstr:qstr': ('fn', 'qstr_append'),
    'op+=:qstr:quint16': ('fn', 'qstr_append_chr'),
    'op+=:qstr:char16_t[2]': ('fn', 'qstr_append'),
    'qstr::toUtf8/0': ('fn', 'qstr_toUtf8'),
    # ---- identities
    'ident::category/0': ('fn', 'ident_category'),
    'ident::type/0': ('fn', 'ident_type'),
    'ident::language/0': ('fn', 'ident_language'),
    'ident::name/0': ('fn', 'ident_name'),
    # ---- d-pointer
    'op->:QXmppDiscoveryIqPrivate*': ('arg', 0),
    # ---- lists (functional model): begin()/end() denote the container itself
    'QLst::begin/0': ('expr', '{0}'),
    'QLst::end/0': ('expr', '{0}'),
    'fn:sort/3': ('fn', 'std_sort3'),
    'fn:sort/2': ('fn', 'std_sort2'),
    'QLst::sort/0': ('fn', 'qlst_sort'),
    'QLst::removeDuplicates/0': ('fn', 'qlst_removeDuplicates'),
    'fn:unique/2': ('fn', 'std_unique'),
    'QLst::erase/2': ('fn', 'qlst_erase'),
    'QLst::join/1': ('fn', 'qlst_join'),
    'rangefor:QLst': rangefor_list,
    # ---- data form, fields, QVariant
    'qform::isNull/0': ('fn', 'qform_isNull'),
    'qform::fields/0': ('fnret', 'qform_fields', 'QLst'),
    'qfield::key/0': ('fn', 'qfield_key'),
    'qfield::value/0': ('fn', 'qfield_value'),
    'qfield::type/0': ('fn', 'qfield_type'),
    'qvar::toBool/0': ('fn', 'qvar_toBool'),
    'op<<:QLst:qstr': ('fn', 'qlst_append'),
    'QLst::isEmpty/0': ('fn', 'qlst_isEmpty'),
    'qvar::toString/0': ('fn', 'qvar_toString'),
    'qvar::toStringList/0': ('fnret', 'qvar_toStringList', 'QLst'),
    'qvar::canConvert/0': canconvert_stringlist,
    # ---- QMap<QString, Field>
    'qmap::insert/2': ('fnmut', 'qmap_insert'),
    'qmap::contains/1': ('fn', 'qmap_contains'),
    'qmap::take/1': ('fnmut', 'qmap_take'),
    'qmap::keys/0': ('fnret', 'qmap_keys', 'QLst'),
    'qmap::value/1': ('fn', 'qmap_value'),
    # ---- QCryptographicHash
    'ctor:QHasher(int)': ('fn', 'QHasher_ctor'),
    'QHasher::addData/1': ('fn', 'QHasher_addData'),
    'QHasher::result/0': ('fn', 'QHasher_result'),
}

def source_text(lw, node):
    """the source text of an expression node (clang's JSON omits explicit template arguments of member calls)"""
    r = node.get('range', {})

    def off(loc):
        for k in ('spellingLoc', 'expansionLoc'):
            if k in loc:
                loc = loc[k]
                break
        return loc.get('offset'), loc.get('tokLen', 0)
    b, _ = off(r.get('begin', {}))
    e, el = off(r.get('end', {}))
    if b is None or e is None:
        raise Unsupported('source range not available')
    for path in getattr(lw, 'source_files', []):
        try:
            data = open(path, 'rb').read()
        except OSError:
            continue
        return data[b:e + el].decode('utf-8', 'replace')
    raise Unsupported('source file not available')


def find_discovery_manager(lw, node, args):
    text = source_text(lw, node)
    if not re.search(r'findExtension\s*<\s*QXmppDiscoveryManager\s*>\s*\(\s*\)\s*$', text):
        raise Unsupported('findExtension<T>() with T other than QXmppDiscoveryManager: %r' % text[-60:])
    return 'qclient_findDiscoveryManager(%s)' % args[0]


CALLS2 = {
    # d-pointers
    'op->:QXmppDiscoveryManagerPrivate*': ('arg', 0),
    'op->:QXmppPresencePrivate*': ('arg', 0),
    # the client and its extensions (handles): pure getters (ASSUMED)
    '*::client/0': ('const', 'gh_client'),
    'qclient::extensions/0': ('fnret', 'qclient_extensions', 'QLst'),
    'qclient::findExtension/0': find_discovery_manager,
    'fn:discoveryFeatures/0': ('fnret', 'QXmppClientPrivate_discoveryFeatures', 'QLst'),
    'qext::discoveryFeatures/0': ('fnret', 'qext_discoveryFeatures', 'QLst'),
    'qext::discoveryIdentities/0': ('fnret', 'qext_discoveryIdentities', 'QLst'),
    # lists
    'ctor:QLst()': ('zero',),
    'op<<:QLst:QLst': ('fn', 'qlst_append_list'),
    'op<<:QLst:ident': ('fn', 'qlst_append'),
    'op=:QLst:QLst': ('expr', '*{0} = *{1}'),
    # identity value class (setters = functional update)
    'ident::setCategory/1': ('fnmut', 'ident_setCategory'),
    'ident::setType/1': ('fnmut', 'ident_setType'),
    'ident::setName/1': ('fnmut', 'ident_setName'),
    'ident::setLanguage/1': ('fnmut', 'ident_setLanguage'),
    # QXmppDiscoveryIq: constructor and QXmppIq::setType modelled, the other members are the lowered real functions
    'ctor:QXmppDiscoveryIq()': ('fn', 'QXmppDiscoveryIq_ctor'),
    'QXmppDiscoveryIq::setType/1': ('fn', 'QXmppDiscoveryIq_setType'),
    'QXmppDiscoveryIq::setQueryType/1': ('callee', 'QXmppDiscoveryIq_setQueryType'),
    'QXmppDiscoveryIq::setFeatures/1': ('callee', 'QXmppDiscoveryIq_setFeatures'),
    'QXmppDiscoveryIq::setIdentities/1': ('callee', 'QXmppDiscoveryIq_setIdentities'),
    'QXmppDiscoveryIq::setForm/1': ('callee', 'QXmppDiscoveryIq_setForm'),
    'QXmppDiscoveryIq::setQueryNode/1': ('callee', 'QXmppDiscoveryIq_setQueryNode'),
    'QXmppDiscoveryIq::queryNode/0': ('callee', 'QXmppDiscoveryIq_queryNode'),
    'QXmppDiscoveryIq::queryType/0': ('callee', 'QXmppDiscoveryIq_queryType'),
    'QXmppDiscoveryIq::verificationString/0': ('callee', 'QXmppDiscoveryIq_verificationString'),
    'QXmppDiscoveryManager::capabilities/0': ('calleeret', 'QXmppDiscoveryManager_capabilities'),
    'QXmppDiscoveryManager::clientCategory/0': ('callee', 'QXmppDiscoveryManager_clientCategory'),
    'QXmppDiscoveryManager::clientType/0': ('callee', 'QXmppDiscoveryManager_clientType'),
    'QXmppDiscoveryManager::clientName/0': ('callee', 'QXmppDiscoveryManager_clientName'),
    'QXmppDiscoveryManager::clientCapabilitiesNode/0': ('callee', 'QXmppDiscoveryManager_clientCapabilitiesNode'),
    'QXmppPresence::capabilityHash/0': ('callee', 'QXmppPresence_capabilityHash'),
    'QXmppPresence::capabilityNode/0': ('callee', 'QXmppPresence_capabilityNode'),
    'QXmppPresence::capabilityVer/0': ('callee', 'QXmppPresence_capabilityVer'),
    'qstr::indexOf/1': ('fn', 'qstr_indexOf'),
    'qstr::left/1': ('fn', 'qstr_left'),
    'qba::isEmpty/0': ('expr', '{0} == 0'),
    'qba::isNull/0': ('expr', '{0} == 0'),
    'op==:qba:qba': ('expr', '{0} == {1}'),
    'op!=:qba:qba': ('expr', '{0} != {1}'),
    'QXmppPresence::setCapabilityHash/1': ('callee', 'QXmppPresence_setCapabilityHash'),
    'QXmppPresence::setCapabilityNode/1': ('callee', 'QXmppPresence_setCapabilityNode'),
    'QXmppPresence::setCapabilityVer/1': ('callee', 'QXmppPresence_setCapabilityVer'),
    # handleIq's result
    'ctor:StanzaError(int,int,qstr)': ('fn', 'StanzaError_ctor'),
    'ctor:IqResult(StanzaError)': ('fn', 'IqResult_from_error'),
    'ctor:IqResult(QXmppDiscoveryIq)': ('fn', 'IqResult_from_iq'),
    'fn:__builtin_unreachable/0': ('expr', '__CPROVER_assert(0, "[safety.unreachable] Q_UNREACHABLE() is not reached")'),
}

# functions whose ADDRESS is taken (comparators handed to std::sort): the name denotes the order it implements
FNREFS = {'identityLessThan': 'CMP_identityLessThan'}


class CapsLowerer(Lowerer):
    def ctype(self, t, node=None):
        if t is not None:
            s = strip_type(t)
            if is_builder(s):
                return 'QSB'
            if s in PTR_HANDLES:
                return PTR_HANDLES[s]
        return Lowerer.ctype(self, t, node)

    def tkey(self, n):
        if n.get('kind') == 'StringLiteral' and re.fullmatch(r'(const )?char16_t ?\[\d+\]', qt(n)):
            return 'qstr'       # a u"..." literal used as a string operand
        for cand in (qt(n), dqt(n)):
            s = strip_type(cand)
            if is_builder(s):
                return 'QSB'
            if s in PTR_HANDLES:
                return PTR_HANDLES[s]
        return Lowerer.tkey(self, n)

    # ---- relational operators on tuples (std::make_tuple / std::tie / std::forward_as_tuple / std::make_pair):
    # the lexicographic comparison of the components AS WRITTEN, each compared the way std::tuple does it:
    # x < y, then y < x, else the next component (libstdc++ __tuple_compare / __synth3way for types without <=>)
    TUPLE_MAKERS = ('make_tuple', 'tie', 'forward_as_tuple', 'make_pair')
    REL_MIRROR = {'<': '>', '>': '<', '<=': '>=', '>=': '<='}

    def tuple_elems(self, n):
        n = self.skip(n)
        if n.get('kind') == 'CallExpr' and self.callee_ref(n).get('name') in self.TUPLE_MAKERS:
            return [a for a in n['inner'][1:]]
        return None

    def lex_compare(self, sym, A, B):
        if len(A) != len(B) or not A:
            raise Unsupported('comparison of tuples of different / zero length')
        def temps(elems):
            out = []
            for a in elems:
                a0 = self.skip(a)
                ct = self.ntype(a0)
                if ct in self.p.class_types or ct.endswith('*'):
                    raise Unsupported('tuple component of type %s in a comparison' % ct)
                t = self.newtmp()
                self.pre.append('%s %s = %s;' % (ct, t, self.expr(a0)))
                out.append((t, ct))
            return out
        ta, tb = temps(A), temps(B)

        def lt(x, y, ct):
            return 'qstr_lt(%s, %s)' % (x, y) if ct in self.p.string_types else '(%s < %s)' % (x, y)

        def lex(xs, ys):
            e = 'false'
            for (x, cx), (y, cy) in reversed(list(zip(xs, ys))):
                if cx != cy:
                    raise Unsupported('tuple components of different types %s / %s in a comparison' % (cx, cy))
                e = '(%s || (!%s && %s))' % (lt(x, y, cx), lt(y, x, cx), e)
            return e
        self.fire('tuple-compare:%s/%d' % (sym, len(A)))
        return {'<': lex(ta, tb), '>': lex(tb, ta), '<=': '(!%s)' % lex(tb, ta), '>=': '(!%s)' % lex(ta, tb)}[sym]

    def rewritten_compare(self, n):
        """C++20: a < b on tuples is rewritten by the compiler to (a <=> b) < 0 (or 0 < (b <=> a)); clang's AST carries the rewritten form"""
        op = self.skip(n['inner'][0])
        if op.get('kind') != 'CXXOperatorCallExpr':
            raise Unsupported('CXXRewrittenBinaryOperator over %s' % op.get('kind'))
        sym = self.callee_ref(op).get('name', '').replace('operator', '')
        if sym not in self.REL_MIRROR:
            raise Unsupported('rewritten operator %s' % sym)
        ops = [self.skip(x) for x in op['inner'][1:]]

        def is3way(x):
            return x.get('kind') == 'CXXOperatorCallExpr' and self.callee_ref(x).get('name') == 'operator<=>'

        def iszero(x):
            while x.get('kind') != 'IntegerLiteral' and len([c for c in x.get('inner', []) if isinstance(c, dict)]) == 1:
                x = [c for c in x['inner'] if isinstance(c, dict)][0]
            return x.get('kind') == 'IntegerLiteral' and x.get('value') == '0'
        if len(ops) == 2 and is3way(ops[0]) and iszero(ops[1]):
            cmp3 = ops[0]
        elif len(ops) == 2 and is3way(ops[1]) and iszero(ops[0]):
            cmp3, sym = ops[1], self.REL_MIRROR[sym]
        else:
            raise Unsupported('rewritten comparison that is not (a <=> b) op 0')
        x, y = cmp3['inner'][1:]
        A, B = self.tuple_elems(x), self.tuple_elems(y)
        if A is None or B is None:
            raise Unsupported('rewritten comparison of operands that are not std::make_tuple / std::tie expressions')
        return self.lex_compare(sym, A, B)

    def expr(self, n):
        n0 = self.skip(n)
        if n0.get('kind') == 'CXXRewrittenBinaryOperator':
            return self.rewritten_compare(n0)
        return Lowerer.expr(self, n)

    def opcall(self, n):
        sym = self.callee_ref(n).get('name', '').replace('operator', '')
        ops = n['inner'][1:]
        if sym in self.REL_MIRROR and len(ops) == 2:
            A, B = self.tuple_elems(ops[0]), self.tuple_elems(ops[1])
            if A is not None and B is not None:
                return self.lex_compare(sym, A, B)       # C++17 form: operator< of std::tuple called directly
        return Lowerer.opcall(self, n)

    def cast(self, n):
        if n.get('castKind') == 'PointerToBoolean':
            sub = n['inner'][0]
            try:
                if self.ntype(self.skip(sub)) in PTR_HANDLES.values():
                    self.fire('cast:PointerToBoolean:handle')
                    return '(%s != 0)' % self.expr(sub)
            except Unsupported:
                pass
        return Lowerer.cast(self, n)

    def stmt(self, n, ind):
        if n.get('kind') == 'DoStmt':
            # do { ... } while (false)  (Q_UNREACHABLE, Q_ASSERT): the body runs exactly once
            body, cond = n['inner']
            c = self.skip(cond)

            def has_jump(x):
                return x.get('kind') in ('BreakStmt', 'ContinueStmt') or any(has_jump(y) for y in x.get('inner', []) if isinstance(y, dict))
            if c.get('kind') != 'CXXBoolLiteralExpr' or c.get('value') or has_jump(body):
                raise Unsupported('do-while other than do { } while (false) without break/continue')
            self.fire('stmt:do-while-false')
            self.block(body, ind)
            return
        return Lowerer.stmt(self, n, ind)

    def declref(self, n):
        rd = n['referencedDecl']
        if rd.get('kind') in ('FunctionDecl', 'CXXMethodDecl'):
            name = rd.get('name', '')
            if name not in FNREFS:
                raise Unsupported('address of function %s' % name)
            self.fire('fnref:' + name)
            return FNREFS[name]
        return Lowerer.declref(self, n)


def profile(**kw):
    t = dict(TYPES)
    t.update(TYPES2)
    c = dict(CALLS)
    c.update(CALLS2)
    return opaque_profile(types=t, class_types=CLASS_TYPES | CLASS_TYPES2, calls=c, pure_fns={'client'}, **kw)


def emit_record(src, filt, cls, cname, prof, extra_flags=()):
    """vlib.ctx.emit_record with this unit's type mapping (handles, builders); unmodelled members are left out (comment)"""
    from vlib import ctx
    fields, decl = ctx.record_fields(src, filt, cls, extra_flags)
    lw = CapsLowerer({'inner': []}, cname, prof)
    lines = []
    for name, t in fields:
        ct = None
        for cand in (t.get('qualType'), t.get('desugaredQualType')):
            if cand is None:
                continue
            try:
                ct = lw.ctype(cand)
                break
            except Unsupported:
                pass
        lines.append('  %s %s;' % (ct, name) if ct else '  /* member %s : %s not modelled */' % (name, t.get('qualType')))
    return 'typedef struct %s {\n%s\n} %s;' % (cname, '\n'.join(lines), cname), [f[0] for f in fields]
