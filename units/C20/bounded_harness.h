/* two info sets that differ by ONE elementary change; see bounded.h.
 * Elementary changes: exchange of two neighbouring identities / features / form fields / values of one field, and insertion of a
 * second copy of a feature.  Every reordering is a sequence of neighbour exchanges and every repetition a sequence of such
 * insertions (followed by exchanges), so blindness to each elementary change is blindness to all of them -- for lists within the bound. */
static inline int fresh_list(int n) { int id = pool_new(); for (int i = 0; i < BL; i++) gb_pool[id][i] = i < n ? nondet_int() : 0; return id; }
/* a new list: src with the elements at k and k+1 exchanged (k in [0, n-2]; unchanged if k is outside) */
static inline int exchanged(int src, int n, int k)
{
  int id = pool_new();
  for (int i = 0; i < BL; i++) gb_pool[id][i] = gb_pool[src][i];
  for (int i = 0; i + 1 < BL; i++) if (i == k && i + 1 < n) { gb_pool[id][i] = gb_pool[src][i + 1]; gb_pool[id][i + 1] = gb_pool[src][i]; }
  return id;
}
/* a new list of n+1 elements: src with a copy of element j inserted at position k (0 <= j < n, 0 <= k <= n, n < BL) */
static inline int duplicated(int src, int n, int j, int k)
{
  int id = pool_new();
  int e = gb_pool[src][j < 0 || j >= BL ? 0 : j];
  for (int i = 0; i < BL; i++) gb_pool[id][i] = i < k ? gb_pool[src][i] : i == k ? e : gb_pool[src][i - 1];
  return id;
}
void h_perm(void)
{
  gb_pool_next = 0; gb_map_next = 1; gb_map[0].n = 0;
  QXmppDiscoveryIqPrivate d1, d2; QXmppDiscoveryIq q1, q2; q1.d = &d1; q2.d = &d2;
  int mode = BOUNDED_MODE;    /* 0 identities exchanged, 1 features exchanged, 2 feature repeated, 3 fields exchanged, 4 values of one field exchanged */
  int k = nondet_int(), j = nondet_int();
  __CPROVER_assume(0 <= k && k < BL && 0 <= j && j < BL);
  /* identities */
  int ni = nondet_int(); __CPROVER_assume(0 <= ni && ni <= BL);
  d1.identities.id = fresh_list(ni); d1.identities.n = ni;
  d2.identities = d1.identities;
  if (mode == 0) d2.identities.id = exchanged(d1.identities.id, ni, k);
  /* features */
  int n1 = nondet_int(); __CPROVER_assume(0 <= n1 && n1 <= BL);
  d1.features.id = fresh_list(n1); d1.features.n = n1;
  d2.features = d1.features;
  if (mode == 1) d2.features.id = exchanged(d1.features.id, n1, k);
  if (mode == 2) { __CPROVER_assume(n1 < BL && j < n1 && k <= n1); d2.features.id = duplicated(d1.features.id, n1, j, k); d2.features.n = n1 + 1; }
  /* form: absent in both, or the same fields (distinct vars) */
  bool isnull = nondet_bool();
  int nf = nondet_int(); __CPROVER_assume(0 <= nf && nf <= BL);
  int f1 = pool_new();
  for (int i = 0; i < BL; i++) {
    gb_pool[f1][i] = i < nf ? i : 0;
    BField a; a.key = nondet_int(); a.kind = nondet_int(); a.s = nondet_int(); a.b = nondet_bool(); a.listn = nondet_int();
    __CPROVER_assume(a.kind >= VK_INVALID && a.kind <= VK_BOOL && a.listn >= 0 && a.listn <= BL);
    for (int m = 0; m < BL; m++) __CPROVER_assume(m >= i || gb_field[m].key != a.key);       /* XEP-0004: vars are unique */
    a.list = fresh_list(a.listn);
    gb_field[i] = a;
    BField c = a;
    if (mode == 4 && i == j) c.list = exchanged(a.list, a.listn, k);
    gb_field[BL + i] = c;
  }
  int f2 = pool_new();
  for (int i = 0; i < BL; i++) gb_pool[f2][i] = i < nf ? BL + i : 0;
  if (mode == 3) f2 = exchanged(f2, nf, k);
  gb_form[0].isnull = isnull; gb_form[0].fields = f1; gb_form[0].nfields = nf;
  gb_form[1].isnull = isnull; gb_form[1].fields = f2; gb_form[1].nfields = nf;
  d1.form = 0; d2.form = 1;
  d1.queryNode = 0; d2.queryNode = 0; d1.queryType = 0; d2.queryType = 0;
  qba r1 = QXmppDiscoveryIq_verificationString(&q1);
  qba r2 = QXmppDiscoveryIq_verificationString(&q2);
  __CPROVER_assert(r1 == r2, "[lemma.bounded4_hash_is_blind_to_an_exchange_of_neighbours_and_to_a_repeated_feature] one elementary reordering / repetition: same hash");
}
