/* two info sets that differ by ONE elementary change; see bounded.h.
 * Elementary changes: exchange of two neighbouring identities / features / form fields / values of one field, and insertion of a
 * second copy of a feature.  Every reordering is a sequence of neighbour exchanges and every repetition a sequence of such
 * insertions (followed by exchanges), so blindness to each elementary change is blindness to all of them -- for lists within the bound. */
#define NSTR 8          /* string values are drawn from NSTR values (more than the BL that one list can hold) */
static inline int small(void) { int v = nondet_int(); __CPROVER_assume(0 <= v && v < NSTR); return v; }
static inline QLst fresh_list(int n) { QLst l; l.n = n; for (int i = 0; i < BL; i++) l.e[i] = i < n ? small() : 0; return l; }
/* src with the elements at k and k+1 exchanged (k in [0, n-2]; unchanged if k is outside) */
static inline QLst exchanged(QLst src, int k)
{
  QLst r = src;
  for (int i = 0; i + 1 < BL; i++) if (i == k && i + 1 < src.n) { r.e[i] = src.e[i + 1]; r.e[i + 1] = src.e[i]; }
  return r;
}
/* src (n < BL elements) with a copy of element j inserted at position k (0 <= j < n, 0 <= k <= n) */
static inline QLst duplicated(QLst src, int j, int k)
{
  QLst r; int e = src.e[j < 0 || j >= BL ? 0 : j];
  for (int i = 0; i < BL; i++) r.e[i] = i < k ? src.e[i] : i == k ? e : src.e[i - 1];
  r.n = src.n + 1;
  return r;
}
void h_perm(void)
{
  QXmppDiscoveryIqPrivate d1, d2; QXmppDiscoveryIq q1, q2; q1.d = &d1; q2.d = &d2;
  int mode = BOUNDED_MODE;    /* 0 identities exchanged, 1 features exchanged, 2 feature repeated, 3 fields exchanged, 4 values of one field exchanged */
  int k = nondet_int(), j = nondet_int();
  __CPROVER_assume(0 <= k && k < BL && 0 <= j && j < BL);
  /* identities */
  int ni = nondet_int(); __CPROVER_assume(0 <= ni && ni <= BL);
  d1.identities = fresh_list(ni);
  for (int i = 0; i < BL; i++) {     /* identity i of the list is table entry i: any four strings (equal 4-tuples included) */
    d1.identities.e[i] = i < ni ? i : 0;
    gb_ident[i].category = small(); gb_ident[i].type = small(); gb_ident[i].language = small(); gb_ident[i].name = small();
  }
  d2.identities = mode == 0 ? exchanged(d1.identities, k) : d1.identities;
  /* features */
  int n1 = nondet_int(); __CPROVER_assume(0 <= n1 && n1 <= BL);
  d1.features = fresh_list(n1);
  d2.features = mode == 1 ? exchanged(d1.features, k) : d1.features;
  if (mode == 2) { __CPROVER_assume(n1 < BL && j < n1 && k <= n1); d2.features = duplicated(d1.features, j, k); }
  /* form: absent in both, or the same fields (distinct vars) */
  bool isnull = nondet_bool();
  int nf = nondet_int(); __CPROVER_assume(0 <= nf && nf <= BL);
  QLst f1, f2; f1.n = nf; f2.n = nf;
  for (int i = 0; i < BL; i++) {
    f1.e[i] = i < nf ? i : 0;
    f2.e[i] = i < nf ? BL + i : 0;
    BField a; a.key = small(); a.type = nondet_int(); a.kind = nondet_int(); a.s = small(); a.b = nondet_bool();
    int nv = nondet_int();
    __CPROVER_assume(a.kind >= VK_INVALID && a.kind <= VK_BOOL && nv >= 0 && nv <= BL);
    for (int m = 0; m < BL; m++) __CPROVER_assume(m >= i || gb_field[m].key != a.key);       /* XEP-0004: vars are unique */
    a.list = fresh_list(nv);
    gb_field[i] = a;
    BField c = a;
    if (mode == 4 && i == j) c.list = exchanged(a.list, k);
    gb_field[BL + i] = c;
  }
  if (mode == 3) f2 = exchanged(f2, k);
  gb_form[0].isnull = isnull; gb_form[0].fields = f1;
  gb_form[1].isnull = isnull; gb_form[1].fields = f2;
  d1.form = 0; d2.form = 1;
  d1.queryNode = 0; d2.queryNode = 0; d1.queryType = 0; d2.queryType = 0;
  qba r1 = QXmppDiscoveryIq_verificationString(&q1);
  qba r2 = QXmppDiscoveryIq_verificationString(&q2);
  __CPROVER_assert(r1 == r2, "[lemma.bounded4_hash_is_blind_to_an_exchange_of_neighbours_and_to_a_repeated_feature] one elementary reordering / repetition: same hash");
}
