/* C20 -- XEP-0115 (Entity Capabilities) section 5.1 "Generation Method", written from the XEP and the property statement,
 * independently of the code.  All values are the opaque values of model.h.
 *
 * The info set of a QXmppDiscoveryIq `q` (what a disco#info answer built from it carries):
 *     identities  I = q->d->identities      each with category / type / xml:lang / name
 *     features    F = q->d->features        (a feature may be listed more than once)
 *     form        q->d->form, absent iff isNull(); its fields f have a var KEY(f) and the <value/> children XV(f)[0 .. XVN(f))
 *
 * XEP-0115 5.1:
 *   1. S := ""
 *   2. sort the identities by category, then type, then xml:lang, then name (i;octet)     -> XEP_ID_LT, SI = sorted(I, XEP_ID_LT)
 *   3. for each identity append  category "/" type "/" lang "/" name "<"
 *   4. sort the supported features                                                        -> SF = unique(sorted(F, <))  (a set)
 *   5. for each feature append  feature "<"
 *   6. for the extended-information form with a FORM_TYPE field: append the FORM_TYPE value "<"; then
 *   7. for each field other than FORM_TYPE, sorted by var:  append var "<", then each of its values, sorted, followed by "<"
 *      (a form without FORM_TYPE is ignored, section 5.4 rule 3.6)
 *   8. ver = base64(SHA-1(utf8(S)))         (verificationString() returns the raw digest; the presence writer applies base64)
 *
 * Unbounded sequences are described by recursion on the position.  The values of the recursive functions live in ghost arrays
 * (CBMC does not admit function applications in loop invariants); their DEFINING EQUATIONS are the base cases in the contract's
 * `requires` and the step equations XEP_UNFOLD_*, instantiated by ghost hooks at the index a loop is working on.  They define
 * the arrays from the info set alone (primitive recursion: a conservative definition) and say nothing about the code:
 *
 *   XI[0] = ""                    XI[i+1] = XI[i] ++ cat/type/lang/name<  of SI[i]                    0 <= i < |I|
 *   XF[0] = XI[|I|]               XF[j+1] = XF[j] ++ SF[j] ++ "<"                                      0 <= j < |SF|
 *   XM[0] = {}                    XM[i+1] = XM[i][KEY(f_i) := f_i]          (the fields as a map var -> field; XEP-0004: vars are unique)
 *   M = XM[|fields|], M1 = M \ FORM_TYPE, K = sorted(keys(M1), <)
 *   XK[0] = XF[|SF|] ++ value(M[FORM_TYPE]) ++ "<"
 *   XK[k+1] = XK[k] ++ K[k] ++ "<" ++ (each value of sorted(XV(M1[K[k]])) followed by "<")           0 <= k < |K|
 *   S = XF[|SF|] if the form is absent or has no FORM_TYPE, else XK[|K|]
 */
extern qstr gh_XI[__CPROVER_constant_infinity_uint];
extern qstr gh_XF[__CPROVER_constant_infinity_uint];
extern qmap gh_XM[__CPROVER_constant_infinity_uint];
extern qstr gh_XK[__CPROVER_constant_infinity_uint];

/* ---- step 2: the order on identities */
#define XEP_ID_LT(x, y) \
  (STR_LT(ID_CAT(x), ID_CAT(y)) || (ID_CAT(x) == ID_CAT(y) && \
   (STR_LT(ID_TYPE(x), ID_TYPE(y)) || (ID_TYPE(x) == ID_TYPE(y) && \
    (STR_LT(ID_LANG(x), ID_LANG(y)) || (ID_LANG(x) == ID_LANG(y) && \
     STR_LT(ID_NAME(x), ID_NAME(y))))))))
/* XEP_ID_LT is written with STR_LT, the order of QString (A-STR-ORDER); the XEP's order is the same formula over i;octet.
   "sorted by the XEP order" is the sorted permutation under ORDER_OCTET_4TUPLE / ORDER_OCTET.  The code hands std::sort the comparator
   identityLessThan, whose own contract (identityLessThan.spec) is identityLessThan(x, y) == XEP_ID_LT(x, y) for all x, y, and sorts
   strings with QString's `<`; that these give the i;octet-sorted lists is A-UTF16-OCTET (model.h) under its discriminator. */
#define XEP_ORDER_IDENTITY ORDER_OCTET_4TUPLE
#define XEP_ORDER_OCTET ORDER_OCTET

/* ---- fields of the form: var, data-form type class and the <value/> children in the answer */
enum { FT_SINGLE = 0, FT_MULTI = 1, FT_BOOLEAN = 2 };
qstr __CPROVER_uninterpreted_field_key(qfield f);
qvar __CPROVER_uninterpreted_field_value(qfield f);
int __CPROVER_uninterpreted_field_type(qfield f);
int __CPROVER_uninterpreted_field_xv(qfield f);
int __CPROVER_uninterpreted_field_xvn(qfield f);
#define F_KEY(f) __CPROVER_uninterpreted_field_key(f)
#define F_VALUE(f) __CPROVER_uninterpreted_field_value(f)
#define F_TYPE(f) __CPROVER_uninterpreted_field_type(f)        /* QXmppDataForm::Field::type() */
/* the three ways QXmppDataForm::toXml writes a field's values */
static inline int field_tclass(int type)
{
  if (type == QXmppDataForm_Field_Type__BooleanField) return FT_BOOLEAN;
  if (type == QXmppDataForm_Field_Type__ListMultiField || type == QXmppDataForm_Field_Type__JidMultiField || type == QXmppDataForm_Field_Type__TextMultiField) return FT_MULTI;
  return FT_SINGLE;
}
#define F_TCLASS(f) field_tclass(F_TYPE(f))
#define F_XV(f) __CPROVER_uninterpreted_field_xv(f)
#define F_XVN(f) __CPROVER_uninterpreted_field_xvn(f)
bool __CPROVER_uninterpreted_form_isnull(qform f);
int __CPROVER_uninterpreted_form_fields(qform f);
int __CPROVER_uninterpreted_form_nfields(qform f);
#define FORM_ISNULL(f) __CPROVER_uninterpreted_form_isnull(f)
#define FORM_FIELDS(f) __CPROVER_uninterpreted_form_fields(f)
#define FORM_NFIELDS(f) __CPROVER_uninterpreted_form_nfields(f)

/* discriminators of the recorded findings (units/C20/findings.json): "every field of the form carries at least one <value/>"
   and "no field of the form is of type boolean"; their defining fact is made available at every field that is read */
bool gh_every_field_has_a_value;
bool gh_no_boolean_field;

/* A-FORM-XML (QXmppDataForm::toXml, src/base/QXmppDataForm.cpp:913-932, not verified here; exercised by replay_caps.cpp) together
   with well-typedness of the form: what a field's QVariant looks like and which <value/> children the answer carries for it
     boolean field        holds a bool b          -> one value "1" / "0"
     *-multi field        holds a QStringList L   -> the elements of L
     any other field      holds a QString s or nothing -> one value s if s is not empty, none otherwise */
static inline void field_facts(qfield f)
{
  qvar v = F_VALUE(f);
  int t = F_TCLASS(f), k = VK(v), n = F_XVN(f), xv = F_XV(f);
  __CPROVER_assume(t >= FT_SINGLE && t <= FT_BOOLEAN && n >= 0);
  if (t == FT_BOOLEAN) {
    int one = l_single(VBOOL(v) ? S("1") : S("0"));
    __CPROVER_assume(k == VK_BOOL && n == 1 && xv == one);
  } else if (t == FT_MULTI) {
    __CPROVER_assume(k == VK_STRINGLIST && VLISTN(v) >= 0 && n == VLISTN(v) && xv == VLIST(v));
  } else {
    __CPROVER_assume(k == VK_STRING || k == VK_INVALID);
    qstr s = k == VK_STRING ? VSTR(v) : 0;
    int one = l_single(s);
    __CPROVER_assume(s != 0 ? (n == 1 && xv == one) : n == 0);
  }
  __CPROVER_assume(!gh_every_field_has_a_value || n > 0);
  __CPROVER_assume(!gh_no_boolean_field || t != FT_BOOLEAN);
}
/* value-class getters of QXmppDataForm / QXmppDataForm::Field: functions of the value */
static inline bool qform_isNull(qform f) { return FORM_ISNULL(f); }
static inline void qform_fields(QLst *r, qform f) { r->id = FORM_FIELDS(f); r->n = FORM_NFIELDS(f); __CPROVER_assume(r->n >= 0); }
static inline qstr qfield_key(qfield f) { return F_KEY(f); }
static inline qvar qfield_value(qfield f) { field_facts(f); return F_VALUE(f); }
static inline int qfield_type(qfield f) { return F_TYPE(f); }

/* ---- step 3: one identity */
static inline qstr xep_identity_piece(qstr s, ident e)
{
  s = qs_app(s, ID_CAT(e)); s = qs_app(s, S("/"));
  s = qs_app(s, ID_TYPE(e)); s = qs_app(s, S("/"));
  s = qs_app(s, ID_LANG(e)); s = qs_app(s, S("/"));
  s = qs_app(s, ID_NAME(e)); s = qs_app(s, S("<"));
  return s;
}
/* ---- step 7: the values of one field, sorted, each followed by "<".  With the separator-join J(L) = v0 "<" v1 "<" .. v(n-1)
   of A-JOIN this string is J(sorted values) "<" when there is at least one value and empty when there is none. */
static inline qstr xep_values_piece(qstr s, qfield f)
{
  int n = F_XVN(f);
  if (n <= 0) return s;
  return qs_app(qs_app(s, l_join(l_sorted(F_XV(f), n, XEP_ORDER_OCTET), n, S("<"))), S("<"));
}
static inline qstr xep_field_piece(qstr s, qstr key, qfield f)
{
  s = qs_app(s, key); s = qs_app(s, S("<"));
  return xep_values_piece(s, f);
}
/* ---- step 6: the value of FORM_TYPE (its first <value/>, "" if it has none) */
static inline qstr xep_formtype_value(qfield f) { return F_XVN(f) > 0 ? LAT(F_XV(f), 0) : 0; }

/* ---- the info set of a QXmppDiscoveryIq */
typedef struct InfoSet { QLst I; QLst F; qform form; } InfoSet;
static inline InfoSet infoset_of(const QXmppDiscoveryIq *q) { InfoSet s; s.I = q->d->identities; s.F = q->d->features; s.form = q->d->form; return s; }
static inline bool infoset_eq(InfoSet a, InfoSet b) { return a.I.id == b.I.id && a.I.n == b.I.n && a.F.id == b.F.id && a.F.n == b.F.n && a.form == b.form; }
#define XEP_NI(s) ((s).I.n)
#define XEP_SI(s) l_sorted((s).I.id, (s).I.n, XEP_ORDER_IDENTITY)
#define XEP_SORTED_F(s) l_sorted((s).F.id, (s).F.n, XEP_ORDER_OCTET)
#define XEP_SF(s) l_dedup(XEP_SORTED_F(s), (s).F.n)
#define XEP_NF(s) l_dedup_n(XEP_SORTED_F(s), (s).F.n)
#define XEP_FIELDS(s) FORM_FIELDS((s).form)
#define XEP_NFIELDS(s) FORM_NFIELDS((s).form)
#define XEP_M(s) gh_XM[XEP_NFIELDS(s)]
#define XEP_M1(s) MAP_DEL(XEP_M(s), S("FORM_TYPE"))
#define XEP_K(s) l_sorted(MAP_KEYS(XEP_M1(s)), MAP_SIZE(XEP_M1(s)), XEP_ORDER_OCTET)
#define XEP_NK(s) MAP_SIZE(XEP_M1(s))
#define XEP_HAS_FORM(s) (!FORM_ISNULL((s).form) && MAP_HAS(XEP_M(s), S("FORM_TYPE")))

/* ---- "the ghost arrays are the recursive functions of info set s": lengths are not negative, base cases (contract requires);
   the step equations are instantiated by ghost hooks */
static inline bool xep_lengths_ok(InfoSet s) { return s.I.n >= 0 && s.F.n >= 0 && XEP_NF(s) >= 0 && XEP_NF(s) <= s.F.n && XEP_NFIELDS(s) >= 0 && XEP_NK(s) >= 0; }
static inline bool xep_base_cases(InfoSet s)
{
  return gh_XI[0] == 0 && gh_XF[0] == gh_XI[XEP_NI(s)] && gh_XM[0] == 0 &&
         gh_XK[0] == qs_app(qs_app(gh_XF[XEP_NF(s)], xep_formtype_value(map_value(XEP_M(s), S("FORM_TYPE")))), S("<"));
}
/* XEP-0115 5.4 (3.5): FORM_TYPE is a single-valued (hidden) field */
static inline bool xep_formtype_wellformed(InfoSet s) { return F_TCLASS(map_value(XEP_M(s), S("FORM_TYPE"))) == FT_SINGLE; }
#define XEP_DEFINED_FOR(s) (xep_lengths_ok(s) && xep_base_cases(s) && xep_formtype_wellformed(s))
#define XEP_UNFOLD_I(s, i) __CPROVER_assume(gh_XI[(i) + 1] == xep_identity_piece(gh_XI[i], LAT(XEP_SI(s), (i))))
#define XEP_UNFOLD_F(s, j) __CPROVER_assume(gh_XF[(j) + 1] == qs_app(qs_app(gh_XF[j], LAT(XEP_SF(s), (j))), S("<")))
#define XEP_UNFOLD_M(s, i) __CPROVER_assume(gh_XM[(i) + 1] == MAP_INS(gh_XM[i], F_KEY(LAT(XEP_FIELDS(s), (i))), LAT(XEP_FIELDS(s), (i))))
#define XEP_UNFOLD_K(s, k) __CPROVER_assume(gh_XK[(k) + 1] == xep_field_piece(gh_XK[k], LAT(XEP_K(s), (k)), map_value(XEP_M1(s), LAT(XEP_K(s), (k)))))

/* ---- the verification string and its hash */
static inline qstr xep_S(InfoSet s) { return XEP_HAS_FORM(s) ? gh_XK[XEP_NK(s)] : gh_XF[XEP_NF(s)]; }
#define XEP_VER(s) HASH(QCryptographicHash_Algorithm__Sha1, qstr_toUtf8(xep_S(s)))
