"""C20 -- the entity-capabilities hash is the XEP-0115 value, order- and duplicate-blind."""
import os, re
from vlib.unit import Builder, Target, VERIF, scan_assumes
from vlib.runner import Proof
from vlib.configure import REPO
import c20lower as P

QT = os.path.join(VERIF, 'qtmodel')
HERE = os.path.dirname(os.path.abspath(__file__))
DISCO = 'src/base/QXmppDiscoveryIq.cpp'
MANAGER = 'src/client/QXmppDiscoveryManager.cpp'
CLIENT = 'src/client/QXmppClient.cpp'
PRESENCE = 'src/base/QXmppPresence.cpp'
VS = 'QXmppDiscoveryIq_verificationString'
CAPS = 'QXmppDiscoveryManager_capabilities'
APC = 'QXmppClientPrivate_addProperCapability'
HIQ = 'QXmppDiscoveryManager_handleIq'


def unfold(hid, fn, loop, emit):
    return {'id': hid, 'fn': fn, 'after': r'= qlst_at\(&__range%d, __i%d\);' % (loop, loop), 'emit': emit, 'count': 1}


# ghost hooks: the step equation of a recursive specification function, instantiated at the index the loop is working on
HOOKS = [
    unfold('unfold_XI', VS, 0, '{ InfoSet is_ = infoset_of(self); XEP_UNFOLD_I(is_, __i0); }'),
    unfold('unfold_XF', VS, 1, '{ InfoSet is_ = infoset_of(self); XEP_UNFOLD_F(is_, __i1); }'),
    unfold('unfold_XM', VS, 2, '{ InfoSet is_ = infoset_of(self); XEP_UNFOLD_M(is_, __i2); }'),
    unfold('unfold_XK', VS, 3, '{ InfoSet is_ = infoset_of(self); XEP_UNFOLD_K(is_, __i3); }'),
    unfold('unfold_CF', CAPS, 0, 'CAPS_UNFOLD_F(__i0);'),
    unfold('unfold_CI', CAPS, 1, 'CAPS_UNFOLD_I(__i1);'),
]


ASSUMED = [
    'A-STR-ORDER: QString::operator< is a strict total order, operator> its converse (uninterpreted predicate; axioms instantiated on the pair compared)',
    'A-STD-SORT: std::sort(begin, end[, cmp]) and QStringList::sort() yield THE sorted permutation under the given strict order: an uninterpreted function of (list, order); lists of length <= 1 unchanged',
    'A-DEDUP: QStringList::removeDuplicates() is a function of the list; result not longer, non-empty if the argument is',
    'A-JOIN: QStringList::join(sep) is a function of (list, sep): "" for the empty list, the element for a one-element list',
    'A-QMAP: QMap insert / contains / take / value / keys are the finite-map operations (uninterpreted functions of the map value); keys() is in ascending key order',
    'A-QVARIANT: canConvert<QStringList>() holds for QString and QStringList; toStringList() of a QString s is [s] (also for ""), toString() of bool is "true"/"false", of a one-element list that element, else "" (Qt 5.15)',
    'A-SHA1/UTF8/CONCAT: QCryptographicHash(alg).addData(x).result(), QString::toUtf8 and string concatenation are free constructors (congruence only; s + "" = s)',
    'A-UTF16-OCTET: where no two strings of the info set are ordered differently by UTF-16 code units and by UTF-8 bytes, sorting by QString < (and by the lexicographic 4-tuple order of it) gives the i;octet-sorted list; the other inputs are finding C20-utf16-collation',
    'A-FORM-XML + well-typed fields: a boolean field holds a bool and is answered as one <value> 1/0, a *-multi field holds a QStringList answered element by element, any other field holds a QString (or nothing) answered as one <value> if not empty (QXmppDataForm::toXml, not verified here; exercised by replay_caps.cpp)',
    'value-class getters are functions of the value: Identity::category/type/language/name, Field::key/value, QXmppDataForm::isNull/fields; Identity setters are functional updates',
    'the recursive specification functions XI, XF, XM, XK (xep0115.h) and CF, CI (caps.h) are ghost arrays; base cases in the contract requires, step equations assumed by ghost hooks at the loop index (definition by primitive recursion, independent of the code)',
    'XEP-0115 5.4 (3.5) as precondition: the FORM_TYPE field is single-valued (not *-multi); QueryType is InfoQuery or ItemsQuery',
    'A-EXT-PURE: client()->extensions(), QXmppClientExtension::discoveryFeatures()/discoveryIdentities() and QXmppClientPrivate::discoveryFeatures() are functions of the (unchanged) client state; QList::append succeeds (size below the QList maximum)',
    'QXmppClient::findExtension<QXmppDiscoveryManager>() returns the installed discovery manager of this client (its client() is this client) or nullptr',
    'QXmppDiscoveryIq() has empty identity/feature lists, a null form, an empty node; QXmppIq::setType sets the IQ type only',
]
NOT_COVERED = [
    'the converse direction of the statement (the hash changes whenever an identity, feature or form value is added, removed or altered): S is not injective by design of XEP-0115 (a "<" inside a value) and SHA-1 is not modelled beyond congruence',
    'order-/duplicate-blindness for lists of every length: follows from the comparator lemma + A-STD-SORT/A-DEDUP (uniqueness of the sorted permutation), shown by CBMC only as the bounded stand-in (length <= 4)',
    'base64 of the ver attribute, QXmppPresence::toXml/parse, QXmppDataForm::toXml/parse',
    'more than one extension form (QXmppDiscoveryIq holds one), forms that repeat a var (excluded by XEP-0004 3.2), ill-typed QVariants in fields',
    'the call sites of addProperCapability (QXmppClient.cpp:302, 464, 867) and the dispatch of incoming disco#info requests to handleIq',
    'what the extensions and QXmppClientPrivate::discoveryFeatures() return',
]


def rd(name):
    return open(os.path.join(HERE, name)).read()


def labelled(p, cname, sp):
    p.labels = {'post': {cname: sp.labels}, 'inv': {cname: [l for i in sorted(sp.inv_labels) for l in sp.inv_labels[i]]}}
    p.expect_post = len(sp.labels)
    return p


def build(work, tier):
    prof = P.profile()
    prof.hooks = HOOKS
    b = Builder('C20', work, prof)
    proofs = []
    callees = {}     # repository callees each lowered function really calls (a callee that is no longer called cannot be replaced)

    def low(src, cls, name, cname, spec=None, this=True, **kw):
        sp = b.spec(spec) if spec else None
        t = Target(src, (cls + '::' if cls else '') + name, name, cname, this=cls if this else None, lowerer_cls=P.CapsLowerer, **kw)
        text = b.lower(t, sp)
        callees[cname] = set(b.last.repo_callees)
        return sp, text

    # ---------------------------------------------------------------- lowering of the real functions
    sp_lt, t_lt = low(DISCO, None, 'identityLessThan', 'identityLessThan', 'identityLessThan.spec', this=False)
    sp_vs, t_vs = low(DISCO, 'QXmppDiscoveryIq', 'verificationString', VS, 'verificationString.spec')
    small = []      # one-line accessors of the value classes: lowered and inlined into their callers (no contract of their own)
    for name in ('setFeatures', 'setIdentities', 'setForm', 'setQueryNode', 'setQueryType', 'queryNode', 'queryType'):
        small.append(low(DISCO, 'QXmppDiscoveryIq', name, 'QXmppDiscoveryIq_' + name)[1])
    for name in ('clientCategory', 'clientType', 'clientName', 'clientCapabilitiesNode'):
        small.append(low(MANAGER, 'QXmppDiscoveryManager', name, 'QXmppDiscoveryManager_' + name)[1])
    for name in ('setCapabilityHash', 'setCapabilityNode', 'setCapabilityVer', 'capabilityHash', 'capabilityNode', 'capabilityVer'):
        small.append(low(PRESENCE, 'QXmppPresence', name, 'QXmppPresence_' + name)[1])
    sp_caps, t_caps = low(MANAGER, 'QXmppDiscoveryManager', 'capabilities', CAPS, 'capabilities.spec')
    sp_hiq, t_hiq = low(MANAGER, 'QXmppDiscoveryManager', 'handleIq', HIQ, 'handleIq.spec')
    sp_apc, t_apc = low(CLIENT, 'QXmppClientPrivate', 'addProperCapability', APC, 'addProperCapability.spec')
    # the specification names the field types whether or not the code does
    b.need_enums.setdefault((os.path.join(REPO, DISCO), ()), {}).setdefault('QXmppDataForm::Field::Type', set()).update({'BooleanField', 'ListMultiField', 'JidMultiField', 'TextMultiField'})
    context = b.context()
    recs = []
    for src, cls in ((DISCO, 'QXmppDiscoveryIqPrivate'), (DISCO, 'QXmppDiscoveryIq'), (MANAGER, 'QXmppDiscoveryManagerPrivate'), (MANAGER, 'QXmppDiscoveryManager'),
                     (PRESENCE, 'QXmppPresencePrivate'), (PRESENCE, 'QXmppPresence'), (CLIENT, 'QXmppClientPrivate')):
        text, _ = P.emit_record(os.path.join(REPO, src), cls, cls, cls, prof)
        if cls == 'QXmppDiscoveryIq':
            text = text.replace('{\n', '{\n  int iq_type;   /* base class QXmppIq: the IQ type */\n', 1)
        recs.append(text)
    typedefs = 'typedef int qclient; typedef int qext;\n'
    body = b.subst(rd('model.h')) + typedefs + context + '\n' + '\n'.join(recs) + '\n' + b.subst(rd('xep0115.h')) + '\n'
    body2 = b.subst(rd('caps.h').replace('typedef int qclient;', '').replace('typedef int qext; ', '')) + '\n'
    head = prof.literal_ids.table() + body     # the table is complete only after every S("..") was substituted
    alltext = head + body2
    # ---------------------------------------------------------------- identityLessThan + order lemma
    c = head + t_lt + '\nvoid h_lt(void) { ident a = nondet_int(), b = nondet_int(); identityLessThan(a, b); }\n'
    f = b.write('identityLessThan.c', c)
    p = Proof('identityLessThan', f, 'h_lt', enforce='identityLessThan', kind='complete', loop_contracts=False, include_dirs=[QT], timeout=300,
              note='loop-free; every pair of identities (opaque strings with a strict total order)')
    proofs.append(labelled(p, 'identityLessThan', sp_lt))
    c = head + b.prototype(t_lt) + rd('lemma_order.h')
    f = b.write('lemma_order.c', c)
    alltext += c
    p = Proof('lemma.identityLessThan_is_a_strict_total_order', f, 'lemma_order', replace=['identityLessThan'], kind='complete', loop_contracts=False, include_dirs=[QT], timeout=300,
              note='uses only the contract of identityLessThan and the order axioms of QString <; three arbitrary identities')
    p.expect_post = 5
    proofs.append(p)
    # ---------------------------------------------------------------- verificationString
    c = head + t_vs + '\nvoid h_vs(void) { gh_every_field_has_a_value = nondet_bool(); gh_no_boolean_field = nondet_bool(); gh_qstring_order_is_octet_order = nondet_bool(); const QXmppDiscoveryIq *self; %s(self); }\n' % VS
    f = b.write('verificationString.c', c)
    alltext += c
    for pid, defs, finding in (('verificationString', ['FINDING_EXCLUDED'], None),
                               ('verificationString.field_without_value', ['FINDING_ONLY_VALUELESS'], 'C20-valueless-field'),
                               ('verificationString.boolean_field', ['FINDING_ONLY_BOOLEAN'], 'C20-boolean-field'),
                               ('verificationString.strings_ordered_differently_by_utf16_and_utf8', ['FINDING_ONLY_COLLATION'], 'C20-utf16-collation')):
        p = Proof(pid, f, 'h_vs', enforce=VS, kind='contract', expect_loops=4, include_dirs=[QT], defines=defs, timeout=900,
                  note='four loops closed by loop contracts: identity lists, feature lists and forms of every length')
        if finding:
            p.finding = finding
        proofs.append(labelled(p, VS, sp_vs))
    # ---------------------------------------------------------------- capabilities() and its two users
    smalltext = '\n'.join(small) + '\n'
    c = head + body2 + smalltext + t_caps + '\nvoid h_caps(void) { gh_client = nondet_int(); QXmppDiscoveryManager *self; QXmppDiscoveryIq *ret; %s(self, ret); }\n' % CAPS
    f = b.write('capabilities.c', c)
    alltext += c
    p = Proof('capabilities', f, 'h_caps', enforce=CAPS, kind='contract', expect_loops=2, include_dirs=[QT], timeout=900,
              note='two loops over the extension list closed by loop contracts: every number of extensions, null entries included')
    proofs.append(labelled(p, CAPS, sp_caps))
    vs_proto = b.prototype(t_vs)
    caps_proto = b.prototype(t_caps)
    c = head + body2 + smalltext + vs_proto + caps_proto + t_apc + \
        '\nvoid h_apc(void) { gh_client = nondet_int(); gh_every_field_has_a_value = nondet_bool(); gh_no_boolean_field = nondet_bool(); gh_qstring_order_is_octet_order = nondet_bool(); QXmppDiscoveryManager *m; gh_disco = m; QXmppClientPrivate *self; QXmppPresence *presence; %s(self, presence); }\n' % APC
    f = b.write('addProperCapability.c', c)
    alltext += c
    p = Proof('addProperCapability', f, 'h_apc', enforce=APC, replace=[c_ for c_ in (CAPS, VS) if c_ in callees[APC]], kind='complete', loop_contracts=False, include_dirs=[QT], defines=['FINDING_EXCLUDED'], timeout=600,
              note='loop-free; capabilities() and verificationString() used through the contracts they were verified against')
    proofs.append(labelled(p, APC, sp_apc))
    c = head + body2 + smalltext + caps_proto + t_hiq + '\nvoid h_hiq(void) { gh_client = nondet_int(); QXmppDiscoveryManager *self; IqResult *ret; QXmppDiscoveryIq *iq; %s(self, ret, iq); }\n' % HIQ
    f = b.write('handleIq.c', c)
    alltext += c
    p = Proof('handleIq', f, 'h_hiq', enforce=HIQ, replace=[c_ for c_ in (CAPS,) if c_ in callees[HIQ]], kind='complete', loop_contracts=False, include_dirs=[QT], timeout=600,
              note='loop-free; capabilities() used through its contract')
    proofs.append(labelled(p, HIQ, sp_hiq))
    c = head + body2 + b.prototype(t_apc) + b.prototype(t_hiq) + b.subst(rd('lemma_same_source.h'))
    f = b.write('lemma_same_source.c', c)
    alltext += c
    p = Proof('lemma.advertised_hash_equals_hash_of_the_answered_info_set', f, 'lemma_same_source', replace=[APC, HIQ], kind='complete', loop_contracts=False, include_dirs=[QT],
              defines=['FINDING_EXCLUDED'], timeout=600, note='uses only the contracts of addProperCapability and handleIq')
    p.expect_post = 3
    proofs.append(p)
    # ---------------------------------------------------------------- bounded stand-in: order- / duplicate-blindness of the whole hash
    b2 = Builder('C20', work, prof)      # the same real functions, lowered without contract clauses
    u_lt = b2.lower(Target(DISCO, 'identityLessThan', 'identityLessThan', 'identityLessThan', lowerer_cls=P.CapsLowerer))
    u_vs = b2.lower(Target(DISCO, 'QXmppDiscoveryIq::verificationString', 'verificationString', VS, this='QXmppDiscoveryIq', lowerer_cls=P.CapsLowerer))
    c = prof.literal_ids.table() + '#define C20_BOUNDED 1\n' + b.subst(rd('model.h')) + typedefs + context + '\n' + '\n'.join(recs[:2]) + '\n' + b.subst(rd('bounded.h')) + u_lt + '\n' + u_vs + '\n' + rd('bounded_harness.h')
    f = b.write('bounded_permutation.c', c)
    alltext += c
    modes = ((0, 'identities_exchanged'), (1, 'features_exchanged'), (2, 'feature_repeated'), (3, 'form_fields_exchanged'), (4, 'field_values_exchanged'))
    for m, what in modes:
        p = Proof('bounded.hash_blind_to.' + what, f, 'h_perm', kind='bounded', loop_contracts=False, unwind=5, include_dirs=[QT], timeout=1500,
                  defines=['BOUNDED_MODE=%d' % m], no_std_checks=True, flags=['--no-standard-checks'],
                  bound_text='lists of length <= 4 (identities, features, form fields, values of a field), strings drawn from 8 values with one concrete total order; '
                             'concrete insertion sort calling the lowered identityLessThan; the two info sets differ by one exchange of neighbours / one repeated feature',
                  note='the lowered real verificationString runs on two info sets that differ by one elementary reordering / repetition; not counted as proved')
        p.expect_post = 1
        proofs.append(p)
    return {
        'proofs': proofs, 'functions': b.functions, 'dropped': b.dropped, 'fired': b.fired, 'hooks': HOOKS,
        'assumed': ASSUMED,
        'assumes': scan_assumes(alltext),
        'not_covered': NOT_COVERED,
        'explanation': 'XEP-0115 5.1 written as recursive functions of the info set (ghost arrays, units/C20/xep0115.h); the verified text is the lowered real code; '
                       'three input classes are recorded findings and verified separately; order-/duplicate-blindness of the whole hash only as a bounded stand-in',
    }


# ---------------------------------------------------------------------------------------------- native replay
def _run_native(arg):
    from vlib import native
    return native.run_driver(os.path.join(HERE, 'replay_caps.cpp'), [str(arg)])


def find_input(unit, p, o, lab, work):
    """a violated obligation of verificationString / identityLessThan: look for a concrete info set among the driver's scenarios
    outside the recorded findings for which the REAL verificationString differs from the independent XEP-0115 implementation"""
    if not re.search(r'verificationString|identityLessThan', p.id):
        return None
    rc, out = _run_native('regress')
    m = re.search(r'^(\S+)\s+VIOLATED[^\n]*', out, re.M)
    if rc == 1 and m:
        return {'inputs': {'driver': 'units/C20/replay_caps.cpp', 'arg': m.group(1), 'what': m.group(0)[:300]}, 'reproduced': True, 'native_output': out[-3000:]}
    return None


def native_replay(rp):
    rc, out = _run_native(rp['inputs']['arg'])
    return rc == 1 and 'VIOLATED' in out, out
