/* C20 lemma: the hash the client advertises in presence equals the XEP-0115 hash of what it answers to a disco#info query.
 * Only CONTRACTS are used: addProperCapability (presence <c ver=.../>) and handleIq (the disco#info answer) are replaced by
 * the contracts the real functions were verified against; both are stated over the same function CAPS(state) of the
 * unchanged client state, which is what "same source" means. */
void lemma_same_source(void)
{
  QXmppDiscoveryManagerPrivate md; QXmppDiscoveryManager m; m.d = &md;
  md.clientCapabilitiesNode = nondet_qstr(); md.clientCategory = nondet_qstr(); md.clientType = nondet_qstr(); md.clientName = nondet_qstr(); md.clientInfoForm = nondet_int();
  gh_disco = &m; gh_client = nondet_int();
  gh_every_field_has_a_value = true; gh_no_boolean_field = true; gh_qstring_order_is_octet_order = true;        /* outside the recorded findings */
  __CPROVER_assume(CAPS_DEFINED_FOR(&m));
  InfoSet caps = caps_infoset(&m);
  __CPROVER_assume(XEP_DEFINED_FOR(caps));
  /* the client advertises its capabilities in a presence */
  QXmppClientPrivate cp; cp.q = gh_client;
  QXmppPresencePrivate pp; QXmppPresence pres; pres.d = &pp;
  QXmppClientPrivate_addProperCapability(&cp, &pres);
  /* a peer asks disco#info for the advertised node (or without node) */
  QXmppDiscoveryIqPrivate rqd; QXmppDiscoveryIq rq; rq.d = &rqd;
  rqd.queryType = QXmppDiscoveryIq_QueryType__InfoQuery; rqd.queryNode = nondet_qstr();
  __CPROVER_assume(HIQ_NODE_OK(&m, &rq));
  IqResult ans;
  QXmppDiscoveryManager_handleIq(&m, &ans, &rq);
  __CPROVER_assert(ans.which == 0, "[lemma.info_query_for_the_advertised_node_is_answered] the answer is an IQ result, not an error");
  __CPROVER_assert(ans.which != 0 || pp.capabilityVer == XEP_VER(infoset_of(&ans.iq)), "[lemma.advertised_ver_is_the_XEP0115_hash_of_the_answered_info_set] <c ver/> == SHA-1(utf8(S(answer)))");
  __CPROVER_assert(pp.capabilityHash == S("sha-1") && pp.capabilityNode == md.clientCapabilitiesNode, "[lemma.advertised_hash_function_and_node] hash='sha-1', node = the node the manager answers for");
}
