/* C20 lemma: identityLessThan is a strict total order on identities (up to equality of the four components).
 * Only the CONTRACT of identityLessThan is used (the call is replaced by the contract the real function was verified against)
 * together with A-STR-ORDER for the component strings: QString's `<` is irreflexive, asymmetric, transitive and total.
 * This is what makes "the sorted permutation under identityLessThan" unique (A-STD-SORT), hence the hash blind to the order in
 * which the identities are listed. */
#define B(x) ((x) ? 1 : 0)
/* A-STR-ORDER on three strings x, y, z (each application of the order is evaluated once) */
static void str_order_axioms(qstr x, qstr y, qstr z)
{
  bool xy = STR_LT(x, y), yx = STR_LT(y, x), yz = STR_LT(y, z), zy = STR_LT(z, y), xz = STR_LT(x, z), zx = STR_LT(z, x);
  bool xx = STR_LT(x, x), yy = STR_LT(y, y), zz = STR_LT(z, z);
  __CPROVER_assume(!xx && !yy && !zz);                                              /* irreflexive */
  __CPROVER_assume(!(xy && yx) && !(yz && zy) && !(xz && zx));                      /* asymmetric */
  __CPROVER_assume((x == y || xy || yx) && (y == z || yz || zy) && (x == z || xz || zx));   /* total */
  __CPROVER_assume((!(xy && yz) || xz) && (!(xz && zy) || xy) && (!(yx && xz) || yz) &&
                   (!(yz && zx) || yx) && (!(zx && xy) || zy) && (!(zy && yx) || zx));      /* transitive */
}
void lemma_order(void)
{
  ident a = nondet_int(), b = nondet_int(), c = nondet_int();
  qstr ca = ID_CAT(a), cb = ID_CAT(b), cc = ID_CAT(c), ta = ID_TYPE(a), tb = ID_TYPE(b), tc = ID_TYPE(c);
  qstr la = ID_LANG(a), lb = ID_LANG(b), lc = ID_LANG(c), na = ID_NAME(a), nb = ID_NAME(b), nc = ID_NAME(c);
  str_order_axioms(ca, cb, cc);
  str_order_axioms(ta, tb, tc);
  str_order_axioms(la, lb, lc);
  str_order_axioms(na, nb, nc);
  int aa = B(identityLessThan(a, a)), ab = B(identityLessThan(a, b)), ba = B(identityLessThan(b, a));
  int bc = B(identityLessThan(b, c)), ac = B(identityLessThan(a, c));
  bool same = ca == cb && ta == tb && la == lb && na == nb;
  __CPROVER_assert(!aa, "[lemma.identityLessThan_irreflexive] no identity is less than itself");
  __CPROVER_assert(!(ab && ba), "[lemma.identityLessThan_asymmetric] never a < b and b < a");
  __CPROVER_assert(!(ab && bc) || ac, "[lemma.identityLessThan_transitive] a < b and b < c imply a < c");
  __CPROVER_assert(same || ab || ba, "[lemma.identityLessThan_total_on_distinct_4_tuples] identities that differ in a component are ordered");
  __CPROVER_assert(!same || (!ab && !ba), "[lemma.identityLessThan_equal_4_tuples_are_unordered] identities with equal components are not ordered");
}
