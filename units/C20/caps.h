/* C20, second part -- "the hash the client advertises in presence equals the hash of what it answers to a disco#info query":
 * models (ASSUMED) of what QXmppDiscoveryManager::capabilities() reads, and the specification of the client's capabilities.
 *
 * State the capabilities are built from (all of it read-only for the three functions under contract):
 *     the discovery manager's private data           m->d->{clientCategory, clientType, clientName, clientInfoForm, clientCapabilitiesNode}
 *     the client's extension list                    E = client()->extensions(), handles e (0 = null pointer)
 *     each extension's discoveryFeatures() / discoveryIdentities()    virtual getters: functions of the extension (A-EXT-PURE)
 *     QXmppClientPrivate::discoveryFeatures()        the client's base feature list: a constant list (not looked into)
 *
 * The client's info set CAPS(m) (from the documentation of capabilities(): "the client's full capabilities"):
 *     features    CF[0] = base features                    CF[i+1] = CF[i] ++ features(E[i])    if E[i] is not null, else CF[i]
 *     identities  CI[0] = [ (category, type, "", name) ]   CI[i+1] = CI[i] ++ identities(E[i])  if E[i] is not null, else CI[i]
 *     form        the client info form, absent if that is null
 * CF / CI live in ghost arrays like the recursive functions of xep0115.h (base cases in `requires`, steps by ghost hooks). */
typedef int qclient;   /* QXmppClient *           (handle) */
typedef int qext;      /* QXmppClientExtension *  (handle, 0 = nullptr) */
qclient gh_client;     /* the client this manager / this private object belongs to */

/* ---------------------------------------------------------------- QList append (A-QLIST) */
int __CPROVER_uninterpreted_list_app(int l1, int n1, int l2, int n2);
static inline int l_app(int l1, int n1, int l2, int n2) { return n2 <= 0 ? l1 : n1 <= 0 ? l2 : __CPROVER_uninterpreted_list_app(l1, n1, l2, n2); }
static inline int l_app_n(int n1, int n2) { return (n1 >= 0 && n2 >= 0 && n1 <= QLIST_MAX - n2) ? n1 + n2 : QLIST_MAX; }
static inline void qlst_append_list(QLst *l, const QLst *m)
{
  __CPROVER_assume(l->n >= 0 && m->n >= 0 && l->n <= QLIST_MAX - m->n);     /* the append succeeded */
  l->id = l_app(l->id, l->n, m->id, m->n);
  l->n = l_app_n(l->n, m->n);
}
/* ---------------------------------------------------------------- QXmppDiscoveryIq::Identity as a value with functional setters */
ident __CPROVER_uninterpreted_ident_make(qstr c, qstr t, qstr l, qstr n);
static inline ident id_make(qstr c, qstr t, qstr l, qstr n)
{
  ident e = __CPROVER_uninterpreted_ident_make(c, t, l, n);
  __CPROVER_assume(ID_CAT(e) == c && ID_TYPE(e) == t && ID_LANG(e) == l && ID_NAME(e) == n);
  return e;
}
/* value 0 is the default-constructed identity: four empty strings */
static inline void ident_default(ident e) { if (e == 0) __CPROVER_assume(ID_CAT(e) == 0 && ID_TYPE(e) == 0 && ID_LANG(e) == 0 && ID_NAME(e) == 0); }
static inline void ident_setCategory(ident *e, qstr v) { ident_default(*e); *e = id_make(v, ID_TYPE(*e), ID_LANG(*e), ID_NAME(*e)); }
static inline void ident_setType(ident *e, qstr v) { ident_default(*e); *e = id_make(ID_CAT(*e), v, ID_LANG(*e), ID_NAME(*e)); }
static inline void ident_setLanguage(ident *e, qstr v) { ident_default(*e); *e = id_make(ID_CAT(*e), ID_TYPE(*e), v, ID_NAME(*e)); }
static inline void ident_setName(ident *e, qstr v) { ident_default(*e); *e = id_make(ID_CAT(*e), ID_TYPE(*e), ID_LANG(*e), v); }

/* ---------------------------------------------------------------- the client, its extensions (A-EXT-PURE) */
int __CPROVER_uninterpreted_client_exts(qclient c);
int __CPROVER_uninterpreted_client_nexts(qclient c);
int __CPROVER_uninterpreted_ext_features(qext e);
int __CPROVER_uninterpreted_ext_nfeatures(qext e);
int __CPROVER_uninterpreted_ext_identities(qext e);
int __CPROVER_uninterpreted_ext_nidentities(qext e);
int __CPROVER_uninterpreted_base_features(void);
int __CPROVER_uninterpreted_base_nfeatures(void);
#define EXTS(c) __CPROVER_uninterpreted_client_exts(c)
#define NEXTS(c) __CPROVER_uninterpreted_client_nexts(c)
#define EXT_F(e) __CPROVER_uninterpreted_ext_features(e)
#define EXT_NF(e) __CPROVER_uninterpreted_ext_nfeatures(e)
#define EXT_I(e) __CPROVER_uninterpreted_ext_identities(e)
#define EXT_NI(e) __CPROVER_uninterpreted_ext_nidentities(e)
#define BASE_F __CPROVER_uninterpreted_base_features()
#define BASE_NF __CPROVER_uninterpreted_base_nfeatures()
static inline void qclient_extensions(QLst *r, qclient c) { r->id = EXTS(c); r->n = NEXTS(c); __CPROVER_assume(r->n >= 0); }
static inline void qext_discoveryFeatures(QLst *r, qext e) { r->id = EXT_F(e); r->n = EXT_NF(e); __CPROVER_assume(r->n >= 0 && r->n <= QLIST_MAX); }
static inline void qext_discoveryIdentities(QLst *r, qext e) { r->id = EXT_I(e); r->n = EXT_NI(e); __CPROVER_assume(r->n >= 0 && r->n <= QLIST_MAX); }
static inline void QXmppClientPrivate_discoveryFeatures(QLst *r) { r->id = BASE_F; r->n = BASE_NF; __CPROVER_assume(r->n >= 0 && r->n <= QLIST_MAX); }

/* ---------------------------------------------------------------- QXmppDiscoveryIq: default constructor, QXmppIq::setType (ASSUMED) */
void *malloc(size_t);
static inline void QXmppDiscoveryIq_ctor(QXmppDiscoveryIq *q)
{
  QXmppDiscoveryIqPrivate *p = malloc(sizeof(QXmppDiscoveryIqPrivate));
  __CPROVER_assume(p != NULL);
  p->features.id = 0; p->features.n = 0; p->identities.id = 0; p->identities.n = 0;
  p->form = 0; p->queryNode = 0; p->queryType = nondet_int();     /* `new QXmppDiscoveryIqPrivate` leaves queryType indeterminate */
  __CPROVER_assume(FORM_ISNULL(0));                               /* value 0 is the default-constructed (null) form */
  q->d = p;
  q->iq_type = nondet_int();
}
static inline void QXmppDiscoveryIq_setType(QXmppDiscoveryIq *q, int t) { q->iq_type = t; }

/* ---------------------------------------------------------------- handleIq's result: std::variant<QXmppDiscoveryIq, QXmppStanza::Error> */
typedef struct StanzaError { int type; int condition; qstr text; } StanzaError;
typedef struct IqResult { int which; QXmppDiscoveryIq iq; StanzaError error; } IqResult;    /* which: 0 = the IQ, 1 = the error */
static inline void StanzaError_ctor(StanzaError *e, int type, int condition, qstr text) { e->type = type; e->condition = condition; e->text = text; }
static inline void IqResult_from_error(IqResult *r, const StanzaError *e) { r->which = 1; r->error = *e; r->iq.d = NULL; r->iq.iq_type = 0; }
static inline void IqResult_from_iq(IqResult *r, const QXmppDiscoveryIq *q) { r->which = 0; r->iq = *q; r->error.type = 0; r->error.condition = 0; r->error.text = 0; }

/* ---------------------------------------------------------------- the specification: CAPS(m) */
extern int gh_CF_id[__CPROVER_constant_infinity_uint];
extern int gh_CF_n[__CPROVER_constant_infinity_uint];
extern int gh_CI_id[__CPROVER_constant_infinity_uint];
extern int gh_CI_n[__CPROVER_constant_infinity_uint];
static inline bool caps_lengths_ok(void) { return NEXTS(gh_client) >= 0 && BASE_NF >= 0 && BASE_NF <= QLIST_MAX; }
static inline ident caps_own_identity(const QXmppDiscoveryManager *m) { return id_make(m->d->clientCategory, m->d->clientType, 0, m->d->clientName); }
static inline bool caps_base_cases(const QXmppDiscoveryManager *m)
{
  return gh_CF_id[0] == l_app(0, 0, BASE_F, BASE_NF) && gh_CF_n[0] == l_app_n(0, BASE_NF) && gh_CI_id[0] == l_single(caps_own_identity(m)) && gh_CI_n[0] == 1;
}
#define CAPS_DEFINED_FOR(m) (caps_lengths_ok() && caps_base_cases(m))
#define CAPS_EXT(i) LAT(EXTS(gh_client), (i))
#define CAPS_UNFOLD_F(i) __CPROVER_assume(CAPS_EXT(i) != 0 \
    ? (gh_CF_id[(i) + 1] == l_app(gh_CF_id[i], gh_CF_n[i], EXT_F(CAPS_EXT(i)), EXT_NF(CAPS_EXT(i))) && gh_CF_n[(i) + 1] == l_app_n(gh_CF_n[i], EXT_NF(CAPS_EXT(i)))) \
    : (gh_CF_id[(i) + 1] == gh_CF_id[i] && gh_CF_n[(i) + 1] == gh_CF_n[i]))
#define CAPS_UNFOLD_I(i) __CPROVER_assume(CAPS_EXT(i) != 0 \
    ? (gh_CI_id[(i) + 1] == l_app(gh_CI_id[i], gh_CI_n[i], EXT_I(CAPS_EXT(i)), EXT_NI(CAPS_EXT(i))) && gh_CI_n[(i) + 1] == l_app_n(gh_CI_n[i], EXT_NI(CAPS_EXT(i)))) \
    : (gh_CI_id[(i) + 1] == gh_CI_id[i] && gh_CI_n[(i) + 1] == gh_CI_n[i]))
static inline InfoSet caps_infoset(const QXmppDiscoveryManager *m)
{
  InfoSet s; int n = NEXTS(gh_client);
  s.F.id = gh_CF_id[n]; s.F.n = gh_CF_n[n]; s.I.id = gh_CI_id[n]; s.I.n = gh_CI_n[n];
  s.form = FORM_ISNULL(m->d->clientInfoForm) ? 0 : m->d->clientInfoForm;
  return s;
}

/* QXmppClient::findExtension<QXmppDiscoveryManager>(): the installed discovery manager of this client, or nullptr (ASSUMED) */
QXmppDiscoveryManager *gh_disco;
static inline QXmppDiscoveryManager *qclient_findDiscoveryManager(qclient c) { MODEL_LIMIT(c == gh_client, "findExtension on another client"); return gh_disco; }
/* QString::indexOf(ch) / QString::left(n) (ASSUMED, opaque): indexOf is some position or -1; left(n) is SOME prefix of the string
   (the whole string for n < 0 -- Qt 5 -- , empty for n == 0); which prefix is not known */
int __CPROVER_uninterpreted_str_indexof(qstr x, quint16 c);
qstr __CPROVER_uninterpreted_str_left(qstr x, int n);
static inline int qstr_indexOf(qstr x, quint16 c) { if (x == 0) return -1; int i = __CPROVER_uninterpreted_str_indexof(x, c); __CPROVER_assume(i >= -1); return i; }
static inline qstr qstr_left(qstr x, int n)
{
  if (x == 0 || n == 0) return 0;
  if (n < 0) return x;
  qstr r = __CPROVER_uninterpreted_str_left(x, n);
  __CPROVER_assume(r != 0 && (r == x || __CPROVER_uninterpreted_str_startsWith(x, r)));
  return r;
}
/* handleIq: a query names no node, or a node that starts with the client's capabilities node (node#ver) */
#define HIQ_NODE_OK(m, q) ((q)->d->queryNode == 0 || qstr_startsWith((q)->d->queryNode, (m)->d->clientCapabilitiesNode))
