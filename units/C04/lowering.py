"""C04: lowering profile and Lowerer subclass for the client's negotiation handlers (QXmppOutgoingClient.cpp).

Unit-local extensions of the lowering (all mechanical, all must-fire):
  * reference-returning getters of a modelled class (`QXmppConfiguration &configuration()`) return a pointer;
  * `std::visit(overloaded{lambda...}, variant)` becomes a switch over the variant's index; the arm of alternative i is the
    body of the *instantiated* `operator()` (taken from the AST) whose parameter type is that alternative;
  * `serializeXml(T{...})` becomes the payload class constant XML_<T> (what is sent is classified by its C++ type);
  * `task.then(ctx, lambda)` registers a continuation (the lambda body is NOT run here; it is a separate target);
  * `d->setListener<T>(args)` becomes the contracted callee setListener_<T>.
"""
import re
from vlib.cxx2c import Lowerer, Unsupported, qt, dqt, strip_type, split_top, line_of
from vlib.opaque_profile import opaque_profile

PRIV = 'QXmpp::Private::'


def short(t):
    """type name without namespace qualification and cv/ref decoration"""
    return strip_type(t).replace(PRIV, '').replace('QXmpp::', '')


def variant_alternatives(type_str):
    """alternative list of a std::variant type string, in declaration order"""
    s = strip_type(type_str)
    m = re.match(r'(?:std::)?variant<(.*)>$', s)
    if not m:
        raise Unsupported('not a std::variant: %s' % type_str)
    return [short(a) for a in split_top(m.group(1))]


def alt_cname(alt):
    return 'alt_' + re.sub(r'\W+', '_', alt.replace('*', 'Ptr')).strip('_')


class C04Lowerer(Lowerer):
    listener_alts = None     # filled by the unit from the real field type of QXmppOutgoingClientPrivate::listener

    def __init__(self, *a, **kw):
        super().__init__(*a, **kw)
        self.continuations = []   # LambdaExpr nodes passed to .then(), in source order
        self.ret_ref = False

    # ---------------------------------------------------------------- reference-returning getters
    def lower(self, extra_params=()):
        m = re.match(r'auto (\(.*\)(?: const)?(?: noexcept)?) -> (.+)$', qt(self.decl))
        if m:
            # lambda call operator written with a trailing return type: `auto (...) const -> R`  ==  `R (...) const`
            self.decl = dict(self.decl, type=dict(self.decl['type'], qualType='%s %s' % (m.group(2), m.group(1))))
            self.fire('signature:trailing-return-type')
        rett = qt(self.decl).split('(')[0].strip()
        if rett.endswith('&') and not rett.endswith('&&'):
            try:
                ct = self.ctype(rett)
            except Unsupported:
                ct = None
            if ct in self.p.class_types:
                self.ret_ref = True
        text = super().lower(extra_params)
        if self.ret_ref:
            lines = text.split('\n')
            sig = lines[0]
            m = re.match(r'void (\w+)\((.*)\)$', sig)
            ps = [p for p in split_top(m.group(2)) if not p.strip().endswith('*_ret')]
            lines[0] = '%s *%s(%s)' % (self.ret_ctype, m.group(1), ','.join(ps).strip())
            self.signature = lines[0]
            self.fire('return:class-reference-as-pointer')
            text = '\n'.join(lines)
        return text

    def ret(self, n, sp):
        if self.ret_ref and n.get('inner'):
            e = self.expr(self.skip(n['inner'][0]))
            self.flush(sp)
            self.emit('%sreturn %s;' % (sp, self.addr_of(e)))
            return
        return super().ret(n, sp)

    # ---------------------------------------------------------------- member calls with unit rules (arguments not lowered)
    def membercall(self, n):
        me = self.skip(n['inner'][0])
        if me.get('kind') == 'MemberExpr' and me.get('inner'):
            base = self.skip(me['inner'][0])
            try:
                cls = self.class_key(base, me.get('isArrow'))
            except Unsupported:
                cls = None
            if cls == 'QTimer' and me.get('name') in ('start', 'stop', 'setInterval', 'isActive'):
                return self.lower_timer(n, me, base)
            if cls == 'StreamAckManager' and me.get('name') == 'send':
                return self.lower_send(n, me, base)
        return super().membercall(n)

    def lower_timer(self, n, me, base):
        """QTimer::start() / start(duration) / stop() / setInterval(duration): the duration expression (chrono arithmetic) is not
        lowered -- it must be free of side effects; the timer model only records armed / not armed"""
        args = [a for a in n['inner'][1:] if a.get('kind') != 'CXXDefaultArgExpr']
        for a in args:
            if not self.pure(a):
                raise Unsupported('QTimer::%s with an argument that has side effects' % me['name'])
        obj = self.expr(base) if me.get('isArrow') else self.addr(base)
        name = me['name']
        key = 'QTimer::%s/%d' % (name, len(args))
        if key == 'QTimer::isActive/0':
            self.fire(key)
            return '((%s)->active)' % obj
        fn = {'QTimer::start/0': 'QTimer_start', 'QTimer::start/1': 'QTimer_start_with_interval', 'QTimer::stop/0': 'QTimer_stop',
              'QTimer::setInterval/1': 'QTimer_setInterval'}.get(key)
        if fn is None:
            raise Unsupported('call ' + key)
        self.fire(key)
        return '%s(%s)' % (fn, obj)

    def lower_send(self, n, me, base):
        """streamAckManager.send(<stanza object>): the QXmppPacket is built from a stanza local; what goes to the wire is classified
        by the C++ type of that stanza (STANZA_<T>)"""
        args = [a for a in n['inner'][1:] if a.get('kind') != 'CXXDefaultArgExpr']
        if len(args) != 1:
            raise Unsupported('StreamAckManager::send/%d' % len(args))
        a = self.skip(args[0])
        while a.get('kind') in ('CXXConstructExpr', 'ImplicitCastExpr', 'MaterializeTemporaryExpr', 'CXXBindTemporaryExpr') and a.get('inner'):
            inner = [c for c in a['inner'] if c.get('kind') != 'CXXDefaultArgExpr']
            if len(inner) != 1:
                raise Unsupported('StreamAckManager::send of a packet built from %d arguments' % len(inner))
            a = self.skip(inner[0])
        if a.get('kind') != 'DeclRefExpr':
            raise Unsupported('StreamAckManager::send of %s' % a.get('kind'))
        t = short(qt(a))
        if not re.fullmatch(r'\w+', t):
            raise Unsupported('StreamAckManager::send of %s' % qt(a))
        self.expr(a)   # the stanza object must be a known local
        self.need_stanza = getattr(self, 'need_stanza', set())
        self.need_stanza.add(t)
        obj = self.addr(base) if not me.get('isArrow') else self.expr(base)
        self.repo_callees.add('StreamAckManager_send_stanza')
        self.fire('StreamAckManager::send<%s>' % t)
        return 'StreamAckManager_send_stanza(%s, STANZA_%s)' % (obj, t)

    # ---------------------------------------------------------------- free-function calls with unit rules
    def fncall(self, n):
        rd = self.callee_ref(n)
        name = rd.get('name', '?')
        if name == 'visit':
            return self.lower_visit(n)
        if name == 'serializeXml':
            return self.lower_serialize(n)
        return super().fncall(n)

    def lower_serialize(self, n):
        arg = self.skip(n['inner'][1])
        t = short(qt(arg))
        if not re.fullmatch(r'\w+', t):
            raise Unsupported('serializeXml of %s' % qt(arg))
        if not self.pure(arg) and arg.get('kind') not in ('CXXTemporaryObjectExpr', 'CXXConstructExpr', 'InitListExpr', 'CXXFunctionalCastExpr'):
            raise Unsupported('serializeXml argument with side effects')
        self.fire('fn:serializeXml<%s>' % t)
        self.need_payload = getattr(self, 'need_payload', set())
        self.need_payload.add(t)
        return 'XML_' + t

    def lower_visit(self, n):
        """visit(overloaded{l1, l2, ...}, v): switch over v's index; arm i = the instantiated operator() for alternative i"""
        args = n['inner'][1:]
        if len(args) != 2:
            raise Unsupported('visit with %d arguments' % len(args))
        ov = self.skip(args[0])
        var = self.skip(args[1])
        alts = variant_alternatives(dqt(var))
        if self.listener_alts is None or alts != self.listener_alts:
            raise Unsupported('visit over a variant other than the listener: %s' % dqt(var))
        lambdas = []

        def collect(x):
            if x.get('kind') == 'LambdaExpr':
                lambdas.append(x)
                return
            for c in x.get('inner', []):
                if isinstance(c, dict):
                    collect(c)
        collect(ov)
        if not lambdas:
            raise Unsupported('visit without lambda visitors')
        v = '(%s)' % self.addr(var)
        res = self.newtmp()
        rt = self.ntype(self.skip(n))
        out = ['%s %s;' % (rt, res), 'switch (%s->index)' % v, '{']
        for i, alt in enumerate(alts):
            arm = self.visit_arm(lambdas, alt)
            if arm is None:
                raise Unsupported('visit: no instantiated visitor body for alternative %s' % alt)
            op, is_ptr_param = arm
            pv = [c for c in op['inner'] if c.get('kind') == 'ParmVarDecl'][0]
            body = [c for c in op['inner'] if c.get('kind') == 'CompoundStmt'][0]
            stmts = [c for c in body.get('inner', [])]
            if len(stmts) != 1 or stmts[0].get('kind') != 'ReturnStmt' or not stmts[0].get('inner'):
                raise Unsupported('visit: visitor body is not a single return statement')
            field = '%s->%s' % (v, alt_cname(alt))
            saved = self.locals.get(pv['id'])
            mv = '_alt%d' % i
            if alt.endswith('*'):
                # parameter `auto *manager` bound to the stored pointer
                bind = '%s %s = %s;' % (self.ctype(alt), mv, field)
                self.locals[pv['id']] = (mv, self.ctype(alt), False)
            else:
                # parameter `auto &manager` bound to the stored object
                bind = '%s *%s = &%s;' % (self.ctype(alt), mv, field)
                self.locals[pv['id']] = (mv, self.ctype(alt), True)
            saved_pre = self.pre
            self.pre = []
            e = self.expr(stmts[0]['inner'][0])
            arm_pre = self.pre
            self.pre = saved_pre
            if saved is None:
                del self.locals[pv['id']]
            else:
                self.locals[pv['id']] = saved
            out.append('  case %d: /* %s */' % (i, alt))
            out.append('  {')
            out.append('    ' + bind)
            out.extend('    ' + p for p in arm_pre)
            out.append('    %s = %s;' % (res, e))
            out.append('    break;')
            out.append('  }')
            self.fire('visit:arm:%s' % alt)
        out.append('  default:')
        out.append('    MODEL_LIMIT(0, "valueless or out-of-range variant index"); %s = 0;' % res)
        out.append('}')
        out.append('/* ghost hook visit_result */ gh_visit_result = %s;' % res)
        self.pre.extend(out)
        self.fire('fn:visit/overloaded-lambdas')
        return res

    def visit_arm(self, lambdas, alt):
        """the unique instantiated operator() with a body whose (decayed) parameter type is `alt`"""
        found = []
        for lam in lambdas:
            rec = [c for c in lam.get('inner', []) if c.get('kind') == 'CXXRecordDecl']
            if not rec:
                continue
            for c in rec[0].get('inner', []):
                cands = []
                if c.get('kind') == 'FunctionTemplateDecl':
                    cands = [x for x in c.get('inner', []) if x.get('kind') == 'CXXMethodDecl']
                elif c.get('kind') == 'CXXMethodDecl' and c.get('name') == 'operator()':
                    cands = [c]
                for op in cands:
                    if not any(x.get('kind') == 'CompoundStmt' for x in op.get('inner', [])):
                        continue
                    pvs = [x for x in op['inner'] if x.get('kind') == 'ParmVarDecl']
                    if len(pvs) != 1:
                        continue
                    pt = qt(pvs[0])
                    if 'auto' in pt:
                        continue   # the uninstantiated generic pattern
                    if short(pt) == alt:
                        found.append((op, pt.strip().endswith('*')))
        if len(found) != 1:
            return None
        return found[0]

    def case_stmt(self, st, ind):
        """as the base class, but a label is followed by a null statement so that a declaration may follow it in C"""
        sp = '  ' * ind
        k = st.get('kind')
        if k == 'CaseStmt':
            ce = st['inner'][0]
            v = ce.get('value')
            if v is None:
                v = self.expr(ce)
            self.emit('%scase %s: ;' % (sp, v))
            self.case_stmt(st['inner'][-1], ind)
            return
        if k == 'DefaultStmt':
            self.emit(sp + 'default: ;')
            self.case_stmt(st['inner'][-1], ind)
            return
        self.stmt(st, ind + 1)

    # ---------------------------------------------------------------- continuations
    def lambda_expr(self, n):
        self.continuations.append(n)
        self.fire('expr:LambdaExpr:continuation')
        return 'CONT_%s_%d' % (self.cname, len(self.continuations) - 1)


def set_listener(lw, node, args):
    """d->setListener<T>(args...)  ->  (*setListener_T(d, args...))   (contracted callee, units/C04/callees.h)"""
    t = short(qt(node))
    if not re.fullmatch(r'\w+', t):
        raise Unsupported('setListener<%s>' % qt(node))
    lw.repo_callees.add('setListener_' + t)
    return '(*setListener_%s(%s))' % (t, ', '.join(args))


def ref_getter(cname):
    def rule(lw, node, args):
        lw.repo_callees.add(cname)
        return '(*%s(%s))' % (cname, ', '.join(args))
    return rule


def listener_assign(lw, node, args):
    """d->listener = <pointer alternative>"""
    rhs = lw.skip(node['inner'][2])
    t = short(qt(rhs))
    if t not in (lw.listener_alts or []):
        raise Unsupported('assignment of %s to the listener variant' % qt(rhs))
    return 'Listener_set_%s(%s, %s)' % (alt_cname(t)[4:], args[0], args[1])


def from_dom(lw, node, args):
    """X::fromDom(el) (static): the callee is chosen by the result type"""
    t = short(dqt(lw.skip(node)))
    if t == 'std::optional<StarttlsProceed>':
        tmp = lw.newtmp()
        lw.repo_callees.add('StarttlsProceed_fromDom')
        lw.pre.append('OptNonza %s; StarttlsProceed_fromDom(&%s, %s);' % (tmp, tmp, ', '.join(args)))
        return tmp
    if t == 'std::variant<StreamErrorElement,QXmppError>':
        tmp = lw.newtmp()
        lw.repo_callees.add('StreamErrorElement_fromDom')
        lw.pre.append('StreamErrorResult %s; StreamErrorElement_fromDom(&%s, %s);' % (tmp, tmp, ', '.join(args)))
        return tmp
    raise Unsupported('fromDom returning %s' % t)


def get_if(lw, node, args):
    """std::get_if<StreamErrorElement>(&result)"""
    t = short(dqt(lw.skip(node)))
    if t.replace(' ', '') in ('StreamErrorElement*', 'add_pointer_t<StreamErrorElement>', 'typenameremove_reference<StreamErrorElement>::type*'):
        return 'StreamErrorResult_get_if_element(%s)' % args[0]
    raise Unsupported('get_if yielding %s' % t)


def empty_nonza(lw, node):
    if [c for c in node.get('inner', []) if isinstance(c, dict) and c.get('kind')]:
        raise Unsupported('initialiser list of a nonza struct with members')
    return '((qnonza)0)'


def element_received(lw, node, args):
    """Q_EMIT elementReceived(element, handled): `handled` is a bool& out-parameter (clang's MemberExpr carries no signature)"""
    h = lw.skip(node['inner'][2])
    if h.get('kind') != 'DeclRefExpr' or lw.ntype(h) != 'bool':
        raise Unsupported('elementReceived: second argument is not a bool lvalue')
    lw.repo_callees.add('QXmppOutgoingClient_elementReceived')
    return 'QXmppOutgoingClient_elementReceived(%s, %s, %s)' % (args[0], args[1], lw.addr_of(args[2]))


def features_ctor(lw, node, target):
    """QXmppStreamFeatures(): a value class owning a fresh private object -- both live on the stack of the lowered function"""
    dst = target or lw.newtmp()
    if not target:
        lw.pre.append('QXmppStreamFeatures %s;' % dst)
    priv = lw.newtmp()
    lw.pre.append('QXmppStreamFeaturesPrivate %s;' % priv)
    lw.pre.append('%s.d = &%s;' % (dst, priv))
    return dst


def profile(listener_type_keys):
    types = {
        'QXmppOutgoingClient': 'QXmppOutgoingClient', 'QXmppOutgoingClientPrivate': 'QXmppOutgoingClientPrivate',
        'std::unique_ptr<QXmppOutgoingClientPrivate>': 'QXmppOutgoingClientPrivate*',
        'QXmppConfiguration': 'QXmppConfiguration', 'QXmppConfiguration::StreamSecurityMode': 'int',
        'QXmppStreamFeatures': 'QXmppStreamFeatures', 'QXmppStreamFeatures::Mode': 'int',
        'QSslSocket': 'QSslSocket', 'XmppSocket': 'XmppSocket', PRIV + 'XmppSocket': 'XmppSocket',
        'StarttlsManager': 'StarttlsManager', PRIV + 'StarttlsManager': 'StarttlsManager',
        'NonSaslAuthManager': 'NonSaslAuthManager', PRIV + 'NonSaslAuthManager': 'NonSaslAuthManager',
        'SaslManager': 'SaslManager', PRIV + 'SaslManager': 'SaslManager',
        'Sasl2Manager': 'Sasl2Manager', PRIV + 'Sasl2Manager': 'Sasl2Manager',
        'BindManager': 'BindManager', PRIV + 'BindManager': 'BindManager',
        'C2sStreamManager': 'C2sStreamManager', PRIV + 'C2sStreamManager': 'C2sStreamManager',
        'CsiManager': 'CsiManager', PRIV + 'CsiManager': 'CsiManager',
        'PingManager': 'PingManager', PRIV + 'PingManager': 'PingManager',
        'StreamAckManager': 'StreamAckManager', PRIV + 'StreamAckManager': 'StreamAckManager',
        'OutgoingIqManager': 'OutgoingIqManager', PRIV + 'OutgoingIqManager': 'OutgoingIqManager',
        'HandleElementResult': 'int', PRIV + 'HandleElementResult': 'int',
        'AuthenticationMethod': 'int', PRIV + 'AuthenticationMethod': 'int',
        'QXmppTask<void>': 'qtask',
        'QXmppTask<QXmpp::Private::SaslManager::AuthResult>': 'qtask',
        'QXmppTask<std::variant<QXmpp::Success,std::pair<QString,QXmpp::AuthenticationError>>>': 'qtask',
        'QByteArray': 'qxml',
        'QStringList': 'qstrlist', 'QList<QString>': 'qstrlist',
        'std::optional<QXmpp::Private::Sasl2::StreamFeature>': 'OptSasl2Feature',
        'std::optional<Sasl2::StreamFeature>': 'OptSasl2Feature', 'std::optional<StreamFeature>': 'OptSasl2Feature',
        'QXmpp::Private::Sasl2::StreamFeature': 'Sasl2StreamFeature', 'Sasl2::StreamFeature': 'Sasl2StreamFeature',
        'QXmppLoggable': 'QXmppOutgoingClient', 'QObject': 'QXmppOutgoingClient',
        'QXmpp::StreamError': 'int', 'StreamError': 'int',
        'QXmppOutgoingClient::ConnectionError': 'ConnectionError',
        'SendDataInterface': 'XmppSocket', PRIV + 'SendDataInterface': 'XmppSocket',
        'std::optional<QXmpp::Private::StarttlsProceed>': 'OptNonza', 'std::optional<StarttlsProceed>': 'OptNonza',
        'QXmppPromise<void>': 'qpromise',
        'std::variant<StreamErrorElement,QXmppError>': 'StreamErrorResult', 'std::variant<QXmpp::Private::StreamErrorElement,QXmppError>': 'StreamErrorResult',
        'StreamErrorElement': 'StreamErrorElement', PRIV + 'StreamErrorElement': 'StreamErrorElement',
        'typename remove_reference<StreamErrorElement>::type': 'StreamErrorElement',
        'StarttlsProceed': 'qnonza', PRIV + 'StarttlsProceed': 'qnonza',
        'QTimer': 'QTimer', 'QXmppPingIq': 'QXmppPingIq',
        'QXmppTask<QXmpp::SendResult>': 'qtask', 'QXmppTask<std::variant<QXmpp::SendSuccess,QXmppError>>': 'qtask',
        'QXmpp::TimeoutError': 'qtimeout', 'TimeoutError': 'qtimeout',
    }
    for k in listener_type_keys:
        types[k] = 'Listener'
    class_types = {'QXmppOutgoingClient', 'QXmppOutgoingClientPrivate', 'QXmppConfiguration', 'QXmppStreamFeatures', 'QSslSocket', 'XmppSocket',
                   'StarttlsManager', 'NonSaslAuthManager', 'SaslManager', 'Sasl2Manager', 'BindManager', 'C2sStreamManager', 'CsiManager',
                   'PingManager', 'StreamAckManager', 'OutgoingIqManager', 'Listener', 'OptSasl2Feature', 'Sasl2StreamFeature', 'ConnectionError',
                   'OptNonza', 'StreamErrorResult', 'StreamErrorElement', 'QTimer', 'QXmppPingIq'}
    calls = {
        'op->:QXmppOutgoingClientPrivate*': ('expr', '{0}'),
        # --- Qt
        'QSslSocket::isEncrypted/0': ('expr', '({0})->encrypted'),
        'QSslSocket::startClientEncryption/0': ('fn', 'QSslSocket_startClientEncryption'),
        'fn:supportsSsl/0': ('const', 'gh_supportsSsl'),
        'qstrlist::isEmpty/0': ('expr', '{0} == 0'),
        'OptSasl2Feature::has_value/0': ('expr', '({0})->has'),
        'OptSasl2Feature::value/0': ('expr', '(*OptSasl2Feature_value({0}))'),
        # --- one-line getters of QXmpp value classes (d-pointer fields): assumed pure getters, see unit 'assumed'
        'QXmppConfiguration::streamSecurityMode/0': ('callee', 'QXmppConfiguration_streamSecurityMode'),
        'QXmppConfiguration::useNonSASLAuthentication/0': ('callee', 'QXmppConfiguration_useNonSASLAuthentication'),
        'QXmppConfiguration::useSASLAuthentication/0': ('callee', 'QXmppConfiguration_useSASLAuthentication'),
        'QXmppConfiguration::useSasl2Authentication/0': ('callee', 'QXmppConfiguration_useSasl2Authentication'),
        'QXmppStreamFeatures::tlsMode/0': ('callee', 'QXmppStreamFeatures_tlsMode'),
        'QXmppStreamFeatures::nonSaslAuthMode/0': ('callee', 'QXmppStreamFeatures_nonSaslAuthMode'),
        'QXmppStreamFeatures::bindMode/0': ('callee', 'QXmppStreamFeatures_bindMode'),
        'QXmppStreamFeatures::authMechanisms/0': ('callee', 'QXmppStreamFeatures_authMechanisms'),
        'QXmppStreamFeatures::sasl2Feature/0': ref_getter('QXmppStreamFeatures_sasl2Feature'),
        # --- lowered real one-liners of the client
        'QXmppOutgoingClient::socket/0': ('callee', 'QXmppOutgoingClient_socket'),
        'QXmppOutgoingClient::configuration/0': ref_getter('QXmppOutgoingClient_configuration'),
        'QXmppOutgoingClient::streamAckManager/0': ref_getter('QXmppOutgoingClient_streamAckManager'),
        'QXmppOutgoingClient::iqManager/0': ref_getter('QXmppOutgoingClient_iqManager'),
        'XmppSocket::socket/0': ('callee', 'XmppSocket_socket'),
        'QXmppOutgoingClient::disconnectFromHost/0': ('callee', 'QXmppOutgoingClient_disconnectFromHost'),
        'QXmppOutgoingClient::handleStarttls/1': ('callee', 'QXmppOutgoingClient_handleStarttls'),
        'QXmppOutgoingClient::handleStreamFeatures/1': ('callee', 'QXmppOutgoingClient_handleStreamFeatures'),
        'QXmppOutgoingClient::handleElement/1': ('callee', 'QXmppOutgoingClient_handleElement'),
        'QXmppOutgoingClient::handleStart/0': ('callee', 'QXmppOutgoingClient_handleStart'),
        'StarttlsManager::handleElement/1': ('callee', 'StarttlsManager_handleElement'),
        # --- contracted callees (units/C04/callees.h): the wire, the guarded negotiation steps, the other listeners
        'XmppSocket::sendData/1': ('callee', 'XmppSocket_sendData'),
        'XmppSocket::disconnectFromHost/0': ('callee', 'XmppSocket_disconnectFromHost'),
        'C2sStreamManager::onStreamClosed/0': ('callee', 'C2sStreamManager_onStreamClosed'),
        'C2sStreamManager::onStreamFeatures/1': ('callee', 'C2sStreamManager_onStreamFeatures'),
        'C2sStreamManager::canRequestResume/0': ('callee', 'C2sStreamManager_canRequestResume'),
        'C2sStreamManager::canRequestEnable/0': ('callee', 'C2sStreamManager_canRequestEnable'),
        'C2sStreamManager::handleElement/1': ('callee', 'C2sStreamManager_handleElement'),
        'CsiManager::onStreamFeatures/1': ('callee', 'CsiManager_onStreamFeatures'),
        'PingManager::onDataReceived/0': ('callee', 'PingManager_onDataReceived'),
        'PingManager::sendPing/0': ('callee', 'PingManager_sendPing'),
        'StreamAckManager::enabled/0': ('callee', 'StreamAckManager_enabled'),
        'StreamAckManager::sendAcknowledgementRequest/0': ('callee', 'StreamAckManager_sendAcknowledgementRequest'),
        'ctor:QXmppPingIq()': ('zero',),
        'QXmppPingIq::setTo/1': ('expr', '({0})->to = {1}'),
        'QXmppConfiguration::domain/0': ('callee', 'QXmppConfiguration_domain'),
        'QXmppConfiguration::keepAliveTimeout/0': ('callee', 'QXmppConfiguration_keepAliveTimeout'),
        'QXmppConfiguration::keepAliveInterval/0': ('callee', 'QXmppConfiguration_keepAliveInterval'),
        'NonSaslAuthManager::handleElement/1': ('callee', 'NonSaslAuthManager_handleElement'),
        'SaslManager::handleElement/1': ('callee', 'SaslManager_handleElement'),
        'Sasl2Manager::handleElement/1': ('callee', 'Sasl2Manager_handleElement'),
        'BindManager::handleElement/1': ('callee', 'BindManager_handleElement'),
        'QXmppOutgoingClient::startNonSaslAuth/0': ('callee', 'QXmppOutgoingClient_startNonSaslAuth'),
        'QXmppOutgoingClient::startSasl2Auth/1': ('callee', 'QXmppOutgoingClient_startSasl2Auth'),
        'QXmppOutgoingClient::startResourceBinding/0': ('callee', 'QXmppOutgoingClient_startResourceBinding'),
        'QXmppOutgoingClient::startSmResume/0': ('callee', 'QXmppOutgoingClient_startSmResume'),
        'QXmppOutgoingClient::startSmEnable/0': ('callee', 'QXmppOutgoingClient_startSmEnable'),
        'QXmppOutgoingClient::openSession/0': ('callee', 'QXmppOutgoingClient_openSession'),
        'QXmppOutgoingClient::setError/2': ('callee', 'QXmppOutgoingClient_setError'),
        'QXmppOutgoingClient::handleStanza/1': ('callee', 'QXmppOutgoingClient_handleStanza'),
        'QXmppOutgoingClient::handleStreamError/1': ('callee', 'QXmppOutgoingClient_handleStreamError'),
        'SaslManager::authenticate/3': ('callee', 'SaslManager_authenticate'),
        'StarttlsManager::task/0': ('callee', 'StarttlsManager_task'),
        'QXmppOutgoingClientPrivate::setListener/0': set_listener,
        'QXmppOutgoingClientPrivate::setListener/1': set_listener,
        'qtask::then/2': ('fn', 'qtask_then'),
        'Listener::index/0': ('expr', '({0})->index'),
        'op=:Listener:QXmppOutgoingClient*': listener_assign,
        'op=:Listener:C2sStreamManager*': listener_assign,
        'ctor:ConnectionError(int)': ('init', '{{ {0} }}'),
        'ctor:ConnectionError(qtimeout)': ('init', '{{ -1 }}'),
        'qpromise::finish/0': ('fnmut', 'qpromise_finish'),
        'qstr::clear/0': ('expr', '{0} = 0'),
        'C2sStreamManager::onStreamStart/0': ('callee', 'C2sStreamManager_onStreamStart'),
        'fn:fromDom/1': from_dom,
        'fn:get_if/1': get_if,
        'fn:isStreamFeatures/1': ('callee', 'QXmppStreamFeatures_isStreamFeatures'),
        'StreamAckManager::handleStanza/1': ('callee', 'StreamAckManager_handleStanza'),
        'OutgoingIqManager::handleStanza/1': ('callee', 'OutgoingIqManager_handleStanza'),
        'QXmppOutgoingClient::elementReceived/2': element_received,
        'ctor:QXmppStreamFeatures()': features_ctor,
        'QXmppStreamFeatures::parse/1': ('callee', 'QXmppStreamFeatures_parse'),
        'OptNonza::operator bool/0': ('expr', '({0})->has'),
        'ctor:OptNonza()': ('init', '{{ false }}'),
        'expr:InitListExpr:qnonza': empty_nonza,
        'ctor:OptNonza(qnonza)': ('init', '{{ true }}'),
    }
    p = opaque_profile(types=types, class_types=class_types, calls=calls,
                       pure_fns={'configuration', 'socket', 'streamSecurityMode', 'tlsMode', 'domain', 'user', 'jidBare', 'duration_cast', 'operator""s'})
    p.default_args['qstr'] = '0'
    # `enum { Current, TryNext } nextAddressState;` -- strip_type() of `enum (unnamed enum at <path>/QXmppOutgoingClient_p.h:L:C)`
    p.type_patterns.append((re.compile(r'(QXmppOutgoingClientPrivate::)?\(unnamed at [^)]*QXmppOutgoingClient_p\.h:\d+:\d+\)'), 'int'))
    return p
