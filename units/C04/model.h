/* units/C04/model.h -- Qt models (ASSUMED), placeholder records, ghost world of the C04 unit.
 * Included after the generated records' forward declarations (see unit.py). */

/* ---- Qt (assumed) -------------------------------------------------------------------------------------------------
 * A-QSSL  QSslSocket::isEncrypted() reads one flag of the socket object; startClientEncryption() starts the handshake and
 *         transmits no XMPP data by itself; QSslSocket::supportsSsl() is a fixed, arbitrary property of the process. */
typedef struct QSslSocket { bool encrypted; bool handshake_started; } QSslSocket;
static inline void QSslSocket_startClientEncryption(QSslSocket *s) { s->handshake_started = true; }
bool gh_supportsSsl;

/* A-QTIMER  a QTimer is armed by start() and disarmed by stop(); its timeout signal is emitted only while it is armed;
 *           setInterval() / callOnTimeout() / setSingleShot() do not arm it.  Interval values are abstracted (any duration). */
typedef struct QTimer { bool active; } QTimer;
static inline void QTimer_start(QTimer *t) { t->active = true; }
static inline void QTimer_stop(QTimer *t) { t->active = false; }
static inline void QTimer_setInterval(QTimer *t) { (void)t; }
static inline void QTimer_start_with_interval(QTimer *t) { t->active = true; }   /* start(msec) = setInterval(msec); start() */

typedef int qtimeout;   /* QXmpp::TimeoutError: empty tag struct */
typedef int qtask;      /* QXmppTask<T>: opaque handle */
typedef int qpromise;   /* QXmppPromise<void>: 0 = pending, 1 = finished */
typedef int qnonza;     /* an empty nonza struct (StarttlsProceed) */
typedef int qxml;       /* a serialised element handed to the socket: classified by the C++ type it was serialised from (XML_<T>) */
typedef int qstrlist;   /* QStringList: opaque, 0 = empty list */
static inline void qpromise_finish(qpromise *p) { *p = 1; }

/* records the unit does not look into (their handleElement / start functions are contracted callees) */
typedef struct NonSaslAuthManager { int opaque; } NonSaslAuthManager;
typedef struct SaslManager { int opaque; } SaslManager;
typedef struct Sasl2Manager { int opaque; } Sasl2Manager;
typedef struct BindManager { int opaque; } BindManager;
typedef struct C2sStreamManager { int opaque; } C2sStreamManager;
typedef struct CsiManager { int opaque; } CsiManager;
typedef struct StreamAckManager { int opaque; } StreamAckManager;
typedef struct OutgoingIqManager { int opaque; } OutgoingIqManager;
typedef struct Sasl2StreamFeature { int opaque; } Sasl2StreamFeature;
typedef struct OptSasl2Feature { bool has; Sasl2StreamFeature v; } OptSasl2Feature;     /* std::optional<Sasl2::StreamFeature> */
static inline const Sasl2StreamFeature *OptSasl2Feature_value(const OptSasl2Feature *o) { MODEL_LIMIT(o->has, "std::optional::value() on an empty optional (throws)"); return &o->v; }
typedef struct OptNonza { bool has; } OptNonza;                                          /* std::optional<empty nonza struct> */
typedef struct ConnectionError { int streamError; } ConnectionError;                     /* std::variant<...>: only StreamError is constructed here */
typedef struct StreamErrorElement { int opaque; } StreamErrorElement;
typedef struct StreamErrorResult { bool is_element; StreamErrorElement v; } StreamErrorResult;                 /* std::variant<StreamErrorElement, QXmppError> */
static inline StreamErrorElement *StreamErrorResult_get_if_element(StreamErrorResult *r) { return r->is_element ? &r->v : NULL; }   /* std::get_if<StreamErrorElement> */
typedef struct QXmppPingIq { qstr to; } QXmppPingIq;   /* XEP-0199 ping request: only the addressee is set here */
