// C04 native replay: the REAL QXmppClient (TLSRequired) against a scripted plain-TCP loopback server.
//   replay_cleartext versionless   -> stream header without `version`: does the password reach the server in clear?   (finding C04-F1)
//   replay_cleartext iq-before-tls -> <iq type='get'/> sent by the server before <stream:features/>: does the client answer in clear?
//   replay_cleartext control       -> well-behaved header + features offering STARTTLS: only <starttls/> may be sent
//   replay_cleartext features-starttls   -> features offer STARTTLS and every authentication / bind / sm feature: only <starttls/> may be sent
//   replay_cleartext features-nostarttls -> features offer everything except STARTTLS: nothing may be sent, the client must give up
//   replay_cleartext keepalive-stall     -> STARTTLS offered, then the server never answers <starttls/>; keepAliveInterval = 1 s: no ping may be written
//   replay_cleartext starttls-failure    -> <failure/> instead of <proceed/>: the client must give up (close the stream / disconnect)
// Prints every chunk the server received, then one of REPRODUCED / NOT-REPRODUCED (exit 0 / 1).
#include <QCoreApplication>
#include <QTcpServer>
#include <QTcpSocket>
#include <QTimer>
#include <cstdio>

#include "QXmppClient.h"
#include "QXmppConfiguration.h"
#include "QXmppLogger.h"

static const char *PASSWORD = "S3CRET-pa55w0rd";

int main(int argc, char **argv)
{
    QCoreApplication app(argc, argv);
    const QString mode = argc > 1 ? QString::fromLatin1(argv[1]) : QStringLiteral("versionless");

    QTcpServer server;
    if (!server.listen(QHostAddress::LocalHost, 0)) {
        std::printf("cannot listen on loopback\n");
        return 2;
    }
    QByteArray received;   // everything the client transmitted over the unencrypted TCP connection
    int step = 0;
    int afterFailure = -1;      // bytes received when <failure/> was sent (starttls-failure)
    bool clientClosed = false;  // the client closed the TCP connection
    QObject::connect(&server, &QTcpServer::newConnection, [&]() {
        QTcpSocket *s = server.nextPendingConnection();
        QObject::connect(s, &QTcpSocket::disconnected, [&]() { clientClosed = true; });
        QObject::connect(s, &QTcpSocket::readyRead, [&, s]() {
            const QByteArray chunk = s->readAll();
            received += chunk;
            std::printf("SERVER-RECEIVED-IN-CLEAR: %s\n", chunk.constData());
            if (step == 0 && received.contains("<stream:stream")) {
                step = 1;
                if (mode == "versionless") {
                    s->write("<?xml version='1.0'?><stream:stream xmlns='jabber:client' xmlns:stream='http://etherx.jabber.org/streams' id='s1' from='example.org'>");
                } else if (mode == "iq-before-tls") {
                    s->write("<?xml version='1.0'?><stream:stream xmlns='jabber:client' xmlns:stream='http://etherx.jabber.org/streams' id='s1' from='example.org' version='1.0'>");
                    s->write("<iq xmlns='jabber:client' type='get' id='probe1' from='example.org'><query xmlns='jabber:iq:version'/></iq>");
                } else if (mode == "features-starttls" || mode == "features-nostarttls") {
                    s->write("<?xml version='1.0'?><stream:stream xmlns='jabber:client' xmlns:stream='http://etherx.jabber.org/streams' id='s1' from='example.org' version='1.0'>");
                    QByteArray f = "<stream:features>";
                    if (mode == "features-starttls") {
                        f += "<starttls xmlns='urn:ietf:params:xml:ns:xmpp-tls'/>";
                    }
                    f += "<mechanisms xmlns='urn:ietf:params:xml:ns:xmpp-sasl'><mechanism>PLAIN</mechanism><mechanism>SCRAM-SHA-1</mechanism></mechanisms>"
                         "<authentication xmlns='urn:xmpp:sasl:2'><mechanism>PLAIN</mechanism><mechanism>SCRAM-SHA-1</mechanism><inline><bind xmlns='urn:xmpp:bind:0'/></inline></authentication>"
                         "<auth xmlns='http://jabber.org/features/iq-auth'/><bind xmlns='urn:ietf:params:xml:ns:xmpp-bind'/><sm xmlns='urn:xmpp:sm:3'/>"
                         "</stream:features>";
                    s->write(f);
                } else {
                    s->write("<?xml version='1.0'?><stream:stream xmlns='jabber:client' xmlns:stream='http://etherx.jabber.org/streams' id='s1' from='example.org' version='1.0'>");
                    s->write("<stream:features><starttls xmlns='urn:ietf:params:xml:ns:xmpp-tls'><required/></starttls><mechanisms xmlns='urn:ietf:params:xml:ns:xmpp-sasl'><mechanism>PLAIN</mechanism></mechanisms></stream:features>");
                }
                return;
            }
            if (mode == "starttls-failure" && step == 1 && received.contains("<starttls")) {
                step = 2;
                afterFailure = received.size();
                s->write("<failure xmlns='urn:ietf:params:xml:ns:xmpp-tls'/>");
                return;
            }
            if (mode == "versionless" && step == 1 && received.contains("jabber:iq:auth")) {
                step = 2;
                // answer the field query: offer plain-text password authentication (XEP-0078)
                const int i = received.indexOf("id=\"", received.indexOf("<iq"));
                const QByteArray id = received.mid(i + 4, received.indexOf('"', i + 4) - (i + 4));
                s->write("<iq xmlns='jabber:client' type='result' id='" + id + "'><query xmlns='jabber:iq:auth'><username/><password/><resource/></query></iq>");
            }
        });
    });

    QXmppClient client;
    QXmppLogger logger;
    logger.setLoggingType(QXmppLogger::SignalLogging);
    client.setLogger(&logger);
    QObject::connect(&logger, &QXmppLogger::message, [](QXmppLogger::MessageType t, const QString &text) {
        if (t == QXmppLogger::SentMessage) {
            std::printf("CLIENT-LOG SentMessage: %s\n", text.toUtf8().constData());
        } else if (t == QXmppLogger::WarningMessage) {
            std::printf("CLIENT-LOG warning: %s\n", text.toUtf8().constData());
        }
    });
    QXmppConfiguration cfg;
    cfg.setHost(QStringLiteral("127.0.0.1"));
    cfg.setPort(server.serverPort());
    cfg.setDomain(QStringLiteral("example.org"));
    cfg.setUser(QStringLiteral("alice"));
    cfg.setPassword(QString::fromLatin1(PASSWORD));
    cfg.setResource(QStringLiteral("r"));
    cfg.setAutoReconnectionEnabled(false);
    if (mode == "keepalive-stall") {
        cfg.setKeepAliveInterval(1);   // seconds; the unencrypted phase is kept open for 3.5 s by the stalling server
        cfg.setKeepAliveTimeout(0);
    }
    cfg.setStreamSecurityMode(QXmppConfiguration::TLSRequired);   // everything else: library defaults
    client.connectToServer(cfg);

    QTimer::singleShot(mode == "keepalive-stall" ? 3500 : 2500, &app, &QCoreApplication::quit);
    app.exec();

    const bool encrypted = false;   // the scripted server never starts TLS: the link stays plain TCP for its whole life
    bool violated = false;
    if (mode == "versionless") {
        violated = received.contains(PASSWORD) || received.contains("jabber:iq:auth");
        std::printf("password in clear: %s; legacy-auth query in clear: %s\n", received.contains(PASSWORD) ? "YES" : "no", received.contains("jabber:iq:auth") ? "YES" : "no");
    } else if (mode == "iq-before-tls") {
        violated = received.contains("<iq");
        std::printf("stanza sent in clear: %s\n", violated ? "YES" : "no");
    } else if (mode == "features-starttls") {
        violated = received.contains("<auth") || received.contains("<iq") || received.contains("<response") || received.contains(PASSWORD) || received.contains("<enable") || received.contains("<resume");
        std::printf("anything but header + <starttls/> sent in clear: %s\n", violated ? "YES" : "no");
    } else if (mode == "features-nostarttls") {
        violated = received.contains("<auth") || received.contains("<iq") || received.contains("<response") || received.contains(PASSWORD) || received.contains("<enable") || received.contains("<resume") || !clientClosed;
        std::printf("negotiation continued without TLS: %s; client gave up: %s\n", (violated && clientClosed) ? "YES" : "no", clientClosed ? "yes" : "NO");
    } else if (mode == "keepalive-stall") {
        violated = received.contains("<iq") || received.contains("urn:xmpp:ping") || received.contains("<r ");
        std::printf("keep-alive ping written to the unencrypted connection: %s\n", violated ? "YES" : "no");
    } else if (mode == "starttls-failure") {
        const QByteArray rest = afterFailure >= 0 ? received.mid(afterFailure) : QByteArray();
        violated = afterFailure < 0 || !clientClosed || rest.contains("<auth") || rest.contains("<iq");
        std::printf("client gave up after <failure/>: %s\n", violated ? "NO" : "yes");
    } else {
        // control: nothing but the stream header and <starttls/>
        QByteArray rest = received;
        violated = rest.contains("<iq") || rest.contains("<auth") || rest.contains(PASSWORD) || !rest.contains("<starttls");
        std::printf("control: only header + <starttls/> sent: %s\n", violated ? "NO" : "yes");
    }
    (void)encrypted;
    std::printf("%s\n", violated ? "REPRODUCED" : "NOT-REPRODUCED");
    return violated ? 0 : 1;
}
