/* units/C04/callees.h -- ghost world, the TLS predicate, and the contracts of the callees that are replaced by their
 * contract in the verified callers (goto-instrument --replace-call-with-contract).  None of these has a body here.
 *
 * gh_c is the client object under verification (every enforced contract requires self == gh_c), so that callees that do
 * not receive the client (the listeners' handleElement) can still speak about its socket and configuration. */
QXmppOutgoingClient *gh_c;
int gh_sent;          /* payloads handed to XmppSocket::sendData */
int gh_sent_last;     /* class (XML_<T>) of the last one */
int gh_disconnects;   /* XmppSocket::disconnectFromHost calls */
int gh_errors;        /* setError calls */
int gh_started;       /* guarded negotiation steps started / guarded listeners run (each requires TLS_OK) */
int gh_conts;         /* continuations registered with QXmppTask::then */
int gh_visit_result;  /* ghost hook of the visit lowering: what the current listener returned */
bool gh_at_known_site; /* ghost hook: control is at the call site recorded as finding C04-F1 */

#define ENCRYPTED   (gh_c->d->socket.m_socket->encrypted)
#define TLS_REQUIRED (gh_c->d->config.d->streamSecurityMode == SEC_TLSRequired)
/* DESIGN 6 C04: tls_ok := socket.isEncrypted || config.streamSecurityMode != TLSRequired */
#define TLS_OK      (ENCRYPTED || !TLS_REQUIRED)
#define LISTENER    (gh_c->d->listener)
/* representation invariant: a listener that exchanges credentials / binds / resumes is installed only under tls_ok */
#define LISTENER_INV (LISTENER.index < LISTENER_ALTS && (LISTENER.index == IDX_QXmppOutgoingClientPtr || LISTENER.index == IDX_StarttlsManager || TLS_OK))
#define GH_BOUNDED  (gh_sent >= 0 && gh_sent < 1000 && gh_disconnects >= 0 && gh_disconnects < 1000 && gh_errors >= 0 && gh_errors < 1000 && gh_started >= 0 && gh_started < 1000 && gh_conts >= 0 && gh_conts < 1000)
#define SENT_NOTHING (gh_sent == __CPROVER_old(gh_sent))
#define SENT_ONLY_STARTTLS (gh_sent == __CPROVER_old(gh_sent) + 1 && gh_sent_last == XML_StarttlsRequest)

/* the finding C04-F1 is keyed by call site (startNonSaslAuth in handleStream): with -DFINDING_EXCLUDED that one call site is
   exempt from the guard so that every other call site is still checked; with -DFINDING_ONLY nothing is exempt */
#ifdef FINDING_EXCLUDED
#define KNOWN_SITE (gh_at_known_site)
#else
#define KNOWN_SITE (false)
#endif
#define GUARD (TLS_OK || KNOWN_SITE)

/* ---- the wire ------------------------------------------------------------------------------------------------------ */
bool XmppSocket_sendData(XmppSocket *self, qxml data)
__CPROVER_requires(gh_sent >= 0 && gh_sent < 1000)
__CPROVER_assigns(gh_sent, gh_sent_last)
__CPROVER_ensures(gh_sent == __CPROVER_old(gh_sent) + 1 && gh_sent_last == data)
;
void XmppSocket_disconnectFromHost(XmppSocket *self)
__CPROVER_requires(gh_disconnects >= 0 && gh_disconnects < 1000)
__CPROVER_assigns(gh_disconnects)
__CPROVER_ensures(gh_disconnects == __CPROVER_old(gh_disconnects) + 1)
;
void QXmppOutgoingClient_setError(QXmppOutgoingClient *self, qstr text, ConnectionError *details)
__CPROVER_requires(gh_errors >= 0 && gh_errors < 1000)
__CPROVER_assigns(gh_errors)
__CPROVER_ensures(gh_errors == __CPROVER_old(gh_errors) + 1)
;
qtask qtask_then(qtask t, const QXmppOutgoingClient *context, int continuation)
__CPROVER_requires(gh_conts >= 0 && gh_conts < 1000)
__CPROVER_assigns(gh_conts)
__CPROVER_ensures(gh_conts == __CPROVER_old(gh_conts) + 1)
;
qtask StarttlsManager_task(StarttlsManager *self)
__CPROVER_requires(1)
__CPROVER_assigns()
__CPROVER_ensures(1)
;

/* ---- d->setListener<T>(args): installs a freshly constructed T as the current listener and returns it --------------- */
StarttlsManager *setListener_StarttlsManager(QXmppOutgoingClientPrivate *d)
__CPROVER_requires(d == gh_c->d)
__CPROVER_assigns(d->listener)
__CPROVER_ensures(d->listener.index == IDX_StarttlsManager && __CPROVER_return_value == &d->listener.alt_StarttlsManager && d->listener.alt_StarttlsManager.m_promise == 0)
;
SaslManager *setListener_SaslManager(QXmppOutgoingClientPrivate *d, XmppSocket *socket)
__CPROVER_requires(d == gh_c->d)
__CPROVER_assigns(d->listener)
__CPROVER_ensures(d->listener.index == IDX_SaslManager && __CPROVER_return_value == &d->listener.alt_SaslManager)
;

/* ---- guarded negotiation steps: each transmits credentials / binds / opens the session => requires tls_ok ----------- */
#define GUARDED_STEP(LISTENER_POST) \
__CPROVER_requires(self == gh_c) \
__CPROVER_requires(GUARD) \
__CPROVER_requires(gh_started >= 0 && gh_started < 1000 && gh_sent >= 0 && gh_sent < 1000) \
__CPROVER_assigns(gh_started, gh_sent, gh_sent_last, gh_conts, self->d->listener) \
__CPROVER_ensures(gh_started == __CPROVER_old(gh_started) + 1 && gh_sent >= __CPROVER_old(gh_sent)) \
__CPROVER_ensures(LISTENER_POST)

void QXmppOutgoingClient_startNonSaslAuth(QXmppOutgoingClient *self)
GUARDED_STEP(self->d->listener.index == IDX_NonSaslAuthManager)
;
void QXmppOutgoingClient_startSasl2Auth(QXmppOutgoingClient *self, const Sasl2StreamFeature *sasl2Feature)
GUARDED_STEP(self->d->listener.index == IDX_Sasl2Manager)
;
void QXmppOutgoingClient_startResourceBinding(QXmppOutgoingClient *self)
GUARDED_STEP(self->d->listener.index == IDX_BindManager)
;
void QXmppOutgoingClient_startSmResume(QXmppOutgoingClient *self)
GUARDED_STEP(self->d->listener.index == IDX_C2sStreamManagerPtr)
;
void QXmppOutgoingClient_startSmEnable(QXmppOutgoingClient *self)
GUARDED_STEP(self->d->listener.index == IDX_C2sStreamManagerPtr)
;
void QXmppOutgoingClient_openSession(QXmppOutgoingClient *self)
__CPROVER_requires(self == gh_c)
__CPROVER_requires(GUARD)
__CPROVER_requires(gh_started >= 0 && gh_started < 1000 && gh_sent >= 0 && gh_sent < 1000)
__CPROVER_assigns(gh_started, gh_sent, gh_sent_last)
__CPROVER_ensures(gh_started == __CPROVER_old(gh_started) + 1 && gh_sent >= __CPROVER_old(gh_sent))
;
qtask SaslManager_authenticate(SaslManager *self, const QXmppConfiguration *config, qstrlist mechanisms, QXmppOutgoingClient *loggable)
__CPROVER_requires(GUARD)
__CPROVER_requires(gh_started >= 0 && gh_started < 1000 && gh_sent >= 0 && gh_sent < 1000)
__CPROVER_assigns(gh_started, gh_sent, gh_sent_last)
__CPROVER_ensures(gh_started == __CPROVER_old(gh_started) + 1 && gh_sent >= __CPROVER_old(gh_sent))
;

/* ---- the other listeners: they answer the server with credentials / bind / resend stanzas => require tls_ok ---------- */
#define GUARDED_LISTENER \
__CPROVER_requires(GUARD) \
__CPROVER_requires(gh_started >= 0 && gh_started < 1000 && gh_sent >= 0 && gh_sent < 1000) \
__CPROVER_assigns(gh_started, gh_sent, gh_sent_last) \
__CPROVER_ensures(gh_started == __CPROVER_old(gh_started) + 1 && gh_sent >= __CPROVER_old(gh_sent)) \
__CPROVER_ensures(__CPROVER_return_value == HER_Accepted || __CPROVER_return_value == HER_Rejected || __CPROVER_return_value == HER_Finished)

int NonSaslAuthManager_handleElement(NonSaslAuthManager *self, qdom el)
GUARDED_LISTENER
;
int SaslManager_handleElement(SaslManager *self, qdom el)
GUARDED_LISTENER
;
int Sasl2Manager_handleElement(Sasl2Manager *self, qdom el)
GUARDED_LISTENER
;
int BindManager_handleElement(BindManager *self, qdom el)
GUARDED_LISTENER
;
int C2sStreamManager_handleElement(C2sStreamManager *self, qdom el)
GUARDED_LISTENER
;

/* ---- callees that transmit nothing sensitive (state of managers the unit does not look into) ------------------------ */
void C2sStreamManager_onStreamClosed(C2sStreamManager *self) __CPROVER_requires(1) __CPROVER_assigns(self->opaque) __CPROVER_ensures(1);
void C2sStreamManager_onStreamStart(C2sStreamManager *self) __CPROVER_requires(1) __CPROVER_assigns(self->opaque) __CPROVER_ensures(1);
void C2sStreamManager_onStreamFeatures(C2sStreamManager *self, const QXmppStreamFeatures *features) __CPROVER_requires(1) __CPROVER_assigns(self->opaque) __CPROVER_ensures(1);
bool C2sStreamManager_canRequestResume(const C2sStreamManager *self) __CPROVER_requires(1) __CPROVER_assigns() __CPROVER_ensures(1);
bool C2sStreamManager_canRequestEnable(const C2sStreamManager *self) __CPROVER_requires(1) __CPROVER_assigns() __CPROVER_ensures(1);
void CsiManager_onStreamFeatures(CsiManager *self, const QXmppStreamFeatures *features) __CPROVER_requires(1) __CPROVER_assigns(self->opaque) __CPROVER_ensures(1);
void PingManager_onDataReceived(PingManager *self) __CPROVER_requires(1) __CPROVER_assigns(self->opaque) __CPROVER_ensures(1);
