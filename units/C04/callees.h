/* units/C04/callees.h -- ghost world, the TLS predicate, and the contracts of the callees that are replaced by their
 * contract in the verified callers (goto-instrument --replace-call-with-contract).  None of these has a body here.
 *
 * gh_c is the client object under verification (every enforced contract requires self == gh_c), so that callees that do
 * not receive the client (the listeners' handleElement) can still speak about its socket and configuration. */
QXmppOutgoingClient *gh_c;
unsigned gh_sent;        /* payloads handed to XmppSocket::sendData */
int gh_sent_last;      /* class (XML_<T>) of the last one */
unsigned gh_disconnects;   /* XmppSocket::disconnectFromHost calls */
unsigned gh_errors;        /* setError calls */
unsigned gh_started;       /* guarded negotiation steps started / guarded listeners run (each requires TLS_OK) */
unsigned gh_conts;         /* continuations registered with QXmppTask::then */
int gh_ev_last, gh_ev_prev; /* the last two wire-level events: EV_SEND / EV_DISCONNECT / EV_ERROR */
#define EV_SEND 1
#define EV_DISCONNECT 2
#define EV_ERROR 3
int gh_visit_result;  /* ghost hook of the visit lowering: what the current listener returned */
bool gh_at_known_site; /* ghost hook: control is at the call site recorded as finding C04-F1 */
bool gh_known_site_hit; /* ghost: a call site recorded as a finding was executed (only consulted with -DFINDING_EXCLUDED) */

#define ENCRYPTED   (gh_c->d->socket.m_socket->encrypted)
#define TLS_REQUIRED (gh_c->d->config.d->streamSecurityMode == SEC_TLSRequired)
/* DESIGN 6 C04: tls_ok := socket.isEncrypted || config.streamSecurityMode != TLSRequired */
#define TLS_OK      (ENCRYPTED || !TLS_REQUIRED)
#define LISTENER    (gh_c->d->listener)
/* representation invariant: a listener that exchanges credentials / binds / resumes is installed only under tls_ok */
#define LISTENER_INV (LISTENER.index < LISTENER_ALTS && (LISTENER.index == IDX_QXmppOutgoingClientPtr || LISTENER.index == IDX_StarttlsManager || TLS_OK))
/* keep-alive (XEP-0199) sender outside the negotiation code: the ping timer may be armed only while a session is open, and a
   session is open only under tls_ok (openSession requires tls_ok; stability assumption as for continuations) */
#define PINGMGR     (gh_c->d->pingManager)
#define SESSION_OPEN (gh_c->d->sessionStarted)
#define PING_INV    (!PINGMGR.pingTimer->active || SESSION_OPEN)
#define SESSION_INV (!SESSION_OPEN || TLS_OK)
#define SENT_NOTHING (gh_sent == __CPROVER_old(gh_sent))
#define SENT_ONLY_STARTTLS (gh_sent == __CPROVER_old(gh_sent) + 1 && gh_sent_last == XML_StarttlsRequest)

/* the finding C04-F1 is keyed by call site (startNonSaslAuth in handleStream): with -DFINDING_EXCLUDED that one call site is
   exempt from the guard so that every other call site is still checked; with -DFINDING_ONLY nothing is exempt */
#ifdef FINDING_EXCLUDED
#define KNOWN_SITE (gh_at_known_site)
#else
#define KNOWN_SITE (false)
#endif
#define GUARD (TLS_OK || KNOWN_SITE)
/* finding C04-F2 is keyed by the two stanza-dispatch callees of handleElement (one call site each) */
#ifdef FINDING_EXCLUDED
#define F2_EXEMPT 1
#define KNOWN_HIT (gh_known_site_hit)
#else
#define F2_EXEMPT 0
#define KNOWN_HIT (false)
#endif

/* ---- the wire ------------------------------------------------------------------------------------------------------ */
bool XmppSocket_sendData(XmppSocket *self, qxml data)
__CPROVER_assigns(gh_sent, gh_sent_last, gh_ev_last, gh_ev_prev)
__CPROVER_ensures(gh_sent == __CPROVER_old(gh_sent) + 1 && gh_sent_last == data)
__CPROVER_ensures(gh_ev_prev == __CPROVER_old(gh_ev_last) && gh_ev_last == EV_SEND)
;
void XmppSocket_disconnectFromHost(XmppSocket *self)
__CPROVER_assigns(gh_disconnects, gh_ev_last, gh_ev_prev)
__CPROVER_ensures(gh_disconnects == __CPROVER_old(gh_disconnects) + 1)
__CPROVER_ensures(gh_ev_prev == __CPROVER_old(gh_ev_last) && gh_ev_last == EV_DISCONNECT)
;
void QXmppOutgoingClient_setError(QXmppOutgoingClient *self, qstr text, ConnectionError *details)
__CPROVER_assigns(gh_errors, gh_ev_last, gh_ev_prev)
__CPROVER_ensures(gh_errors == __CPROVER_old(gh_errors) + 1)
__CPROVER_ensures(gh_ev_prev == __CPROVER_old(gh_ev_last) && gh_ev_last == EV_ERROR)
;
qtask qtask_then(qtask t, const QXmppOutgoingClient *context, int continuation)
__CPROVER_assigns(gh_conts)
__CPROVER_ensures(gh_conts == __CPROVER_old(gh_conts) + 1)
;
qtask StarttlsManager_task(StarttlsManager *self)
__CPROVER_requires(1)
__CPROVER_assigns()
__CPROVER_ensures(1)
;

/* ---- d->setListener<T>(args): installs a freshly constructed T as the current listener and returns it --------------- */
StarttlsManager *setListener_StarttlsManager(QXmppOutgoingClientPrivate *d)
__CPROVER_requires(d == gh_c->d)
__CPROVER_assigns(d->listener)
__CPROVER_ensures(d->listener.index == IDX_StarttlsManager && __CPROVER_return_value == &d->listener.alt_StarttlsManager && d->listener.alt_StarttlsManager.m_promise == 0)
;
SaslManager *setListener_SaslManager(QXmppOutgoingClientPrivate *d, XmppSocket *socket)
__CPROVER_requires(d == gh_c->d)
__CPROVER_assigns(d->listener)
__CPROVER_ensures(d->listener.index == IDX_SaslManager && __CPROVER_return_value == &d->listener.alt_SaslManager)
;

/* ---- guarded negotiation steps: each transmits credentials / binds / opens the session => requires tls_ok ----------- */
#define GUARDED_STEP(LISTENER_POST) \
__CPROVER_requires(self == gh_c) \
__CPROVER_requires(GUARD) \
__CPROVER_assigns(gh_started, gh_sent, gh_sent_last, gh_conts, self->d->listener) \
__CPROVER_ensures(gh_started == __CPROVER_old(gh_started) + 1) \
__CPROVER_ensures(LISTENER_POST)

void QXmppOutgoingClient_startNonSaslAuth(QXmppOutgoingClient *self)
GUARDED_STEP(self->d->listener.index == IDX_NonSaslAuthManager)
;
void QXmppOutgoingClient_startSasl2Auth(QXmppOutgoingClient *self, const Sasl2StreamFeature *sasl2Feature)
GUARDED_STEP(self->d->listener.index == IDX_Sasl2Manager)
;
void QXmppOutgoingClient_startResourceBinding(QXmppOutgoingClient *self)
GUARDED_STEP(self->d->listener.index == IDX_BindManager)
;
void QXmppOutgoingClient_startSmResume(QXmppOutgoingClient *self)
GUARDED_STEP(self->d->listener.index == IDX_C2sStreamManagerPtr)
;
void QXmppOutgoingClient_startSmEnable(QXmppOutgoingClient *self)
GUARDED_STEP(self->d->listener.index == IDX_C2sStreamManagerPtr)
;
/* openSession: marks the session started and emits connected() -- unit C10 proves that connected() is emitted only with
   d->sessionStarted set; the connected-slot of the PingManager (verified below) then arms the ping timer */
void QXmppOutgoingClient_openSession(QXmppOutgoingClient *self)
__CPROVER_requires(self == gh_c)
__CPROVER_requires(GUARD)
__CPROVER_assigns(gh_started, gh_sent, gh_sent_last, self->d->sessionStarted, self->d->pingManager.pingTimer->active)
__CPROVER_ensures(gh_started == __CPROVER_old(gh_started) + 1)
__CPROVER_ensures(self->d->sessionStarted)
;
qtask SaslManager_authenticate(SaslManager *self, const QXmppConfiguration *config, qstrlist mechanisms, QXmppOutgoingClient *loggable)
__CPROVER_requires(GUARD)
__CPROVER_assigns(gh_started, gh_sent, gh_sent_last)
__CPROVER_ensures(gh_started == __CPROVER_old(gh_started) + 1)
;

/* ---- the other listeners: they answer the server with credentials / bind / resend stanzas => require tls_ok ---------- */
/* a listener that finishes its promise runs the continuation of its guarded step synchronously; that continuation may call
   openSession (session started, ping timer armed by the connected-slot) */
#define GUARDED_LISTENER \
__CPROVER_requires(GUARD) \
__CPROVER_assigns(gh_started, gh_sent, gh_sent_last, gh_c->d->sessionStarted, gh_c->d->pingManager.pingTimer->active) \
__CPROVER_ensures(gh_started == __CPROVER_old(gh_started) + 1) \
__CPROVER_ensures(PING_INV && (SESSION_OPEN || !__CPROVER_old(gh_c->d->sessionStarted))) \
__CPROVER_ensures(__CPROVER_return_value == HER_Accepted || __CPROVER_return_value == HER_Rejected || __CPROVER_return_value == HER_Finished)

int NonSaslAuthManager_handleElement(NonSaslAuthManager *self, qdom el)
GUARDED_LISTENER
;
int SaslManager_handleElement(SaslManager *self, qdom el)
GUARDED_LISTENER
;
int Sasl2Manager_handleElement(Sasl2Manager *self, qdom el)
GUARDED_LISTENER
;
int BindManager_handleElement(BindManager *self, qdom el)
GUARDED_LISTENER
;
int C2sStreamManager_handleElement(C2sStreamManager *self, qdom el)
GUARDED_LISTENER
;

/* ---- callees that transmit nothing sensitive (state of managers the unit does not look into) ------------------------ */
void C2sStreamManager_onStreamClosed(C2sStreamManager *self) __CPROVER_requires(1) __CPROVER_assigns(self->opaque) __CPROVER_ensures(1);
void C2sStreamManager_onStreamStart(C2sStreamManager *self) __CPROVER_requires(1) __CPROVER_assigns(self->opaque) __CPROVER_ensures(1);
void C2sStreamManager_onStreamFeatures(C2sStreamManager *self, const QXmppStreamFeatures *features) __CPROVER_requires(1) __CPROVER_assigns(self->opaque) __CPROVER_ensures(1);
bool C2sStreamManager_canRequestResume(const C2sStreamManager *self) __CPROVER_requires(1) __CPROVER_assigns() __CPROVER_ensures(1);
bool C2sStreamManager_canRequestEnable(const C2sStreamManager *self) __CPROVER_requires(1) __CPROVER_assigns() __CPROVER_ensures(1);
void CsiManager_onStreamFeatures(CsiManager *self, const QXmppStreamFeatures *features) __CPROVER_requires(1) __CPROVER_assigns(self->opaque) __CPROVER_ensures(1);

/* ---- callees of QXmppOutgoingClient::handleElement ----------------------------------------------------------------- */
/* stream-management bookkeeping: counts stanzas, processes <a/>, answers <r/> with an <a/> nonza (no stanza, no credential; not counted) */
bool StreamAckManager_handleStanza(StreamAckManager *self, qdom el) __CPROVER_requires(1) __CPROVER_assigns(self->opaque) __CPROVER_ensures(1);
/* completes the pending request the element answers (its continuation belongs to whoever sent the request); transmits nothing itself */
bool OutgoingIqManager_handleStanza(OutgoingIqManager *self, qdom el) __CPROVER_requires(1) __CPROVER_assigns(self->opaque) __CPROVER_ensures(1);
void QXmppStreamFeatures_parse(QXmppStreamFeatures *self, qdom el) __CPROVER_requires(1) __CPROVER_assigns(__CPROVER_object_whole(self->d)) __CPROVER_ensures(1);
void StreamErrorElement_fromDom(StreamErrorResult *_ret, qdom el) __CPROVER_requires(1) __CPROVER_assigns(*_ret) __CPROVER_ensures(1);
void QXmppOutgoingClient_handleStreamError(QXmppOutgoingClient *self, const StreamErrorElement *streamError)
__CPROVER_assigns(gh_errors, gh_disconnects, gh_ev_last, gh_ev_prev)
__CPROVER_ensures(gh_errors - __CPROVER_old(gh_errors) <= 1u && gh_disconnects - __CPROVER_old(gh_disconnects) <= 1u)
;

/* stanza dispatch: the application (QXmppClient and its extensions, via the elementReceived signal) and the built-in fallback
   (handleStanza: error reply to unknown IQ requests) answer the peer with stanzas => require tls_ok.
   Finding C04-F2 is keyed by these two callees, each of which has exactly one call site (handleElement; checked by the inventory). */
#define STANZA_DISPATCH \
__CPROVER_requires(self == gh_c) \
__CPROVER_requires(TLS_OK || F2_EXEMPT) \

void QXmppOutgoingClient_elementReceived(QXmppOutgoingClient *self, qdom element, bool *handled)
STANZA_DISPATCH
__CPROVER_assigns(*handled, gh_started, gh_sent, gh_sent_last, gh_known_site_hit)
__CPROVER_ensures(gh_started == __CPROVER_old(gh_started) + 1 && gh_sent >= __CPROVER_old(gh_sent) && gh_known_site_hit == (__CPROVER_old(gh_known_site_hit) || !TLS_OK))
;
bool QXmppOutgoingClient_handleStanza(QXmppOutgoingClient *self, qdom stanza)
STANZA_DISPATCH
__CPROVER_assigns(gh_started, gh_sent, gh_sent_last, gh_known_site_hit)
__CPROVER_ensures(gh_started == __CPROVER_old(gh_started) + 1 && gh_sent >= __CPROVER_old(gh_sent) && gh_known_site_hit == (__CPROVER_old(gh_known_site_hit) || !TLS_OK))
;

/* ---- callees of the keep-alive code ------------------------------------------------------------------------------ */
bool StreamAckManager_enabled(const StreamAckManager *self) __CPROVER_requires(1) __CPROVER_assigns() __CPROVER_ensures(1);
/* writes a stream-management <r/> nonza (no stanza, no credential; not counted) */
void StreamAckManager_sendAcknowledgementRequest(StreamAckManager *self) __CPROVER_requires(1) __CPROVER_assigns(self->opaque) __CPROVER_ensures(1);
/* StreamAckManager::send(QXmppPacket): a stanza goes to the wire => requires tls_ok */
qtask StreamAckManager_send_stanza(StreamAckManager *self, int kind)
__CPROVER_requires(GUARD)
__CPROVER_assigns(gh_sent, gh_sent_last, gh_ev_last, gh_ev_prev, self->opaque)
__CPROVER_ensures(gh_sent == __CPROVER_old(gh_sent) + 1 && gh_sent_last == kind)
__CPROVER_ensures(gh_ev_prev == __CPROVER_old(gh_ev_last) && gh_ev_last == EV_SEND)
;
