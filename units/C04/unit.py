"""C04 -- with TLS required, no credential or stanza is sent before the link is encrypted.

Real functions lowered on every run (src/client/QXmppOutgoingClient.cpp unless noted):
  QXmppOutgoingClient::{handleStarttls, handleStreamFeatures, handleStream, handlePacketReceived, handleElement, handleStart,
  disconnectFromHost, socket, configuration, streamAckManager, iqManager}, StarttlsManager::handleElement,
  the continuation lambda of handleStarttls, XmppSocket::socket (XmppSocket.h), StarttlsProceed::fromDom (base/Stream.cpp),
  QXmppConfiguration::{streamSecurityMode, use*Authentication} (QXmppConfiguration.cpp),
  QXmppStreamFeatures::{tlsMode, nonSaslAuthMode, bindMode, authMechanisms, sasl2Feature, isStreamFeatures} (base/QXmppStreamFeatures.cpp).
Keep-alive sender outside the negotiation code (XEP-0199): PingManager::{onDataReceived, sendPing}, the three lambdas of PingManager's
  constructor (roles taken from what each is wired to: pingTimer.timeout / connected / disconnected / other),
  QXmppOutgoingClient::throwKeepAliveError, QXmppConfiguration::{domain, keepAliveInterval, keepAliveTimeout}; QTimer = armed / not armed.
"""
import os, re, json
from concurrent.futures import ThreadPoolExecutor
from vlib.unit import Builder, Target, Spec, VERIF, scan_assumes
from vlib.runner import Proof, ToolError
from vlib.cxx2c import strip_type, Unsupported
from vlib import ctx, astx, configure
import lowering
from lowering import C04Lowerer, profile, variant_alternatives, alt_cname

QT = os.path.join(VERIF, 'qtmodel')
HERE = os.path.dirname(os.path.abspath(__file__))
OC = 'src/client/QXmppOutgoingClient.cpp'
CONF = 'src/client/QXmppConfiguration.cpp'
FEAT = 'src/base/QXmppStreamFeatures.cpp'
STREAM = 'src/base/Stream.cpp'
FINDING = 'C04-F1'
FINDING2 = 'C04-F2'

# every function that transmits credentials / binds / opens the session; each is a contracted stub with requires(tls_ok)
GUARDED = ['startNonSaslAuth', 'startSasl2Auth', 'startResourceBinding', 'startSmResume', 'startSmEnable', 'openSession']
GUARDED_OTHER = ['SaslManager::authenticate']


def rd(name):
    return open(os.path.join(HERE, name)).read()


def path(rel):
    return os.path.join(configure.REPO, rel)


def prewarm(jobs):
    configure.configure()
    with ThreadPoolExecutor(max_workers=6) as ex:
        list(ex.map(lambda j: _try_dump(*j), jobs))


def _try_dump(src, filt):
    try:
        astx.dump(src, filt)
    except astx.ExtractError:
        pass


def listener_model(alts, prof):
    lw = C04Lowerer({'inner': []}, 'x', prof)
    lines = ['typedef struct Listener {', '  size_t index;   /* std::variant::index() */']
    for a in alts:
        lines.append('  %s %s;' % (lw.ctype(a), alt_cname(a)))
    lines.append('} Listener;')
    out = ['#define LISTENER_ALTS %d' % len(alts)]
    for i, a in enumerate(alts):
        out.append('#define IDX_%s %d' % (alt_cname(a)[4:], i))
    return '\n'.join(lines), '\n'.join(out)


def listener_setters(alts):
    out = []
    for i, a in enumerate(alts):
        if a.endswith('*'):
            n = alt_cname(a)[4:]
            out.append('/* listener = <%s>: std::variant converting assignment */\nstatic inline void Listener_set_%s(Listener *l, %s p) { l->index = %d; l->%s = p; }'
                       % (a, n, a.replace('*', ' *'), i, alt_cname(a)))
    return '\n'.join(out)


def enum_defines(prefix, src, etype):
    vals = ctx.enum_values(src, etype)
    return '\n'.join('#define %s_%s %d' % (prefix, k, v) for k, v in vals.items()), vals


def find_lambda(fn_decl, ordinal):
    """the body-carrying, non-generic operator() of the ordinal-th LambdaExpr (source order) of a function"""
    found = []

    def walk(n):
        if n.get('kind') == 'LambdaExpr':
            found.append(n)
            return
        for c in n.get('inner', []):
            if isinstance(c, dict):
                walk(c)
    walk(fn_decl)
    if ordinal >= len(found):
        raise astx.ExtractError('lambda #%d not found' % ordinal)
    rec = [c for c in found[ordinal]['inner'] if c.get('kind') == 'CXXRecordDecl'][0]
    ops = [c for c in rec['inner'] if c.get('kind') == 'CXXMethodDecl' and c.get('name') == 'operator()' and astx.has_body(c)]
    if len(ops) != 1:
        raise astx.ExtractError('lambda #%d: %d concrete operator() bodies' % (ordinal, len(ops)))
    return ops[0]


def call_site_inventory():
    """DESIGN 5.7: every caller of a guarded callee in src/.  Callers must be the verified functions or the listed
    continuations; anything else makes the closed-world premise of the unit false -> ToolError (exit 2)."""
    docs, _ = astx.dump(path(OC), 'QXmppOutgoingClient::')
    sites = []

    def walk(n, fn, lam):
        k = n.get('kind')
        if k in ('CXXMemberCallExpr',):
            me = n['inner'][0]
            while me.get('kind') in ('ImplicitCastExpr', 'ParenExpr'):
                me = me['inner'][0]
            if me.get('kind') == 'MemberExpr' and me.get('name') in GUARDED:
                sites.append((fn, lam, me.get('name')))
            elif me.get('kind') == 'MemberExpr' and me.get('name') == 'authenticate' and me.get('inner') and \
                    lowering.short(lowering.qt(me['inner'][0])) == 'SaslManager':
                sites.append((fn, lam, 'SaslManager::authenticate'))
        for c in n.get('inner', []):
            if isinstance(c, dict):
                if c.get('kind') == 'LambdaExpr':
                    # only the written body (last child), not the closure class' copies of it
                    body = [x for x in c.get('inner', []) if x.get('kind') == 'CompoundStmt']
                    for b_ in body:
                        walk(b_, fn, True)
                    continue
                walk(c, fn, lam)
    for d in docs:
        if d.get('kind') in ('CXXMethodDecl', 'CXXConstructorDecl', 'CXXDestructorDecl') and astx.has_body(d):
            walk(d, d.get('name'), False)
    sites = sorted(set(sites))
    # textual closed-world check over the rest of src/: the guarded members are private to QXmppOutgoingClient
    others = []
    pat = re.compile(r'\b(' + '|'.join(GUARDED) + r')\s*\(')
    for root, _, files in os.walk(path('src')):
        for f in files:
            if not f.endswith(('.cpp', '.h')):
                continue
            p = os.path.join(root, f)
            if os.path.realpath(p) == os.path.realpath(path(OC)) or f in ('QXmppOutgoingClient.h',):
                continue
            txt = open(p, errors='replace').read()
            if pat.search(txt):
                others.append(os.path.relpath(p, configure.REPO))
    return sites, others


PING_MEMBERS = ('pingTimer', 'timeoutTimer')
# what the (unverified) constructor body itself may do with the timers: wiring only, nothing that arms them
CTOR_BODY_OK = {('pingTimer', 'callOnTimeout'), ('timeoutTimer', 'callOnTimeout'), ('timeoutTimer', 'setSingleShot')}
# functions whose whole body is under contract here: whatever they do with the timers is decided by their postconditions
PING_VERIFIED = {('onDataReceived', False), ('sendPing', False), ('PingManager', True)}


def ping_ctor_slots(ctor):
    """roles of the lambdas of PingManager's constructor, derived from what each one is WIRED to (not from source order):
         pingTimer->callOnTimeout(ctx, lambda)                          -> 'timeout'       (runs only while the ping timer is armed)
         QObject::connect(q, &QXmppOutgoingClient::connected, ctx, lambda)    -> 'connected'     (runs only with the session started, C10)
         QObject::connect(q, &QXmppOutgoingClient::disconnected, ctx, lambda) -> 'disconnected'
         anything else                                                  -> 'other'         (no premise about the session)
       Every lambda of the constructor must be wired by one of these statements, otherwise Unsupported (exit 2)."""
    lambdas = []

    def collect(n):
        if n.get('kind') == 'LambdaExpr':
            lambdas.append(n)
            return
        for c in n.get('inner', []):
            if isinstance(c, dict):
                collect(c)
    collect(ctor)
    body = [c for c in ctor['inner'] if c.get('kind') == 'CompoundStmt'][0]

    def strip(n):
        while n.get('kind') in ('ExprWithCleanups', 'CXXBindTemporaryExpr', 'MaterializeTemporaryExpr', 'ImplicitCastExpr', 'ParenExpr', 'CXXConstructExpr', 'CXXFunctionalCastExpr') and n.get('inner'):
            n = n['inner'][0]
        return n

    def find_lambda_in(n):
        if n.get('kind') == 'LambdaExpr':
            return n
        for c in n.get('inner', []):
            if isinstance(c, dict):
                r = find_lambda_in(c)
                if r is not None:
                    return r
        return None

    def signal_of(n):
        n = strip(n)
        if n.get('kind') == 'UnaryOperator' and n.get('opcode') == '&':
            d = strip(n['inner'][0])
            if d.get('kind') == 'DeclRefExpr':
                m = re.search(r'\((\w[\w:]*)::\*\)', n.get('type', {}).get('qualType', ''))
                return (lowering.short(m.group(1)) if m else '?', d['referencedDecl'].get('name'))
        return None

    def is_q(n):
        n = strip(n)
        return (n.get('kind') == 'DeclRefExpr' and n['referencedDecl'].get('name') == 'q') or (n.get('kind') == 'MemberExpr' and n.get('name') == 'q')

    roles = {}
    for st in body.get('inner', []):
        e = strip(st)
        lam = find_lambda_in(st)
        if lam is None:
            continue
        idx = next(i for i, l in enumerate(lambdas) if l is lam)
        role, what = 'other', 'a slot the unit has no premise for'
        if e.get('kind') == 'CXXMemberCallExpr':
            me = strip(e['inner'][0])
            tb = strip(me['inner'][0]) if me.get('inner') else {}
            if me.get('name') == 'callOnTimeout' and tb.get('kind') == 'MemberExpr' and tb.get('name') == 'pingTimer':
                role, what = 'timeout', 'slot of pingTimer.timeout'
            elif me.get('name') == 'callOnTimeout' and tb.get('kind') == 'MemberExpr':
                what = 'slot of %s.timeout' % tb.get('name')
        elif e.get('kind') == 'CallExpr' and e['inner'][0] is not None:
            callee = strip(e['inner'][0])
            args = e['inner'][1:]
            if callee.get('kind') == 'DeclRefExpr' and callee['referencedDecl'].get('name') == 'connect' and len(args) >= 3:
                sig = signal_of(args[1])
                if sig == ('QXmppOutgoingClient', 'connected') and is_q(args[0]):
                    role, what = 'connected', 'slot of QXmppOutgoingClient::connected'
                elif sig == ('QXmppOutgoingClient', 'disconnected') and is_q(args[0]):
                    role, what = 'disconnected', 'slot of QXmppOutgoingClient::disconnected'
                elif sig:
                    what = 'slot of %s::%s' % sig
        roles[idx] = (role, what)
    if sorted(roles) != list(range(len(lambdas))):
        raise Unsupported('PingManager constructor: a lambda is not wired by a top-level callOnTimeout / connect statement (restructured code)')
    return [(i, roles[i][0], roles[i][1]) for i in sorted(roles)]


def timer_inventory():
    """closed world of the keep-alive timers (DESIGN 5.7): every use of PingManager::pingTimer / timeoutTimer and every caller of
    sendPing in the client's TU.  A use inside a function under contract is judged by that contract; the constructor body may
    only wire the timers; anything else (a new function that starts a timer, a new caller of sendPing) -> ToolError (exit 2)."""
    docs, _ = astx.dump(path(OC), 'PingManager')
    docs2, _ = astx.dump(path(OC), 'QXmppOutgoingClient::')
    sites = []

    def walk(n, fn, lam):
        if n.get('kind') == 'CXXMemberCallExpr':
            me = n['inner'][0]
            while me.get('kind') in ('ImplicitCastExpr', 'ParenExpr'):
                me = me['inner'][0]
            if me.get('kind') == 'MemberExpr':
                if me.get('name') == 'sendPing':
                    sites.append((fn, lam, 'this', 'sendPing'))
                base = me.get('inner', [{}])[0]
                while base.get('kind') in ('ImplicitCastExpr', 'ParenExpr'):
                    base = base['inner'][0]
                if base.get('kind') == 'MemberExpr' and base.get('name') in PING_MEMBERS:
                    sites.append((fn, lam, base['name'], me.get('name')))
        elif n.get('kind') == 'MemberExpr' and n.get('name') in PING_MEMBERS:
            sites.append((fn, lam, n['name'], '<use>'))
        for c in n.get('inner', []):
            if isinstance(c, dict):
                if c.get('kind') == 'LambdaExpr':
                    for b_ in [x for x in c.get('inner', []) if x.get('kind') == 'CompoundStmt']:
                        walk(b_, fn, True)
                    continue
                if c.get('kind') == 'CXXCtorInitializer':
                    continue   # pingTimer(new QTimer(q)): creation, not a use
                walk(c, fn, lam)
    seen_ids = set()
    for d in list(docs) + list(docs2):
        if d.get('kind') in ('CXXMethodDecl', 'CXXConstructorDecl', 'CXXDestructorDecl') and astx.has_body(d) and d.get('id') not in seen_ids:
            seen_ids.add(d.get('id'))
            walk(d, d.get('name'), False)
    # a `<use>` entry directly below a recorded call is the same site: keep calls, and bare uses that are not part of a call
    calls = {(f, l, m) for f, l, m, k in sites if k != '<use>'}
    sites = sorted(set(x for x in sites if x[3] != '<use>' or (x[0], x[1], x[2]) not in calls))
    bad = []
    for fn, lam, member, method in sites:
        if (fn, lam) in PING_VERIFIED:
            continue
        if fn == 'PingManager' and not lam and (member, method) in CTOR_BODY_OK:
            continue
        bad.append((fn, lam, member, method))
    others = []
    pat = re.compile(r'\b(pingTimer|timeoutTimer|sendPing)\b')
    for root, _, files in os.walk(path('src')):
        for f in files:
            if not f.endswith(('.cpp', '.h')):
                continue
            p = os.path.join(root, f)
            if os.path.realpath(p) == os.path.realpath(path(OC)) or f == 'QXmppOutgoingClient_p.h':
                continue
            if pat.search(open(p, errors='replace').read()):
                others.append(os.path.relpath(p, configure.REPO))
    if bad or others:
        raise ToolError('keep-alive timer inventory: the ping/timeout timer or sendPing is used from a place the unit does not cover: %s %s' % (bad, others))
    return sites


VERIFIED_CALLERS = {'handleStream', 'handleStreamFeatures'}
# continuations registered by the guarded steps themselves (they run after the step's precondition tls_ok was established)
CONTINUATION_CALLERS = {'startSasl2Auth', 'startNonSaslAuth', 'startSmResume', 'startSmEnable', 'startResourceBinding'}


def build(work, tier):
    jobs = [(path(OC), 'QXmppOutgoingClient::'), (path(OC), 'QXmppOutgoingClientPrivate'), (path(OC), 'StarttlsManager'), (path(OC), 'XmppSocket'),
            (path(CONF), 'QXmppConfiguration'), (path(FEAT), 'QXmppStreamFeatures'), (path(STREAM), 'StarttlsProceed::fromDom'),
            (path(OC), 'HandleElementResult'), (path(OC), 'PingManager'), (path(OC), 'StreamSecurityMode'), (path(OC), 'QXmppOutgoingClient')]
    prewarm(jobs)
    # ------------------------------------------------------------------ the listener variant, from the real field type
    fields, _ = ctx.record_fields(path(OC), 'QXmppOutgoingClientPrivate', 'QXmppOutgoingClientPrivate')
    lt = dict(fields).get('listener')
    if lt is None:
        raise Unsupported('QXmppOutgoingClientPrivate has no member `listener` (renamed/restructured code)')
    keys = {strip_type(lt['qualType']), strip_type(lt.get('desugaredQualType', lt['qualType']))}
    alts = variant_alternatives(lt.get('desugaredQualType', lt['qualType']))
    C04Lowerer.listener_alts = alts
    prof = profile(keys)
    prof.types.update({'QSharedDataPointer<QXmppConfigurationPrivate>': 'QXmppConfigurationPrivate*', 'QXmppConfigurationPrivate': 'QXmppConfigurationPrivate',
                       'QSharedDataPointer<QXmppStreamFeaturesPrivate>': 'QXmppStreamFeaturesPrivate*', 'QXmppStreamFeaturesPrivate': 'QXmppStreamFeaturesPrivate'})
    prof.class_types.update({'QXmppConfigurationPrivate', 'QXmppStreamFeaturesPrivate'})
    prof.calls.update({'op->:QXmppConfigurationPrivate*': ('expr', '{0}'), 'op->:QXmppStreamFeaturesPrivate*': ('expr', '{0}')})
    prof.hooks = [
        {'id': 'known_site_enter', 'fn': 'QXmppOutgoingClient_handleStream', 'before': r'^\s*QXmppOutgoingClient_startNonSaslAuth\(self\);', 'emit': 'gh_at_known_site = true;', 'count': 1},
        {'id': 'known_site_leave', 'fn': 'QXmppOutgoingClient_handleStream', 'after': r'^\s*QXmppOutgoingClient_startNonSaslAuth\(self\);', 'emit': 'gh_at_known_site = false; gh_known_site_hit = true;', 'count': 1},
    ]
    b = Builder('C04', work, prof)
    common = rd('common_requires.inc').strip()
    ping_common = rd('ping_common.inc').strip()

    def spec(fname):
        return Spec(b.subst(rd(fname).replace('@COMMON@', common).replace('@PING_COMMON@', ping_common)))

    # ------------------------------------------------------------------ records (field lists from the real classes)
    recs = []
    for src, filt, cls in ((OC, 'QXmppOutgoingClientPrivate', 'QXmppOutgoingClientPrivate'), (OC, 'QXmppOutgoingClient', 'QXmppOutgoingClient'),
                           (OC, 'XmppSocket', 'XmppSocket'), (OC, 'StarttlsManager', 'StarttlsManager'), (OC, 'PingManager', 'PingManager'),
                           (CONF, 'QXmppConfiguration', 'QXmppConfigurationPrivate'), (CONF, 'QXmppConfiguration', 'QXmppConfiguration'),
                           (FEAT, 'QXmppStreamFeatures', 'QXmppStreamFeaturesPrivate'), (FEAT, 'QXmppStreamFeatures', 'QXmppStreamFeatures')):
        text, names = ctx.emit_record(path(src), filt, cls, cls, prof, opaque_ok=True)
        recs.append((cls, text, names))
    need = {'QXmppOutgoingClientPrivate': ['config', 'socket', 'listener', 'streamId', 'streamFrom', 'streamVersion', 'bindModeAvailable', 'c2sStreamManager', 'csiManager', 'pingManager', 'q', 'sessionStarted', 'streamAckManager', 'iqManager'],
            'PingManager': ['q', 'pingTimer', 'timeoutTimer'],
            'QXmppOutgoingClient': ['d'], 'XmppSocket': ['m_socket'], 'StarttlsManager': ['m_promise'],
            'QXmppConfigurationPrivate': ['streamSecurityMode', 'useSasl2Authentication', 'useSASLAuthentication', 'useNonSASLAuthentication', 'keepAliveInterval', 'keepAliveTimeout', 'domain'],
            'QXmppConfiguration': ['d'], 'QXmppStreamFeaturesPrivate': ['tlsMode', 'bindMode', 'nonSaslAuthMode', 'authMechanisms', 'sasl2Feature'], 'QXmppStreamFeatures': ['d']}
    for cls, text, names in recs:
        for f in need[cls]:
            if not re.search(r'\b%s;' % f, text):
                raise Unsupported('record %s: member %s missing or of an unmodelled type (renamed/restructured code)' % (cls, f))
    order = ['QXmppConfigurationPrivate', 'QXmppConfiguration', 'QXmppStreamFeaturesPrivate', 'QXmppStreamFeatures', 'XmppSocket', 'StarttlsManager', 'PingManager']
    rec_text = {cls: text for cls, text, _ in recs}
    lstruct, ldefs = listener_model(alts, prof)
    sec_defs, _ = enum_defines('SEC', path(OC), 'StreamSecurityMode')
    her_defs, her = enum_defines('HER', path(OC), 'HandleElementResult')
    records = '\n'.join(['typedef struct QXmppOutgoingClient QXmppOutgoingClient;'] + [rec_text[c] for c in order] +
                        [lstruct, ldefs, listener_setters(alts), rec_text['QXmppOutgoingClientPrivate'], rec_text['QXmppOutgoingClient'], sec_defs, her_defs])
    # type invariant of the private object: its enum-typed members hold declared enumerators (generated from the class definition)
    inv, inv_fields = ctx.enum_field_invariant(path(OC), 'QXmppOutgoingClientPrivate', 'QXmppOutgoingClientPrivate')
    for fld in inv_fields:
        if not re.search(r'\b%s;' % fld, rec_text['QXmppOutgoingClientPrivate']):
            raise Unsupported('enum member %s of QXmppOutgoingClientPrivate is not mirrored in the record' % fld)
    records += '\n#define QXmppOutgoingClientPrivate_ENUMS_VALID(p) (' + inv.replace('%s', 'p') + ')\n'

    # ------------------------------------------------------------------ lowering of the real functions
    L = C04Lowerer
    lowered = {}
    specs = {}

    def low(src, filt, name, cname, this, specfile=None, **kw):
        sp = spec(specfile) if specfile else None
        t = Target(src, filt, name, cname, this=this, parent=None, lowerer_cls=L, **kw)
        txt = b.lower(t, sp)
        lowered[cname] = txt
        specs[cname] = sp
        return b.last

    # contracts under proof
    lw_starttls = low(OC, 'QXmppOutgoingClient::', 'handleStarttls', 'QXmppOutgoingClient_handleStarttls', 'QXmppOutgoingClient', 'handleStarttls.spec')
    low(OC, 'QXmppOutgoingClient::', 'handleStreamFeatures', 'QXmppOutgoingClient_handleStreamFeatures', 'QXmppOutgoingClient', 'handleStreamFeatures.spec')
    low(OC, 'QXmppOutgoingClient::', 'handleStream', 'QXmppOutgoingClient_handleStream', 'QXmppOutgoingClient', 'handleStream.spec')
    low(OC, 'QXmppOutgoingClient::', 'handlePacketReceived', 'QXmppOutgoingClient_handlePacketReceived', 'QXmppOutgoingClient', 'handlePacketReceived.spec')
    low(OC, 'QXmppOutgoingClient::', 'handleElement', 'QXmppOutgoingClient_handleElement', 'QXmppOutgoingClient', 'handleElement.spec')
    low(OC, 'QXmppOutgoingClient::', 'streamAckManager', 'QXmppOutgoingClient_streamAckManager', 'QXmppOutgoingClient')
    low(OC, 'QXmppOutgoingClient::', 'iqManager', 'QXmppOutgoingClient_iqManager', 'QXmppOutgoingClient')
    low(FEAT, 'QXmppStreamFeatures', 'isStreamFeatures', 'QXmppStreamFeatures_isStreamFeatures', None)
    low(OC, 'StarttlsManager', 'handleElement', 'StarttlsManager_handleElement', 'StarttlsManager', 'starttls_handleElement.spec')
    lw_start = low(OC, 'QXmppOutgoingClient::', 'handleStart', 'QXmppOutgoingClient_handleStart', 'QXmppOutgoingClient', 'handleStart.spec')
    # the continuation handleStarttls registers on <proceed/> (lambda #0 of handleStarttls)
    fn = astx.find_function(path(OC), 'QXmppOutgoingClient::', 'handleStarttls')
    lam = find_lambda(fn, 0)
    sp = spec('starttls_continuation.spec')
    orig = astx.find_function
    astx.find_function = lambda *a, **k: lam
    try:
        lowered['handleStarttls_cont0'] = b.lower(Target(OC, 'QXmppOutgoingClient::', 'operator()', 'handleStarttls_cont0', this='QXmppOutgoingClient', lowerer_cls=L), sp)
    finally:
        astx.find_function = orig
    b.functions[-1]['function'] = 'QXmppOutgoingClient::handleStarttls::<lambda#0> (continuation on <proceed/>)'
    specs['handleStarttls_cont0'] = sp
    # ---- the keep-alive sender (XEP-0199), outside the negotiation code
    low(OC, 'PingManager', 'onDataReceived', 'PingManager_onDataReceived', 'PingManager', 'ping_onDataReceived.spec')
    lw_ping = low(OC, 'PingManager', 'sendPing', 'PingManager_sendPing', 'PingManager', 'ping_sendPing.spec')
    low(OC, 'QXmppOutgoingClient::', 'throwKeepAliveError', 'QXmppOutgoingClient_throwKeepAliveError', 'QXmppOutgoingClient', 'throwKeepAliveError.spec')
    ctor = astx.find_function(path(OC), 'PingManager', 'PingManager')
    slots = ping_ctor_slots(ctor)
    ping_slot_proofs = []
    for ordinal, role, what in slots:
        specfile, base = {'timeout': ('ping_timeout_slot.spec', 'PingManager_timeout_slot'), 'connected': ('ping_connected_slot.spec', 'PingManager_connected_slot'),
                          'disconnected': ('ping_disconnected_slot.spec', 'PingManager_disconnected_slot')}.get(role, ('ping_other_slot.spec', 'PingManager_other_slot%d' % ordinal))
        cname = base
        if cname in lowered:
            raise Unsupported('two slots of the PingManager constructor have the role %s (restructured code)' % role)
        lam = find_lambda(ctor, ordinal)
        sp = spec(specfile)
        orig = astx.find_function
        astx.find_function = lambda *a, **k: lam
        try:
            lowered[cname] = b.lower(Target(OC, 'PingManager', 'operator()', cname, this='PingManager', lowerer_cls=L), sp)
        finally:
            astx.find_function = orig
        b.functions[-1]['function'] = 'PingManager::PingManager::<lambda#%d> (%s)' % (ordinal, what)
        specs[cname] = sp
        ping_slot_proofs.append((cname, role, what))
    for g in ('domain', 'keepAliveTimeout', 'keepAliveInterval'):
        low(CONF, 'QXmppConfiguration', g, 'QXmppConfiguration_' + g, 'QXmppConfiguration')
    timer_sites = timer_inventory()
    # real helpers, verified inline with their callers (no contract of their own)
    low(OC, 'QXmppOutgoingClient::', 'socket', 'QXmppOutgoingClient_socket', 'QXmppOutgoingClient')
    low(OC, 'QXmppOutgoingClient::', 'configuration', 'QXmppOutgoingClient_configuration', 'QXmppOutgoingClient')
    low(OC, 'QXmppOutgoingClient::', 'disconnectFromHost', 'QXmppOutgoingClient_disconnectFromHost', 'QXmppOutgoingClient')
    low(OC, 'XmppSocket', 'socket', 'XmppSocket_socket', 'XmppSocket')
    low(STREAM, 'StarttlsProceed::fromDom', 'fromDom', 'StarttlsProceed_fromDom', None)
    for g in ('streamSecurityMode', 'useNonSASLAuthentication', 'useSASLAuthentication', 'useSasl2Authentication'):
        low(CONF, 'QXmppConfiguration', g, 'QXmppConfiguration_' + g, 'QXmppConfiguration')
    for g in ('tlsMode', 'nonSaslAuthMode', 'bindMode', 'authMechanisms', 'sasl2Feature'):
        low(FEAT, 'QXmppStreamFeatures', g, 'QXmppStreamFeatures_' + g, 'QXmppStreamFeatures')

    # ------------------------------------------------------------------ closed world: callers of the guarded callees
    sites, others = call_site_inventory()
    callers = {s[0] for s in sites}
    unknown = [s for s in sites if not ((s[0] in VERIFIED_CALLERS and not s[1]) or (s[0] in CONTINUATION_CALLERS and s[1]))]
    if unknown or others:
        raise ToolError('call-site inventory: guarded callee called from a place the unit does not cover: %s %s' % (unknown, others))

    # ------------------------------------------------------------------ assemble one C file
    payload = sorted(set().union(*[getattr(x, 'need_payload', set()) for x in [lw_starttls, lw_start]]))
    payload_defs = '\n'.join('#define XML_%s %d' % (t, i + 1) for i, t in enumerate(payload))
    stanzas = sorted(getattr(lw_ping, 'need_stanza', set()) | {'QXmppPingIq'})
    payload_defs += '\n' + '\n'.join('#define STANZA_%s %d' % (t, 100 + i) for i, t in enumerate(stanzas))
    conts = '\n'.join('#define CONT_%s_0 %d' % (c, i + 1) for i, c in enumerate(['QXmppOutgoingClient_handleStarttls', 'QXmppOutgoingClient_handleStreamFeatures']))
    helpers = ['QXmppOutgoingClient_streamAckManager', 'QXmppOutgoingClient_iqManager', 'QXmppStreamFeatures_isStreamFeatures', 'QXmppOutgoingClient_socket', 'QXmppOutgoingClient_configuration', 'XmppSocket_socket', 'QXmppOutgoingClient_disconnectFromHost', 'StarttlsProceed_fromDom'] + \
              ['QXmppConfiguration_' + g for g in ('streamSecurityMode', 'useNonSASLAuthentication', 'useSASLAuthentication', 'useSasl2Authentication', 'domain', 'keepAliveTimeout', 'keepAliveInterval')] + \
              ['QXmppStreamFeatures_' + g for g in ('tlsMode', 'nonSaslAuthMode', 'bindMode', 'authMechanisms', 'sasl2Feature')]
    main_fns = ['StarttlsManager_handleElement', 'QXmppOutgoingClient_handleStarttls', 'QXmppOutgoingClient_handleStreamFeatures', 'QXmppOutgoingClient_handleStream',
                'QXmppOutgoingClient_handleElement', 'QXmppOutgoingClient_handlePacketReceived', 'QXmppOutgoingClient_handleStart', 'handleStarttls_cont0',
                'PingManager_onDataReceived', 'PingManager_sendPing'] + [c for c, _, _ in ping_slot_proofs] + ['QXmppOutgoingClient_throwKeepAliveError']
    protos = '\n'.join(lowered[f].split('\n')[0] + ';' for f in main_fns + helpers)
    ctxt = b.context()
    # the same enum / namespace constant may be needed by functions of several TUs: emit each definition once
    seen = set()
    ctxt = '\n'.join(l for l in ctxt.split('\n') if not (l.startswith(('enum {', 'static const')) and (l in seen or seen.add(l))))
    body = '\n'.join(lowered[f] for f in helpers + main_fns)
    harness = '''
/* ghost state starts from arbitrary values (globals would otherwise be zero-initialised: supportsSsl() == false only) */
static void gh_init(void) { gh_supportsSsl = nondet_bool(); gh_sent = nondet_uint(); gh_sent_last = nondet_int(); gh_disconnects = nondet_uint(); gh_errors = nondet_uint();
  gh_started = nondet_uint(); gh_conts = nondet_uint(); gh_ev_last = nondet_int(); gh_ev_prev = nondet_int(); gh_visit_result = nondet_int(); }
void h_handleStarttls(void) { gh_init(); QXmppOutgoingClient *self; const QXmppStreamFeatures *features; QXmppOutgoingClient_handleStarttls(self, features); }
void h_handleStreamFeatures(void) { gh_init(); QXmppOutgoingClient *self; const QXmppStreamFeatures *features; QXmppOutgoingClient_handleStreamFeatures(self, features); }
void h_handleStream(void) { gh_init(); QXmppOutgoingClient *self; qdom el; QXmppOutgoingClient_handleStream(self, el); }
void h_handlePacketReceived(void) { gh_init(); QXmppOutgoingClient *self; qdom el; QXmppOutgoingClient_handlePacketReceived(self, el); }
void h_handleElement(void) { gh_init(); QXmppOutgoingClient *self; qdom el; QXmppOutgoingClient_handleElement(self, el); }
void h_handleStart(void) { gh_init(); QXmppOutgoingClient *self; QXmppOutgoingClient_handleStart(self); }
void h_starttls_cont(void) { gh_init(); QXmppOutgoingClient *self; handleStarttls_cont0(self); }
void h_ping_onDataReceived(void) { gh_init(); PingManager *self; PingManager_onDataReceived(self); }
void h_ping_sendPing(void) { gh_init(); PingManager *self; PingManager_sendPing(self); }
void h_throwKeepAliveError(void) { gh_init(); QXmppOutgoingClient *self; QXmppOutgoingClient_throwKeepAliveError(self); }
void h_starttls_handleElement(void) { gh_init(); StarttlsManager *self; qdom el; StarttlsManager_handleElement(self, el); }
'''
    harness += ''.join('void h_%s(void) { gh_init(); const PingManager *self; %s(self); }\n' % (c_, c_) for c_, _, _ in ping_slot_proofs)
    c = '\n'.join(['#include "opaque.h"', prof.literal_ids.table(), rd('model.h'), records, ctxt, payload_defs, conts, b.subst(rd('callees.h')),
                   protos, body, harness])
    f = b.write('c04.c', c)

    stubs = ['XmppSocket_sendData', 'XmppSocket_disconnectFromHost', 'QXmppOutgoingClient_setError', 'qtask_then', 'StarttlsManager_task',
             'setListener_StarttlsManager', 'setListener_SaslManager'] + ['QXmppOutgoingClient_' + g for g in GUARDED] + ['SaslManager_authenticate'] + \
            [m + '_handleElement' for m in ('NonSaslAuthManager', 'SaslManager', 'Sasl2Manager', 'BindManager', 'C2sStreamManager')] + \
            ['C2sStreamManager_onStreamClosed', 'C2sStreamManager_onStreamStart', 'C2sStreamManager_onStreamFeatures', 'C2sStreamManager_canRequestResume', 'C2sStreamManager_canRequestEnable',
             'CsiManager_onStreamFeatures', 'StreamAckManager_handleStanza', 'StreamAckManager_enabled', 'StreamAckManager_sendAcknowledgementRequest', 'StreamAckManager_send_stanza', 'OutgoingIqManager_handleStanza',
             'QXmppStreamFeatures_parse', 'StreamErrorElement_fromDom', 'QXmppOutgoingClient_handleStreamError', 'QXmppOutgoingClient_elementReceived',
             'QXmppOutgoingClient_handleStanza']

    proofs = []

    def proof(pid, entry, enforce, replace, defines=('FINDING_EXCLUDED',), note='', finding=None):
        sp = specs[enforce]
        p = Proof(pid, f, entry, enforce=enforce, replace=replace, kind='complete', include_dirs=[QT], timeout=600, loop_contracts=False,
                  defines=list(defines), note=note)
        p.labels = {'post': {enforce: sp.labels}}
        p.expect_post = len(sp.labels)
        if finding:
            p.finding = finding
        proofs.append(p)
        return p

    proof('starttls_handleElement', 'h_starttls_handleElement', 'StarttlsManager_handleElement', [],
          note='loop-free; every element (abstract DOM); StarttlsProceed::fromDom lowered and inlined')
    proof('handleStart', 'h_handleStart', 'QXmppOutgoingClient_handleStart', stubs,
          note='loop-free; every (re)started stream resets the listener to the client itself before anything is received')
    proof('handleStarttls.continuation', 'h_starttls_cont', 'handleStarttls_cont0', stubs,
          note='loop-free; the continuation run on <proceed/> only starts the TLS handshake (frame: sends nothing, starts no step)')
    proof('handleStarttls', 'h_handleStarttls', 'QXmppOutgoingClient_handleStarttls', stubs,
          note='loop-free; every socket state, security mode, offered TLS mode, supportsSsl value')
    proof('handleStreamFeatures', 'h_handleStreamFeatures', 'QXmppOutgoingClient_handleStreamFeatures', stubs + ['QXmppOutgoingClient_handleStarttls'],
          note='loop-free; handleStarttls replaced by its (verified) contract; every guarded callee asserts tls_ok at its call site')
    proof('handleStream', 'h_handleStream', 'QXmppOutgoingClient_handleStream', stubs,
          note='loop-free; call site startNonSaslAuth@handleStream (finding %s) exempt, everything else checked' % FINDING)
    proof('handleStream.finding', 'h_handleStream', 'QXmppOutgoingClient_handleStream', stubs, defines=('FINDING_ONLY',), finding=FINDING,
          note='same contract without the exemption: fails at the recorded call site')
    proof('handleElement', 'h_handleElement', 'QXmppOutgoingClient_handleElement', stubs + ['QXmppOutgoingClient_handleStreamFeatures'],
          note='loop-free; handleStreamFeatures replaced by its (verified) contract; stanza dispatch (finding %s) exempt, everything else checked' % FINDING2)
    proof('handleElement.finding', 'h_handleElement', 'QXmppOutgoingClient_handleElement', stubs + ['QXmppOutgoingClient_handleStreamFeatures'],
          defines=('FINDING_ONLY',), finding=FINDING2, note='same contract without the exemption: fails at the stanza-dispatch call sites')
    proof('handlePacketReceived', 'h_handlePacketReceived', 'QXmppOutgoingClient_handlePacketReceived',
          stubs + ['StarttlsManager_handleElement', 'QXmppOutgoingClient_handleElement'],
          note='loop-free; std::visit over the listener variant lowered to a switch; listeners replaced by contracts')

    proof('ping.onDataReceived', 'h_ping_onDataReceived', 'PingManager_onDataReceived', stubs,
          note='loop-free; every timer / session / configuration state: received data never arms the ping timer outside an open session')
    proof('ping.sendPing', 'h_ping_sendPing', 'PingManager_sendPing', stubs,
          note='loop-free; reached only from the armed ping timer; StreamAckManager::send asserts tls_ok at its call site')
    for cname, role, what in ping_slot_proofs:
        proof('ping.slot.' + cname[len('PingManager_'):], 'h_' + cname, cname, stubs + (['PingManager_sendPing'] if role == 'timeout' else []),
              note='loop-free; lambda of the PingManager constructor wired as ' + what + {
                  'timeout': ' -- the only caller of sendPing (inventory); sendPing replaced by its verified contract',
                  'connected': ' -- the only place that arms the ping timer; connected() is emitted with the session started (C10)',
                  'disconnected': ' -- session end disarms both timers'}.get(role, ' -- a slot of any other signal must not arm the ping timer outside an open session and transmits nothing'))
    proof('throwKeepAliveError', 'h_throwKeepAliveError', 'QXmppOutgoingClient_throwKeepAliveError', stubs,
          note='loop-free; slot of the keep-alive timeout timer: error + disconnect, nothing transmitted')

    native_note = ''
    if tier == 'thorough':
        res = []
        for fid, mode in ((FINDING, 'versionless'), (FINDING2, 'iq-before-tls'), ('control', 'control'), ('keep-alive', 'keepalive-stall')):
            rc, out = _run_script(mode)
            res.append('%s/%s: %s' % (fid, mode, 'REPRODUCED' if (rc == 0 and 'NOT-REPRODUCED' not in out) else ('NOT-REPRODUCED' if rc == 1 else 'replay failed')))
        native_note = '; native replay against the real library: ' + ', '.join(res)
    unit_text = rd('model.h') + rd('callees.h') + open(os.path.join(QT, 'opaque.h')).read()
    return {
        'proofs': proofs, 'functions': b.functions, 'dropped': b.dropped, 'fired': b.fired,
        'hooks': [h['id'] + ': ' + h['emit'] for h in prof.hooks] + ['visit_result: gh_visit_result = <result of std::visit> (emitted by the visit lowering)'],
        'assumed': ASSUMED, 'assumes': scan_assumes(unit_text), 'not_covered': NOT_COVERED,
        'explanation': 'call-site inventory of the guarded callees: %s' % ', '.join('%s%s->%s' % (s[0], '[continuation]' if s[1] else '', s[2]) for s in sites) +
                       '; keep-alive timer inventory: %s' % ', '.join('%s%s: %s.%s' % (t[0], '[lambda]' if t[1] else '', t[2], t[3]) for t in timer_sites) + native_note,
    }


ASSUMED = [
    'A-QSSL (units/C04/model.h): isEncrypted() reads one flag of the socket; startClientEncryption() transmits no XMPP data; supportsSsl() is a fixed arbitrary boolean',
    'XmppSocket::sendData / disconnectFromHost are the only ways bytes / a close reach the socket from the verified functions (ghost event log); payloads are classified by the C++ type passed to serializeXml',
    'guarded callees (startNonSaslAuth, startSasl2Auth, SaslManager::authenticate, startResourceBinding, startSmResume, startSmEnable, openSession), the listeners NonSasl/Sasl/Sasl2/Bind/C2sStreamManager::handleElement and the stanza dispatch (elementReceived signal, handleStanza) are replaced by contracts requires(tls_ok); their bodies are not verified here',
    'setListener<T>() installs alternative T as current listener and returns it (two-line template in QXmppOutgoingClient_p.h, replaced by contract); StarttlsManager::task() returns the task of its promise',
    'C2sStreamManager::{onStreamClosed,onStreamStart,onStreamFeatures,canRequestResume,canRequestEnable}, CsiManager::onStreamFeatures, PingManager::onDataReceived, setError, handleStreamError, QXmppStreamFeatures::parse, StreamErrorElement::fromDom transmit nothing (contracts that assign their own state / the error and disconnect counters only)',
    'StreamAckManager::handleStanza transmits at most stream-management <a/> nonzas (no stanza, no credential); OutgoingIqManager::handleStanza only completes a pending request (its continuation belongs to the requester)',
    'A-QTIMER (units/C04/model.h): a QTimer is armed only by start() and disarmed by stop(); its timeout slot runs only while it is armed; a new QTimer is not armed; interval values are abstracted',
    'A-SIGNAL + unit C10: the slot wired to QXmppOutgoingClient::connected runs only when openSession emits connected(), which C10 proves happens with d->sessionStarted set (and C10 inventories every writer of sessionStarted and every emit site); closeSession clears sessionStarted and emits disconnected(), whose slot disarms both timers; the roles of the constructor lambdas are read from the connect()/callOnTimeout() statements of the real constructor on every run',
    'a session is open only under tls_ok (SESSION_INV): openSession requires tls_ok, and tls_ok is stable while the session lasts (same stability assumption as for continuations)',
    'StreamAckManager::send(QXmppPacket) puts one stanza on the wire (contract requires tls_ok; what is sent is classified by the C++ type of the stanza object); StreamAckManager::sendAcknowledgementRequest writes an <r/> nonza (no stanza, not counted); StreamAckManager::enabled is a pure getter',
    'guarded listeners may run the continuation of their step synchronously, i.e. may call openSession (session started, ping timer armed): their contracts assign sessionStarted and the ping timer and keep PING_INV',
    'abstract DOM and opaque strings (qtmodel/opaque.h); QStringList as an opaque value with 0 = empty; std::optional / std::variant values as tagged structs',
    'tls_ok is stable between the start of a guarded step and the run of the continuation it registered (encryption is not switched off on a live connection; the configuration is not changed during negotiation); handleStart runs before anything is received on a (re)started stream',
]
NOT_COVERED = [
    'stanzas the application pushes through sendPacket before the session is open',
    "what Qt's TLS layer does after startClientEncryption (certificate checks, ignoreSslErrors)",
    'bodies of the guarded callees and of the continuations they register (the continuations call further guarded callees; listed by the call-site inventory; covered only by the stability assumption)',
    'the continuation of SaslManager::authenticate in handleStreamFeatures (restarts the stream on success, disconnects on failure) is registered but not verified',
    'the bare JID disclosed in the from attribute of the initial stream header (sent before TLS by design of handleStart; observed in the native replay)',
    'LegacySSL / direct-TLS connections (encrypted from the first byte); reconnect / redirect logic',
    'other senders outside the negotiation code that have no gate of their own: QXmppClient::send / sendSensitive / sendPacket / reply and QXmppClient::sendIq hand packets straight to StreamAckManager::send (no session or TLS check; before the session they are written to whatever the socket is) -- application- and extension-driven (extensions are not invoked before TLS since the C04-F2 gate, but an extension acting on its own timer or on a user action is not stopped)',
    'StreamAckManager::send / sendAcknowledgement / sendAcknowledgementRequest themselves check nothing (every caller has to); C2sStreamManager resends unacknowledged stanzas on <resumed/> (reached only through the guarded C2sStreamManager listener)',
    'timer-driven code elsewhere: QXmppClient reconnectionTimer (reconnects, sends nothing itself), QXmppAttentionManager cleanUpTimer (no sending), QXmppRemoteMethod 30 s timeout (no sending), call / transfer / ICE managers (timers drive peer-to-peer traffic and Jingle stanzas through QXmppClient::send, no gate of their own); CsiManager::sendState is gated by isAuthenticated()',
    'the constructor body of PingManager (setSingleShot, callOnTimeout(throwKeepAliveError)) is only inventoried, not under contract; that the timeout timer is single-shot is not checked',
]


# ---------------------------------------------------------------------- native replay (real library, scripted loopback server)
# which server scripts of replay_cleartext.cpp exercise the code a failed obligation belongs to
SCRIPTS = {
    'QXmppOutgoingClient_handleStream': ['versionless'],
    'QXmppOutgoingClient_handleElement': ['iq-before-tls', 'features-starttls', 'features-nostarttls'],
    'QXmppOutgoingClient_handleStarttls': ['features-starttls', 'features-nostarttls'],
    'QXmppOutgoingClient_handleStreamFeatures': ['features-starttls', 'features-nostarttls'],
    'QXmppOutgoingClient_handlePacketReceived': ['starttls-failure', 'features-starttls', 'features-nostarttls', 'iq-before-tls', 'keepalive-stall'],
    'StarttlsManager_handleElement': ['starttls-failure'],
    'QXmppOutgoingClient_handleStart': ['control'],
    'PingManager_onDataReceived': ['keepalive-stall'], 'PingManager_sendPing': ['keepalive-stall'], 'PingManager_timeout_slot': ['keepalive-stall'],
    'PingManager_connected_slot': ['keepalive-stall'], 'PingManager_disconnected_slot': ['keepalive-stall'],
    'handleStarttls_cont0': ['control'],
}
_native_cache = {}


def _run_script(mode):
    if mode not in _native_cache:
        from vlib import native
        try:
            rc, out = native.run_driver(os.path.join(HERE, 'replay_cleartext.cpp'), args=[mode], timeout=60)
        except Exception as e:   # build problem of the working tree: no verdict from the replay
            rc, out = 2, 'native replay not possible: %s' % e
        _native_cache[mode] = (rc, out)
    return _native_cache[mode]


def find_input(unit, p, o, lab, work):
    """a failed obligation of a negotiation handler is replayed with the server scripts that reach that handler: the real
    client (TLSRequired) must not put anything but the stream header and <starttls/> on the unencrypted wire"""
    for mode in SCRIPTS.get(p.enforce or '', []):
        rc, out = _run_script(mode)
        if rc == 0 and 'REPRODUCED' in out and 'NOT-REPRODUCED' not in out:
            return {'inputs': {'server_script': mode, 'client_configuration': 'streamSecurityMode=TLSRequired, everything else default'},
                    'reproduced': True, 'native_output': out[-3000:]}
    return None


def native_replay(rp):
    mode = (rp.get('inputs') or {}).get('server_script')
    if not mode:
        return False, 'replay file names no server script'
    rc, out = _run_script(mode)
    return (rc == 0 and 'NOT-REPRODUCED' not in out), out
