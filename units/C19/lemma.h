/* C19 lemma, over contracts only (QXmppTransferFileInfo::parse and QXmppTransferIncomingJob::checkData replaced by the contracts
 * they are verified against):  the size an offer announces is the size the final check uses.
 *   "A transfer whose <file size='N'/> announces N > 0 ends with NoError only if exactly N bytes were written."
 * The job's file info is filled by parse from an arbitrary offer element; everything that happens between the offer and the
 * <close/> is an arbitrary receive history (done and the hash state are arbitrary); then checkData gives the verdict.
 * (streamInitiationSetReceived copies iq.fileInfo() into the job: that copy is Qt's implicitly shared assignment, not modelled.) */
const void *gh_keep, *gh_keep2;
void h_lemma_announced_size(void)
{
  HAVOC_WORLD();
  gh_keep = (const void *)&QXmppTransferFileInfo_parse; gh_keep2 = (const void *)&QXmppTransferIncomingJob_checkData;
  qdom element = nondet_int();
  QXmppTransferJob *j = ANY_JOB();
  __CPROVER_assume(JOBS_ENUMS_OK && gh_cd_calls < 1000 && gh_term_calls < 1000 && gh_invoked < 1000);   /* a well-formed job, counters not saturated */
  QXmppTransferFileInfo_parse(&j->d->fileInfo, element);
  long long done_at_close = j->d->done;              /* arbitrary */
  int state_at_close = j->d->state;                   /* arbitrary; a job that is already finished keeps its earlier verdict */
  QXmppTransferIncomingJob_checkData(j);
  qstr a = DOM_ATTR(element, S("size"));
  __CPROVER_assert(!(STR_IS_S64(a) && STR_S64(a) > 0 && state_at_close != FINISHED && j->d->error == QXmppTransferJob_Error__NoError) || (done_at_close == STR_S64(a) && j->d->done == done_at_close),
                   "[lemma.announced_size_N_positive_ends_NoError_only_if_exactly_N_bytes_were_written]");
  __CPROVER_assert(!(STR_IS_S64(a) && STR_S64(a) > 0 && state_at_close != FINISHED && done_at_close != STR_S64(a)) || j->d->error == QXmppTransferJob_Error__FileCorruptError,
                   "[lemma.short_or_long_stream_against_an_announced_size_is_FileCorruptError]");
}
