"""C19 -- a file transfer reported successful delivered exactly the bytes that were sent (in-band bytestream path)."""
import os, re
from vlib.unit import Builder, Target, VERIF, scan_assumes
from vlib.runner import Proof
from vlib.opaque_profile import opaque_profile
from vlib.cxx2c import Lowerer, Unsupported, rangefor_indexed
from vlib import ctx
from vlib.configure import REPO

QT = os.path.join(VERIF, 'qtmodel')
HERE = os.path.dirname(os.path.abspath(__file__))
TM = 'src/client/QXmppTransferManager.cpp'
IBB = 'src/base/QXmppIbbIq.cpp'

ENUMS = ['QXmppTransferJob::Direction', 'QXmppTransferJob::Error', 'QXmppTransferJob::Method', 'QXmppTransferJob::State',
         'QXmppIq::Type', 'QXmppStanza::Error::Type', 'QXmppStanza::Error::Condition']


def rd(name):
    return open(os.path.join(HERE, name)).read()


class C19Lowerer(Lowerer):
    """static_cast<Derived*>(base*) between job classes that share one C struct is the identity"""

    def cast(self, n):
        if n.get('castKind') == 'BaseToDerived':
            sub = n['inner'][0]
            if self.ntype(n) == self.ntype(self.skip(sub)):
                self.fire('cast:BaseToDerived:same-struct')
                return self.expr(sub)
            raise Unsupported('BaseToDerived cast between different C structs')
        return super().cast(n)


def send_packet(lw, node, args):
    """client()->sendPacket(x): the event-log entry depends on the static type of x"""
    a = lw.skip(node['inner'][1])
    t = lw.tkey(a)
    fn = {'QXmppIq': 'ev_send_iq', 'QXmppIbbDataIq': 'ev_send_data', 'QXmppIbbCloseIq': 'ev_send_close'}.get(t)
    if fn is None:
        raise Unsupported('sendPacket of a %s' % t)
    return '%s(%s)' % (fn, args[1])


def invoke_method(lw, node, args):
    # QMetaObject::invokeMethod(obj, "name", Qt::QueuedConnection)
    if 'QueuedConnection' not in args[2]:
        raise Unsupported('invokeMethod with connection type %s' % args[2])
    return 'ev_invoke(%s, %s)' % (args[0], args[1])


INT_KEYS = {'qint8': 'S8', 'quint8': 'U8', 'qint16': 'S16', 'quint16': 'U16', 'qint32': 'S32', 'quint32': 'U32', 'qint64': 'S64', 'quint64': 'U64',
            'signed char': 'S8', 'unsigned char': 'U8', 'short': 'S16', 'unsigned short': 'U16', 'int': 'S32', 'unsigned int': 'U32',
            'long': 'S64', 'unsigned long': 'U64', 'long long': 'S64', 'unsigned long long': 'U64'}


def minmax(which):
    """qMin / qMax / std::min / std::max on integers: a pure expression of the operands (each evaluated once)"""
    def rule(lw, node, args):
        t = lw.ntype(lw.skip(node))
        k = INT_KEYS.get(t)
        if k is None or len(args) != 2:
            raise Unsupported('%s on %s' % (which, t))
        return '((%s)c_%s_%s64(%s, %s))' % (t, which, 'u' if k[0] == 'U' else 's', args[0], args[1])
    return rule


def parse_int(lw, node, args):
    """parseInt<T>(s) of QXmppUtils, through the contract it is verified against in units/C01 (A-PARSEINT)"""
    t = lw.ntype(lw.skip(node))
    if not re.fullmatch(r'Opt[SU]\d+', t):
        raise Unsupported('parseInt returning %s' % t)
    tmp = lw.newtmp()
    lw.pre.append('%s %s; parseInt_%s(&%s, %s);' % (t, tmp, t[3:], tmp, args[0]))
    return tmp


def profile():
    base = lambda f: ('expr', '((const QXmppIq *){0})->' + f)
    setb = lambda f: ('expr', '((QXmppIq *){0})->' + f + ' = {1}')
    calls = {
        # d-pointers: std::unique_ptr<T>::operator-> is the pointer itself
        'op->:QXmppTransferManagerPrivate*': ('arg', 0),
        'op->:QXmppTransferJobPrivate*': ('arg', 0),
        # repository functions (lowered from /repo; verified themselves or used through their verified contract)
        'QXmppTransferManagerPrivate::getIncomingJobBySid/2': ('callee', 'getIncomingJobBySid'),
        'QXmppTransferManagerPrivate::getOutgoingJobByRequestId/2': ('callee', 'getOutgoingJobByRequestId'),
        'QXmppTransferManagerPrivate::getJobByRequestId/3': ('callee', 'getJobByRequestId'),
        'QXmppTransferJob::method/0': ('callee', 'QXmppTransferJob_method'),
        'QXmppTransferJob::state/0': ('callee', 'QXmppTransferJob_state'),
        'QXmppTransferJob::setState/1': ('callee', 'QXmppTransferJob_setState'),
        'QXmppTransferJob::terminate/1': ('callee', 'QXmppTransferJob_terminate'),
        'QXmppTransferJob::fileSize/0': ('callee', 'QXmppTransferJob_fileSize'),
        'QXmppTransferJob::writeData/1': ('callee', 'QXmppTransferIncomingJob_writeData'),
        'QXmppTransferJob::checkData/0': ('callee', 'QXmppTransferIncomingJob_checkData'),
        'QXmppIbbDataIq::sequence/0': ('callee', 'QXmppIbbDataIq_sequence'),
        'QXmppIbbDataIq::setSequence/1': ('callee', 'QXmppIbbDataIq_setSequence'),
        'QXmppIbbDataIq::sid/0': ('callee', 'QXmppIbbDataIq_sid'),
        'QXmppIbbDataIq::setSid/1': ('callee', 'QXmppIbbDataIq_setSid'),
        'QXmppIbbDataIq::payload/0': ('callee', 'QXmppIbbDataIq_payload'),
        'QXmppIbbDataIq::setPayload/1': ('callee', 'QXmppIbbDataIq_setPayload'),
        'QXmppIbbOpenIq::sid/0': ('callee', 'QXmppIbbOpenIq_sid'),
        'QXmppIbbOpenIq::blockSize/0': ('callee', 'QXmppIbbOpenIq_blockSize'),
        'QXmppIbbCloseIq::sid/0': ('callee', 'QXmppIbbCloseIq_sid'),
        'QXmppIbbCloseIq::setSid/1': ('callee', 'QXmppIbbCloseIq_setSid'),
        # A-STANZA-ACCESSORS (types.h)
        '*::from/0': base('from'), '*::id/0': base('id'), '*::to/0': base('to'), '*::type/0': base('type'),
        '*::setTo/1': setb('to'), '*::setId/1': setb('id'), '*::setFrom/1': setb('from'), '*::setType/1': setb('type'),
        '*::setError/1': ('expr', '((QXmppIq *){0})->error = *{1}'),
        'ctor:QXmppIq()': ('fn', 'QXmppIq_ctor'),
        'ctor:QXmppIbbDataIq()': ('fn', 'QXmppIbbDataIq_ctor'),
        'ctor:QXmppIbbCloseIq()': ('fn', 'QXmppIbbCloseIq_ctor'),
        'ctor:QXmppStanzaError(int,int)': ('fn', 'QXmppStanzaError_ctor'),
        # event log
        '*::client/0': ('const', '0'),
        '*::sendPacket/1': send_packet,
        'fn:invokeMethod/3': invoke_method,
        # signals and the elapsed-time clock: no effect on the state the property speaks about
        '*::progress/2': ('drop',), '*::stateChanged/1': ('drop',), 'QElapsedTimer::start/0': ('drop',),
        # Qt models (types.h / model.h)
        'qbytes::size/0': ('fn', 'qbytes_size'),
        'qbytes::isEmpty/0': ('expr', '{0} == 0'),
        'op!=:qbytes:qbytes': ('expr', '{0} != {1}'),
        'op==:qbytes:qbytes': ('expr', '{0} == {1}'),
        'qhash::addData/1': ('fnmut', 'qhash_addData'),
        'qhash::result/0': ('fn', 'qhash_result'),
        'QIODevice::write/1': ('fn', 'QIODevice_write'),
        'QIODevice::read/1': ('fn', 'QIODevice_read'),
        'QIODevice::isOpen/0': ('fn', 'QIODevice_isOpen'),
        'QIODevice::close/0': ('fn', 'QIODevice_close'),
        'QTcpSocket::flush/0': ('const', 'true'),
        'QTcpSocket::close/0': ('fn', 'QTcpSocket_close'),
        'fn:as_const/1': ('arg', 0),
        # integer vocabulary
        'fn:qMin/2': minmax('min'), 'fn:qMax/2': minmax('max'), 'fn:min/2': minmax('min'), 'fn:max/2': minmax('max'),
        'fn:parseInt/1': parse_int,
        # QXmppTransferFileInfo: the shared payload is held by value (A-FILEINFO-SHARED); size()/hash() are the real getters
        'op->:QXmppTransferFileInfoPrivate': ('expr', '{0}'),
        'QXmppTransferFileInfo::size/0': ('callee', 'QXmppTransferFileInfo_size'),
        'QXmppTransferFileInfo::hash/0': ('callee', 'QXmppTransferFileInfo_hash'),
        # QXmppTransferFileInfo::parse: Qt conversions (qtmodel/conv.h); the date helper of QXmppUtils is outside this property
        'qstr::toLongLong/0': ('expr', 'qstr_toLongLong({0}, NULL)'),
        'qstr::toULongLong/0': ('expr', 'qstr_toULongLong({0}, NULL)'),
        'qstr::toLatin1/0': ('fn', 'qstr_toLatin1'),
        'fn:fromHex/1': ('fn', 'qbytes_fromHex'),
        'fn:datetimeFromString/1': ('fn', 'QXmppUtils_datetimeFromString'),
        'rangefor:QListJobs': rangefor_indexed('({r})->n', 'QListJobs_at({r}, {i})'),
    }
    types = {
        'QXmppTransferManager': 'QXmppTransferManager', 'QXmppTransferManagerPrivate': 'QXmppTransferManagerPrivate',
        'std::unique_ptr<QXmppTransferManagerPrivate>': 'QXmppTransferManagerPrivate*',
        'std::unique_ptr<QXmppTransferJobPrivate>': 'QXmppTransferJobPrivate*',
        'QXmppTransferJobPrivate': 'QXmppTransferJobPrivate',
        'QXmppTransferJob': 'QXmppTransferJob', 'QXmppTransferIncomingJob': 'QXmppTransferJob', 'QXmppTransferOutgoingJob': 'QXmppTransferJob',
        'QList<QXmppTransferJob*>': 'QListJobs',
        'QXmppIq': 'QXmppIq', 'QXmppIbbDataIq': 'QXmppIbbDataIq', 'QXmppIbbOpenIq': 'QXmppIbbOpenIq', 'QXmppIbbCloseIq': 'QXmppIbbCloseIq',
        'QXmppStanza::Error': 'QXmppStanzaError', 'QXmppTransferFileInfo': 'QXmppTransferFileInfo',
        'QSharedDataPointer<QXmppTransferFileInfoPrivate>': 'QXmppTransferFileInfoPrivate', 'QXmppTransferFileInfoPrivate': 'QXmppTransferFileInfoPrivate', 'QDateTime': 'qdt',
        'QByteArray': 'qbytes', 'QCryptographicHash': 'qhash', 'QIODevice': 'QIODevice', 'QTcpSocket': 'QTcpSocket',
        'Qt::ConnectionType': 'int', 'QObject': 'void',
    }
    for e in ENUMS:
        types[e] = 'int'
    opt_types = set()
    for cpp, k in list(INT_KEYS.items()) + [('uint8_t', 'U8'), ('uint16_t', 'U16'), ('uint32_t', 'U32'), ('uint64_t', 'U64'), ('int8_t', 'S8'), ('int16_t', 'S16'), ('int32_t', 'S32'), ('int64_t', 'S64')]:
        types['std::optional<%s>' % cpp] = 'Opt' + k
        opt_types.add('Opt' + k)
    for o in opt_types:
        calls['%s::value_or/1' % o] = ('expr', '({v0}.has ? {v0}.v : {1})')
        calls['%s::has_value/0' % o] = ('expr', '{v0}.has')
        calls['%s::operator bool/0' % o] = ('expr', '{v0}.has')
        calls['op*:%s' % o] = ('expr', '{v0}.v')
    p = opaque_profile(
        types=types,
        class_types={'QXmppTransferManager', 'QXmppTransferManagerPrivate', 'QXmppTransferJobPrivate', 'QXmppTransferJob', 'QListJobs', 'QXmppIq',
                     'QXmppIbbDataIq', 'QXmppIbbOpenIq', 'QXmppIbbCloseIq', 'QXmppStanzaError', 'QXmppTransferFileInfo', 'QXmppTransferFileInfoPrivate', 'QIODevice', 'QTcpSocket'} | opt_types,
        calls=calls,
        pure_fns={'client', 'hash', 'fileSize', 'size', 'state', 'method', 'firstChildElement', 'text'},
    )
    p.default_args['QGenericArgument'] = '0'
    return p


# real functions: (key, source, clang filter, name, C name, C type of `this`, spec file or None, nparams)
FUNCS = {
    'seq':        (IBB, 'QXmppIbbDataIq', 'sequence', 'QXmppIbbDataIq_sequence', 'QXmppIbbDataIq', 'sequence.spec'),
    'setseq':     (IBB, 'QXmppIbbDataIq', 'setSequence', 'QXmppIbbDataIq_setSequence', 'QXmppIbbDataIq', 'setsequence.spec'),
    'd_sid':      (IBB, 'QXmppIbbDataIq', 'sid', 'QXmppIbbDataIq_sid', 'QXmppIbbDataIq', None),
    'd_setsid':   (IBB, 'QXmppIbbDataIq', 'setSid', 'QXmppIbbDataIq_setSid', 'QXmppIbbDataIq', None),
    'd_payload':  (IBB, 'QXmppIbbDataIq', 'payload', 'QXmppIbbDataIq_payload', 'QXmppIbbDataIq', None),
    'd_setpayload': (IBB, 'QXmppIbbDataIq', 'setPayload', 'QXmppIbbDataIq_setPayload', 'QXmppIbbDataIq', None),
    'o_sid':      (IBB, 'QXmppIbbOpenIq', 'sid', 'QXmppIbbOpenIq_sid', 'QXmppIbbOpenIq', None),
    'o_bs':       (IBB, 'QXmppIbbOpenIq', 'blockSize', 'QXmppIbbOpenIq_blockSize', 'QXmppIbbOpenIq', None),
    'c_sid':      (IBB, 'QXmppIbbCloseIq', 'sid', 'QXmppIbbCloseIq_sid', 'QXmppIbbCloseIq', None),
    'c_setsid':   (IBB, 'QXmppIbbCloseIq', 'setSid', 'QXmppIbbCloseIq_setSid', 'QXmppIbbCloseIq', None),
    'fi_size':    (TM, 'QXmppTransferFileInfo::', 'size', 'QXmppTransferFileInfo_size', 'QXmppTransferFileInfo', None),
    'fi_hash':    (TM, 'QXmppTransferFileInfo::', 'hash', 'QXmppTransferFileInfo_hash', 'QXmppTransferFileInfo', None),
    'fi_parse':   (TM, 'QXmppTransferFileInfo::', 'parse', 'QXmppTransferFileInfo_parse', 'QXmppTransferFileInfo', 'fileinfo_parse.spec'),
    'method':     (TM, 'QXmppTransferJob::', 'method', 'QXmppTransferJob_method', 'QXmppTransferJob', None),
    'state':      (TM, 'QXmppTransferJob::', 'state', 'QXmppTransferJob_state', 'QXmppTransferJob', None),
    'filesize':   (TM, 'QXmppTransferJob::', 'fileSize', 'QXmppTransferJob_fileSize', 'QXmppTransferJob', None),
    'setstate':   (TM, 'QXmppTransferJob::', 'setState', 'QXmppTransferJob_setState', 'QXmppTransferJob', None),
    'terminate':  (TM, 'QXmppTransferJob::', 'terminate', 'QXmppTransferJob_terminate', 'QXmppTransferJob', 'terminate.spec'),
    'writedata':  (TM, 'QXmppTransferIncomingJob::', 'writeData', 'QXmppTransferIncomingJob_writeData', 'QXmppTransferJob', 'writedata.spec'),
    'checkdata':  (TM, 'QXmppTransferIncomingJob::', 'checkData', 'QXmppTransferIncomingJob_checkData', 'QXmppTransferJob', 'checkdata.spec'),
    'lookup_sid': (TM, 'QXmppTransferManagerPrivate', 'getIncomingJobBySid', 'getIncomingJobBySid', 'QXmppTransferManagerPrivate', 'lookup_sid.spec'),
    'lookup_req': (TM, 'QXmppTransferManagerPrivate', 'getJobByRequestId', 'getJobByRequestId', 'QXmppTransferManagerPrivate', 'lookup_req.spec'),
    'lookup_out': (TM, 'QXmppTransferManagerPrivate', 'getOutgoingJobByRequestId', 'getOutgoingJobByRequestId', 'QXmppTransferManagerPrivate', None),
    'data':       (TM, 'QXmppTransferManager::ibb', 'ibbDataIqReceived', 'ibbDataIqReceived', 'QXmppTransferManager', 'data.spec'),
    'open':       (TM, 'QXmppTransferManager::ibb', 'ibbOpenIqReceived', 'ibbOpenIqReceived', 'QXmppTransferManager', 'open.spec'),
    'close':      (TM, 'QXmppTransferManager::ibb', 'ibbCloseIqReceived', 'ibbCloseIqReceived', 'QXmppTransferManager', 'close.spec'),
    'response':   (TM, 'QXmppTransferManager::ibb', 'ibbResponseReceived', 'ibbResponseReceived', 'QXmppTransferManager', 'response.spec'),
}

# The job a handler works on is captured where the real job-list look-up returns it (gh_job), not in the handler: the handler
# contracts therefore do not depend on how a handler obtains the job (directly, or through a helper a refactoring extracted).
# entry hooks anchor on the opening brace of the function body (the only unindented '{' line of a lowered function)
HOOKS = [
    {'id': 'lookup_sid_found', 'fn': 'getIncomingJobBySid', 'before': r'^\s*return job;', 'emit': 'gh_found_idx = __i0; gh_job = job;'},
    {'id': 'lookup_req_found', 'fn': 'getJobByRequestId', 'before': r'^\s*return job;', 'emit': 'gh_found_idx = __i0; gh_job = job;'},
    {'id': 'block_sent', 'fn': 'ibbResponseReceived', 'after': r'^\s*ev_send_data\(&dataIq\);', 'emit': 'job->d->gh_blocks++;'},
    {'id': 'handed_to_writeData', 'fn': 'QXmppTransferIncomingJob_writeData', 'after': r'^\{$',
     'emit': 'if (gh_wd_calls < 1000) gh_wd_calls++; gh_wd_job = self; gh_wd_data = data; self->d->gh_blocks++;'},
    {'id': 'checkData_called', 'fn': 'QXmppTransferIncomingJob_checkData', 'after': r'^\{$',
     'emit': 'if (gh_cd_calls < 1000) gh_cd_calls++; gh_cd_job = self;'},
    {'id': 'terminate_called', 'fn': 'QXmppTransferJob_terminate', 'after': r'^\{$',
     'emit': 'if (gh_term_calls < 1000) gh_term_calls++; gh_term_job = self; gh_term_cause = cause;'},
]


class Unit:
    def __init__(self, work):
        self.prof = profile()
        self.prof.hooks = HOOKS
        self.b = Builder('C19', work, self.prof)
        self.text = {}
        self.spec = {}
        self.helpers = {}     # C name -> text of auto-lowered repository helpers

    def lower(self, key):
        if key in self.text:
            return self.text[key]
        src, filt, name, cname, this, specf = FUNCS[key]
        sp = self.b.spec(specf) if specf else None
        t = self.b.lower(Target(src, filt, name, cname, this=this, lowerer_cls=C19Lowerer), sp)
        # repository helpers the framework lowered on its own (vlib.unit: unknown callee of a modelled class, e.g. a look-up a
        # refactoring extracted) are kept apart: the rule for such a helper exists from then on, so a second handler that calls it
        # gets no copy of its text -- assemble() places every collected helper that a file refers to
        if '/*@END-HELPERS@*/\n' in t:
            hs, t = t.split('/*@END-HELPERS@*/\n', 1)
            for blk in re.split(r'(?m)^(?=static [^\n;]*\bauto_\w+\()', hs):
                m = re.match(r'static [^\n;]*\b(auto_\w+)\(', blk)
                if m:
                    self.helpers.setdefault(m.group(1), blk.rstrip('\n') + '\n')
        self.text[key] = t
        self.spec[key] = sp
        return t

    def records(self):
        src = lambda rel: os.path.join(REPO, rel)
        out = []
        for cls in ('QXmppIbbOpenIq', 'QXmppIbbCloseIq', 'QXmppIbbDataIq'):
            rec, _ = ctx.emit_record(src(IBB), cls, cls, cls, self.prof)
            out.append(rec.replace('{\n', '{\n  QXmppIq base;\n', 1))
        rec, _ = ctx.emit_record(src(TM), 'QXmppTransferFileInfoPrivate', 'QXmppTransferFileInfoPrivate', 'QXmppTransferFileInfoPrivate', self.prof)
        out.append(rec)
        out.append('typedef struct QXmppTransferFileInfo { QXmppTransferFileInfoPrivate d; } QXmppTransferFileInfo;')
        rec, fields = ctx.emit_record(src(TM), 'QXmppTransferJobPrivate', 'QXmppTransferJobPrivate', 'QXmppTransferJobPrivate', self.prof, opaque_ok=True)
        # ghost field: number of blocks accepted (receiver) / sent (sender) so far -- the specification's own counter
        out.append(rec.replace('\n}', '\n  unsigned long long gh_blocks; /* ghost */\n}', 1))
        # type invariant of well-formed jobs: enum-typed members hold declared enumerators (the harnesses quantify over arbitrary member values)
        inv, self.enum_fields = ctx.enum_field_invariant(src(TM), 'QXmppTransferJobPrivate', 'QXmppTransferJobPrivate')
        out.append('#define JOB_ENUMS_OK(pp) (%s)' % inv.replace('%s', '(pp)'))
        out.append('typedef struct QXmppTransferJob { QXmppTransferJobPrivate *d; } QXmppTransferJob;')
        out.append('typedef struct QListJobs { int n; int iw; QXmppTransferJob *w; QXmppTransferJob *o; } QListJobs;')
        rec, _ = ctx.emit_record(src(TM), 'QXmppTransferManagerPrivate', 'QXmppTransferManagerPrivate', 'QXmppTransferManagerPrivate', self.prof, opaque_ok=True)
        out.append(rec)
        out.append('typedef struct QXmppTransferManager { QXmppTransferManagerPrivate *d; } QXmppTransferManager;')
        return '\n'.join(out) + '\n'

    def assemble(self, name, inline, protos, main, harness):
        """C file: models + real records + enums + inlined real helpers + contracts of replaced callees + the function under contract"""
        b = self.b
        inline = [k for k in ('fi_size', 'fi_hash') if k != main and k not in inline and k not in protos] + list(inline)
        body = ''.join(self.lower(k) + '\n' for k in inline)
        pro = ''.join(b.prototype(self.lower(k)) for k in protos)
        mtxt = self.lower(main)
        auto, used = '', []
        for _ in range(4):   # helpers may refer to helpers: callees first
            more = [h for h in self.helpers if h not in used and re.search(r'\b%s\(' % h, mtxt + auto)]
            if not more:
                break
            used += more
            auto = ''.join(self.helpers[h] for h in more) + auto
        for e in ENUMS:
            b.need_enums.setdefault((os.path.join(REPO, TM), ()), {}).setdefault(e, set())
        c = '#include "conv.h"\n' + self.prof.literal_ids.table() + b.subst(rd('types.h')) + b.context() + '\n' + self.records() + b.subst(rd('model.h')) + \
            '/* ---- contracts of replaced callees ---- */\n' + pro + '/* ---- real helpers, inlined ---- */\n' + body + \
            ('/* ---- repository helpers lowered automatically (real code, inlined) ---- */\n' + auto if auto else '') + '/* ---- function under contract ---- */\n' + mtxt + '\n' + harness
        return b.write(name + '.c', c), c


GETTERS_IQ = ['seq', 'd_sid', 'd_payload']
# real code every receiver handler (or a look-up helper extracted from the handlers) may call
RECV_INLINE = ['method', 'state', 'lookup_sid']


def build(work, tier):
    u = Unit(work)
    b = u.b
    proofs = []
    ctext = []

    def add(pid, main, inline, protos, harness_args, note, loop_fn=None, finding=None, defines=(), timeout=600, solver=None):
        """one enforced contract; `inline` real helpers are part of the verified text, `protos` are used through their contracts;
        loop_fn: the (inlined or enforced) function whose loop is closed by its loop contract"""
        cname = FUNCS[main][3]
        # every replaced callee is referenced from the harness, so that a change which removes the call is judged by the
        # postconditions (VIOLATION) instead of failing in goto-instrument because the symbol is gone
        keep = ''.join(' gh_keep = (const void *)&%s;' % FUNCS[k][3] for k in protos)
        h = 'const void *gh_keep;\nvoid h_%s(void) { HAVOC_WORLD();%s %s }\n' % (pid, keep, harness_args)
        f, c = u.assemble(pid, inline, protos, main, h)
        ctext.append(c)
        sp = u.spec[main]
        p = Proof(pid, f, 'h_' + pid, enforce=cname, replace=[FUNCS[k][3] for k in protos], kind='contract' if loop_fn else 'complete', include_dirs=[QT],
                  timeout=timeout, loop_contracts=bool(loop_fn), expect_loops=1 if loop_fn else 0, note=note, defines=list(defines))
        p.labels = {'post': {cname: sp.labels}}
        if loop_fn:
            p.labels['inv'] = {FUNCS[loop_fn][3]: u.spec[loop_fn].inv_labels.get(0, [])}
        p.expect_post = len(sp.labels)
        if finding:
            p.finding = finding
        if solver is not None:
            p.solver = list(solver)
        proofs.append(p)
        return p

    # ---------------------------------------------------------------- receiver: data block
    add('ibbDataIqReceived', 'data', RECV_INLINE + GETTERS_IQ, ['writedata'],
        'const QXmppIbbDataIq *iq; ibbDataIqReceived(&g_mgr, iq);',
        'every job list (witness element; lookup loop closed by its loop contract), every sender/session/sequence number, counter in 0..INT_MAX-1',
        loop_fn='lookup_sid')
    # ---------------------------------------------------------------- receiver: open / close
    add('ibbOpenIqReceived', 'open', RECV_INLINE + ['setstate', 'o_sid', 'o_bs'], [],
        'const QXmppIbbOpenIq *iq; ibbOpenIqReceived(&g_mgr, iq);',
        'every job list (witness element), every sender/session/block size', loop_fn='lookup_sid')
    add('ibbCloseIqReceived', 'close', RECV_INLINE + ['c_sid'], ['checkdata', 'terminate'],
        'const QXmppIbbCloseIq *iq; ibbCloseIqReceived(&g_mgr, iq);',
        'every job list (witness element), every sender/session; checkData through its verified contract', loop_fn='lookup_sid')
    # ---------------------------------------------------------------- sender
    add('ibbResponseReceived', 'response', ['method', 'state', 'setstate', 'filesize', 'lookup_req', 'lookup_out', 'setseq', 'd_setsid', 'd_setpayload', 'c_setsid'], ['terminate'],
        'const QXmppIq *iq; ibbResponseReceived(&g_mgr, iq);',
        'every job list (witness element), every acknowledgement/error, every device read result; counter in 0..INT_MAX-1', loop_fn='lookup_req')
    # (no extra thorough-tier work: nothing in this unit is bounded; MiniSat needs > 10 min where CaDiCaL needs 10-30 s)
    # ---------------------------------------------------------------- job: writeData / checkData / terminate
    add('writeData', 'writedata', [], [], 'qbytes data; QXmppTransferIncomingJob_writeData(ANY_JOB(), data);',
        'loop-free; every block, every device result (-1, short write, full write)')
    add('checkData', 'checkdata', [], ['terminate'], 'QXmppTransferIncomingJob_checkData(ANY_JOB());',
        'loop-free; every announced size/hash, every byte count and hash state')
    add('terminate', 'terminate', [], [], 'int cause; QXmppTransferJob_terminate(ANY_JOB(), cause);', 'loop-free; every state and cause')
    # ---------------------------------------------------------------- job list look-ups (unbounded list, witness element)
    add('getIncomingJobBySid', 'lookup_sid', [], [], 'qstr jid, sid; getIncomingJobBySid(&g_mp, jid, sid);',
        'list of any length; loop closed by loop contract', loop_fn='lookup_sid')
    add('getJobByRequestId', 'lookup_req', [], [], 'int direction; qstr jid, id; getJobByRequestId(&g_mp, direction, jid, id);',
        'list of any length; loop closed by loop contract', loop_fn='lookup_req')
    # ---------------------------------------------------------------- 16-bit sequence field of the data stanza
    add('sequence', 'seq', [], [], 'const QXmppIbbDataIq *iq; QXmppIbbDataIq_sequence(iq);', 'loop-free')
    add('setSequence', 'setseq', [], [], 'QXmppIbbDataIq *iq; quint16 seq; QXmppIbbDataIq_setSequence(iq, seq);', 'loop-free')
    # ---------------------------------------------------------------- the announced size: QXmppTransferFileInfo::parse, and its link to the verdict
    add('fileInfo_parse', 'fi_parse', [], [], 'qdom element; QXmppTransferFileInfo_parse(&ANY_JOB()->d->fileInfo, element);',
        'loop-free; every <file/> element (opaque DOM), every size/hash/name attribute value incl. every 64-bit size')
    lem = b.subst(rd('lemma.h'))
    f, c = u.assemble('lemma_announced_size', [], ['fi_parse', 'checkdata'], 'fi_size', lem)
    ctext.append(c)
    p = Proof('lemma_announced_size', f, 'h_lemma_announced_size', enforce=None, replace=[FUNCS['fi_parse'][3], FUNCS['checkdata'][3]], kind='complete', include_dirs=[QT],
              timeout=300, loop_contracts=False,
              note='over the contracts of QXmppTransferFileInfo::parse and checkData only: every offer element, every receive history (arbitrary done / hash state)')
    p.expect_post = lem.count('"[lemma.')
    proofs.append(p)
    models = rd('types.h') + rd('model.h')
    return {
        'proofs': proofs, 'functions': b.functions, 'dropped': b.dropped, 'fired': b.fired, 'hooks': [h['id'] + ': ' + h['emit'] for h in HOOKS],
        'assumed': [
            'A-QBYTEARRAY-OPAQUE (units/C19/types.h): a QByteArray is an opaque value id, equal ids <=> equal contents, size() an uninterpreted function (> 0 iff non-empty)',
            'A-QCRYPTOHASH: hash state is an opaque value, addData is an uninterpreted function of (state, block), result() a function of the state',
            'A-QIODEVICE: write(b) returns -1 or 0..size(b); read(max) on a device with `avail` bytes left returns exactly min(max(max,0), avail) of them (random-access devices); close() clears the open flag; calls are logged in ghost variables',
            'A-STANZA-ACCESSORS: QXmppStanza/QXmppIq to/from/id/type/error setters and getters store and return the field; default-constructed IQs have some non-empty id; QXmppIbbDataIq()/QXmppIbbCloseIq() construct a Set IQ with seq 0',
            'A-FILEINFO-SHARED: QXmppTransferFileInfo is its QSharedDataPointer payload held by value (copy-on-write sharing not modelled); size()/hash()/parse() are lowered from the real source',
            'A-QT-NUM / A-QT-HEX (qtmodel/conv.h): QString::toLongLong yields the number a numeral denotes (0 and !ok otherwise); toLatin1 / QByteArray::fromHex are functions of their argument',
            'QXmppUtils::datetimeFromString is some function of the string (the date of an offer is outside this property); parseInt<T> (vocabulary only, unused by /repo here) under its contract verified in units/C01',
            'type invariant: enum-typed members of QXmppTransferJobPrivate hold declared enumerators (generated by ctx.enum_field_invariant; required and re-established by every contract that writes them)',
            'A-JOBLIST: QList<QXmppTransferJob*> iteration visits elements 0..n-1 in order; list of any length abstracted by one witness element at an arbitrary index plus an arbitrary-valued stand-in for all others',
            'client()->sendPacket(x) and QMetaObject::invokeMethod(job, "_q_terminated", Qt::QueuedConnection) are events recorded in a log (delivery itself is Qt/the stream)',
            'representation bound: the per-job int counter is below INT_MAX and bytes done below 2^62 (precondition of the data/response handlers)',
            'opaque-string axioms: equality only (qtmodel/opaque.h)',
        ],
        'assumes': scan_assumes(models + open(os.path.join(QT, 'opaque.h')).read()),
        'not_covered': [
            'SOCKS5 byte-stream path (QXmppSocks, QXmppByteStreamIq, _q_receiveData) and stream-initiation negotiation, including the copy of the parsed file info into the job (job->d->fileInfo = iq.fileInfo())',
            'QXmppTransferFileInfo::toXml (sender side of the announced size) and the date/description members',
            'sequential devices, for which QIODevice::read may return fewer bytes than available (the sender treats an empty read as end of data)',
            'Qt I/O devices and QCryptographicHash themselves; XML parsing/serialisation of the IBB stanzas (seq attribute, base64 payload)',
            'the induction over a whole transfer ("receiver holds a byte-for-byte copy"): every step of sender and receiver and the final verdict are proved with the invariant counter = blocks mod 65536, their composition over a block sequence is not machine-checked',
            'ibbDataIqReceived ignores the result of writeData (block acknowledged although the device refused it or wrote only part of it); the loss is caught by checkData only when a size or hash was announced -- with neither the transfer reports success',
            'a job that is already finished is put back into transfer state by a further <open/> (setState is not guarded): observed, no claim',
            'transfers of INT_MAX or more blocks (the increment of the int counter would overflow)',
            'delivery of the progress/stateChanged/finished signals (Qt event loop)',
        ],
        'explanation': 'Receiver (ibbOpenIqReceived, ibbDataIqReceived, ibbCloseIqReceived), sender (ibbResponseReceived), the two job-list look-ups, writeData, checkData, terminate and the 16-bit '
                       'sequence accessors are lowered from /repo on every run and verified against contracts taken from XEP-0047 and the property statement. Finding C19-ibb-seq-wrap (receiver compared the 16-bit seq '
                       'with an int counter never reduced mod 65536; natively reproduced by units/C19/replay_seqwrap.cpp) is fixed in /repo; the data handler is verified for the whole counter range.',
    }


def native_replay(rp=None):
    """run the native driver for the recorded finding against the real library built from the working tree"""
    from vlib import native
    rc, out = native.run_driver(os.path.join(HERE, 'replay_seqwrap.cpp'), timeout=900)
    return rc == 1 and 'REPRODUCED' in out and 'NOT-REPRODUCED' not in out, out
