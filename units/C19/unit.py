"""C19 -- a file transfer reported successful delivered exactly the bytes that were sent (in-band bytestream path)."""
import os, re
from vlib.unit import Builder, Target, VERIF, scan_assumes
from vlib.runner import Proof
from vlib.opaque_profile import opaque_profile
from vlib.cxx2c import Lowerer, Unsupported, rangefor_indexed
from vlib import ctx
from vlib.configure import REPO

QT = os.path.join(VERIF, 'qtmodel')
HERE = os.path.dirname(os.path.abspath(__file__))
TM = 'src/client/QXmppTransferManager.cpp'
IBB = 'src/base/QXmppIbbIq.cpp'

ENUMS = ['QXmppTransferJob::Direction', 'QXmppTransferJob::Error', 'QXmppTransferJob::Method', 'QXmppTransferJob::State',
         'QXmppIq::Type', 'QXmppStanza::Error::Type', 'QXmppStanza::Error::Condition']


def rd(name):
    return open(os.path.join(HERE, name)).read()


class C19Lowerer(Lowerer):
    """static_cast<Derived*>(base*) between job classes that share one C struct is the identity"""

    def cast(self, n):
        if n.get('castKind') == 'BaseToDerived':
            sub = n['inner'][0]
            if self.ntype(n) == self.ntype(self.skip(sub)):
                self.fire('cast:BaseToDerived:same-struct')
                return self.expr(sub)
            raise Unsupported('BaseToDerived cast between different C structs')
        return super().cast(n)


def send_packet(lw, node, args):
    """client()->sendPacket(x): the event-log entry depends on the static type of x"""
    a = lw.skip(node['inner'][1])
    t = lw.tkey(a)
    fn = {'QXmppIq': 'ev_send_iq', 'QXmppIbbDataIq': 'ev_send_data', 'QXmppIbbCloseIq': 'ev_send_close'}.get(t)
    if fn is None:
        raise Unsupported('sendPacket of a %s' % t)
    return '%s(%s)' % (fn, args[1])


def invoke_method(lw, node, args):
    # QMetaObject::invokeMethod(obj, "name", Qt::QueuedConnection)
    if 'QueuedConnection' not in args[2]:
        raise Unsupported('invokeMethod with connection type %s' % args[2])
    return 'ev_invoke(%s, %s)' % (args[0], args[1])


def profile():
    base = lambda f: ('expr', '((const QXmppIq *){0})->' + f)
    setb = lambda f: ('expr', '((QXmppIq *){0})->' + f + ' = {1}')
    calls = {
        # d-pointers: std::unique_ptr<T>::operator-> is the pointer itself
        'op->:QXmppTransferManagerPrivate*': ('arg', 0),
        'op->:QXmppTransferJobPrivate*': ('arg', 0),
        # repository functions (lowered from /repo; verified themselves or used through their verified contract)
        'QXmppTransferManagerPrivate::getIncomingJobBySid/2': ('callee', 'getIncomingJobBySid'),
        'QXmppTransferManagerPrivate::getOutgoingJobByRequestId/2': ('callee', 'getOutgoingJobByRequestId'),
        'QXmppTransferManagerPrivate::getJobByRequestId/3': ('callee', 'getJobByRequestId'),
        'QXmppTransferJob::method/0': ('callee', 'QXmppTransferJob_method'),
        'QXmppTransferJob::state/0': ('callee', 'QXmppTransferJob_state'),
        'QXmppTransferJob::setState/1': ('callee', 'QXmppTransferJob_setState'),
        'QXmppTransferJob::terminate/1': ('callee', 'QXmppTransferJob_terminate'),
        'QXmppTransferJob::fileSize/0': ('callee', 'QXmppTransferJob_fileSize'),
        'QXmppTransferJob::writeData/1': ('callee', 'QXmppTransferIncomingJob_writeData'),
        'QXmppTransferJob::checkData/0': ('callee', 'QXmppTransferIncomingJob_checkData'),
        'QXmppIbbDataIq::sequence/0': ('callee', 'QXmppIbbDataIq_sequence'),
        'QXmppIbbDataIq::setSequence/1': ('callee', 'QXmppIbbDataIq_setSequence'),
        'QXmppIbbDataIq::sid/0': ('callee', 'QXmppIbbDataIq_sid'),
        'QXmppIbbDataIq::setSid/1': ('callee', 'QXmppIbbDataIq_setSid'),
        'QXmppIbbDataIq::payload/0': ('callee', 'QXmppIbbDataIq_payload'),
        'QXmppIbbDataIq::setPayload/1': ('callee', 'QXmppIbbDataIq_setPayload'),
        'QXmppIbbOpenIq::sid/0': ('callee', 'QXmppIbbOpenIq_sid'),
        'QXmppIbbOpenIq::blockSize/0': ('callee', 'QXmppIbbOpenIq_blockSize'),
        'QXmppIbbCloseIq::sid/0': ('callee', 'QXmppIbbCloseIq_sid'),
        'QXmppIbbCloseIq::setSid/1': ('callee', 'QXmppIbbCloseIq_setSid'),
        # A-STANZA-ACCESSORS (types.h)
        '*::from/0': base('from'), '*::id/0': base('id'), '*::to/0': base('to'), '*::type/0': base('type'),
        '*::setTo/1': setb('to'), '*::setId/1': setb('id'), '*::setFrom/1': setb('from'), '*::setType/1': setb('type'),
        '*::setError/1': ('expr', '((QXmppIq *){0})->error = *{1}'),
        'ctor:QXmppIq()': ('fn', 'QXmppIq_ctor'),
        'ctor:QXmppIbbDataIq()': ('fn', 'QXmppIbbDataIq_ctor'),
        'ctor:QXmppIbbCloseIq()': ('fn', 'QXmppIbbCloseIq_ctor'),
        'ctor:QXmppStanzaError(int,int)': ('fn', 'QXmppStanzaError_ctor'),
        # A-FILEINFO
        'QXmppTransferFileInfo::size/0': ('expr', '({0})->size'),
        'QXmppTransferFileInfo::hash/0': ('expr', '({0})->hash'),
        # event log
        '*::client/0': ('const', '0'),
        '*::sendPacket/1': send_packet,
        'fn:invokeMethod/3': invoke_method,
        # signals and the elapsed-time clock: no effect on the state the property speaks about
        '*::progress/2': ('drop',), '*::stateChanged/1': ('drop',), 'QElapsedTimer::start/0': ('drop',),
        # Qt models (types.h / model.h)
        'qbytes::size/0': ('fn', 'qbytes_size'),
        'qbytes::isEmpty/0': ('expr', '{0} == 0'),
        'op!=:qbytes:qbytes': ('expr', '{0} != {1}'),
        'op==:qbytes:qbytes': ('expr', '{0} == {1}'),
        'qhash::addData/1': ('fnmut', 'qhash_addData'),
        'qhash::result/0': ('fn', 'qhash_result'),
        'QIODevice::write/1': ('fn', 'QIODevice_write'),
        'QIODevice::read/1': ('fn', 'QIODevice_read'),
        'QIODevice::isOpen/0': ('fn', 'QIODevice_isOpen'),
        'QIODevice::close/0': ('fn', 'QIODevice_close'),
        'QTcpSocket::flush/0': ('const', 'true'),
        'QTcpSocket::close/0': ('fn', 'QTcpSocket_close'),
        'fn:as_const/1': ('arg', 0),
        'rangefor:QListJobs': rangefor_indexed('({r})->n', 'QListJobs_at({r}, {i})'),
    }
    types = {
        'QXmppTransferManager': 'QXmppTransferManager', 'QXmppTransferManagerPrivate': 'QXmppTransferManagerPrivate',
        'std::unique_ptr<QXmppTransferManagerPrivate>': 'QXmppTransferManagerPrivate*',
        'std::unique_ptr<QXmppTransferJobPrivate>': 'QXmppTransferJobPrivate*',
        'QXmppTransferJobPrivate': 'QXmppTransferJobPrivate',
        'QXmppTransferJob': 'QXmppTransferJob', 'QXmppTransferIncomingJob': 'QXmppTransferJob', 'QXmppTransferOutgoingJob': 'QXmppTransferJob',
        'QList<QXmppTransferJob*>': 'QListJobs',
        'QXmppIq': 'QXmppIq', 'QXmppIbbDataIq': 'QXmppIbbDataIq', 'QXmppIbbOpenIq': 'QXmppIbbOpenIq', 'QXmppIbbCloseIq': 'QXmppIbbCloseIq',
        'QXmppStanza::Error': 'QXmppStanzaError', 'QXmppTransferFileInfo': 'QXmppTransferFileInfo',
        'QByteArray': 'qbytes', 'QCryptographicHash': 'qhash', 'QIODevice': 'QIODevice', 'QTcpSocket': 'QTcpSocket',
        'Qt::ConnectionType': 'int', 'QObject': 'void',
    }
    for e in ENUMS:
        types[e] = 'int'
    p = opaque_profile(
        types=types,
        class_types={'QXmppTransferManager', 'QXmppTransferManagerPrivate', 'QXmppTransferJobPrivate', 'QXmppTransferJob', 'QListJobs', 'QXmppIq',
                     'QXmppIbbDataIq', 'QXmppIbbOpenIq', 'QXmppIbbCloseIq', 'QXmppStanzaError', 'QXmppTransferFileInfo', 'QIODevice', 'QTcpSocket'},
        calls=calls,
        pure_fns={'client', 'hash', 'fileSize', 'size', 'state', 'method'},
    )
    p.default_args['QGenericArgument'] = '0'
    return p


# real functions: (key, source, clang filter, name, C name, C type of `this`, spec file or None, nparams)
FUNCS = {
    'seq':        (IBB, 'QXmppIbbDataIq::sequence', 'sequence', 'QXmppIbbDataIq_sequence', 'QXmppIbbDataIq', 'sequence.spec'),
    'setseq':     (IBB, 'QXmppIbbDataIq::setSequence', 'setSequence', 'QXmppIbbDataIq_setSequence', 'QXmppIbbDataIq', 'setsequence.spec'),
    'd_sid':      (IBB, 'QXmppIbbDataIq::sid', 'sid', 'QXmppIbbDataIq_sid', 'QXmppIbbDataIq', None),
    'd_setsid':   (IBB, 'QXmppIbbDataIq::setSid', 'setSid', 'QXmppIbbDataIq_setSid', 'QXmppIbbDataIq', None),
    'd_payload':  (IBB, 'QXmppIbbDataIq::payload', 'payload', 'QXmppIbbDataIq_payload', 'QXmppIbbDataIq', None),
    'd_setpayload': (IBB, 'QXmppIbbDataIq::setPayload', 'setPayload', 'QXmppIbbDataIq_setPayload', 'QXmppIbbDataIq', None),
    'o_sid':      (IBB, 'QXmppIbbOpenIq::sid', 'sid', 'QXmppIbbOpenIq_sid', 'QXmppIbbOpenIq', None),
    'o_bs':       (IBB, 'QXmppIbbOpenIq::blockSize', 'blockSize', 'QXmppIbbOpenIq_blockSize', 'QXmppIbbOpenIq', None),
    'c_sid':      (IBB, 'QXmppIbbCloseIq::sid', 'sid', 'QXmppIbbCloseIq_sid', 'QXmppIbbCloseIq', None),
    'c_setsid':   (IBB, 'QXmppIbbCloseIq::setSid', 'setSid', 'QXmppIbbCloseIq_setSid', 'QXmppIbbCloseIq', None),
    'method':     (TM, 'QXmppTransferJob::method', 'method', 'QXmppTransferJob_method', 'QXmppTransferJob', None),
    'state':      (TM, 'QXmppTransferJob::state', 'state', 'QXmppTransferJob_state', 'QXmppTransferJob', None),
    'filesize':   (TM, 'QXmppTransferJob::fileSize', 'fileSize', 'QXmppTransferJob_fileSize', 'QXmppTransferJob', None),
    'setstate':   (TM, 'QXmppTransferJob::setState', 'setState', 'QXmppTransferJob_setState', 'QXmppTransferJob', None),
    'terminate':  (TM, 'QXmppTransferJob::terminate', 'terminate', 'QXmppTransferJob_terminate', 'QXmppTransferJob', 'terminate.spec'),
    'writedata':  (TM, 'QXmppTransferIncomingJob::writeData', 'writeData', 'QXmppTransferIncomingJob_writeData', 'QXmppTransferJob', 'writedata.spec'),
    'checkdata':  (TM, 'QXmppTransferIncomingJob::checkData', 'checkData', 'QXmppTransferIncomingJob_checkData', 'QXmppTransferJob', 'checkdata.spec'),
    'lookup_sid': (TM, 'QXmppTransferManagerPrivate::getIncomingJobBySid', 'getIncomingJobBySid', 'getIncomingJobBySid', 'QXmppTransferManagerPrivate', 'lookup_sid.spec'),
    'lookup_req': (TM, 'QXmppTransferManagerPrivate::getJobByRequestId', 'getJobByRequestId', 'getJobByRequestId', 'QXmppTransferManagerPrivate', 'lookup_req.spec'),
    'lookup_out': (TM, 'QXmppTransferManagerPrivate::getOutgoingJobByRequestId', 'getOutgoingJobByRequestId', 'getOutgoingJobByRequestId', 'QXmppTransferManagerPrivate', None),
    'data':       (TM, 'QXmppTransferManager::ibbDataIqReceived', 'ibbDataIqReceived', 'ibbDataIqReceived', 'QXmppTransferManager', 'data.spec'),
    'open':       (TM, 'QXmppTransferManager::ibbOpenIqReceived', 'ibbOpenIqReceived', 'ibbOpenIqReceived', 'QXmppTransferManager', 'open.spec'),
    'close':      (TM, 'QXmppTransferManager::ibbCloseIqReceived', 'ibbCloseIqReceived', 'ibbCloseIqReceived', 'QXmppTransferManager', 'close.spec'),
    'response':   (TM, 'QXmppTransferManager::ibbResponseReceived', 'ibbResponseReceived', 'ibbResponseReceived', 'QXmppTransferManager', 'response.spec'),
}

HOOKS = [
    {'id': 'lookup_sid_found', 'fn': 'getIncomingJobBySid', 'before': r'^\s*return job;', 'emit': 'gh_found_idx = __i0;'},
    {'id': 'lookup_req_found', 'fn': 'getJobByRequestId', 'before': r'^\s*return job;', 'emit': 'gh_found_idx = __i0;'},
    {'id': 'data_job', 'fn': 'ibbDataIqReceived', 'after': r'^\s*QXmppTransferJob\s*\*\s*job = getIncomingJobBySid\(', 'emit': 'gh_job = job;'},
    {'id': 'open_job', 'fn': 'ibbOpenIqReceived', 'after': r'^\s*QXmppTransferJob\s*\*\s*job = getIncomingJobBySid\(', 'emit': 'gh_job = job;'},
    {'id': 'close_job', 'fn': 'ibbCloseIqReceived', 'after': r'^\s*QXmppTransferJob\s*\*\s*job = getIncomingJobBySid\(', 'emit': 'gh_job = job;'},
    {'id': 'response_job', 'fn': 'ibbResponseReceived', 'after': r'^\s*QXmppTransferJob\s*\*\s*job = getOutgoingJobByRequestId\(', 'emit': 'gh_job = job;'},
    {'id': 'handed_to_writeData', 'fn': 'QXmppTransferIncomingJob_writeData', 'before': r'^\s*qint64 written = ',
     'emit': 'if (gh_wd_calls < 1000) gh_wd_calls++; gh_wd_job = self; gh_wd_data = data; self->d->gh_blocks++;'},
    {'id': 'checkData_called', 'fn': 'QXmppTransferIncomingJob_checkData', 'before': r'^\s*if \(', 'count': 1,
     'emit': 'if (gh_cd_calls < 1000) gh_cd_calls++; gh_cd_job = self;'},
    {'id': 'terminate_called', 'fn': 'QXmppTransferJob_terminate', 'before': r'^\s*if \(\(self->d->state == ', 'count': 1,
     'emit': 'if (gh_term_calls < 1000) gh_term_calls++; gh_term_job = self; gh_term_cause = cause;'},
]


class Unit:
    def __init__(self, work):
        self.prof = profile()
        self.prof.hooks = HOOKS
        self.b = Builder('C19', work, self.prof)
        self.text = {}
        self.spec = {}

    def lower(self, key):
        if key in self.text:
            return self.text[key]
        src, filt, name, cname, this, specf = FUNCS[key]
        sp = self.b.spec(specf) if specf else None
        t = self.b.lower(Target(src, filt, name, cname, this=this, lowerer_cls=C19Lowerer), sp)
        self.text[key] = t
        self.spec[key] = sp
        return t

    def records(self):
        src = lambda rel: os.path.join(REPO, rel)
        out = []
        for cls in ('QXmppIbbOpenIq', 'QXmppIbbCloseIq', 'QXmppIbbDataIq'):
            rec, _ = ctx.emit_record(src(IBB), cls, cls, cls, self.prof)
            out.append(rec.replace('{\n', '{\n  QXmppIq base;\n', 1))
        rec, fields = ctx.emit_record(src(TM), 'QXmppTransferJobPrivate', 'QXmppTransferJobPrivate', 'QXmppTransferJobPrivate', self.prof, opaque_ok=True)
        # ghost field: number of blocks accepted (receiver) / sent (sender) so far -- the specification's own counter
        out.append(rec.replace('\n}', '\n  unsigned long long gh_blocks; /* ghost */\n}', 1))
        out.append('typedef struct QXmppTransferJob { QXmppTransferJobPrivate *d; } QXmppTransferJob;')
        out.append('typedef struct QListJobs { int n; int iw; QXmppTransferJob *w; QXmppTransferJob *o; } QListJobs;')
        rec, _ = ctx.emit_record(src(TM), 'QXmppTransferManagerPrivate', 'QXmppTransferManagerPrivate', 'QXmppTransferManagerPrivate', self.prof, opaque_ok=True)
        out.append(rec)
        out.append('typedef struct QXmppTransferManager { QXmppTransferManagerPrivate *d; } QXmppTransferManager;')
        return '\n'.join(out) + '\n'

    def assemble(self, name, inline, protos, main, harness):
        """C file: models + real records + enums + inlined real helpers + contracts of replaced callees + the function under contract"""
        b = self.b
        body = ''.join(self.lower(k) + '\n' for k in inline)
        pro = ''.join(b.prototype(self.lower(k)) for k in protos)
        mtxt = self.lower(main)
        for e in ENUMS:
            b.need_enums.setdefault((os.path.join(REPO, TM), ()), {}).setdefault(e, set())
        c = '#include "opaque.h"\n' + self.prof.literal_ids.table() + b.subst(rd('types.h')) + b.context() + '\n' + self.records() + b.subst(rd('model.h')) + \
            '/* ---- contracts of replaced callees ---- */\n' + pro + '/* ---- real helpers, inlined ---- */\n' + body + '/* ---- function under contract ---- */\n' + mtxt + '\n' + harness
        return b.write(name + '.c', c), c


GETTERS_IQ = ['seq', 'd_sid', 'd_payload']


def build(work, tier):
    u = Unit(work)
    b = u.b
    proofs = []
    ctext = []

    def add(pid, main, inline, protos, harness_args, kind, note, loops=0, finding=None, defines=(), timeout=600):
        cname = FUNCS[main][3]
        h = 'void h_%s(void) { %s }\n' % (pid, harness_args)
        f, c = u.assemble(pid, inline, protos, main, h)
        ctext.append(c)
        sp = u.spec[main]
        p = Proof(pid, f, 'h_' + pid, enforce=cname, replace=[FUNCS[k][3] for k in protos], kind=kind, include_dirs=[QT], timeout=timeout,
                  loop_contracts=(loops > 0), expect_loops=loops, note=note, defines=list(defines))
        p.labels = {'post': {cname: sp.labels}, 'inv': {cname: sp.inv_labels.get(0, [])}}
        p.expect_post = len(sp.labels)
        if finding:
            p.finding = finding
        proofs.append(p)
        return p

    # ---------------------------------------------------------------- receiver: data block
    for suffix, defs, fid, note in (('', ['FINDING_EXCLUDED'], None, 'counter in 0..65535 (fewer than 65536 blocks accepted so far)'),
                                    ('_after_65536_blocks', ['FINDING_ONLY'], 'C19-ibb-seq-wrap', 'counter in 65536..INT_MAX-1 (65536 or more blocks accepted so far)')):
        add('ibbDataIqReceived' + suffix, 'data', ['method', 'state'] + GETTERS_IQ, ['lookup_sid', 'writedata'],
            'QXmppTransferManager *self; const QXmppIbbDataIq *iq; ibbDataIqReceived(self, iq);', 'complete',
            'loop-free; every job list (witness), every sender/session/sequence number, ' + note, finding=fid, defines=defs)
    return {
        'proofs': proofs, 'functions': b.functions, 'dropped': b.dropped, 'fired': b.fired, 'hooks': [h['id'] + ': ' + h['emit'] for h in HOOKS],
        'assumed': [],
        'assumes': scan_assumes(''.join(ctext[:1]) + open(os.path.join(QT, 'opaque.h')).read()),
        'not_covered': [],
    }
