// C19 native replay: an in-band transfer of more than 65536 blocks against the REAL QXmppTransferManager.
//
// A peer offers a file over XEP-0047 and then behaves exactly as the XEP demands: block k carries seq = k mod 65536.
// Postcondition evaluated (units/C19/data.spec, post.block_accepted_iff_...): a block is handed to the output device and
// acknowledged iff the job is known, in transfer state and seq == (blocks accepted so far) mod 65536.
//
// usage: replay_seqwrap [blocks]      (default 65538)
// exit 1 + "REPRODUCED ..."   : the first rejected block is a correct one (the defect)
// exit 0 + "NOT-REPRODUCED ...": every correct block was accepted, the device holds all bytes, the job ends with NoError
#include "QXmppClient.h"
#include "QXmppClient_p.h"
#include "QXmppConstants_p.h"
#include "QXmppDataForm.h"
#include "QXmppIbbIq.h"
#include "QXmppLogger.h"
#include "QXmppOutgoingClient.h"
#include "QXmppStreamInitiationIq_p.h"
#include "QXmppTransferManager.h"

#include <QBuffer>
#include <QCoreApplication>
#include <QDomDocument>
#include <QXmlStreamWriter>
#include <cstdio>

class TestClient : public QXmppClient
{
public:
    TestClient()
    {
        // as tests/TestClient.h: packets are logged (and thereby observable) although there is no connection
        d->stream->enableStreamManagement(true);
        logger()->setLoggingType(QXmppLogger::SignalLogging);
    }
};

template<typename T>
static QDomElement toDom(const T &stanza, QDomDocument &doc)
{
    QByteArray xml;
    QXmlStreamWriter w(&xml);
    stanza.toXml(&w);
    doc.setContent(xml, true);
    return doc.documentElement();
}

int main(int argc, char **argv)
{
    QCoreApplication app(argc, argv);
    const int blocks = argc > 1 ? atoi(argv[1]) : 65538;
    const QString peer = QStringLiteral("peer@example.org/r");
    const QString sid = QStringLiteral("sid1");

    TestClient client;
    auto *manager = client.addNewExtension<QXmppTransferManager>();
    manager->setSupportedMethods(QXmppTransferJob::InBandMethod);

    QString lastSent;
    QObject::connect(client.logger(), &QXmppLogger::message, [&](QXmppLogger::MessageType type, const QString &text) {
        if (type == QXmppLogger::SentMessage && text.startsWith(QStringLiteral("<iq"))) {   // not the <r/> of stream management
            lastSent = text;
        }
    });

    QBuffer out;
    out.open(QIODevice::WriteOnly);
    QXmppTransferJob *job = nullptr;
    QObject::connect(manager, &QXmppTransferManager::fileReceived, [&](QXmppTransferJob *j) {
        job = j;
        j->accept(&out);
    });

    // stream initiation: offer a file of `blocks` bytes, method IBB
    {
        QXmppTransferFileInfo info;
        info.setName(QStringLiteral("big.bin"));
        info.setSize(blocks);
        QXmppDataForm form;
        form.setType(QXmppDataForm::Form);
        QXmppDataForm::Field field(QXmppDataForm::Field::ListSingleField);
        field.setKey(QStringLiteral("stream-method"));
        field.setOptions({ qMakePair(QString(), ns_ibb.toString()) });
        form.setFields({ field });
        QXmppStreamInitiationIq si;
        si.setType(QXmppIq::Set);
        si.setFrom(peer);
        si.setId(QStringLiteral("si1"));
        si.setProfile(QXmppStreamInitiationIq::FileTransfer);
        si.setSiId(sid);
        si.setFileInfo(info);
        si.setFeatureForm(form);
        QDomDocument doc;
        manager->handleStanza(toDom(si, doc));
    }
    if (!job || job->state() != QXmppTransferJob::StartState || job->method() != QXmppTransferJob::InBandMethod) {
        printf("SETUP-FAILED: offer not accepted (job=%p)\n", (void *)job);
        return 2;
    }
    {
        QXmppIbbOpenIq open;
        open.setFrom(peer);
        open.setId(QStringLiteral("open1"));
        open.setSid(sid);
        open.setBlockSize(16);
        QDomDocument doc;
        manager->handleStanza(toDom(open, doc));
    }
    if (job->state() != QXmppTransferJob::TransferState) {
        printf("SETUP-FAILED: open not accepted: %s\n", qPrintable(lastSent));
        return 2;
    }

    long long accepted = 0;
    int firstRejected = -1;
    QString rejection;
    for (int k = 0; k < blocks; ++k) {
        QXmppIbbDataIq data;
        data.setFrom(peer);
        data.setId(QStringLiteral("d%1").arg(k));
        data.setSid(sid);
        data.setSequence(quint16(k % 65536));   // XEP-0047: 16-bit counter, wraps to 0 after 65535
        data.setPayload(QByteArray(1, char('a' + k % 26)));
        QDomDocument doc;
        lastSent.clear();
        const qint64 before = out.size();
        manager->handleStanza(toDom(data, doc));
        const bool acked = lastSent.contains(QStringLiteral("type=\"result\""));
        const bool written = out.size() == before + 1;
        if (acked && written) {
            accepted++;
        } else if (firstRejected < 0) {
            firstRejected = k;
            rejection = lastSent;
            break;
        }
    }
    {
        QXmppIbbCloseIq close;
        close.setFrom(peer);
        close.setId(QStringLiteral("close1"));
        close.setSid(sid);
        QDomDocument doc;
        manager->handleStanza(toDom(close, doc));
    }
    QCoreApplication::processEvents();
    printf("blocks sent in order: %d, accepted: %lld, bytes on device: %lld, job error code: %d\n", blocks, accepted, (long long)out.size(), int(job->error()));
    if (firstRejected >= 0) {
        printf("REPRODUCED: block number %d (seq=%d, equal to %lld blocks accepted mod 65536) was rejected: %s\n",
               firstRejected, firstRejected % 65536, accepted, qPrintable(rejection));
        return 1;
    }
    if (out.size() != blocks || job->error() != QXmppTransferJob::NoError) {
        printf("REPRODUCED: transfer did not end with all bytes and NoError\n");
        return 1;
    }
    printf("NOT-REPRODUCED: every in-sequence block was accepted, device holds all %d bytes, job finished with NoError\n", blocks);
    return 0;
}
