/* C19 -- unit-owned models (ASSUMED contracts of Qt types and of QXmpp stanza accessors) and ghost state.
 *
 * A-QBYTEARRAY-OPAQUE  a QByteArray is an opaque value id (0 = the empty array); equal ids <=> equal contents; size() is an
 *                      uninterpreted function of the value, > 0 for a non-empty array.
 * A-QCRYPTOHASH        the state of a QCryptographicHash is an opaque value; addData(b) maps (state, b) to a new state
 *                      (uninterpreted), adding the empty array changes nothing; result() is a function of the state.
 * A-QIODEVICE          write(b) returns -1 or a number in 0..size(b); read(max) on a device that still has `avail` bytes returns exactly
 *                      min(max(max,0), avail) of them (random-access devices: QFile, QBuffer) and avail shrinks by that number;
 *                      both are logged in ghost variables; close() clears the open flag.
 * A-STANZA-ACCESSORS   QXmppStanza/QXmppIq to/from/id/type/error and QXmppIbb{Open,Close,Data}Iq sid/blockSize/payload
 *                      setters and getters store and return the field; a default-constructed IQ has some non-empty id.
 * A-FILEINFO-SHARED    QXmppTransferFileInfo is its QSharedDataPointer payload held by value (copy-on-write sharing is Qt's and not modelled);
 *                      size()/hash() themselves are lowered from the real source.
 * A-PARSEINT           parseInt<T>(s) (QXmppUtils) under the contract it is verified against in units/C01 (parseInt.spec.in): a value
 *                      iff s is a numeral within the range of T, and then that number.  Vocabulary only: /repo does not use it here.
 * A-JOBLIST            QList<QXmppTransferJob*> iteration visits elements 0..n-1 in order (witness abstraction below). */
/* qbytes (QByteArray as an opaque value) and qdt come from qtmodel/conv.h */
typedef int qhash;
typedef struct QIODevice { bool open; long long avail; /* ghost: bytes a reader can still get from the device (>= 0) */ } QIODevice;
typedef struct QTcpSocket { bool open; } QTcpSocket;
typedef struct QXmppStanzaError { int type; int condition; } QXmppStanzaError;
typedef struct QXmppIq { qstr to; qstr from; qstr id; int type; QXmppStanzaError error; } QXmppIq;
/* QXmppIbb{Open,Close,Data}Iq, QXmppTransferJobPrivate, QXmppTransferManagerPrivate: structs generated on every run from the real
   field lists (vlib.ctx.emit_record in unit.py); the IQ structs get the QXmppIq part as first member `base` */
