/* C19 -- unit-owned models (ASSUMED contracts of Qt types and of QXmpp stanza accessors) and ghost state.
 *
 * A-QBYTEARRAY-OPAQUE  a QByteArray is an opaque value id (0 = the empty array); equal ids <=> equal contents; size() is an
 *                      uninterpreted function of the value, > 0 for a non-empty array.
 * A-QCRYPTOHASH        the state of a QCryptographicHash is an opaque value; addData(b) maps (state, b) to a new state
 *                      (uninterpreted), adding the empty array changes nothing; result() is a function of the state.
 * A-QIODEVICE          write(b) returns -1 or a number in 0..size(b); read(max) returns an array of at most max(max,0) bytes;
 *                      both are logged in ghost variables; close() clears the open flag.
 * A-STANZA-ACCESSORS   QXmppStanza/QXmppIq to/from/id/type/error and QXmppIbb{Open,Close,Data}Iq sid/blockSize/payload
 *                      setters and getters store and return the field; a default-constructed IQ has some non-empty id.
 * A-FILEINFO           QXmppTransferFileInfo::size()/hash() are pure getters of the announced size and hash.
 * A-JOBLIST            QList<QXmppTransferJob*> iteration visits elements 0..n-1 in order (witness abstraction below). */
typedef int qbytes;
typedef int qhash;
typedef struct QIODevice { bool open; } QIODevice;
typedef struct QTcpSocket { bool open; } QTcpSocket;
typedef struct QXmppStanzaError { int type; int condition; } QXmppStanzaError;
typedef struct QXmppIq { qstr to; qstr from; qstr id; int type; QXmppStanzaError error; } QXmppIq;
typedef struct QXmppTransferFileInfo { long long size; qbytes hash; } QXmppTransferFileInfo;
/* QXmppIbb{Open,Close,Data}Iq, QXmppTransferJobPrivate, QXmppTransferManagerPrivate: structs generated on every run from the real
   field lists (vlib.ctx.emit_record in unit.py); the IQ structs get the QXmppIq part as first member `base` */
