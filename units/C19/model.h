/* C19 -- models and ghost state; the assumptions are listed at the top of types.h */
int __CPROVER_uninterpreted_bytes_len(qbytes b);
static inline int qbytes_size(qbytes b) { if (b == 0) return 0; int n = __CPROVER_uninterpreted_bytes_len(b); __CPROVER_assume(n > 0); return n; }
#define QBYTES_LEN(b) ((b) == 0 ? 0 : __CPROVER_uninterpreted_bytes_len(b))

qhash __CPROVER_uninterpreted_hash_add(qhash h, qbytes b);
qbytes __CPROVER_uninterpreted_hash_result(qhash h);
#define HASH_ADD(h, b) ((b) == 0 ? (h) : __CPROVER_uninterpreted_hash_add((h), (b)))
static inline void qhash_addData(qhash *h, qbytes b) { *h = HASH_ADD(*h, b); }
static inline qbytes qhash_result(qhash h) { return __CPROVER_uninterpreted_hash_result(h); }

long long nondet_longlong(void);
int gh_dev_writes; qbytes gh_dev_w_data; long long gh_dev_w_ret; QIODevice *gh_dev_w_dev;   /* log of QIODevice::write */
int gh_dev_reads; long long gh_dev_r_max; qbytes gh_dev_r_ret; QIODevice *gh_dev_r_dev;     /* log of QIODevice::read  */
static inline long long QIODevice_write(QIODevice *dev, qbytes data) {
  long long w = nondet_longlong();
  __CPROVER_assume(w >= -1 && w <= (long long)qbytes_size(data));
  if (gh_dev_writes < 1000) gh_dev_writes++;
  gh_dev_w_data = data; gh_dev_w_ret = w; gh_dev_w_dev = dev;
  return w;
}
static inline qbytes QIODevice_read(QIODevice *dev, long long maxlen) {
  qbytes b = nondet_int();
  __CPROVER_assume(b >= 0 && (long long)qbytes_size(b) <= (maxlen > 0 ? maxlen : 0));
  if (gh_dev_reads < 1000) gh_dev_reads++;
  gh_dev_r_max = maxlen; gh_dev_r_ret = b; gh_dev_r_dev = dev;
  return b;
}
static inline bool QIODevice_isOpen(const QIODevice *dev) { return dev->open; }
static inline void QIODevice_close(QIODevice *dev) { dev->open = false; }
static inline void QTcpSocket_close(QTcpSocket *s) { s->open = false; }

/* stanza value types */
static inline void QXmppStanzaError_ctor(QXmppStanzaError *e, int type, int condition) { e->type = type; e->condition = condition; }
static inline void QXmppIq_ctor_type(QXmppIq *q, int type) { q->to = 0; q->from = 0; q->id = nondet_qstr(); __CPROVER_assume(q->id != 0); q->type = type; q->error.type = -1; q->error.condition = -1; }
static inline void QXmppIq_ctor(QXmppIq *q) { QXmppIq_ctor_type(q, QXmppIq_Type__Get); }
static inline void QXmppIbbCloseIq_ctor(QXmppIbbCloseIq *q) { QXmppIq_ctor_type(&q->base, QXmppIq_Type__Set); q->m_sid = 0; }
static inline void QXmppIbbDataIq_ctor(QXmppIbbDataIq *q) { QXmppIq_ctor_type(&q->base, QXmppIq_Type__Set); q->m_seq = 0; q->m_sid = 0; q->m_payload = 0; }


/* ------------------------------------------------------------------ event log: packets handed to QXmppClient::sendPacket */
int gh_sent;                /* number of packets sent (saturating) */
int gh_sent_kind;           /* last packet: 1 plain IQ, 2 IBB data, 3 IBB close */
qstr gh_sent_to, gh_sent_id, gh_sent_sid; int gh_sent_type, gh_sent_err_type, gh_sent_err_cond;
quint16 gh_sent_seq; qbytes gh_sent_payload;
static inline void ev_send_base(int kind, const QXmppIq *q) { if (gh_sent < 1000) gh_sent++; gh_sent_kind = kind; gh_sent_to = q->to; gh_sent_id = q->id; gh_sent_type = q->type; gh_sent_err_type = q->error.type; gh_sent_err_cond = q->error.condition; }
static inline bool ev_send_iq(const QXmppIq *q) { ev_send_base(1, q); gh_sent_sid = 0; gh_sent_seq = 0; gh_sent_payload = 0; return nondet_bool(); }
static inline bool ev_send_data(const QXmppIbbDataIq *q) { ev_send_base(2, &q->base); gh_sent_sid = q->m_sid; gh_sent_seq = q->m_seq; gh_sent_payload = q->m_payload; return nondet_bool(); }
static inline bool ev_send_close(const QXmppIbbCloseIq *q) { ev_send_base(3, &q->base); gh_sent_sid = q->m_sid; gh_sent_seq = 0; gh_sent_payload = 0; return nondet_bool(); }
/* queued invocations (QMetaObject::invokeMethod(obj, "name", Qt::QueuedConnection)) */
int gh_invoked; const void *gh_invoked_obj; qstr gh_invoked_method;
static inline bool ev_invoke(const void *obj, qstr method) { if (gh_invoked < 1000) gh_invoked++; gh_invoked_obj = obj; gh_invoked_method = method; return true; }

/* ------------------------------------------------------------------ A-JOBLIST: the manager's job list with a witness element
 * The list has n >= 0 elements.  Element number iw (an arbitrary index; the witness) is the job object *w.  Every other
 * element is represented by the single object *o whose lookup keys (direction, jid, sid, requestId) take arbitrary new
 * values each time an element is fetched: a proof about "the element at iw" therefore holds for every element, and nothing
 * is known about the others.  Iteration is by index 0..n-1 (lowering rule rangefor:QListJobs). */
static inline QXmppTransferJob *QListJobs_at(const QListJobs *l, int i) {
  if (i == l->iw) return l->w;
  l->o->d->direction = nondet_int(); l->o->d->jid = nondet_qstr(); l->o->d->sid = nondet_qstr(); l->o->d->requestId = nondet_qstr();
  return l->o;
}
int gh_found_idx;                     /* ghost hook in the lookups: index at which the returned job was found */
QXmppTransferJob *gh_job;             /* ghost hook in the handlers: the job the lookup returned */
/* hand-over log, written by the ghost hook at the entry of QXmppTransferIncomingJob::writeData */
int gh_wd_calls; QXmppTransferJob *gh_wd_job; qbytes gh_wd_data;
/* calls of checkData / terminate (ghost hooks at their entries) */
int gh_cd_calls; QXmppTransferJob *gh_cd_job;
int gh_term_calls; QXmppTransferJob *gh_term_job; int gh_term_cause;

#define INT_MAX_ 2147483647
#define JOB_OK(j) (__CPROVER_is_fresh((j), sizeof(QXmppTransferJob)) && __CPROVER_is_fresh((j)->d, sizeof(QXmppTransferJobPrivate)) && __CPROVER_is_fresh((j)->d->iodevice, sizeof(QIODevice)) && ((j)->d->socksSocket == NULL || __CPROVER_is_fresh((j)->d->socksSocket, sizeof(QTcpSocket))))
#define JOBLIST_OK(l) ((l).n >= 0 && JOB_OK((l).w) && JOB_OK((l).o))
/* receiver/sender invariant of XEP-0047: the job's counter is the number of blocks accepted (sent) so far modulo 2^16 */
#define SEQ_INV(j) ((quint16)(j)->d->ibbSequence == (quint16)(j)->d->gh_blocks)
/* representation bounds: int counter below INT_MAX (the increment is signed), ghost count far from wrapping */
#define SEQ_BOUNDS(j) (0 <= (j)->d->ibbSequence && (j)->d->ibbSequence < INT_MAX_ && (j)->d->gh_blocks < (1ull << 62))
#define MATCH_SID(j, jid_, sid_) ((j)->d->direction == QXmppTransferJob_Direction__IncomingDirection && (j)->d->jid == (jid_) && (j)->d->sid == (sid_))
#define MATCH_REQ(j, dir_, jid_, id_) ((j)->d->direction == (dir_) && (j)->d->jid == (jid_) && (j)->d->requestId == (id_))
/* shorthands used by the handler contracts */
#define JW (self->d->jobs.w)
#define JO (self->d->jobs.o)
#define ACCEPTABLE(j, blocks_before) ((j)->d->method == QXmppTransferJob_Method__InBandMethod && (j)->d->state == QXmppTransferJob_State__TransferState && iq->m_seq == (quint16)(blocks_before))
#define UNCHANGED(j, seq0, blocks0, done0, hash0) ((j)->d->ibbSequence == (seq0) && (j)->d->gh_blocks == (blocks0) && (j)->d->done == (done0) && (j)->d->hash == (hash0))
