/* C19 -- models and ghost state; the assumptions are listed at the top of types.h */
int __CPROVER_uninterpreted_bytes_len(qbytes b);
static inline int qbytes_size(qbytes b) { if (b == 0) return 0; int n = __CPROVER_uninterpreted_bytes_len(b); __CPROVER_assume(n > 0); return n; }
#define QBYTES_LEN(b) ((b) == 0 ? 0 : __CPROVER_uninterpreted_bytes_len(b))

qhash __CPROVER_uninterpreted_hash_add(qhash h, qbytes b);
qbytes __CPROVER_uninterpreted_hash_result(qhash h);
#define HASH_ADD(h, b) ((b) == 0 ? (h) : __CPROVER_uninterpreted_hash_add((h), (b)))
static inline void qhash_addData(qhash *h, qbytes b) { *h = HASH_ADD(*h, b); }
static inline qbytes qhash_result(qhash h) { return __CPROVER_uninterpreted_hash_result(h); }

long long nondet_longlong(void);
/* qMin / qMax / std::min / std::max on integers (pure; arguments evaluated once) */
static inline long long c_min_s64(long long a, long long b) { return a < b ? a : b; }
static inline long long c_max_s64(long long a, long long b) { return a < b ? b : a; }
static inline unsigned long long c_min_u64(unsigned long long a, unsigned long long b) { return a < b ? a : b; }
static inline unsigned long long c_max_u64(unsigned long long a, unsigned long long b) { return a < b ? b : a; }
/* A-PARSEINT: std::optional<T> parseInt<T>(QStringView) under its C01 contract */
#define C19_OPT(N, T) typedef struct Opt##N { bool has; T v; } Opt##N;
C19_OPT(S8, qint8) C19_OPT(U8, quint8) C19_OPT(S16, qint16) C19_OPT(U16, quint16) C19_OPT(S32, qint32) C19_OPT(U32, quint32) C19_OPT(S64, qint64) C19_OPT(U64, quint64)
#define C19_PARSEINT_U(N, T, MAXV) static inline void parseInt_##N(Opt##N *r, qstr s) { bool k; unsigned long long v = qstr_toULongLong(s, &k); r->has = k && v <= (MAXV); r->v = r->has ? (T)v : (T)0; }
#define C19_PARSEINT_S(N, T, MINV, MAXV) static inline void parseInt_##N(Opt##N *r, qstr s) { bool k; long long v = qstr_toLongLong(s, &k); r->has = k && v >= (MINV) && v <= (MAXV); r->v = r->has ? (T)v : (T)0; }
C19_PARSEINT_U(U8, quint8, 255ull) C19_PARSEINT_U(U16, quint16, 65535ull) C19_PARSEINT_U(U32, quint32, 4294967295ull) C19_PARSEINT_U(U64, quint64, 18446744073709551615ull)
C19_PARSEINT_S(S8, qint8, -128, 127) C19_PARSEINT_S(S16, qint16, -32768, 32767) C19_PARSEINT_S(S32, qint32, -2147483647ll - 1, 2147483647ll) C19_PARSEINT_S(S64, qint64, -9223372036854775807ll - 1, 9223372036854775807ll)
/* ghost logs are grouped in a few structs: a contract names one assigns target per log (dfcc checks every assignment against
   every target) */
struct gh_devw_s { int writes; qbytes data; long long ret; QIODevice *dev; } gh_devw;   /* log of QIODevice::write */
struct gh_devr_s { int reads; long long max; qbytes ret; QIODevice *dev; } gh_devr;      /* log of QIODevice::read  */
#define gh_dev_writes gh_devw.writes
#define gh_dev_w_data gh_devw.data
#define gh_dev_w_ret gh_devw.ret
#define gh_dev_w_dev gh_devw.dev
#define gh_dev_reads gh_devr.reads
#define gh_dev_r_max gh_devr.max
#define gh_dev_r_ret gh_devr.ret
#define gh_dev_r_dev gh_devr.dev
static inline long long QIODevice_write(QIODevice *dev, qbytes data) {
  long long w = nondet_longlong();
  __CPROVER_assume(w >= -1 && w <= (long long)qbytes_size(data));
  if (gh_dev_writes < 1000) gh_dev_writes++;
  gh_dev_w_data = data; gh_dev_w_ret = w; gh_dev_w_dev = dev;
  return w;
}
static inline qbytes QIODevice_read(QIODevice *dev, long long maxlen) {
  long long want = maxlen > 0 ? maxlen : 0;
  long long n = dev->avail < want ? dev->avail : want;
  qbytes b = nondet_int();
  __CPROVER_assume(b >= 0 && (long long)qbytes_size(b) == n);      /* n == 0 <=> the empty array */
  dev->avail -= n;
  if (gh_dev_reads < 1000) gh_dev_reads++;
  gh_dev_r_max = maxlen; gh_dev_r_ret = b; gh_dev_r_dev = dev;
  return b;
}
static inline bool QIODevice_isOpen(const QIODevice *dev) { return dev->open; }
static inline void QIODevice_close(QIODevice *dev) { dev->open = false; }
static inline void QTcpSocket_close(QTcpSocket *s) { s->open = false; }

/* stanza value types */
static inline void QXmppStanzaError_ctor(QXmppStanzaError *e, int type, int condition) { e->type = type; e->condition = condition; }
static inline void QXmppIq_ctor_type(QXmppIq *q, int type) { q->to = 0; q->from = 0; q->id = nondet_qstr(); __CPROVER_assume(q->id != 0); q->type = type; q->error.type = -1; q->error.condition = -1; }
static inline void QXmppIq_ctor(QXmppIq *q) { QXmppIq_ctor_type(q, QXmppIq_Type__Get); }
static inline void QXmppIbbCloseIq_ctor(QXmppIbbCloseIq *q) { QXmppIq_ctor_type(&q->base, QXmppIq_Type__Set); q->m_sid = 0; }
static inline void QXmppIbbDataIq_ctor(QXmppIbbDataIq *q) { QXmppIq_ctor_type(&q->base, QXmppIq_Type__Set); q->m_seq = 0; q->m_sid = 0; q->m_payload = 0; }


/* ------------------------------------------------------------------ event log: packets handed to QXmppClient::sendPacket */
struct gh_ev_s {
  int sent;                 /* number of packets sent (saturating) */
  int kind;                 /* last packet: 1 plain IQ, 2 IBB data, 3 IBB close */
  qstr to, id, sid; int type, err_type, err_cond; quint16 seq; qbytes payload;
} gh_ev;
struct gh_inv_s { int invoked; const void *obj; qstr method; } gh_inv;     /* queued invocations (QMetaObject::invokeMethod) */
#define gh_sent gh_ev.sent
#define gh_sent_kind gh_ev.kind
#define gh_sent_to gh_ev.to
#define gh_sent_id gh_ev.id
#define gh_sent_sid gh_ev.sid
#define gh_sent_type gh_ev.type
#define gh_sent_err_type gh_ev.err_type
#define gh_sent_err_cond gh_ev.err_cond
#define gh_sent_seq gh_ev.seq
#define gh_sent_payload gh_ev.payload
#define gh_invoked gh_inv.invoked
#define gh_invoked_obj gh_inv.obj
#define gh_invoked_method gh_inv.method
static inline void ev_send_base(int kind, const QXmppIq *q) { if (gh_sent < 1000) gh_sent++; gh_sent_kind = kind; gh_sent_to = q->to; gh_sent_id = q->id; gh_sent_type = q->type; gh_sent_err_type = q->error.type; gh_sent_err_cond = q->error.condition; }
static inline bool ev_send_iq(const QXmppIq *q) { ev_send_base(1, q); gh_sent_sid = 0; gh_sent_seq = 0; gh_sent_payload = 0; return nondet_bool(); }
static inline bool ev_send_data(const QXmppIbbDataIq *q) { ev_send_base(2, &q->base); gh_sent_sid = q->m_sid; gh_sent_seq = q->m_seq; gh_sent_payload = q->m_payload; return nondet_bool(); }
static inline bool ev_send_close(const QXmppIbbCloseIq *q) { ev_send_base(3, &q->base); gh_sent_sid = q->m_sid; gh_sent_seq = 0; gh_sent_payload = 0; return nondet_bool(); }
/* queued invocations (QMetaObject::invokeMethod(obj, "name", Qt::QueuedConnection)) */
static inline bool ev_invoke(const void *obj, qstr method) { if (gh_invoked < 1000) gh_invoked++; gh_invoked_obj = obj; gh_invoked_method = method; return true; }

/* ------------------------------------------------------------------ A-JOBLIST: the manager's job list with a witness element
 * The list has n >= 0 elements.  Element number iw (an arbitrary index; the witness) is the job object *w.  Every other
 * element is represented by the single object *o whose lookup keys (direction, jid, sid, requestId) take arbitrary new
 * values each time an element is fetched: a proof about "the element at iw" therefore holds for every element, and nothing
 * is known about the others.  Iteration is by index 0..n-1 (lowering rule rangefor:QListJobs). */
static inline QXmppTransferJob *QListJobs_at(const QListJobs *l, int i) {
  if (i == l->iw) return l->w;
  l->o->d->direction = nondet_bool() ? QXmppTransferJob_Direction__IncomingDirection : QXmppTransferJob_Direction__OutgoingDirection; l->o->d->jid = nondet_qstr(); l->o->d->sid = nondet_qstr(); l->o->d->requestId = nondet_qstr();
  return l->o;
}
int gh_found_idx;                     /* ghost hook in the lookups: index at which the returned job was found */
QXmppTransferJob *gh_job;             /* ghost hook in the lookups: the job the look-up returned (NULL: none yet / none found) */
/* hand-over log, written by the ghost hook at the entry of QXmppTransferIncomingJob::writeData */
struct gh_wd_s { int calls; QXmppTransferJob *job; qbytes data; } gh_wd;
#define gh_wd_calls gh_wd.calls
#define gh_wd_job gh_wd.job
#define gh_wd_data gh_wd.data
/* calls of checkData / terminate (ghost hooks at their entries) */
struct gh_cd_s { int calls; QXmppTransferJob *job; } gh_cd;
struct gh_term_s { int calls; QXmppTransferJob *job; int cause; } gh_term;
#define gh_cd_calls gh_cd.calls
#define gh_cd_job gh_cd.job
#define gh_term_calls gh_term.calls
#define gh_term_job gh_term.job
#define gh_term_cause gh_term.cause

#define INT_MAX_ 2147483647
/* The two job objects of the list model and what they own are named globals (arbitrary contents: every harness havocs them),
   so that contracts can speak about their fields without pointer chains. */
QXmppTransferJob gw_job, go_job; QXmppTransferJobPrivate gw_priv, go_priv; QIODevice gw_dev, go_dev; QTcpSocket gw_sock, go_sock;
QXmppTransferManagerPrivate g_mp; QXmppTransferManager g_mgr;
#define PW gw_priv
#define PO go_priv
#define JOBS_WIRED (gw_job.d == &gw_priv && go_job.d == &go_priv && gw_priv.iodevice == &gw_dev && go_priv.iodevice == &go_dev && (gw_priv.socksSocket == NULL || gw_priv.socksSocket == &gw_sock) && (go_priv.socksSocket == NULL || go_priv.socksSocket == &go_sock))
#define JOBS_ENUMS_OK (JOB_ENUMS_OK(&gw_priv) && JOB_ENUMS_OK(&go_priv))
#define JOBLIST_OK(l) ((l).n >= 0 && (l).w == &gw_job && (l).o == &go_job && JOBS_WIRED && JOBS_ENUMS_OK)
#define IS_JOB(j) (((j) == &gw_job || (j) == &go_job) && JOBS_WIRED && JOBS_ENUMS_OK)
#define WORLD_OK (g_mgr.d == &g_mp && JOBLIST_OK(g_mp.jobs))
/* Harness prologue: arbitrary contents for every object, then the pointers between them are *assigned* (CBMC resolves a
   dereference through the values a pointer was assigned, not through assumptions about it).  socksSocket is NULL or the socket. */
#define HAVOC_WORLD() do { __CPROVER_havoc_object(&gw_job); __CPROVER_havoc_object(&go_job); __CPROVER_havoc_object(&gw_priv); __CPROVER_havoc_object(&go_priv); \
  __CPROVER_havoc_object(&gw_dev); __CPROVER_havoc_object(&go_dev); __CPROVER_havoc_object(&gw_sock); __CPROVER_havoc_object(&go_sock); __CPROVER_havoc_object(&g_mp); \
  __CPROVER_havoc_object(&gh_ev); __CPROVER_havoc_object(&gh_wd); __CPROVER_havoc_object(&gh_devw); __CPROVER_havoc_object(&gh_devr); __CPROVER_havoc_object(&gh_cd); __CPROVER_havoc_object(&gh_term); __CPROVER_havoc_object(&gh_inv); \
  gh_found_idx = nondet_int(); gh_job = nondet_bool() ? &gw_job : NULL; gh_wd.job = NULL; gh_devw.dev = NULL; gh_devr.dev = NULL; gh_cd.job = NULL; gh_term.job = NULL; gh_inv.obj = NULL; \
  g_mgr.d = &g_mp; g_mp.jobs.w = &gw_job; g_mp.jobs.o = &go_job; gw_job.d = &gw_priv; go_job.d = &go_priv; gw_priv.iodevice = &gw_dev; go_priv.iodevice = &go_dev; \
  gw_priv.socksSocket = nondet_bool() ? &gw_sock : NULL; go_priv.socksSocket = nondet_bool() ? &go_sock : NULL; } while (0)
#define ANY_JOB() (nondet_bool() ? &gw_job : &go_job)
/* receiver/sender invariant of XEP-0047: the job's counter is the number of blocks accepted (sent) so far modulo 2^16 */
#define SEQ_INV(p) ((quint16)(p).ibbSequence == (quint16)(p).gh_blocks)
/* representation bounds: int counter below INT_MAX (the increment is signed), ghost count far from wrapping */
#define SEQ_BOUNDS(p) (0 <= (p).ibbSequence && (p).ibbSequence < INT_MAX_ && (p).gh_blocks < (1ull << 62))
#define DONE_BOUNDS(p) (0 <= (p).done && (p).done < (1ll << 62))
#define MATCH_SID(p, jid_, sid_) ((p).direction == QXmppTransferJob_Direction__IncomingDirection && (p).jid == (jid_) && (p).sid == (sid_))
#define MATCH_REQ(p, dir_, jid_, id_) ((int)(p).direction == (int)(dir_) && (p).jid == (jid_) && (p).requestId == (id_))
/* shorthands used by the handler contracts */
#define ACCEPTABLE(p, blocks_before) ((p).method == QXmppTransferJob_Method__InBandMethod && (p).state == QXmppTransferJob_State__TransferState && iq->m_seq == (quint16)(blocks_before))
#define UNCHANGED(p, seq0, blocks0, done0, hash0) ((p).ibbSequence == (seq0) && (p).gh_blocks == (blocks0) && (p).done == (done0) && (p).hash == (hash0))
#define INBAND_TRANSFERRING(p) ((p).method == QXmppTransferJob_Method__InBandMethod && (p).state == QXmppTransferJob_State__TransferState)
/* the specification's own verdict on received data (DESIGN 6 C19): size matches if one was announced, hash matches if one was announced */
#define DATA_OK(p) (((p).fileInfo.d.size == 0 || (p).done == (p).fileInfo.d.size) && ((p).fileInfo.d.hash == 0 || __CPROVER_uninterpreted_hash_result((p).hash) == (p).fileInfo.d.hash))
#define VERDICT(p) (DATA_OK(p) ? QXmppTransferJob_Error__NoError : QXmppTransferJob_Error__FileCorruptError)
#define FINISHED QXmppTransferJob_State__FinishedState
#define KNOWN_INBAND ((gh_job == &gw_job && PW.method == QXmppTransferJob_Method__InBandMethod) || (gh_job == &go_job && PO.method == QXmppTransferJob_Method__InBandMethod))
/* one step of the sender (ibbResponseReceived) on the job with private part p, object j, device dev; *0 = values before the call */
#define SENDER_IDLE(p, blocks0, done0, seq0) (gh_sent == 0 && gh_dev_reads == 0 && gh_term_calls == 0 && (p).gh_blocks == (blocks0) && (p).done == (done0) && (p).ibbSequence == (seq0))
#define SENDER_STEP(p, j, dev, state0, open0, blocks0, done0, bs0, seq0) ( \
  (!((p).method == QXmppTransferJob_Method__InBandMethod && (state0) != FINISHED && (open0)) ? (SENDER_IDLE(p, blocks0, done0, seq0) && (p).state == (state0)) : \
   iq->type == QXmppIq_Type__Result ? (gh_dev_reads == 1 && gh_dev_r_dev == &(dev) && gh_sent == 1 && gh_sent_to == (p).jid && gh_sent_sid == (p).sid && (p).requestId == gh_sent_id && \
      (gh_dev_r_ret != 0 ? (gh_sent_kind == 2 && gh_sent_seq == (quint16)(blocks0) && gh_sent_payload == gh_dev_r_ret && (p).gh_blocks == (blocks0) + 1 && (p).done == (done0) + QBYTES_LEN(gh_dev_r_ret) && gh_term_calls == 0 && (p).state == QXmppTransferJob_State__TransferState) \
                         : (gh_sent_kind == 3 && (p).gh_blocks == (blocks0) && (p).done == (done0) && gh_term_calls == 1 && gh_term_job == &(j) && gh_term_cause == QXmppTransferJob_Error__NoError && (p).state == FINISHED && (p).error == QXmppTransferJob_Error__NoError))) : \
   iq->type == QXmppIq_Type__Error ? (gh_dev_reads == 0 && gh_sent == 1 && gh_sent_kind == 3 && gh_sent_to == (p).jid && gh_sent_sid == (p).sid && (p).requestId == gh_sent_id && (p).gh_blocks == (blocks0) && gh_term_calls == 1 && gh_term_job == &(j) && gh_term_cause == QXmppTransferJob_Error__ProtocolError && (p).state == FINISHED && (p).error == QXmppTransferJob_Error__ProtocolError) : \
   (SENDER_IDLE(p, blocks0, done0, seq0) && (p).state == (state0))))
/* ---- QXmppTransferFileInfo::parse: the specification's reading of an attribute (qtmodel/opaque.h, conv.h) */
#define DOM_ATTR(e, name) ((e) == 0 ? 0 : __CPROVER_uninterpreted_dom_attr((e), (name)))
#define LATIN1_(s) ((s) == 0 ? 0 : __CPROVER_uninterpreted_latin1_enc(s))
#define HEX_DECODED(s) (LATIN1_(s) == 0 ? 0 : __CPROVER_uninterpreted_hex_dec(LATIN1_(s)))
/* QXmppUtils::datetimeFromString: some function of the string (the date of a file offer is outside this property) */
qdt __CPROVER_uninterpreted_xmpp_datetime(qstr s);
static inline qdt QXmppUtils_datetimeFromString(qstr s) { return __CPROVER_uninterpreted_xmpp_datetime(s); }
/* sender, on an acknowledgement for an active in-band job (method in-band, not finished, device open): what is read and sent depends on
   the device and the negotiated block size only -- not on the announced size (0 = not announced is legal) */
#define SENDER_ACTIVE(p, state0, open0) ((p).method == QXmppTransferJob_Method__InBandMethod && (state0) != FINISHED && (open0) && iq->type == QXmppIq_Type__Result)
#define MIN_(a, b) ((a) < (b) ? (a) : (b))
#define NEXT_BLOCK(p, dev, state0, open0, bs0, avail0) ((SENDER_ACTIVE(p, state0, open0) && (bs0) > 0 && (avail0) > 0) ==> \
   (gh_sent_kind == 2 && (long long)QBYTES_LEN(gh_sent_payload) == MIN_((long long)(bs0), (avail0)) && (dev).avail == (avail0) - MIN_((long long)(bs0), (avail0))))
#define CLOSE_ONLY_AT_END(p, state0, open0, bs0, avail0) ((SENDER_ACTIVE(p, state0, open0) && (bs0) > 0 && gh_sent == 1 && gh_sent_kind == 3) ==> (avail0) == 0)
