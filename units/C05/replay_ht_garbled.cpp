// native replay for C05/SaslHtMechanism::fromString: a recognised string must be the name of the returned mechanism
// (fromString(s) = m  =>  s = m.toString()).  argv[1..] = offered mechanism names.  For each name: parse with the REAL
// SaslMechanism::fromString, print the result, and -- with a stored FAST token for the parsed mechanism -- what the REAL
// client would authenticate with (QXmppSaslClient::isMechanismAvailable + toString).  Exit 1 if a string is accepted that is
// not the name of the mechanism it is accepted as.
#include <QString>
#include <cstdio>
#include "QXmppSasl_p.h"
using namespace QXmpp::Private;
int main(int argc, char **argv)
{
    int bad = 0;
    for (int a = 1; a < argc; a++) {
        QString offered = QString::fromUtf8(argv[a]);
        auto m = SaslMechanism::fromString(offered);
        if (!m) {
            printf("offered %-32s -> not recognised\n", argv[a]);
            continue;
        }
        QString name = m->toString();
        bool same = name == offered;
        printf("offered %-32s -> recognised as %-20s %s\n", argv[a], name.toUtf8().constData(), same ? "ok" : "MISMATCH: accepted although it is not a mechanism name");
        if (auto *ht = std::get_if<SaslHtMechanism>(&*m)) {
            Credentials c;
            c.htToken = HtToken { *ht, QStringLiteral("secret"), {} };
            if (QXmppSaslClient::isMechanismAvailable(*m, c) && !same)
                printf("   with a stored %s token the client would select it and send mechanism='%s', which the server did not offer\n",
                       name.toUtf8().constData(), name.toUtf8().constData());
        }
        if (!same) bad++;
    }
    return bad ? 1 : 0;
}
