/* units/C05/spec_b.h -- the names of the SASL mechanisms, written down independently of the code:
 *   RFC 5802 / RFC 7677 / draft-melnikov-scram-sha-512, -sha3-512:  SCRAM-SHA-1, SCRAM-SHA-256, SCRAM-SHA-512, SCRAM-SHA3-512
 *   XEP-0484 (FAST) / draft-schmaus-kitten-sasl-ht:                  HT-<IANA hash name>-<ENDP|UNIQ|EXPR|NONE>
 *   RFC 2831 DIGEST-MD5, RFC 4616 PLAIN, RFC 4505 ANONYMOUS, and the three legacy X- mechanisms.
 * SPEC_IS_*_NAME(s, value) is true iff the string s is exactly the name of that value. */
#ifndef C05_SPEC_B_H
#define C05_SPEC_B_H
#define ALG(n) QXmpp_Private_SaslScramMechanism_Algorithm__##n
#define HASH(n) QXmpp_Private_IanaHashAlgorithm__##n
#define CB(n) QXmpp_Private_SaslHtMechanism_ChannelBindingType__##n
/* does s carry the ASCII text t (length len) at offset off?  (s long enough is checked by the callers) */
static inline bool spec_text_at(qsv s, long off, const char *t, long len)
{
  for (long i = 0; i < QSTR_CAP; i++) { if (i < len && s.p[off + i] != (quint16)(unsigned char)t[i]) return false; }
  return true;
}
static inline bool spec_is_text(qsv s, const char *t, long len) { return s.n == len && spec_text_at(s, 0, t, len); }
static inline const char *spec_scram_suffix(int alg) { return alg == ALG(Sha1) ? "SHA-1" : alg == ALG(Sha256) ? "SHA-256" : alg == ALG(Sha512) ? "SHA-512" : alg == ALG(Sha3_512) ? "SHA3-512" : 0; }
static inline long spec_scram_suffix_len(int alg) { return alg == ALG(Sha1) ? 5 : alg == ALG(Sha256) ? 7 : alg == ALG(Sha512) ? 7 : alg == ALG(Sha3_512) ? 8 : -1; }
static inline const char *spec_hash_name(int h) { return h == HASH(Sha256) ? "SHA-256" : h == HASH(Sha384) ? "SHA-384" : h == HASH(Sha512) ? "SHA-512" : h == HASH(Sha3_224) ? "SHA3-224" : h == HASH(Sha3_256) ? "SHA3-256" : h == HASH(Sha3_384) ? "SHA3-384" : h == HASH(Sha3_512) ? "SHA3-512" : 0; }
static inline long spec_hash_name_len(int h) { return (h == HASH(Sha256) || h == HASH(Sha384) || h == HASH(Sha512)) ? 7 : (h == HASH(Sha3_224) || h == HASH(Sha3_256) || h == HASH(Sha3_384) || h == HASH(Sha3_512)) ? 8 : -1; }
static inline const char *spec_cb_name(int cb) { return cb == CB(TlsServerEndpoint) ? "ENDP" : cb == CB(TlsUnique) ? "UNIQ" : cb == CB(TlsExporter) ? "EXPR" : cb == CB(None) ? "NONE" : 0; }

static inline bool SPEC_IS_SCRAM_NAME(qsv s, int alg)
{
  long l = spec_scram_suffix_len(alg);
  if (l < 0) return false;
  return s.n == 6 + l && spec_text_at(s, 0, "SCRAM-", 6) && spec_text_at(s, 6, spec_scram_suffix(alg), l);
}
static inline bool SPEC_IS_HT_NAME(qsv s, int hash, int cb)
{
  long l = spec_hash_name_len(hash);
  if (l < 0 || spec_cb_name(cb) == 0) return false;
  return s.n == 3 + l + 1 + 4 && spec_text_at(s, 0, "HT-", 3) && spec_text_at(s, 3, spec_hash_name(hash), l) && spec_text_at(s, 3 + l, "-", 1) && spec_text_at(s, 3 + l + 1, spec_cb_name(cb), 4);
}
static inline bool SPEC_IS_NAME(qsv s, const SaslMechanism *m)
{
  switch (m->index) {
  case SaslMechanism_IDX_SaslScramMechanism: return SPEC_IS_SCRAM_NAME(s, m->alt_SaslScramMechanism.algorithm);
  case SaslMechanism_IDX_SaslHtMechanism: return SPEC_IS_HT_NAME(s, m->alt_SaslHtMechanism.hashAlgorithm, m->alt_SaslHtMechanism.channelBindingType);
  case SaslMechanism_IDX_SaslDigestMd5Mechanism: return spec_is_text(s, "DIGEST-MD5", 10);
  case SaslMechanism_IDX_SaslPlainMechanism: return spec_is_text(s, "PLAIN", 5);
  case SaslMechanism_IDX_SaslAnonymousMechanism: return spec_is_text(s, "ANONYMOUS", 9);
  case SaslMechanism_IDX_SaslXFacebookMechanism: return spec_is_text(s, "X-FACEBOOK-PLATFORM", 19);
  case SaslMechanism_IDX_SaslXWindowsLiveMechanism: return spec_is_text(s, "X-MESSENGER-OAUTH2", 18);
  case SaslMechanism_IDX_SaslXGoogleMechanism: return spec_is_text(s, "X-OAUTH2", 8);
  default: return false;
  }
}
/* discriminator of finding C05-ht-garbled-name: "HT-" followed by a hash name that is immediately followed by a hash name
   that comes later in the table (the loop of SaslHtMechanism::fromString keeps consuming hash names after the first match) */
static inline bool spec_ht_two_hash_names(qsv s)
{
  if (s.n < 3 || !spec_text_at(s, 0, "HT-", 3)) return false;
  for (int i = 0; i < 8; i++) {
    long li = spec_hash_name_len(i);
    if (li > 0 && s.n >= 3 + li && spec_text_at(s, 3, spec_hash_name(i), li)) {
      for (int j = 0; j < 8; j++) {
        long lj = spec_hash_name_len(j);
        if (j > i && lj > 0 && s.n >= 3 + li + lj && spec_text_at(s, 3 + li, spec_hash_name(j), lj)) return true;
      }
    }
  }
  return false;
}
#if defined(FINDING_ONLY)
#define HT_FINDING_SPLIT(s) spec_ht_two_hash_names(s)
#elif defined(FINDING_EXCLUDED)
#define HT_FINDING_SPLIT(s) (!spec_ht_two_hash_names(s))
#else
#define HT_FINDING_SPLIT(s) 1
#endif
/* ghost: an arbitrary value fixed before the call (completeness witnesses) */
SaslMechanism g_m;
#define VALID_INPUT(s) (0 <= (s).n && (s).n <= QSV_MAX && __CPROVER_is_fresh((s).p, (s).n * sizeof(quint16)))
#endif
