"""C05 part C: the callers of chooseMechanism -- initSaslAuthentication, error, FastTokenManager::isFastEnabled,
SaslManager::authenticate, Sasl2Manager::authenticate (src/client/QXmppSaslManager.cpp, AST from clang 16)."""
import os, re
from vlib.unit import Builder, Target, VERIF
from vlib.runner import Proof
from vlib.cxx2c import Profile, Unsupported, StringTable
from vlib import astx
import lowering as L

MGR = 'src/client/QXmppSaslManager.cpp'
QT = os.path.join(VERIF, 'qtmodel')
HERE = os.path.dirname(os.path.abspath(__file__))


def rd(name):
    return open(os.path.join(HERE, name)).read()


def require_fields(src, cls, names, xf):
    """the data members the model mirrors must exist in the real record (a rename is a tool limit, exit 2)"""
    rec = L._record(src, cls, xf)
    have = [c['name'] for c in L.children(rec) if c.get('kind') == 'FieldDecl']
    for n in names:
        if n not in have:
            raise Unsupported('record %s has no member %s (model_c.h mirrors it)' % (cls, n))


# ---------------------------------------------------------------------------------------------------------------- callable rules
def decomposition_choose(lw, v, sp):
    """auto [mechanism, disabled] = chooseMechanism(...): the tuple is kept in a hidden local, the names are references to its parts"""
    init = [c for c in L.children(v) if c.get('kind') not in ('BindingDecl',)]
    binds = [c for c in L.children(v) if c.get('kind') == 'BindingDecl']
    if len(binds) != 2 or len(init) != 1:
        raise Unsupported('structured binding shape')
    call = lw.skip(init[0])
    if call.get('kind') != 'CallExpr' or lw.callee_ref(call).get('name') != 'chooseMechanism':
        raise Unsupported('structured binding of something other than chooseMechanism(...)')
    lw.pre = []
    args = [lw.arg(a) for a in call['inner'][1:]]
    lw.flush(sp)
    lw.repo_callees.add('chooseMechanism')
    lw.names.add('_choice')
    lw.emit('%sChooseResultC _choice; chooseMechanism(&_choice, %s);' % (sp, ', '.join(args)))
    for b, (field, ct) in zip(binds, (('first', 'OptSaslMechanism'), ('second', 'QStrListC'))):
        cn, _ = lw.declare_local(b, sp, is_ref=True, ctype=ct)
        lw.emit('%s%s *%s = &_choice.%s;' % (sp, ct, cn, field))


def init_autherr(lw, n):
    """AuthenticationError { type, text, details }: details (std::any) is not represented"""
    ch = L.children(n)
    if len(ch) != 3:
        raise Unsupported('AuthenticationError initialiser with %d elements' % len(ch))
    t, text = lw.expr(ch[0]), lw.expr(ch[1])
    d = lw.skip(ch[2])
    if d.get('kind') != 'CXXConstructExpr' or L.children(d):
        raise Unsupported('AuthenticationError details are not empty')
    tmp = lw.newtmp()
    lw.pre.append('AuthenticationError %s = { %s, %s };' % (tmp, t, text))
    return tmp


def init_result(lw, n):
    """InitSaslAuthResult { client, error, initial response }"""
    ch = L.children(n)
    if len(ch) != 3:
        raise Unsupported('InitSaslAuthResult initialiser with %d elements' % len(ch))
    c0 = lw.skip(ch[0])
    if c0.get('kind') == 'CXXConstructExpr' and not L.children(c0):
        client = 'NULL'
    else:
        client = lw.expr(c0)
    c1 = lw.skip(ch[1])
    tmp = lw.newtmp()
    lw.pre.append('InitSaslAuthResult %s;' % tmp)
    lw.pre.append('%s.saslClient = %s;' % (tmp, client))
    if c1.get('kind') == 'CXXConstructExpr' and not L.children(c1):
        lw.pre.append('%s.error.has = false;' % tmp)
    else:
        e = lw.expr(c1)
        lw.pre.append('%s.error = %s;' % (tmp, e))
    lw.pre.append('%s.initialResponse = %s;' % (tmp, lw.expr(ch[2])))
    return tmp


def init_zero(ct):
    def rule(lw, n):
        for c in L.children(n):
            c = lw.skip(c)
            if c.get('kind') == 'CXXDefaultInitExpr':
                continue
            if c.get('kind') == 'CXXConstructExpr' and not L.children(c):
                continue
            raise Unsupported('%s initialiser with a non-default element' % ct)
        tmp = lw.newtmp()
        lw.pre.append('%s %s; memset(&%s, 0, sizeof(%s));' % (ct, tmp, tmp, tmp))
        return tmp
    return rule


def init_useragent(lw, n):
    vals = [lw.expr(c) for c in L.children(n)]
    if len(vals) != 3:
        raise Unsupported('Sasl2::UserAgent initialiser')
    tmp = lw.newtmp()
    lw.pre.append('UserAgentC %s = { %s };' % (tmp, ', '.join(vals)))
    return tmp


def ready_task(lw, node, args):
    a = lw.skip(node['inner'][1])
    if a.get('kind') != 'CXXConstructExpr' or not L.canon(L.dqt(a)).startswith('std::variant<') or len(L.children(a)) != 1:
        raise Unsupported('makeReadyTask of something other than a variant built from one value')
    inner = lw.skip(L.children(a)[0])
    if lw.ntype(inner) != 'AuthError':
        raise Unsupported('makeReadyTask(%s)' % lw.ntype(inner))
    return 'ev_ready_task_error(%s)' % lw.addr(inner)


def send_data(lw, node, args):
    a = lw.skip(node['inner'][1])
    if a.get('kind') != 'CallExpr' or lw.callee_ref(a).get('name') != 'serializeXml':
        raise Unsupported('sendData of something other than serializeXml(...)')
    x = lw.skip(a['inner'][1])
    t = L.canon(L.dqt(x))
    if t == 'Sasl2::Authenticate':
        return 'ev_send_sasl2_authenticate(%s, %s)' % (args[0], lw.addr(x))
    if t == 'Sasl::Auth':
        while x.get('kind') != 'InitListExpr':
            if not L.children(x):
                raise Unsupported('Sasl::Auth is not built in place')
            x = lw.skip(L.children(x)[0])
        ch = L.children(x)
        if len(ch) != 2:
            raise Unsupported('Sasl::Auth initialiser')
        return 'ev_send_sasl_auth(%s, %s, %s)' % (args[0], lw.expr(ch[0]), lw.expr(ch[1]))
    raise Unsupported('sendData(serializeXml(%s))' % t)


def promise_task(lw, node, args):
    me = lw.skip(node['inner'][0])
    return 'qpromise_task(%s%s)' % ('*' if me.get('isArrow') else '', args[0])


def ranges_copy(lw, node, args):
    """std::ranges::copy(vector, std::back_inserter(list))"""
    ops = node['inner'][1:]
    if len(ops) != 3:
        raise Unsupported('std::ranges::copy with %d operands' % (len(ops) - 1))
    src, out = lw.skip(ops[1]), lw.skip(ops[2])
    if lw.ntype(src) != 'QStrVecC' or out.get('kind') != 'CallExpr' or lw.callee_ref(out).get('name') != 'back_inserter' or \
            not L.canon(L.dqt(out)).startswith('std::back_insert_iterator<QList<QString>'):
        raise Unsupported('std::ranges::copy other than vector<QString> -> back_inserter(QList<QString>)')
    dst = lw.skip(out['inner'][1])
    return 'QStrListC_append_all(%s, %s)' % (lw.addr(dst), lw.addr(src))


def optional_vocabulary(calls, opts):
    """std::optional<T> observers for every modelled optional: has_value(), operator bool, operator*, operator->, value()"""
    for o in opts:
        calls.setdefault('%s::has_value/0' % o, ('expr', '({v0}).has'))
        calls.setdefault('%s::operator bool/0' % o, ('expr', '({v0}).has'))
        calls.setdefault('op*:%s' % o, ('expr', '({v0}).v'))
        calls.setdefault('op->:%s' % o, ('expr', '&({v0}).v'))


def profile_c(info):
    types = {
        'QString': 'sid', 'QStringView': 'sid', 'QByteArray': 'bid', 'QUuid': 'quuid',
        'QList<QString>': 'QStrListC', 'QStringList': 'QStrListC', 'std::vector<QString>': 'QStrVecC',
        'SaslMechanism': 'SaslMechanism', 'std::optional<SaslMechanism>': 'OptSaslMechanism',
        'std::tuple<std::optional<SaslMechanism>,QStringList>': 'ChooseResultC',
        'QXmppConfiguration': 'QXmppConfiguration', 'Credentials': 'Credentials', 'std::optional<HtToken>': 'OptHtTokenC', 'HtToken': 'HtTokenC',
        'QXmppLoggable': 'QObjectC', 'QObject': 'QObjectC', 'SendDataInterface': 'SendDataInterface',
        'QXmppSaslClient': 'QXmppSaslClient', 'std::unique_ptr<QXmppSaslClient>': 'QXmppSaslClient*', 'pointer': 'QXmppSaslClient*',
        'std::optional<QByteArray>': 'OptBid',
        'AuthenticationError': 'AuthenticationError', 'QXmpp::AuthenticationError': 'AuthenticationError', 'QXmpp::AuthenticationError::Type': 'int',
        'AuthenticationError::Type': 'int',
        'std::pair<QString,QXmpp::AuthenticationError>': 'AuthError', 'SaslManager::AuthError': 'AuthError', 'AuthError': 'AuthError',
        'std::optional<std::pair<QString,QXmpp::AuthenticationError>>': 'OptAuthError', 'std::optional<SaslManager::AuthError>': 'OptAuthError',
        'InitSaslAuthResult': 'InitSaslAuthResult',
        'std::optional<QXmppSasl2UserAgent>': 'OptUserAgentCfg', 'QXmppSasl2UserAgent': 'QXmppSasl2UserAgentC',
        'Sasl2::Authenticate': 'Sasl2Authenticate', 'Sasl2::StreamFeature': 'Sasl2StreamFeature',
        'std::optional<FastFeature>': 'OptFastFeature', 'FastFeature': 'FastFeatureC',
        'std::optional<FastRequest>': 'OptFastRequest', 'FastRequest': 'FastRequestC',
        'std::optional<Sasl2::UserAgent>': 'OptUserAgent', 'std::optional<UserAgent>': 'OptUserAgent', 'Sasl2::UserAgent': 'UserAgentC', 'UserAgent': 'UserAgentC',
        'Sasl2Manager': 'Sasl2Manager', 'SaslManager': 'SaslManager',
        'std::optional<Sasl2Manager::State>': 'OptState', 'std::optional<State>': 'OptState', 'Sasl2Manager::State': 'StateC', 'State': 'StateC',
        'std::nullopt_t': 'std_nullopt_t', 'std::ranges::__copy_fn': 'std_ranges_copy_fn',
    }
    calls = {
        'fnraw:move': lambda lw, n, _: lw.expr(n['inner'][1]),   # std::move(x): the object itself
        # strings (opaque)
        'sid::isEmpty/0': ('expr', '{0} == 0'), 'sid::arg/1': ('fn', 'sid_arg1'), 'quuid::isNull/0': ('expr', '{0} == 0'),
        'op=:scalar': None,
        # lists
        'QStrListC::empty/0': ('fn', 'QStrListC_empty'), 'QStrListC::join/1': ('fn', 'QStrListC_join'),
        'ctor:QStrListC(QStrListC)': ('fn', 'QStrListC_copy'),
        'opraw():std_ranges_copy_fn': ranges_copy,
        'fn:contains/2': ('fn', 'QStrVecC_contains'),
        # optionals
        'OptSaslMechanism::operator bool/0': ('expr', '({v0}).has'), 'op*:OptSaslMechanism': ('expr', '({v0}).v'),
        'OptBid::operator bool/0': ('expr', '({v0}).has'), 'op*:OptBid': ('expr', '({v0}).v'),
        'OptAuthError::operator bool/0': ('expr', '({v0}).has'), 'op*:OptAuthError': ('expr', '({v0}).v'),
        'ctor:OptAuthError(AuthError)': ('fn', 'OptAuthError_some'), 'ctor:AuthError(sid,AuthenticationError)': ('fn', 'AuthError_ctor'),
        'OptFastFeature::operator bool/0': ('expr', '({v0}).has'), 'op->:OptFastFeature': ('expr', '&({v0}).v'),
        'OptUserAgentCfg::operator bool/0': ('expr', '({v0}).has'), 'OptUserAgentCfg::has_value/0': ('expr', '({v0}).has'), 'op->:OptUserAgentCfg': ('expr', '&({v0}).v'),
        'OptState::has_value/0': ('expr', '({v0}).has'), 'op->:OptState': ('expr', '&({v0}).v'),
        'OptPromise::has_value/0': ('expr', '({v0}).has'), 'op->:OptPromise': ('expr', '&({v0}).v'),
        'op=:OptFastRequest:FastRequestC': ('expr', '({v0}).has = true, ({v0}).v = {v1}'),
        'op=:OptUserAgent:UserAgentC': ('expr', '({v0}).has = true, ({v0}).v = {v1}'),
        'op=:OptState:StateC': ('expr', '({v0}).has = true, ({v0}).v = {v1}'),
        'op=:OptPromise:qpromise': ('expr', '({v0}).has = true, ({v0}).v = {1}'),
        'ctor:StateC()': ('init', '{{ NULL, qpromise_new() }}'),
        'ctor:qpromise()': ('expr', 'qpromise_new()'),
        'expr:InitListExpr:AuthenticationError': init_autherr, 'expr:InitListExpr:InitSaslAuthResult': init_result,
        'expr:InitListExpr:FastRequestC': init_zero('FastRequestC'), 'expr:InitListExpr:UserAgentC': init_useragent,
        # unique_ptr<QXmppSaslClient> as a plain pointer
        'QXmppSaslClient*::operator bool/0': ('expr', '({0} != NULL)'), 'op->:QXmppSaslClient*': ('arg', 0),
        'decomposition:std::tuple<std::optional<SaslMechanism>,QStringList>': decomposition_choose,
        # configuration getters (A-CONFIG)
        'QXmppConfiguration::domain/0': ('expr', '({v0}).domain'), 'QXmppConfiguration::user/0': ('expr', '({v0}).user'),
        'QXmppConfiguration::credentialData/0': ('expr', '({v0}).credentials'),
        'QXmppConfiguration::useFastTokenAuthentication/0': ('expr', '({v0}).useFastTokenAuthentication'),
        'QXmppConfiguration::sasl2UserAgent/0': ('fnret', 'QXmppConfiguration_sasl2UserAgent', 'OptUserAgentCfg'),
        'QXmppSasl2UserAgentC::deviceId/0': ('expr', '({0})->deviceId'), 'QXmppSasl2UserAgentC::softwareName/0': ('expr', '({0})->softwareName'),
        'QXmppSasl2UserAgentC::deviceName/0': ('expr', '({0})->deviceName'),
        # repository callees
        'fn:error/2': ('calleeret', 'sasl_error', 'InitSaslAuthResult'),
        'fn:create/2': ('callee', 'QXmppSaslClient_create'),
        'fn:isFastEnabled/1': ('callee', 'FastTokenManager_isFastEnabled'),
        'fn:initSaslAuthentication/3': ('calleeret', 'initSaslAuthentication', 'InitSaslAuthResult'),
        'QXmppSaslClient::setHost/1': ('callee', 'QXmppSaslClient_setHost'), 'QXmppSaslClient::setServiceType/1': ('callee', 'QXmppSaslClient_setServiceType'),
        'QXmppSaslClient::setUsername/1': ('callee', 'QXmppSaslClient_setUsername'), 'QXmppSaslClient::setCredentials/1': ('callee', 'QXmppSaslClient_setCredentials'),
        'QXmppSaslClient::respond/1': ('calleeret', 'QXmppSaslClient_respond', 'OptBid'),
        'QXmppSaslClient::mechanism/0': ('calleeret', 'QXmppSaslClient_mechanism', 'SaslMechanism'),
        'SaslMechanism::toString/0': ('expr', 'MECH_NAME({v0})'),
        # events
        'fnraw:makeReadyTask': ready_task, 'memraw:SendDataInterface::sendData': send_data, 'qpromise::task/0': promise_task,
    }
    del calls['op=:scalar']
    optional_vocabulary(calls, ['OptSaslMechanism', 'OptBid', 'OptAuthError', 'OptFastFeature', 'OptUserAgentCfg', 'OptState', 'OptPromise', 'OptHtTokenC', 'OptUserAgent', 'OptFastRequest'])
    types = dict(types)
    for k, v in list(types.items()):
        types[re.sub(r'(?<![:\w])(Sasl2::|SaslManager::|Sasl2Manager::|FastFeature|FastRequest|InitSaslAuthResult|SaslMechanism|Credentials|HtToken)', L.PRIV + r'\1', k)] = v
    p = Profile(types=types,
                class_types={'QStrListC', 'QStrVecC', 'SaslMechanism', 'OptSaslMechanism', 'ChooseResultC', 'QXmppConfiguration', 'Credentials', 'QObjectC', 'SendDataInterface',
                             'QXmppSaslClient', 'OptBid', 'AuthenticationError', 'AuthError', 'OptAuthError', 'InitSaslAuthResult', 'OptHtTokenC', 'HtTokenC', 'OptUserAgentCfg', 'QXmppSasl2UserAgentC',
                             'Sasl2Authenticate', 'Sasl2StreamFeature', 'OptFastFeature', 'FastFeatureC', 'OptFastRequest', 'FastRequestC', 'OptUserAgent', 'UserAgentC',
                             'Sasl2Manager', 'SaslManager', 'OptState', 'StateC', 'OptPromise'},
                calls=calls, globals_ok={'nullopt', 'copy'}, literal_ids=StringTable(), string_types={'sid'},
                default_args={'int': '0', 'QChar': '32'},
                pure_fns={'mechanism', 'toString', 'arg'})
    p.variants = {'SaslMechanism': info}
    p.c05_type_prefixes = [(r'QXmppTask<', 'qtask'), (r'std::optional<QXmppPromise<', 'OptPromise'), (r'QXmppPromise<', 'qpromise'),
                       (r'std::variant<(QXmpp::)?Success,', 'AuthResultVariant'), (r'std::variant<(Sasl2::)?Success,', 'AuthResultVariant')]
    return p


CALLEES_C = r'''
/* ---- callees used through contracts */
/* chooseMechanism: a summary implied by its verified contract (choose.spec) -- nothing about WHICH mechanism, only that the call was made
   with these arguments and what it answered (the callers are verified for every answer) */
void chooseMechanism(ChooseResultC *_ret, const QXmppConfiguration *config, const QStrListC *availableMechanisms)
__CPROVER_requires(__CPROVER_is_fresh(_ret, sizeof(*_ret)) && gh_choose_calls < 1000)
__CPROVER_assigns(*_ret, gh_choose_calls, gh_choose_cfg, gh_choose_list, gh_choose_result)
__CPROVER_ensures(gh_choose_calls == __CPROVER_old(gh_choose_calls) + 1 && gh_choose_cfg == config && gh_choose_list == availableMechanisms)
__CPROVER_ensures(_ret->first.has == gh_choose_result.has && (_ret->first.has ==> (SaslMechanism_VALID(_ret->first.v) && SaslMechanism_EQ(_ret->first.v, gh_choose_result.v))))
__CPROVER_ensures(0 <= _ret->second.n && _ret->second.n2 == 0)
;
/* QXmppSaslClient::create(mechanism, parent): null, or a client object for exactly that mechanism (ASSUMED here; the factory and the
   mechanism() overrides are not lowered in this unit) */
QXmppSaslClient *QXmppSaslClient_create(const SaslMechanism *mechanism, QObjectC *parent)
__CPROVER_requires(gh_create_calls < 1000)
__CPROVER_assigns(gh_create_calls, gh_create_arg, gh_created)
/* (the clause that allocates the result comes first: later clauses speak about the allocated object) */
__CPROVER_ensures(__CPROVER_return_value == NULL || (__CPROVER_is_fresh(__CPROVER_return_value, sizeof(QXmppSaslClient)) && SaslMechanism_EQ(__CPROVER_return_value->gh_mechanism, *mechanism) && SaslMechanism_VALID(__CPROVER_return_value->gh_mechanism)))
__CPROVER_ensures(gh_create_calls == __CPROVER_old(gh_create_calls) + 1 && SaslMechanism_EQ(gh_create_arg, *mechanism) && gh_created == __CPROVER_return_value)
;
void QXmppSaslClient_mechanism(const QXmppSaslClient *self, SaslMechanism *_ret)
__CPROVER_requires(__CPROVER_is_fresh(_ret, sizeof(*_ret)))
__CPROVER_assigns(*_ret)
__CPROVER_ensures(SaslMechanism_EQ(*_ret, self->gh_mechanism) && _ret->index == self->gh_mechanism.index)
;
void QXmppSaslClient_setHost(QXmppSaslClient *self, sid host)
__CPROVER_requires(1)
__CPROVER_assigns()
__CPROVER_ensures(1)
;
void QXmppSaslClient_setServiceType(QXmppSaslClient *self, sid t)
__CPROVER_requires(1)
__CPROVER_assigns()
__CPROVER_ensures(1)
;
void QXmppSaslClient_setUsername(QXmppSaslClient *self, sid u)
__CPROVER_requires(1)
__CPROVER_assigns()
__CPROVER_ensures(1)
;
void QXmppSaslClient_setCredentials(QXmppSaslClient *self, const Credentials *c)
__CPROVER_requires(gh_setcred_calls < 1000)
__CPROVER_assigns(gh_setcred_calls)
__CPROVER_ensures(gh_setcred_calls == __CPROVER_old(gh_setcred_calls) + 1)
;
void QXmppSaslClient_respond(QXmppSaslClient *self, OptBid *_ret, bid challenge)
__CPROVER_requires(__CPROVER_is_fresh(_ret, sizeof(*_ret)) && gh_respond_calls < 1000)
__CPROVER_assigns(*_ret, gh_respond_calls, gh_respond_result)
__CPROVER_ensures(gh_respond_calls == __CPROVER_old(gh_respond_calls) + 1 && _ret->has == gh_respond_result.has && _ret->v == gh_respond_result.v)
;
'''

INIT_SUMMARY = r'''
/* initSaslAuthentication for its callers: a summary implied by its verified contract (init.spec): an error carries no client, a success
   carries a client object; the arguments and the answer are recorded */
void initSaslAuthentication(InitSaslAuthResult *_ret, const QXmppConfiguration *config, const QStrListC *availableMechanisms, QObjectC *parent)
__CPROVER_requires(__CPROVER_is_fresh(_ret, sizeof(*_ret)) && gh_init_calls < 1000)
__CPROVER_assigns(*_ret, gh_init_calls, gh_init_cfg, gh_init_list, gh_init_result, gh_init_mech)
__CPROVER_ensures(gh_init_calls == __CPROVER_old(gh_init_calls) + 1 && gh_init_cfg == config)
__CPROVER_ensures(gh_init_list.n == availableMechanisms->n && gh_init_list.d == availableMechanisms->d && gh_init_list.n2 == availableMechanisms->n2 && gh_init_list.d2 == availableMechanisms->d2)
__CPROVER_ensures(_ret->error.has ? _ret->saslClient == NULL : (__CPROVER_is_fresh(_ret->saslClient, sizeof(QXmppSaslClient)) && SaslMechanism_VALID(_ret->saslClient->gh_mechanism) && SaslMechanism_EQ(gh_init_mech, _ret->saslClient->gh_mechanism) && gh_init_mech.index == _ret->saslClient->gh_mechanism.index))
__CPROVER_ensures(gh_init_result.saslClient == _ret->saslClient && gh_init_result.error.has == _ret->error.has && gh_init_result.error.v.first == _ret->error.v.first && gh_init_result.error.v.second.type == _ret->error.v.second.type && gh_init_result.error.v.second.text == _ret->error.v.second.text && gh_init_result.initialResponse == _ret->initialResponse)
;
'''


def used(names, text):
    """the callees of a replace list that the lowered text really calls (goto-instrument rejects a name that does not occur)"""
    return [n for n in names if re.search(r'\b%s\(' % re.escape(n), text)]


def build_c(work, tier, gen, info, proofs, typecheck, labelled, CLANG16):
    """adds the part C proofs; returns (functions, dropped, fired, text)"""
    from vlib.configure import REPO
    src = os.path.join(REPO, MGR)
    base = os.path.join(REPO, 'src/base/QXmppSasl_p.h')
    pc = profile_c(info)
    bc = Builder('C05', work, pc)
    for cls, names in (('InitSaslAuthResult', ['saslClient', 'error', 'initialResponse']), ('Sasl2Manager', ['m_socket', 'm_state']),
                       ('SaslManager', ['m_socket', 'm_saslClient', 'm_promise'])):
        require_fields(src, cls, names, CLANG16)
    for cls, names in (('Authenticate', ['mechanism', 'initialResponse', 'userAgent', 'fast']), ('StreamFeature', ['mechanisms', 'fast']),
                       ('FastFeature', ['mechanisms']), ('UserAgent', ['id', 'software', 'device']), ('FastRequest', ['count', 'invalidate'])):
        pass   # records of QXmppSasl_p.h: checked through the lowering itself (every member access is emitted by name and compiled against model_c.h)

    def tgt(filt, name, cname, **kw):
        return Target(MGR, filt, name, cname, lowerer_cls=L.SaslLowerer, extra_flags=CLANG16, **kw)
    sp_init = bc.spec('init.spec')
    t_err = bc.lower(tgt('QXmpp::Private::error', 'error', 'sasl_error'))
    t_init = bc.lower(tgt('initSaslAuthentication', 'initSaslAuthentication', 'initSaslAuthentication'), sp_init)
    t_isfast = bc.lower(tgt('FastTokenManager::isFastEnabled', 'isFastEnabled', 'FastTokenManager_isFastEnabled'))
    sp_s2 = bc.spec('s2auth.spec')
    t_s2 = bc.lower(tgt('Sasl2Manager::authenticate', 'authenticate', 'Sasl2Manager_authenticate', this='Sasl2Manager'), sp_s2)
    sp_s1 = bc.spec('s1auth.spec')
    t_s1 = bc.lower(tgt('SaslManager::authenticate', 'authenticate', 'SaslManager_authenticate', this='SaslManager'), sp_s1)
    ctx_c = bc.context()
    head = '#include "base.h"\n' + gen + pc.literal_ids.table() + bc.subst(rd('model_c.h')) + ctx_c + '\n'
    text = ''
    # ---- initSaslAuthentication
    c = head + CALLEES_C + t_err + '\n' + t_init + '''
void h_init(void) { OptSaslMechanism cr; gh_choose_result = cr; OptBid rr; gh_respond_result = rr;
  InitSaslAuthResult *r; const QXmppConfiguration *c; const QStrListC *l; QObjectC *p; initSaslAuthentication(r, c, l, p); }
'''
    f = bc.write('init.c', c)
    typecheck(f)
    text += c
    p = Proof('initSaslAuthentication', f, 'h_init', enforce='initSaslAuthentication',
              replace=used(['chooseMechanism', 'QXmppSaslClient_create', 'QXmppSaslClient_setHost', 'QXmppSaslClient_setServiceType', 'QXmppSaslClient_setUsername',
                            'QXmppSaslClient_setCredentials', 'QXmppSaslClient_respond', 'QXmppSaslClient_mechanism'], t_init + t_err),
              kind='complete', loop_contracts=False, include_dirs=[QT], timeout=600,
              note='loop-free; every answer of chooseMechanism, of the client factory (null or a client) and of the first respond()')
    proofs.append(labelled(p, 'initSaslAuthentication', sp_init))
    # ---- Sasl2Manager::authenticate
    c = head + CALLEES_C + INIT_SUMMARY + t_isfast + '\n' + t_s2 + '''
void h_s2(void) { InitSaslAuthResult ir; gh_init_result = ir; SaslMechanism im; gh_init_mech = im; Sasl2Manager *m; Sasl2Authenticate *a; const QXmppConfiguration *c; const Sasl2StreamFeature *f; QObjectC *p;
  Sasl2Manager_authenticate(m, a, c, f, p); }
'''
    f = bc.write('s2auth.c', c)
    typecheck(f)
    text += c
    p = Proof('Sasl2Manager_authenticate', f, 'h_s2', enforce='Sasl2Manager_authenticate', replace=used(['initSaslAuthentication', 'QXmppSaslClient_mechanism'], t_s2),
              kind='complete', loop_contracts=False, include_dirs=[QT], timeout=600,
              note='loop-free; every stream feature (with / without FAST), every configuration (FAST enabled or not, user agent or not), every answer of initSaslAuthentication')
    proofs.append(labelled(p, 'Sasl2Manager_authenticate', sp_s2))
    # ---- SaslManager::authenticate
    c = head + CALLEES_C + INIT_SUMMARY + t_s1 + '''
void h_s1(void) { InitSaslAuthResult ir; gh_init_result = ir; SaslMechanism im; gh_init_mech = im; SaslManager *m; const QXmppConfiguration *c; const QStrListC *l; QObjectC *p; SaslManager_authenticate(m, c, l, p); }
'''
    f = bc.write('s1auth.c', c)
    typecheck(f)
    text += c
    p = Proof('SaslManager_authenticate', f, 'h_s1', enforce='SaslManager_authenticate', replace=used(['initSaslAuthentication', 'QXmppSaslClient_mechanism'], t_s1),
              kind='complete', loop_contracts=False, include_dirs=[QT], timeout=600, note='loop-free; every offered list, every answer of initSaslAuthentication')
    proofs.append(labelled(p, 'SaslManager_authenticate', sp_s1))
    return bc.functions, bc.dropped, bc.fired, text
