/* units/C05/spec_a.h -- specification vocabulary of chooseMechanism / isMechanismAvailable (taken from the property statement) */
#ifndef C05_SPEC_A_H
#define C05_SPEC_A_H
#define CB_NONE QXmpp_Private_SaslHtMechanism_ChannelBindingType__None
#define IS(m, Alt) ((m).index == SaslMechanism_IDX_##Alt)
#define NONEMPTY(s) ((s).id != 0)
/* "usable with the stored credentials": a FAST token mechanism needs the stored token of exactly that mechanism (the client
   implements token authentication without channel binding only); SCRAM, DIGEST-MD5 and PLAIN need a password; the X-
   mechanisms their access tokens; ANONYMOUS needs nothing */
#define AVAIL_HT(m, c) ((c).htToken.has && SaslHtMechanism_EQ((c).htToken.v.mechanism, (m).alt_SaslHtMechanism) && (m).alt_SaslHtMechanism.channelBindingType == CB_NONE)
#define AVAIL(m, c) \
  ((IS(m, SaslHtMechanism) && AVAIL_HT(m, c)) || \
   ((IS(m, SaslScramMechanism) || IS(m, SaslDigestMd5Mechanism) || IS(m, SaslPlainMechanism)) && NONEMPTY((c).password)) || \
   (IS(m, SaslXFacebookMechanism) && NONEMPTY((c).facebookAccessToken) && NONEMPTY((c).facebookAppId)) || \
   (IS(m, SaslXWindowsLiveMechanism) && NONEMPTY((c).windowsLiveAccessToken)) || \
   (IS(m, SaslXGoogleMechanism) && NONEMPTY((c).googleAccessToken)) || \
   IS(m, SaslAnonymousMechanism))
/* an offered name qualifies: not disabled, names a supported mechanism, credentials for it are stored */
#define QUALIFIES(s, c) (!(s).gh_disabled && (s).gh_from.has && AVAIL((s).gh_from.v, c))

/* ---- chooseMechanism.  CBMC pays for every pointer dereference in a clause, so the clauses speak about ghost copies that the
   preconditions DEFINE from the inputs:  gh_creds = the fields of config->credentialData() that AVAIL reads,  gh_d = the element
   array of the offered list (set by a ghost hook on entry: CBMC resolves a dereference through the pointer's assignment history),  gh_wit = the offered name at the witness index g_i,  gh_pref = config->saslAuthMechanism(). */
Credentials gh_creds;
qstr gh_wit;
qstr gh_pref;
#define CREDS_RELEVANT_EQ(a, b) ((a).password.id == (b).password.id && (a).htToken.has == (b).htToken.has && SaslHtMechanism_EQ((a).htToken.v.mechanism, (b).htToken.v.mechanism) && \
  (a).facebookAccessToken.id == (b).facebookAccessToken.id && (a).facebookAppId.id == (b).facebookAppId.id && (a).googleAccessToken.id == (b).googleAccessToken.id && (a).windowsLiveAccessToken.id == (b).windowsLiveAccessToken.id)
/* A-STR-ATTR for the two strings the clauses compare (the offered name at the witness index and the preferred name): the attributes are
   functions of the string (same id => same attributes), and fromString is injective on recognised names (fromString(s) = m => s = m.toString(),
   proved for the real function in this run: fromString*.spec / toString*.spec) */
#define A_STR_ATTR_FUNCTIONAL_AND_INJECTIVE \
  ((gh_wit.id != gh_pref.id || QSTR_EQ(gh_wit, gh_pref)) && \
   (!(gh_wit.gh_from.has && gh_pref.gh_from.has && SaslMechanism_EQ(gh_wit.gh_from.v, gh_pref.gh_from.v)) || gh_wit.id == gh_pref.id))
#define IN_RANGE(i) (0 <= (i) && (i) < gh_n)
#define PREF_SET (NONEMPTY(gh_pref) && gh_pref.gh_from.has)
/* the summary element e (source index i) is the offered name at that index, it qualifies, and it parses to mechanism m */
#define FROM_QUALIFYING_OFFER(e, i, m) (IN_RANGE(i) && QSTR_EQ(e, gh_d[i]) && QUALIFIES(e, gh_creds) && SaslMechanism_EQ((e).gh_from.v, m))
/* the result m comes from an offered name: the source of the vector's maximum, of the probe, or the element a contains() on the offered list found */
#define RESULT_WITNESS(W, m) ((gh_vec.n > 0 && W(gh_vec.max_elem, gh_vec.max_src, m)) || (gh_vec.has_probe && W(gh_vec.probe_elem, gh_vec.probe_src, m)) || (gh_found && W(gh_found_elem, gh_found_idx, m)))
#define FROM_ENABLED_OFFER(e, i, m) (IN_RANGE(i) && QSTR_EQ(e, gh_d[i]) && !(e).gh_disabled && SaslMechanism_EQ((e).gh_from.v, m))
#endif
