// Differential check of the unit's libstdc++ models (A-STD-VIEWS pipeline rule, A-STD-VISIT, A-STD-VARIANT-ORDER, std::ranges::max)
// against the code g++ compiles: the REAL file-static chooseMechanism (the translation unit is included verbatim) is run on an
// exhaustive small universe -- every offered list of up to 3 names over 13 names (known families, unknown, empty, garbled) x 5 sets
// of disabled names x 14 preferred names x 4 credential records -- and its result is compared with the contract of
// units/C05/choose.spec evaluated by an independent oracle (Q = offered, not disabled, parseable, available; preferred if in Q,
// else a maximum under the PROPERTY's order token > SCRAM by digest length > DIGEST-MD5 > PLAIN > ANONYMOUS).
// This is a test of the models, not part of the proof.  Exit 1 on the first 10 mismatches.
#include "QXmppSaslManager.cpp"   // the real translation unit (found through -I<repo>/src/client): gives access to the file-static function
#include <cstdio>
using namespace QXmpp::Private;
static int family(const SaslMechanism &m)
{
    if (std::holds_alternative<SaslHtMechanism>(m)) return 50;
    if (auto *s = std::get_if<SaslScramMechanism>(&m)) {
        switch (s->algorithm) {
        case SaslScramMechanism::Sha1: return 41;
        case SaslScramMechanism::Sha256: return 42;
        case SaslScramMechanism::Sha512: return 43;
        case SaslScramMechanism::Sha3_512: return 43;   // same digest length: the property does not order them
        }
    }
    if (std::holds_alternative<SaslDigestMd5Mechanism>(m)) return 30;
    if (std::holds_alternative<SaslPlainMechanism>(m)) return 20;
    if (std::holds_alternative<SaslAnonymousMechanism>(m)) return 10;
    return 0;   // legacy X- mechanisms: unspecified
}
static bool avail(const SaslMechanism &m, const Credentials &c)
{
    if (auto *ht = std::get_if<SaslHtMechanism>(&m)) return c.htToken && c.htToken->mechanism == *ht && ht->channelBindingType == SaslHtMechanism::None;
    if (std::holds_alternative<SaslScramMechanism>(m) || std::holds_alternative<SaslDigestMd5Mechanism>(m) || std::holds_alternative<SaslPlainMechanism>(m)) return !c.password.isEmpty();
    if (std::holds_alternative<SaslXFacebookMechanism>(m)) return !c.facebookAccessToken.isEmpty() && !c.facebookAppId.isEmpty();
    if (std::holds_alternative<SaslXWindowsLiveMechanism>(m)) return !c.windowsLiveAccessToken.isEmpty();
    if (std::holds_alternative<SaslXGoogleMechanism>(m)) return !c.googleAccessToken.isEmpty();
    return std::holds_alternative<SaslAnonymousMechanism>(m);
}
int main()
{
    const QStringList U = { "SCRAM-SHA-1", "SCRAM-SHA-256", "SCRAM-SHA-512", "SCRAM-SHA3-512", "HT-SHA-256-NONE", "HT-SHA-256-ENDP", "DIGEST-MD5",
                            "PLAIN", "ANONYMOUS", "X-OAUTH2", "GARBAGE", "", "scram-sha-1" };
    const QList<QStringList> D = { {}, { "PLAIN" }, { "PLAIN", "SCRAM-SHA-1" }, { "HT-SHA-256-NONE", "SCRAM-SHA3-512" }, { "ANONYMOUS", "GARBAGE" } };
    QList<Credentials> C;
    for (int pw = 0; pw < 2; pw++)
        for (int tok = 0; tok < 2; tok++) {
            Credentials c;
            if (pw) c.password = "secret";
            if (tok) c.htToken = HtToken { SaslHtMechanism { IanaHashAlgorithm::Sha256, SaslHtMechanism::None }, "t", {} };
            C.push_back(c);
        }
    long runs = 0, bad = 0;
    const int n = U.size();
    for (int len = 0; len <= 3; len++) {
        int total = 1;
        for (int k = 0; k < len; k++) total *= n;
        for (int code = 0; code < total; code++) {
            QList<QString> offered;
            for (int k = 0, x = code; k < len; k++, x /= n) offered.push_back(U[x % n]);
            for (const auto &dis : D)
                for (int p = -1; p < n; p++)
                    for (const auto &cred : C) {
                        QXmppConfiguration cfg;
                        cfg.setDisabledSaslMechanisms(dis);
                        if (p >= 0) cfg.setSaslAuthMechanism(U[p]);
                        cfg.credentialData() = cred;
                        auto [got, skipped] = chooseMechanism(cfg, offered);
                        runs++;
                        // oracle
                        std::vector<SaslMechanism> Q;
                        for (const auto &s : offered) {
                            if (dis.contains(s)) continue;
                            auto m = SaslMechanism::fromString(s);
                            if (m && avail(*m, cred)) Q.push_back(*m);
                        }
                        bool ok;
                        if (Q.empty()) ok = !got;
                        else if (!got) ok = false;
                        else {
                            auto pm = p >= 0 && !U[p].isEmpty() ? SaslMechanism::fromString(U[p]) : std::nullopt;
                            bool prefInQ = pm && std::find(Q.begin(), Q.end(), *pm) != Q.end();
                            bool inQ = std::find(Q.begin(), Q.end(), *got) != Q.end();
                            if (prefInQ) ok = *got == *pm;
                            else {
                                ok = inQ;
                                for (const auto &q : Q) if (family(q) > family(*got) && family(*got) > 0) ok = false;
                            }
                            if (dis.contains(got->toString())) ok = false;
                        }
                        if (!ok && bad++ < 10)
                            printf("MISMATCH offered=[%s] disabled=[%s] preferred='%s' pw=%d tok=%d -> %s\n", offered.join(",").toUtf8().constData(), dis.join(",").toUtf8().constData(),
                                   p >= 0 ? U[p].toUtf8().constData() : "", !cred.password.isEmpty(), bool(cred.htToken), got ? got->toString().toUtf8().constData() : "(none)");
                    }
        }
    }
    printf("%ld runs of the real chooseMechanism, %ld mismatches with the contract\n", runs, bad);
    return bad ? 1 : 0;
}
