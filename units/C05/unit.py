"""C05 -- SASL negotiation picks the strongest permitted mechanism, never a disabled one."""
import os, re, subprocess
from vlib.unit import Builder, Target, VERIF, scan_assumes
from vlib.runner import Proof, ToolError
from vlib.cxx2c import Profile, Unsupported
from vlib import ctx, astx
from vlib.configure import REPO
import lowering as L
import partc

SASL = 'src/base/QXmppSasl.cpp'
MGR = 'src/client/QXmppSaslManager.cpp'
QT = os.path.join(VERIF, 'qtmodel')
HERE = os.path.dirname(os.path.abspath(__file__))
# clang 14 cannot type the libstdc++-12 std::views pipeline of chooseMechanism (DESIGN section 2); clang 16 (installed) can.
# Only the AST dump of this one TU uses it; flags are the TU's own compile flags.
CLANG16 = ('--clang=clang++-16',)

ENUMS = {'SaslScramMechanism::Algorithm': 'QXmpp::Private::SaslScramMechanism::Algorithm',
         'IanaHashAlgorithm': 'QXmpp::Private::IanaHashAlgorithm',
         'SaslHtMechanism::ChannelBindingType': 'QXmpp::Private::SaslHtMechanism::ChannelBindingType'}
EMPTY_ALTS = ['SaslXGoogleMechanism', 'SaslXWindowsLiveMechanism', 'SaslXFacebookMechanism', 'SaslAnonymousMechanism', 'SaslPlainMechanism', 'SaslDigestMd5Mechanism']


def rd(name):
    return open(os.path.join(HERE, name)).read()


def typecheck(cfile):
    """goto-cc accepts int <-> pointer mix-ups silently: compile the generated C (contract clauses stripped) with a strict
    ordinary compiler first, so that a lowering slip is a tool error (exit 2) and never a wrong proof"""
    txt = open(cfile).read()
    txt = re.sub(r'^\s*__CPROVER_(requires|ensures|assigns|loop_invariant|decreases)\(.*\)[ \t]*(;?)[ \t]*$', r'\2', txt, flags=re.M)
    chk = cfile[:-2] + '.typecheck.c'
    open(chk, 'w').write(txt)
    cmd = ['gcc', '-std=gnu11', '-fsyntax-only', '-Werror=int-conversion', '-Werror=incompatible-pointer-types',
           '-Werror=implicit-function-declaration', '-Werror=return-type', '-Werror=implicit-int', '-DVERIF_CBMC', '-I', QT,
           '-D__CPROVER_assert(c,m)=((void)(c))', '-D__CPROVER_assume(c)=((void)(c))', chk]
    p = subprocess.run(cmd, stdout=subprocess.PIPE, stderr=subprocess.STDOUT, text=True)
    if p.returncode != 0:
        raise ToolError('generated C does not type-check strictly (%s): %s' % (os.path.basename(cfile), p.stdout[-1500:]))


def merge_fired(*ds):
    out = {}
    for d in ds:
        for k, v in d.items():
            out[k] = out.get(k, 0) + v
    return out


def labelled(p, cname, sp, loop=None):
    p.labels = {'post': {cname: sp.labels}}
    if loop is not None:
        p.labels['inv'] = {cname: sp.inv_labels.get(loop, [])}
    p.expect_post = len(sp.labels)
    return p


# ---------------------------------------------------------------------------------------------------------------- generated context
def generated_context(src):
    """enum sizes, variant layout and comparison macros of the mechanism types -- from the AST of this run"""
    counts, consts = {}, []
    for short, full in ENUMS.items():
        n, vals = L.enum_count(src, full)
        counts[short] = n
        consts.append('enum { %s };' % ', '.join('%s = %d' % (ctx.enum_cname(full, k), v) for k, v in vals.items()))
    rank, info = L.generate_rank(src, 'SaslMechanism', counts)
    return '\n'.join(consts) + '\n' + rank, info, counts


def lower_own_comparison(b, info):
    """SaslMechanism's own operator<=> (if the class declares one): the real function, lowered; its single return expression also
    becomes the macro SaslMechanism_CMP(a, b) so that loop invariants (no function calls) can use the code's own order"""
    d = info.get('own_spaceship')
    if d is None:
        return ''
    prof = Profile(types=with_qualified({'SaslMechanism': 'SaslMechanism', 'std::strong_ordering': 'int', 'std::size_t': 'size_t'}),
                   class_types={'SaslMechanism'}, calls={'SaslMechanism::index/0': ('expr', '{0}->index')})
    saved, b.profile = b.profile, prof
    try:
        t = Target('src/base/QXmppSasl_p.h', 'SaslMechanism', 'operator<=>', 'SaslMechanism_spaceship', this='SaslMechanism', lowerer_cls=L.SaslLowerer)
        t.decl = d
        text = b.lower(t)
    finally:
        b.profile = saved
    m = re.fullmatch(r'int SaslMechanism_spaceship\(const SaslMechanism \*self, const SaslMechanism \*(\w+)\)\n\{\n  return (.*);\n\}', text.strip())
    if not m:
        raise Unsupported('SaslMechanism::operator<=> is not a single return of an expression: ' + text[:200])
    e = re.sub(r'\(\*%s\)' % m.group(1), '(b)', m.group(2))
    e = re.sub(r'\b%s->' % m.group(1), '(b).', e)
    e = re.sub(r'\bself->', '(a).', e)
    if re.search(r'\b(self|%s)\b' % m.group(1), e):
        raise Unsupported('SaslMechanism::operator<=>: cannot express the body as a macro: ' + e)
    return '/* lowered from SaslMechanism::operator<=> (%s): */\n/* %s */\n#define SaslMechanism_CMP(a, b) (%s)\n' % (SASL, text.replace('\n', ' '), e)


# ---------------------------------------------------------------------------------------------------------------- part A profile
def with_qualified(types):
    """clang spells the repository's types with or without their namespace: register both spellings"""
    out = dict(types)
    for k, v in types.items():
        out[re.sub(r'(?<![:\w])(Sasl\w*Mechanism|HtToken|Credentials|IanaHashAlgorithm)\b', L.PRIV + r'\1', k)] = v
    return out


def fromstring_rule(lw, node, args):
    t = lw.ntype(lw.skip(node))
    fn = {'OptSaslMechanism': 'SaslMechanism_fromString'}.get(t)
    if fn is None:
        raise Unsupported('fromString returning %s' % t)
    tmp = lw.newtmp()
    lw.repo_callees.add(fn)
    lw.pre.append('%s %s; %s(&%s, %s);' % (t, tmp, fn, tmp, ', '.join(args)))
    return tmp


def profile_a(info):
    types = {
        'QString': 'qstr', 'QStringView': 'qstr', 'QList<QString>': 'QStrList', 'QStringList': 'QStrList',
        'SaslMechanism': 'SaslMechanism', 'SaslScramMechanism': 'SaslScramMechanism', 'SaslHtMechanism': 'SaslHtMechanism',
        'std::optional<SaslMechanism>': 'OptSaslMechanism', 'HtToken': 'HtToken', 'std::optional<HtToken>': 'OptHtToken',
        'Credentials': 'Credentials', 'QXmppConfiguration': 'QXmppConfiguration', 'std::vector<SaslMechanism>': 'VecMech',
        'std::tuple<std::optional<SaslMechanism>,QStringList>': 'ChooseResult',
        'std::nullopt_t': 'std_nullopt_t', 'std::ranges::__max_fn': 'std_ranges_max_fn', 'std::ranges::__min_fn': 'std_ranges_min_fn',
    }
    for short in ENUMS:
        types[short] = 'int'
    types = with_qualified(types)
    p = Profile(
        types=types,
        class_types={'QStrList', 'SaslMechanism', 'SaslScramMechanism', 'SaslHtMechanism', 'OptSaslMechanism', 'HtToken', 'OptHtToken',
                     'Credentials', 'QXmppConfiguration', 'VecMech', 'ChooseResult'},
        calls={
            # opaque strings
            'qstr::isEmpty/0': ('expr', '({0}).id == 0'),
            # QList<QString>
            'QStrList::contains/1': ('fn', 'QStrList_contains'),
            'QStrList::push_back/1': ('fn', 'QStrList_push_back'),
            'ctor:QStrList()': ('zero',),
            # std::optional
            'OptHtToken::operator bool/0': ('expr', '({v0}).has'),
            'OptSaslMechanism::operator bool/0': ('expr', '({v0}).has'),
            'OptSaslMechanism::has_value/0': ('expr', '({v0}).has'),
            'op->:OptHtToken': ('expr', '&({v0}).v'),
            'op*:OptSaslMechanism': ('expr', '({v0}).v'),
            'ctor:OptSaslMechanism(SaslMechanism)': ('fn', 'OptSaslMechanism_some'),
            # generated comparison (defaulted operator<=> of the alternative)
            'op==:SaslHtMechanism:SaslHtMechanism': ('expr', 'SaslHtMechanism_EQ({v0}, {v1})'),
            # std::vector<SaslMechanism>, QXmpp::Private::contains (Algorithms.h), std::ranges::max
            'VecMech::empty/0': ('expr', '({v0}).n == 0'),
            'fn:contains/2': ('fn', 'VecMech_contains'),
            'op():std_ranges_max_fn:VecMech': ('fnret', 'VecMech_max', 'SaslMechanism'),
            'op():std_ranges_min_fn:VecMech': ('fnret', 'VecMech_min', 'SaslMechanism'),
            # the result tuple
            'ctor:ChooseResult(std_nullopt_t,QStrList)': ('fn', 'ChooseResult_none'),
            'ctor:ChooseResult(OptSaslMechanism,QStrList)': ('fn', 'ChooseResult_opt'),
            'ctor:ChooseResult(SaslMechanism,QStrList)': ('fn', 'ChooseResult_mech'),
            # configuration getters (A-CONFIG)
            'QXmppConfiguration::disabledSaslMechanisms/0': ('fnret', 'QXmppConfiguration_disabledSaslMechanisms', 'QStrList'),
            'QXmppConfiguration::saslAuthMechanism/0': ('expr', '({v0}).saslAuthMechanism'),
            'QXmppConfiguration::credentialData/0': ('expr', '({v0}).credentials'),
            # repository callees
            'fn:fromString/1': fromstring_rule,
            'fn:isMechanismAvailable/2': ('callee', 'QXmppSaslClient_isMechanismAvailable'),   # direct call: through the contract verified for the real function
            'fnptr:fromString:std::optional<SaslMechanism> (QStringView)': ('calleeret', 'SaslMechanism_fromString', 'OptSaslMechanism'),
            'fnptr:isMechanismAvailable:bool (SaslMechanism,Credentials)': ('callee', 'QXmppSaslClient_isMechanismAvailable', 'bool'),
        },
        globals_ok={'nullopt', 'max', 'min'},
        default_args={'std::ranges::less': '0 /* std::ranges::less: operator< */', 'std::identity': '0 /* std::identity */'},
        hooks=[
            {'id': 'offered-array', 'fn': 'chooseMechanism', 'before': r'^  QStrList disabled;$', 'emit': 'gh_d = availableMechanisms->d;', 'count': 1},
            {'id': 'pipeline-element-index', 'fn': 'chooseMechanism', 'after': r'^\s*qstr __e0 = QStrList_at\(availableMechanisms, __i0\);', 'emit': 'gh_src = __i0; gh_cur = __e0;', 'count': 1},
            {'id': 'pipeline-result-summary', 'fn': 'chooseMechanism', 'after': r'/\* views pipeline mechanismsView consumed into mechanisms \*/', 'emit': 'gh_vec = mechanisms;', 'count': 1},
        ],
    )
    partc.optional_vocabulary(p.calls, ['OptHtToken', 'OptSaslMechanism'])
    p.variants = {'SaslMechanism': info}
    p.indexable = {'QStrList': ('QStrList_size({r})', 'QStrList_at({r}, {i})', 'qstr')}
    p.appendable = {'VecMech': ('VecMech_push_back', 'VecMech_init')}
    p.elem_of = {'VecMech': 'SaslMechanism'}
    return p


# ---------------------------------------------------------------------------------------------------------------- part B profile
class LitTable:
    """UTF-16 code units of every string literal the lowered functions use (concrete-string model)"""

    def __init__(self):
        self.names = {}

    def __call__(self, s):
        if any(ord(ch) > 0xffff for ch in s):
            raise Unsupported('string literal outside the BMP')
        if s not in self.names:
            self.names[s] = 'LIT_%d' % len(self.names)
        return self.names[s]

    def table(self):
        return ''.join('static const quint16 %s[%d] = { %s };   /* "%s" */\n' % (n, max(len(s), 1), ', '.join(str(ord(c)) for c in s) or '0', re.sub(r'[^ -~]', '?', s).replace('*/', '* /'))
                       for s, n in self.names.items())


def struct_init(lw, n):
    """T { a, b } for an aggregate whose C struct has the same members in the same order (generated from the AST)"""
    t = lw.ntype(n)
    vals = [lw.expr(c) for c in L.children(n)]
    tmp = lw.newtmp()
    lw.pre.append('%s %s = { %s };' % (t, tmp, ', '.join(vals)))
    return tmp


def variant_init(lw, n):
    """SaslMechanism { alternative }: the converting constructor of std::variant selects the alternative of exactly the
    argument's type (A-STD-VARIANT-CTOR)"""
    info = lw.p.variants['SaslMechanism']
    ch = L.children(n)
    if len(ch) != 1:
        raise Unsupported('SaslMechanism initialiser with %d elements' % len(ch))
    c = lw.skip(ch[0])
    if c.get('kind') != 'CXXConstructExpr' or not L.canon(L.dqt(c)).startswith('std::variant<') or len(L.children(c)) != 1:
        raise Unsupported('SaslMechanism initialiser is not a variant converting construction')
    a = lw.skip(L.children(c)[0])
    alt = L.canon(L.dqt(a))
    if alt not in info['alts']:
        raise Unsupported('variant constructed from %s' % alt)
    lw.fire('variant:converting-ctor:' + alt)
    tmp = lw.newtmp()
    if alt in info['fields']:
        e = lw.expr(a)
        lw.pre.append('SaslMechanism %s; %s.index = SaslMechanism_IDX_%s; %s.alt_%s = %s;' % (tmp, tmp, alt, tmp, alt, e))
    else:
        if not lw.pure(a):
            raise Unsupported('variant alternative expression with side effects')
        lw.pre.append('SaslMechanism %s; %s.index = SaslMechanism_IDX_%s;' % (tmp, tmp, alt))
    return tmp


FROMSTRING_B = {'OptScram': 'SaslScramMechanism_fromString', 'OptHt': 'SaslHtMechanism_fromString', 'OptSaslMechanism': 'SaslMechanism_fromString'}
INTO_B = {'OptScram': 'into_SaslScramMechanism', 'OptHt': 'into_SaslHtMechanism'}


def fromstring_rule_b(lw, node, args):
    t = lw.ntype(lw.skip(node))
    if t not in FROMSTRING_B:
        raise Unsupported('fromString returning %s' % t)
    tmp = lw.newtmp()
    lw.repo_callees.add(FROMSTRING_B[t])
    lw.pre.append('%s %s; %s(&%s, %s);' % (t, tmp, FROMSTRING_B[t], tmp, ', '.join(args)))
    return tmp


def into_rule_b(lw, node, args):
    a = lw.skip(node['inner'][1])
    t = lw.ntype(a)
    if t not in INTO_B or lw.ntype(lw.skip(node)) != 'OptSaslMechanism':
        raise Unsupported('into<> from %s' % t)
    tmp = lw.newtmp()
    lw.repo_callees.add(INTO_B[t])
    lw.pre.append('OptSaslMechanism %s; %s(&%s, %s);' % (tmp, INTO_B[t], tmp, ', '.join(args)))
    return tmp


def static_constexpr_local(lw, v, sp):
    """`static constexpr T x = literal;` inside a function: the same value on every call -> an ordinary const local"""
    if not v.get('constexpr'):
        raise Unsupported('static local %s is not constexpr' % v.get('name'))
    v2 = dict(v)
    v2.pop('storageClass')
    return L.SaslLowerer.vardecl(lw, v2, sp)


def profile_b(info, iana_n, lit):
    types = {
        'QString': 'QStr', 'QStringView': 'qsv', 'QStringBuilder': 'QStr',
        'SaslMechanism': 'SaslMechanism', 'SaslScramMechanism': 'SaslScramMechanism', 'SaslHtMechanism': 'SaslHtMechanism',
        'std::optional<SaslMechanism>': 'OptSaslMechanism', 'std::optional<SaslScramMechanism>': 'OptScram',
        'std::optional<SaslHtMechanism>': 'OptHt', 'std::optional<IanaHashAlgorithm>': 'OptInt',
        'std::array<QStringView,%d>' % iana_n: 'IanaTable', 'std::array<std::remove_cv_t<QStringView>,%dUL>' % iana_n: 'IanaTable',
        'std::array::size_type': 'size_t', 'qsizetype': 'long long',
    }
    for short in ENUMS:
        types[short] = 'int'
    types = with_qualified(types)
    calls = {
        'qsv::startsWith/1': ('fn', 'qsv_startsWith'), 'qsv::trimmed/0': ('fn', 'qsv_trimmed'), 'qsv::isEmpty/0': ('expr', '({0}).n == 0'), 'qsv::mid/1': ('fn', 'qsv_mid'), 'qsv::size/0': ('expr', '(long long)({0}).n'),
        'op==:qsv:qsv': ('fn', 'qsv_eq'),
        'QStr::operator QString/0': ('arg', 0),
        'IanaTable::at/1': ('expr', 'IANA_AT({1})'), 'IanaTable::size/0': ('const', '((size_t)IANA_N)'),
        'expr:InitListExpr:SaslScramMechanism': struct_init, 'expr:InitListExpr:SaslHtMechanism': struct_init,
        'expr:InitListExpr:SaslMechanism': variant_init,
        'fn:fromString/1': fromstring_rule_b, 'fn:into/1': into_rule_b,
        'fn:channelBindingTypeToString/1': ('callee', 'channelBindingTypeToString'),
        'fn:__builtin_unreachable/0': ('expr', '__CPROVER_assert(0, "[safety.unreachable] Q_UNREACHABLE() is not reached")'),
        'SaslScramMechanism::toString/0': ('calleeret', 'SaslScramMechanism_toString', 'QStr'),
        'SaslHtMechanism::toString/0': ('calleeret', 'SaslHtMechanism_toString', 'QStr'),
    }
    for o, inner in (('OptInt', 'int'), ('OptScram', 'SaslScramMechanism'), ('OptHt', 'SaslHtMechanism'), ('OptSaslMechanism', 'SaslMechanism')):
        calls['%s::operator bool/0' % o] = ('expr', '({v0}).has')
        calls['op*:%s' % o] = ('expr', '({v0}).v')
        calls['ctor:%s()' % o] = ('zero',)
        calls['ctor:%s(%s)' % (o, inner)] = ('fn', o + '_some')
        calls['op=:%s:%s' % (o, o)] = ('expr', '{v0} = {v1}')
    p = Profile(types=types, class_types={'QStr', 'SaslMechanism', 'SaslScramMechanism', 'SaslHtMechanism', 'OptSaslMechanism', 'OptScram', 'OptHt', 'OptInt'},
                calls=calls, globals_ok={'ianaHashAlgorithms'}, string_types={'qsv'},
                default_args={'Qt::CaseSensitivity': '1 /* Qt::CaseSensitive */'})
    partc.optional_vocabulary(p.calls, ['OptInt', 'OptScram', 'OptHt', 'OptSaslMechanism'])
    p.variants = {'SaslMechanism': info}
    p.concrete_strings = True
    p.lit = lit
    return p


def iana_size(src):
    decls = [d for d in astx.find_decls(src, 'ianaHashAlgorithms', 'VarDecl', 'ianaHashAlgorithms') if d.get('inner')]
    m = re.search(r'std::array<QStringView, (\d+)>', decls[0]['type'].get('desugaredQualType', decls[0]['type']['qualType'])) if decls else None
    if not m:
        raise Unsupported('ianaHashAlgorithms is not a std::array<QStringView, N>')
    return int(m.group(1))


def iana_table(src, lit):
    """the constant table ianaHashAlgorithms (std::array<QStringView, N> built by to_array({literals...})) from the AST"""
    decls = [d for d in astx.find_decls(src, 'ianaHashAlgorithms', 'VarDecl', 'ianaHashAlgorithms') if d.get('inner')]
    if len({d['id'] for d in decls}) != 1:
        raise astx.ExtractError('ianaHashAlgorithms: %d definitions found' % len({d['id'] for d in decls}))
    d = decls[0]
    m = re.search(r'std::array<QStringView, (\d+)>', d['type'].get('desugaredQualType', d['type']['qualType']))
    if not m or not d.get('constexpr'):
        raise Unsupported('ianaHashAlgorithms is not a constexpr std::array<QStringView, N>')
    n = int(m.group(1))
    lits = []

    def walk(x):
        if x.get('kind') == 'StringLiteral':
            s = L.find_string(x)
            lits.append(s)
        for c in L.children(x):
            walk(c)
    walk(d)
    if len(lits) != n:
        raise Unsupported('ianaHashAlgorithms: %d literals for %d entries' % (len(lits), n))
    text = '#define IANA_N %d\n' % n
    text += 'static const qsv ianaHashAlgorithms_tab[IANA_N] = { %s };\n' % ', '.join('{ %s, %d }' % (lit(s), len(s)) for s in lits)
    text += 'typedef int IanaTable; static const IanaTable ianaHashAlgorithms = 0;\n'
    text += 'static inline qsv IANA_AT(size_t i) { __CPROVER_assert(i < IANA_N, "[safety.array_at_in_range] std::array::at does not throw"); return ianaHashAlgorithms_tab[i < IANA_N ? i : 0]; }\n'
    return text, n, lits


FROMSTRING_A = '''
/* SaslMechanism::fromString used through its contract: a function of the string (A-STR-ATTR); a recognised name yields a valid
   mechanism value (proved for the real function on concrete strings, see fromString_*.spec) */
void SaslMechanism_fromString(OptSaslMechanism *_ret, qstr str)
__CPROVER_requires(__CPROVER_is_fresh(_ret, sizeof(*_ret)))
__CPROVER_assigns(*_ret)
__CPROVER_ensures(_ret->has == str.gh_from.has && (_ret->has ==> (SaslMechanism_EQ(_ret->v, str.gh_from.v) && SaslMechanism_VALID(_ret->v))))
;
'''


def build(work, tier):
    src = os.path.join(REPO, SASL)
    gen, info, counts = generated_context(src)
    proofs = []
    alltext = gen
    # ================================================================ part A: opaque strings -- availability and choice
    pa = profile_a(info)
    ba = Builder('C05', work, pa)
    gen += lower_own_comparison(ba, info)
    sp_av = ba.spec('available.spec')
    t_av = ba.lower(Target(SASL, 'QXmppSaslClient::isMechanismAvailable', 'isMechanismAvailable', 'QXmppSaslClient_isMechanismAvailable',
                           lowerer_cls=L.SaslLowerer), sp_av)
    sp_ch = ba.spec('choose.spec')
    t_ch = ba.lower(Target(MGR, 'chooseMechanism', 'chooseMechanism', 'chooseMechanism', lowerer_cls=L.SaslLowerer, extra_flags=CLANG16), sp_ch)
    if ba.last.loops != 1:
        raise Unsupported('chooseMechanism: expected exactly one loop (the views pipeline), found %d' % ba.last.loops)
    recs = []
    for cls in ('HtToken', 'Credentials'):
        text, _ = ctx.emit_record(src, cls, cls, cls, pa, opaque_ok=True)
        recs.append(text)
        if cls == 'HtToken':
            recs.append('typedef struct OptHtToken { bool has; HtToken v; } OptHtToken;')
    head_a = '#include "base.h"\n' + gen + rd('model_a.h').replace('/*@RECORDS@*/', '\n'.join(recs)) + rd('spec_a.h')
    # ---- isMechanismAvailable
    c = head_a + t_av + '\nvoid h_available(void) { SaslMechanism *m; const Credentials *c; QXmppSaslClient_isMechanismAvailable(m, c); }\n'
    f = ba.write('available.c', c)
    typecheck(f)
    alltext += c
    p = Proof('isMechanismAvailable', f, 'h_available', enforce='QXmppSaslClient_isMechanismAvailable', kind='complete', loop_contracts=False,
              include_dirs=[QT], timeout=300, note='loop-free; every mechanism value (every alternative, every enum value) x every credential record (opaque strings, token present or not)')
    proofs.append(labelled(p, 'QXmppSaslClient_isMechanismAvailable', sp_av))
    # ---- chooseMechanism
    c = head_a + FROMSTRING_A + ba.prototype(t_av) + t_ch + '''
void h_choose(void) { SaslMechanism pm; g_probe = pm; g_i = nondet_long(); gh_src = 0;
  Credentials gc; gh_creds = gc; qstr w, pf; gh_wit = w; gh_pref = pf; gh_n = nondet_long(); gh_d = 0; gh_found = false;
  ChooseResult *r; const QXmppConfiguration *c; const QStrList *l; chooseMechanism(r, c, l); }
'''
    f = ba.write('choose.c', c)
    typecheck(f)
    alltext += c
    p = Proof('chooseMechanism', f, 'h_choose', enforce='chooseMechanism', replace=['SaslMechanism_fromString', 'QXmppSaslClient_isMechanismAvailable'],
              kind='contract', expect_loops=1, include_dirs=[QT], timeout=900,
              note='offered list of any length (<= 10^6 entries, any order, duplicates, unknown names), any set of disabled names, any preferred name, any credentials; '
                   'the views pipeline is one loop closed by a loop contract')
    proofs.append(labelled(p, 'chooseMechanism', sp_ch, loop=0))

    # ---- the generated rank satisfies the order of the property
    c = '#include "base.h"\n' + gen + rd('lemma_rank.h')
    f = ba.write('rank.c', c)
    typecheck(f)
    alltext += c
    p = Proof('rank_order', f, 'h_rank', kind='complete', loop_contracts=False, include_dirs=[QT], timeout=300,
              note='lemma over the comparison macros generated from the AST of this run: every triple of valid mechanism values')
    p.expect_post = 6
    proofs.append(p)
    # ================================================================ part B: concrete strings -- fromString / toString
    lit = LitTable()
    pb = profile_b(info, iana_size(src), lit)
    bb = Builder('C05', work, pb)

    def tgt(filt, name, cname, **kw):
        return Target(SASL, filt, name, cname, lowerer_cls=L.SaslLowerer, **kw)
    sp = {k: bb.spec(k + '.spec') for k in ('fromString_scram', 'fromString_ht', 'fromString', 'toString_scram', 'toString_ht', 'toString')}
    t_fs_scram = bb.lower(tgt('SaslScramMechanism::fromString', 'fromString', 'SaslScramMechanism_fromString'), sp['fromString_scram'])
    t_fs_ht = bb.lower(tgt('SaslHtMechanism::fromString', 'fromString', 'SaslHtMechanism_fromString'), sp['fromString_ht'])
    t_fs = bb.lower(tgt('SaslMechanism::fromString', 'fromString', 'SaslMechanism_fromString'), sp['fromString'])
    t_into_scram = bb.lower(tgt('into', 'into', 'into_SaslScramMechanism', sig='(std::optional<SaslScramMechanism> &&)'))
    t_into_ht = bb.lower(tgt('into', 'into', 'into_SaslHtMechanism', sig='(std::optional<SaslHtMechanism> &&)'))
    t_ts_scram = bb.lower(tgt('SaslScramMechanism::toString', 'toString', 'SaslScramMechanism_toString', this='SaslScramMechanism'), sp['toString_scram'])
    t_ts_ht = bb.lower(tgt('SaslHtMechanism::toString', 'toString', 'SaslHtMechanism_toString', this='SaslHtMechanism'), sp['toString_ht'])
    t_ts = bb.lower(tgt('SaslMechanism::toString', 'toString', 'SaslMechanism_toString', this='SaslMechanism'), sp['toString'])
    t_cb = bb.lower(tgt('channelBindingTypeToString', 'channelBindingTypeToString', 'channelBindingTypeToString'))
    iana, _, _ = iana_table(src, lit)
    head_b = '#include "base.h"\n' + gen + rd('model_b.h') + lit.table() + iana + rd('spec_b.h')
    UNW = 26
    GM = 'SaslMechanism gm; g_m = gm; '

    def proof_b(pid, body, harness, entry, enforce, spec, replace=(), note='', defines=(), finding=None):
        c = head_b + body + '\n' + harness + '\n'
        f = bb.write(pid + '.c', c)
        typecheck(f)
        p = Proof(pid, f, entry, enforce=enforce, replace=list(replace), kind='complete', loop_contracts=False, unwind=UNW, include_dirs=[QT], timeout=900, defines=list(defines),
                  note=note or 'input string of any length (symbolic buffer, <= 2^20 code units) and content; the only loops run over literal lengths / table size and are fully unwound')
        if spec is not None:
            labelled(p, enforce, spec)
        if finding:
            p.finding = finding
        proofs.append(p)
        return c
    alltext += proof_b('fromString_scram', t_fs_scram, 'void h_fs_scram(void) { %sOptScram *r; qsv s; SaslScramMechanism_fromString(r, s); }' % GM,
                       'h_fs_scram', 'SaslScramMechanism_fromString', sp['fromString_scram'])
    alltext += proof_b('fromString_ht', t_fs_ht, 'void h_fs_ht(void) { %sOptHt *r; qsv s; SaslHtMechanism_fromString(r, s); }' % GM,
                       'h_fs_ht', 'SaslHtMechanism_fromString', sp['fromString_ht'])
    alltext += proof_b('fromString', bb.prototype(t_fs_scram) + bb.prototype(t_fs_ht) + t_into_scram + '\n' + t_into_ht + '\n' + t_fs,
                       'void h_fs(void) { %sOptSaslMechanism *r; qsv s; SaslMechanism_fromString(r, s); }' % GM,
                       'h_fs', 'SaslMechanism_fromString', sp['fromString'], replace=['SaslScramMechanism_fromString', 'SaslHtMechanism_fromString'])
    alltext += proof_b('toString_scram', t_ts_scram, 'void h_ts_scram(void) { const SaslScramMechanism *m; QStr *r; SaslScramMechanism_toString(m, r); }',
                       'h_ts_scram', 'SaslScramMechanism_toString', sp['toString_scram'], note='every valid algorithm value')
    alltext += proof_b('toString_ht', t_cb + '\n' + t_ts_ht, 'void h_ts_ht(void) { const SaslHtMechanism *m; QStr *r; SaslHtMechanism_toString(m, r); }',
                       'h_ts_ht', 'SaslHtMechanism_toString', sp['toString_ht'], note='every valid (hash, channel binding) pair')
    alltext += proof_b('toString', bb.prototype(t_ts_scram) + bb.prototype(t_ts_ht) + t_ts, 'void h_ts(void) { const SaslMechanism *m; QStr *r; SaslMechanism_toString(m, r); }',
                       'h_ts', 'SaslMechanism_toString', sp['toString'], replace=['SaslScramMechanism_toString', 'SaslHtMechanism_toString'], note='every valid mechanism value')
    lemma = rd('lemma_b.h')
    alltext += proof_b('roundtrip', bb.prototype(t_fs) + bb.prototype(t_ts) + lemma, '', 'h_roundtrip', None, None,
                       replace=['SaslMechanism_fromString', 'SaslMechanism_toString'], note='lemma over the two contracts: fromString(toString(m)) = m for every valid m')
    proofs[-1].expect_post = 1
    alltext += proof_b('roundtrip_inverse', bb.prototype(t_fs) + bb.prototype(t_ts) + lemma, '', 'h_roundtrip_inverse', None, None,
                       replace=['SaslMechanism_fromString', 'SaslMechanism_toString'], note='lemma over the two contracts: fromString(s) = m  =>  s = toString(m), for every string s of any length')
    proofs[-1].expect_post = 1
    # ================================================================ part C: the callers (mismatch error, SASL 2 FAST merge, what is sent)
    fc, dc, firedc, textc = partc.build_c(work, tier, '\n'.join(x for x in gen.splitlines()) + '\n', info, proofs, typecheck, labelled, CLANG16)
    alltext += textc
    return {
        'proofs': proofs, 'functions': ba.functions + bb.functions + fc,
        'dropped': ba.dropped + bb.dropped + dc, 'fired': merge_fired(ba.fired, bb.fired, firedc),
        'hooks': [h['id'] for h in pa.hooks],
        'trusted_base': ['clang 16 (instead of clang 14) as parser/type checker of src/client/QXmppSaslManager.cpp only: clang 14 cannot type the libstdc++-12 std::views pipeline; '
                         'the AST of chooseMechanism is fully typed (no error-recovery nodes), same compile flags'],
        'assumed': [
            'A-STD-VIEWS (weakest link): `range | views::filter(p) | views::transform(f) | ...` consumed by std::vector(begin, end) = one pass over the range applying the stages in source order '
            'to each element (each stage identified by the desugared type std::ranges::views::__adaptor::_Partial<_Filter|_Transform, F> in the typed AST); the iterators are input iterators, so the '
            'vector constructor makes a single pass and each predicate runs once per element; std::bind copies its bound arguments once. Checked differentially against the compiled code: '
            'units/C05/replay_choose_differential.cpp (666 400 runs of the real chooseMechanism, 0 mismatches)',
            'A-STD-VISIT: std::visit(overloaded{lambdas}, v) calls, for the active alternative, the lambda overload resolution selects (implemented for: exactly one lambda taking the alternative, '
            'else exactly one lambda taking a std::variant that lists it; anything else is exit 2)',
            'A-STD-VARIANT-ORDER: operator< / operator== of std::variant compare index() first, then the active alternatives; a defaulted operator<=> compares the members lexicographically in '
            'declaration order; enumerators compare by value. The comparison macros are generated from the AST on every run (alternative order, enumerator order, member order, defaultedness)',
            'A-STD-VARIANT-CTOR: the converting constructor of std::variant selects the alternative of exactly the argument type',
            'A-STD-VECTOR / A-STD-MAX / A-STD-FIND (units/C05/model_a.h): std::vector<SaslMechanism> is summarised by size, minimum, maximum (leftmost) and membership of one probe value; '
            'std::ranges::max / min with std::ranges::less and std::identity; QXmpp::Private::contains (Algorithms.h, `std::find(begin, end, x) != end`) is mapped to the membership summary',
            'A-STR-ATTR: in chooseMechanism / isMechanismAvailable strings are opaque values carrying the two facts the code can learn about them: SaslMechanism::fromString(s) and membership in the '
            'disabled list; SaslMechanism::fromString is used there through a contract (deterministic function of the string; a recognised name gives a valid mechanism value) whose content is proved '
            'for the real function on concrete strings in the same run',
            'A-QLIST: QList<QString>::contains on the disabled list is the string\'s attribute; on the offered list it is membership by witnesses (true => an index holding an equal string, '
            'remembered as a possible source of the result; false => the element at the witness index differs); push_back appends (only the length of disabledAvailable is represented); '
            'attributes are functions of the string and fromString is injective on recognised names (assumed for the witness element and the preferred name; injectivity is proved in this run)',
            'a direct call of QXmppSaslClient::isMechanismAvailable inside chooseMechanism enters through the contract verified for the real function (as the std::bind stage does)',
            'A-CONFIG: QXmppConfiguration::disabledSaslMechanisms / saslAuthMechanism / credentialData are pure getters of the stored values (not lowered)',
            'A-QSV / A-QSTRING (units/C05/model_b.h): QStringView ==, startsWith (non-empty needle, case sensitive), mid(pos) with Qt 5.15 clamping, size; u"..."_s and QStringBuilder operator+ '
            'concatenate UTF-16 code units; results of toString fit 24 code units (else MODEL-LIMIT)',
            'a function-local `static constexpr` constant is an ordinary const local; a function-local static constexpr std::array (optionally of std::pair, built by to_array) is a const C array '
            'and a range-for over it an index loop (structured bindings = the pair members); std::optional observers has_value / operator bool / * / -> on every modelled optional',
            'Sasl2Manager::authenticate: without a stored token no HT mechanism is usable (isMechanismAvailable, verified), so the contract leaves open whether the FAST mechanisms are handed to the '
            'negotiation in that case; with a token they must be, and never when FAST is not enabled in the configuration',
            'QStringView::trimmed() (Qt 5.15): the sub-view without the leading and trailing QChar::isSpace() code units, by witnesses (units/C05/model_b.h)',
            'if SaslMechanism declares its own operator<=>, `a < b` (std::ranges::less in std::ranges::max) is (a <=> b) < 0 with that function (lowered from the AST, not modelled); operator== stays the variant base\'s',
            'std::array<QStringView, N>::at(i) throws for i >= N (checked as an assertion), ::size() = N; the table ianaHashAlgorithms is extracted from the AST',
            'callers (units/C05/model_c.h, partc.py): A-QLIST-SEQ a QList<QString> is a sequence of up to two array segments, std::ranges::copy(vector, back_inserter(list)) appends; '
            'A-TASK makeReadyTask / QXmppPromise / task(); A-SEND sendData(serializeXml(x)) = "x was sent" (event); QXmpp::Private::contains over std::vector<QString> is an uninterpreted, '
            'stable membership predicate; SaslMechanism::toString is a function of the mechanism value (its content is proved on concrete strings in this run)',
            'QXmppSaslClient::create(m, parent) returns null or a client object whose mechanism() is m (ASSUMED: the factory and the mechanism() overrides are not lowered here); '
            'setHost / setServiceType / setUsername / setCredentials / respond of the client are used through contracts that only record the calls',
            'in the proofs of the callers chooseMechanism resp. initSaslAuthentication are replaced by summaries implied by their verified contracts (the call happened with these arguments; '
            'an error carries no client, a success carries a client) -- the callers are verified for every answer',
        ],
        'assumes': scan_assumes(alltext),
        'not_covered': [
            'what QXmppConfiguration stores (setters, defaults such as PLAIN being disabled by default)',
            'the contents of the returned list of disabled-but-offered names (only feeds the error text)',
            'QXmppSaslClient::create and the mechanism() overrides (that the client object created for the chosen mechanism announces exactly that mechanism): assumed contract; '
            'the bytes of <auth/> / <authenticate/> (serializeXml) and the first response (C06)',
            'FastTokenManager::onSasl2Authenticate (which token mechanism is REQUESTED for later use) and the call sites of the two authenticate functions in QXmppOutgoingClient',
            'the order among the legacy X- mechanisms and between SCRAM-SHA-512 and SCRAM-SHA3-512 (same digest length): the property does not fix it',
            'a comparator other than the default in std::ranges::max, or a renamed local named by the loop contract: exit 2 (tool limit), not a verdict',
        ],
        'explanation': 'chooseMechanism is lowered from the AST clang 16 produces (fully typed); the std::views pipeline is turned into one loop by the named rule views:pipeline '
                       '(assumption A-STD-VIEWS, the weakest link of this unit; differentially tested). The rank is generated from the AST on every run and proved to satisfy the order of the property.',
    }
