/* units/C05/model_a.h -- models (ASSUMED contracts) of the Qt / libstdc++ types met by chooseMechanism and isMechanismAvailable.
 * Included after the generated context (records, variant layout, comparison macros).
 *
 * A-STR-ATTR  Strings are opaque.  A string value carries, as ghost attributes, the two (uninterpreted) facts the code can learn
 *             about it: the result of SaslMechanism::fromString on it (`gh_from`) and whether the list of disabled mechanisms
 *             contains it (`gh_disabled`); `id == 0` is the empty string.  Attribute records that are not functions of the id
 *             are admitted too (a superset of the real scenarios), the code never compares two strings here.
 * A-QLIST     QList<QString>: size(), at(i) over an element array of any length; push_back appends (only the count is kept).
 *             contains(s) on the list of disabled mechanisms is the string's attribute.  contains(s) on the OFFERED list is the
 *             membership predicate by witnesses: true => some index w holds a string equal to s (same id, hence the same
 *             attributes; w and that element are remembered in gh_found*), false => the element at the witness index g_i
 *             differs from s.  contains on any other list is a MODEL-LIMIT.
 * A-STD-VECTOR/A-STD-MAX/A-STD-FIND  std::vector<SaslMechanism> filled by push_back is summarised by its size, its maximum under
 *             the generated operator< (the leftmost one, as std::ranges::max returns it) and by whether it holds the probe value
 *             g_probe (operator== of the variant); `contains(vec, x)` (QXmpp Algorithms.h: std::find(begin, end, x) != end) may
 *             only be asked for x == g_probe (else MODEL-LIMIT).  Ghost: the source index and source element of the maximum / of the probe.
 * A-CONFIG    QXmppConfiguration::disabledSaslMechanisms / saslAuthMechanism / credentialData are pure getters of the stored values.
 */
#ifndef C05_MODEL_A_H
#define C05_MODEL_A_H

typedef struct OptSaslMechanism { bool has; SaslMechanism v; } OptSaslMechanism;
typedef struct qstr { int id; bool gh_disabled; OptSaslMechanism gh_from; } qstr;
typedef int std_nullopt_t;
typedef int std_ranges_max_fn;
typedef int std_ranges_min_fn;
static const std_nullopt_t nullopt = 0;
static const std_ranges_max_fn max = 0;
static const std_ranges_min_fn min = 0;

typedef struct QStrList { long n; const qstr *d; bool gh_is_disabled_list; } QStrList;
#define QSTRLIST_MAX 1000000L

/*@RECORDS@*/

typedef struct QXmppConfiguration { QStrList disabledSaslMechanisms; qstr saslAuthMechanism; Credentials credentials; } QXmppConfiguration;

typedef struct VecMech { long n; SaslMechanism minv; SaslMechanism maxv; long max_src; qstr max_elem; bool has_probe; long probe_src; qstr probe_elem; } VecMech;
typedef struct ChooseResult { OptSaslMechanism first; QStrList second; } ChooseResult;

#define MECH_ALL_EQ(a, b) ((a).index == (b).index && SaslScramMechanism_EQ((a).alt_SaslScramMechanism, (b).alt_SaslScramMechanism) && SaslHtMechanism_EQ((a).alt_SaslHtMechanism, (b).alt_SaslHtMechanism))
#define QSTR_EQ(a, b) ((a).id == (b).id && (a).gh_disabled == (b).gh_disabled && (a).gh_from.has == (b).gh_from.has && MECH_ALL_EQ((a).gh_from.v, (b).gh_from.v))
/* ghost */
const qstr *gh_d;          /* element array of the offered list (set by a ghost hook on entry) */
long gh_n;                 /* its length */
bool gh_found; long gh_found_idx; qstr gh_found_elem;   /* witness of the last successful contains() on the offered list */
long g_i;                  /* witness index into the offered list */
SaslMechanism g_probe;     /* arbitrary mechanism value fixed before the call */
long gh_src;               /* index of the offered element the pipeline is working on */
qstr gh_cur;               /* ... and that element, as the code read it */
VecMech gh_vec;            /* the summary of `mechanisms` after the pipeline was consumed */

static inline long QStrList_size(const QStrList *l) { return l->n; }
static inline qstr QStrList_at(const QStrList *l, long i) { return l->d[i]; }
static inline bool QStrList_contains(const QStrList *l, qstr s)
{
  if (l->gh_is_disabled_list) return s.gh_disabled;
  MODEL_LIMIT(l->d == gh_d && l->n == gh_n, "QList::contains on a list other than the disabled mechanisms or the offered mechanisms");
  bool b = nondet_bool();
  long w = nondet_long();
  __CPROVER_assume(b ? (0 <= w && w < l->n && QSTR_EQ(l->d[w], s)) : (!(0 <= g_i && g_i < l->n) || l->d[g_i].id != s.id));
  if (b) { gh_found = true; gh_found_idx = w; gh_found_elem = l->d[w]; }
  return b;
}
static inline void QStrList_push_back(QStrList *l, qstr s)
{
  MODEL_LIMIT(l->n < QSTRLIST_MAX, "list longer than the model represents");
  l->n = l->n + 1;   /* contents of the appended-to list are not represented (it only feeds an error text) */
}
static inline void QXmppConfiguration_disabledSaslMechanisms(QStrList *_ret, const QXmppConfiguration *c) { *_ret = c->disabledSaslMechanisms; }

static inline void VecMech_init(VecMech *v) { v->n = 0; v->has_probe = false; v->max_src = 0; v->probe_src = 0; v->maxv.index = 0; v->minv.index = 0; }
static inline void VecMech_push_back(VecMech *v, const SaslMechanism *x)
{
  MODEL_LIMIT(v->n < QSTRLIST_MAX, "vector longer than the model represents");
  if (v->n == 0 || SaslMechanism_LESS(*x, v->minv)) { v->minv = *x; }
  if (v->n == 0 || SaslMechanism_LESS(v->maxv, *x)) { v->maxv = *x; v->max_src = gh_src; v->max_elem = gh_cur; }
  if (!v->has_probe && SaslMechanism_EQ(*x, g_probe)) { v->has_probe = true; v->probe_src = gh_src; v->probe_elem = gh_cur; }
  v->n = v->n + 1;
}
static inline bool VecMech_contains(const VecMech *v, const SaslMechanism *x)
{
  MODEL_LIMIT(SaslMechanism_EQ(*x, g_probe), "contains() asked for a value other than the probe");
  return v->has_probe;
}
static inline void VecMech_max(SaslMechanism *_ret, std_ranges_max_fn f, const VecMech *v, int less, int proj)
{
  __CPROVER_assert(v->n > 0, "[pre.max_of_nonempty_range] std::ranges::max requires a non-empty range");
  *_ret = v->maxv;
}

static inline void VecMech_min(SaslMechanism *_ret, std_ranges_min_fn f, const VecMech *v, int less, int proj)
{
  __CPROVER_assert(v->n > 0, "[pre.min_of_nonempty_range] std::ranges::min requires a non-empty range");
  *_ret = v->minv;
}

static inline void OptSaslMechanism_some(OptSaslMechanism *o, const SaslMechanism *m) { o->has = true; o->v = *m; }
static inline void ChooseResult_none(ChooseResult *r, std_nullopt_t n, const QStrList *l) { r->first.has = false; r->second = *l; }
static inline void ChooseResult_opt(ChooseResult *r, const OptSaslMechanism *o, const QStrList *l) { r->first = *o; r->second = *l; }
static inline void ChooseResult_mech(ChooseResult *r, const SaslMechanism *m, const QStrList *l) { r->first.has = true; r->first.v = *m; r->second = *l; }
#endif
