/* units/C05/model_c.h -- callers of chooseMechanism: initSaslAuthentication, SaslManager::authenticate, Sasl2Manager::authenticate.
 * Strings and byte arrays are opaque ids (equality only, 0 = empty).  What is sent / reported is an event in ghost state.
 *
 * A-QLIST-SEQ  a QList<QString> is a sequence given by up to two array segments (d[0..n) followed by d2[0..n2)); copying a list copies
 *              the descriptor; std::ranges::copy(vector, std::back_inserter(list)) appends the vector's elements (second segment;
 *              a second append is a MODEL-LIMIT).
 * A-TASK       makeReadyTask(v) returns a finished task carrying v; QXmppPromise<T>() is a fresh promise, task() its task.
 * A-SEND       SendDataInterface::sendData(serializeXml(x)) hands the serialisation of x to the socket: recorded as "x was sent".
 * The mirrors of QXmpp's plain data records below list only the members the lowered functions touch; their existence is
 * checked against the AST on every run (units/C05/partc.py: require_fields). */
#ifndef C05_MODEL_C_H
#define C05_MODEL_C_H
typedef int sid;
typedef int bid;
typedef int quuid;      /* 0 = null UUID */
typedef int qtask;
typedef int qpromise;
typedef int std_nullopt_t;
typedef int std_ranges_copy_fn;
static const std_nullopt_t nullopt = 0;
typedef struct OptSaslMechanism { bool has; SaslMechanism v; } OptSaslMechanism;
typedef struct QStrListC { long n; const sid *d; long n2; const sid *d2; } QStrListC;
typedef struct QStrVecC { long n; const sid *d; } QStrVecC;
typedef struct ChooseResultC { OptSaslMechanism first; QStrListC second; } ChooseResultC;
typedef struct QObjectC { int gh_unused; } QObjectC;
typedef struct SendDataInterface { int gh_unused; } SendDataInterface;
typedef struct QXmppSaslClient { SaslMechanism gh_mechanism; } QXmppSaslClient;   /* abstract base: what mechanism() answers */
typedef struct OptBid { bool has; bid v; } OptBid;
typedef struct AuthenticationError { int type; sid text; } AuthenticationError;     /* + std::any details (not represented) */
typedef struct AuthError { sid first; AuthenticationError second; } AuthError;     /* std::pair<QString, AuthenticationError> */
typedef struct OptAuthError { bool has; AuthError v; } OptAuthError;
typedef struct InitSaslAuthResult { QXmppSaslClient *saslClient; OptAuthError error; bid initialResponse; } InitSaslAuthResult;
typedef struct QXmppSasl2UserAgentC { quuid deviceId; sid softwareName; sid deviceName; } QXmppSasl2UserAgentC;
typedef struct OptUserAgentCfg { bool has; QXmppSasl2UserAgentC v; } OptUserAgentCfg;
typedef struct HtTokenC { int gh_unused; } HtTokenC;
typedef struct OptHtTokenC { bool has; HtTokenC v; } OptHtTokenC;
typedef struct Credentials { OptHtTokenC htToken; } Credentials;   /* only the presence of the stored FAST token is represented here */
typedef struct QXmppConfiguration { sid domain; sid user; Credentials credentials; bool useFastTokenAuthentication; OptUserAgentCfg sasl2UserAgent; } QXmppConfiguration;
typedef struct UserAgentC { quuid id; sid software; sid device; } UserAgentC;
typedef struct OptUserAgent { bool has; UserAgentC v; } OptUserAgent;
typedef struct FastRequestC { bool has_count; bool invalidate; } FastRequestC;
typedef struct OptFastRequest { bool has; FastRequestC v; } OptFastRequest;
typedef struct Sasl2Authenticate { sid mechanism; bid initialResponse; OptUserAgent userAgent; OptFastRequest fast; } Sasl2Authenticate;
typedef struct FastFeatureC { QStrVecC mechanisms; bool tls0rtt; } FastFeatureC;
typedef struct OptFastFeature { bool has; FastFeatureC v; } OptFastFeature;
typedef struct Sasl2StreamFeature { QStrListC mechanisms; OptFastFeature fast; } Sasl2StreamFeature;
typedef struct StateC { QXmppSaslClient *sasl; qpromise p; } StateC;
typedef struct OptState { bool has; StateC v; } OptState;
typedef struct Sasl2Manager { SendDataInterface *m_socket; OptState m_state; } Sasl2Manager;
typedef struct OptPromise { bool has; qpromise v; } OptPromise;
typedef struct SaslManager { SendDataInterface *m_socket; QXmppSaslClient *m_saslClient; OptPromise m_promise; } SaslManager;

/* ---- ghost event log */
int gh_choose_calls; const QXmppConfiguration *gh_choose_cfg; const QStrListC *gh_choose_list; OptSaslMechanism gh_choose_result;
int gh_create_calls; SaslMechanism gh_create_arg; QXmppSaslClient *gh_created;
int gh_respond_calls; OptBid gh_respond_result;
int gh_setcred_calls;
int gh_init_calls; const QXmppConfiguration *gh_init_cfg; QStrListC gh_init_list; InitSaslAuthResult gh_init_result; SaslMechanism gh_init_mech;
int gh_sent; int gh_sent_kind; sid gh_sent_mechanism; bid gh_sent_initial; Sasl2Authenticate gh_sent_auth;
int gh_ready_tasks; AuthError gh_ready_error; qtask gh_ready_task;
int gh_promises; qpromise gh_last_promise;
sid __CPROVER_uninterpreted_mech_name(int index, int scram, int hash, int cb);
#define FAST_USABLE (feature->fast.has && config->useFastTokenAuthentication && config->sasl2UserAgent.has)
/* without a stored token no FAST (HT) mechanism is usable (isMechanismAvailable, verified), so whether the FAST mechanisms are handed to the
   negotiation then cannot change its outcome: the contract leaves that case open */
#define TOKEN_STORED (config->credentials.htToken.has)
#define SENT_SASL_AUTH 1
#define SENT_SASL2_AUTHENTICATE 2
#define MECH_NAME(m) __CPROVER_uninterpreted_mech_name((m).index, (m).index == SaslMechanism_IDX_SaslScramMechanism ? (m).alt_SaslScramMechanism.algorithm : 0, \
  (m).index == SaslMechanism_IDX_SaslHtMechanism ? (m).alt_SaslHtMechanism.hashAlgorithm : 0, (m).index == SaslMechanism_IDX_SaslHtMechanism ? (m).alt_SaslHtMechanism.channelBindingType : 0)

sid nondet_sid(void); bid nondet_bid(void); qtask nondet_qtask(void); qpromise nondet_qpromise(void);
static inline bool QStrListC_empty(const QStrListC *l) { return l->n + l->n2 == 0; }
static inline sid QStrListC_join(const QStrListC *l, sid sep) { return nondet_sid(); }
static inline sid sid_arg1(sid fmt, sid a) { return nondet_sid(); }
static inline void QStrListC_copy(QStrListC *r, const QStrListC *l) { *r = *l; }
static inline void QStrListC_append_all(QStrListC *l, const QStrVecC *v)
{
  MODEL_LIMIT(l->n2 == 0, "second append to a list");
  l->d2 = v->d; l->n2 = v->n;
}
/* std::find(begin, end, x) != end over std::vector<QString> (QXmpp::Private::contains): some element equals x (uninterpreted, stable) */
bool __CPROVER_uninterpreted_vec_contains(const sid *d, long n, sid x);
static inline bool QStrVecC_contains(const QStrVecC *v, sid x) { return __CPROVER_uninterpreted_vec_contains(v->d, v->n, x); }

static inline qtask ev_ready_task_error(const AuthError *e)
{
  MODEL_LIMIT(gh_ready_tasks < 1000, "event counter"); gh_ready_tasks++; gh_ready_error = *e; gh_ready_task = nondet_qtask(); return gh_ready_task;
}
static inline bool ev_send_sasl2_authenticate(SendDataInterface *s, const Sasl2Authenticate *a)
{
  MODEL_LIMIT(gh_sent < 1000, "event counter"); gh_sent++; gh_sent_kind = SENT_SASL2_AUTHENTICATE; gh_sent_auth = *a; return nondet_bool();
}
static inline bool ev_send_sasl_auth(SendDataInterface *s, sid mechanism, bid initial)
{
  MODEL_LIMIT(gh_sent < 1000, "event counter"); gh_sent++; gh_sent_kind = SENT_SASL_AUTH; gh_sent_mechanism = mechanism; gh_sent_initial = initial; return nondet_bool();
}
static inline qpromise qpromise_new(void) { MODEL_LIMIT(gh_promises < 1000, "event counter"); gh_promises++; gh_last_promise = nondet_qpromise(); return gh_last_promise; }
static inline qtask qpromise_task(qpromise p) { return (qtask)p; }
static inline void OptAuthError_some(OptAuthError *o, const AuthError *e) { o->has = true; o->v = *e; }
static inline void AuthError_ctor(AuthError *r, sid text, const AuthenticationError *e) { r->first = text; r->second = *e; }
static inline void QXmppConfiguration_sasl2UserAgent(OptUserAgentCfg *r, const QXmppConfiguration *c) { *r = c->sasl2UserAgent; }
#endif
