"""C05: Lowerer subclass and the context generators of the unit (all mechanical, all must-fire).

Unit-local extensions of the lowering:
  * trailing return types (`auto f(...) -> T`) are normalised to `T f(...)`;
  * type spellings are canonicalised (`QXmpp::Private::` dropped, `QStringBuilder<...>` = the concatenated string);
  * a local `auto x = [&](...) {...};` is remembered and expanded in place where it is called (reference captures only);
  * rule `visit:overloaded` -- `std::visit(overloaded { lambdas... }, v)` on a variant-derived class becomes a `switch` on the
    variant index; the lambda for each alternative is chosen the way overload resolution does it in the cases that occur
    (exactly one lambda taking the alternative itself, otherwise exactly one lambda taking a std::variant<...> that lists it;
    anything else, e.g. a generic lambda, is Unsupported).  Assumption A-STD-VISIT.
  * rule `views:pipeline` -- a *typed* (clang 16) chain  range | std::views::filter(p) | std::views::transform(f) | ...  bound to a local
    and consumed by the immediately following `std::vector<T> v(view.begin(), view.end())` becomes ONE index loop over the
    source range that applies the stages in source order to each element (`continue` when a filter rejects) and appends the
    survivors.  Every stage is identified by the desugared type of the adaptor closure
    (std::ranges::views::__adaptor::_Partial<std::ranges::views::_Filter|_Transform, F>), not by its spelling.
    Callables: a local lambda, a lambda expression (the instantiated operator() of a generic lambda), the address of a
    static member function, std::bind(&fn, args...) with placeholder _1 (the other bound arguments are evaluated once, at the
    statement that builds the view, as std::bind does).  Assumption A-STD-VIEWS.
  * the rank generator: comparison macros of the mechanism types are generated from the AST (alternative order of the
    std::variant base, field order of the alternatives, their defaulted operator<=>).  Assumption A-STD-VARIANT-ORDER.
"""
import re
from vlib import astx, ctx
from vlib.cxx2c import Lowerer, Profile, Unsupported, qt, dqt, strip_type, find_string, split_top
from vlib.cxx2c import line_of as _line_of

PRIV = 'QXmpp::Private::'


def line_of(n):
    """clang omits the line when it equals the previous node's: look into the node's first located descendant"""
    l = _line_of(n)
    if l is None:
        for c in n.get('inner', []):
            if isinstance(c, dict):
                l = line_of(c)
                if l != '?':
                    return l
        return '?'
    return l


def canon(t):
    """canonical spelling of a C++ type: cv/ref stripped, QXmpp::Private:: dropped"""
    return strip_type(t).replace(PRIV, '')


def fix_trailing_return(decl):
    t = decl.get('type', {}).get('qualType', '')
    m = re.match(r'^auto \((.*)\)( const)?( noexcept)? -> (.*)$', t)
    if not m:
        return decl
    d = dict(decl)
    d['type'] = dict(decl['type'], qualType='%s (%s)%s' % (m.group(4), m.group(1), m.group(2) or ''))
    return d


def children(n):
    return [c for c in n.get('inner', []) if isinstance(c, dict) and c.get('kind') and not c['kind'].endswith('Comment')]


class SaslLowerer(Lowerer):
    def __init__(self, decl, cname, profile, this_type=None, is_lambda=False):
        super().__init__(fix_trailing_return(decl), cname, profile, this_type, is_lambda)
        self.lambdas = {}        # VarDecl id -> LambdaExpr
        self.pipelines = {}      # VarDecl id -> {'source': node, 'stages': [...], 'name': str}
        self.pending_pipeline = None
        self.inline_ret = None   # (result tmp or None, label) while a lambda body is expanded as statements
        self.static_tables = {}  # VarDecl id -> (C name, element C type, count, (first, second) C types of a pair element or None)
        self.nlabel = 0

    # ------------------------------------------------------------------ types
    def ctype(self, t, node=None):
        if t is not None:
            c = canon(t)
            if c.startswith('QStringBuilder<') and 'QStringBuilder' in self.p.types:
                return self.p.types['QStringBuilder']
            for pat, ct in getattr(self.p, 'c05_type_prefixes', ()):
                if re.match(pat, c):
                    return ct
            ptr = ''
            while c.endswith('*'):
                c = c[:-1].strip()
                ptr += '*'
            if c in self.p.types:
                return self.p.types[c] + ptr
        return super().ctype(t, node)

    def tkey(self, n):
        for cand in (qt(n), dqt(n)):
            try:
                return self.ctype(cand)
            except Unsupported:
                pass
        return canon(qt(n))

    # ------------------------------------------------------------------ statements
    def stmt(self, n, ind):
        if self.pending_pipeline is not None and not self.consumes_pipeline(n):
            raise Unsupported('the lazy view %s is not consumed by the statement that immediately follows its definition'
                              % self.pipelines[self.pending_pipeline]['name'])
        if n.get('kind') == 'DoStmt':
            return self.do_once(n, ind)
        return super().stmt(n, ind)

    def binop(self, n):
        if n.get('opcode') == '<=>':
            l, r = n['inner']
            tl, tr = self.tkey(self.skip(l)), self.tkey(self.skip(r))
            if tl != tr or tl not in ('int', 'unsigned int', 'long', 'unsigned long', 'size_t', 'long long', 'unsigned long long'):
                raise Unsupported('operator <=> on %s / %s' % (tl, tr))
            self.fire('op<=>:builtin-integers')
            return 'CMP3(%s, %s)' % (self.expr(l), self.expr(r))
        return super().binop(n)

    # ------------------------------------------------------------------ function-local `static constexpr` constants and tables
    def static_local(self, v, sp):
        """`static constexpr T x = <constant>;` inside a function has the same value on every call: an ordinary const local.
        `static constexpr auto t = to_array<E>({...})` / std::array<E, N>{...}: a const C array; E may be std::pair<A, B>."""
        if ('static:' + v['name']) in self.p.calls:
            return super().static_local(v, sp)
        if not v.get('constexpr'):
            raise Unsupported('static local %s is not constexpr' % v.get('name'))
        m = re.match(r'std::array<(.*),\s*(\d+)(UL)?>$', strip_type(dqt(v)))
        if not m:
            self.fire('static-constexpr:scalar')
            v2 = dict(v)
            v2.pop('storageClass')
            return self.vardecl(v2, sp)
        n = int(m.group(2))
        et = canon(m.group(1))
        init = self.skip(children(v)[0])
        if init.get('kind') == 'CallExpr' and self.callee_ref(init).get('name') == 'to_array' and len(init['inner']) == 2:
            init = self.skip(init['inner'][1])
        if init.get('kind') != 'InitListExpr' or len(children(init)) != n:
            raise Unsupported('static table %s is not built from %d initialisers' % (v['name'], n))
        pm = re.match(r'std::pair<(.*)>$', et)
        self.pre = []
        if pm:
            ta, tb = [self.ctype(x) for x in split_top(pm.group(1))]
            cet = 'pair_%s_%s' % (re.sub(r'\W+', '_', ta), re.sub(r'\W+', '_', tb))
            if cet not in self.names:
                self.names.add(cet)
                self.emit('%stypedef struct { %s first; %s second; } %s;   /* std::pair */' % (sp, ta, tb, cet))
            elems = []
            for e in children(init):
                e = self.skip(e)
                args = children(e)
                if e.get('kind') != 'CXXConstructExpr' or len(args) != 2:
                    raise Unsupported('static table %s: element is not pair(a, b)' % v['name'])
                elems.append('{ %s, %s }' % (self.table_value(args[0], ta), self.table_value(args[1], tb)))
            fields = (ta, tb)
        else:
            cet = self.ctype(et)
            elems = [self.table_value(e, cet) for e in children(init)]
            fields = None
        if self.pre:
            raise Unsupported('static table %s needs temporaries' % v['name'])
        self.fire('static-constexpr:table')
        cn, _ = self.declare_local(v, sp, ctype=cet + '*')
        self.emit('%sconst %s %s[%d] = { %s };   /* static constexpr table */' % (sp, cet, cn, n, ', '.join(elems)))
        self.static_tables[v['id']] = (cn, cet, n, fields)

    def table_value(self, e, ct):
        e0 = self.skip(e)
        if e0.get('kind') == 'StringLiteral' or (e0.get('kind') == 'CXXConstructExpr' and children(e0) and self.skip(children(e0)[0]).get('kind') == 'StringLiteral'):
            if ct not in self.p.string_types:
                raise Unsupported('string literal in a table of %s' % ct)
            return self.string_literal(e0)
        if not self.pure(e0):
            raise Unsupported('table element with side effects')
        return self.expr(e0)

    def rangefor(self, n, ind):
        init, rng, beg, end, cond, inc, lv, body = n['inner']
        rv = children(rng)[0]
        rinit = self.skip(children(rv)[0])
        tab = self.static_tables.get(rinit.get('referencedDecl', {}).get('id')) if rinit.get('kind') == 'DeclRefExpr' else None
        if tab is None:
            return super().rangefor(n, ind)
        if init.get('kind'):
            raise Unsupported('range-for with init statement over a static table')
        cn, cet, cnt, fields = tab
        sp = '  ' * ind
        self.fire('rangefor:static-table')
        num = self.loops
        self.loops += 1
        idx = '__i%d' % num
        self.names.add(idx)
        self.emit(sp + '{')
        self.emit('%s  size_t %s = 0;' % (sp, idx))
        self.emit('%s  for (; %s < %d; %s++)' % (sp, idx, cnt, idx))
        self.emit('%s  /*@LOOP%d@*/' % (sp, num))
        self.emit(sp + '  {')
        d = children(lv)[0]
        if d.get('kind') == 'DecompositionDecl':
            binds = [c for c in children(d) if c.get('kind') == 'BindingDecl']
            if fields is None or len(binds) != 2:
                raise Unsupported('structured binding over a table that does not hold pairs')
            for b, f, ct in zip(binds, ('first', 'second'), fields):
                bn, _ = self.declare_local(b, sp, ctype=ct)
                self.emit('%s    const %s %s = %s[%s].%s;' % (sp, ct, bn, cn, idx, f))
        elif d.get('kind') == 'VarDecl':
            vn, vt = self.declare_local(d, sp, ctype=cet)
            self.emit('%s    const %s %s = %s[%s];' % (sp, vt, vn, cn, idx))
        else:
            raise Unsupported('range-for variable %s' % d.get('kind'))
        self.block(body, ind + 2)
        self.emit(sp + '  }')
        self.emit(sp + '}')

    def do_once(self, n, ind):
        body, cond = children(n)
        c = self.skip(cond)

        def jumps(x):
            return x.get('kind') in ('BreakStmt', 'ContinueStmt') or any(jumps(y) for y in children(x))
        if c.get('kind') != 'CXXBoolLiteralExpr' or c.get('value') or jumps(body):
            raise Unsupported('do-while')
        self.fire('do-while(false):block')
        self.block(body, ind)

    def lower(self, extra_params=()):
        text = super().lower(extra_params)
        if self.pending_pipeline is not None:
            raise Unsupported('lazy view defined but never consumed')
        return text

    def vardecl(self, v, sp):
        if v.get('kind') == 'VarDecl':
            init = children(v)
            i0 = self.skip(init[0]) if init else None
            if i0 is not None and i0.get('kind') == 'LambdaExpr':
                self.check_ref_captures(i0)
                self.lambdas[v['id']] = i0
                self.fire('lambda:local:expanded-at-call')
                self.emit('%s/* local lambda %s (line %s): expanded where it is called */' % (sp, v['name'], line_of(v)))
                return
            if i0 is not None and re.match(r'std::ranges::(filter|transform)_view<', strip_type(dqt(v))):
                return self.define_pipeline(v, i0, sp)
            if self.pending_pipeline is not None:
                return self.consume_pipeline(v, i0, sp)
        return super().vardecl(v, sp)

    def ret(self, n, sp):
        if self.inline_ret is None:
            return super().ret(n, sp)
        res, label = self.inline_ret
        if n.get('inner'):
            v = self.skip(n['inner'][0])
            if self.is_class(v) and v.get('kind') in ('CXXConstructExpr', 'CXXTemporaryObjectExpr'):
                self.construct(v, res)
            else:
                e = self.expr(v)
                self.pre.append('%s = %s;' % (res, e))
            self.flush(sp)
        self.emit('%sgoto %s;' % (sp, label))

    # ------------------------------------------------------------------ concrete strings (fromString / toString)
    def literal_text(self, n):
        s = find_string(n)
        if s is None and self.skip(n).get('kind') == 'UserDefinedLiteral':
            s = self.udl_from_source(self.skip(n))
        if s is None:
            raise Unsupported('string literal without value')
        return s

    def string_literal(self, n):
        if not getattr(self.p, 'concrete_strings', False):
            return super().string_literal(n)
        s = self.literal_text(n)
        self.fire('literal:string:concrete')
        view = 'QSV(%s, %d)' % (self.p.lit(s), len(s))
        if self.skip(n).get('kind') == 'UserDefinedLiteral':      # u"..."_s : a QString
            tmp = self.newtmp()
            self.pre.append('QStr %s; QStr_from(&%s, %s);' % (tmp, tmp, view))
            return tmp
        return view

    def as_view(self, a):
        """operand of a QStringBuilder concatenation as a string view"""
        a = self.skip(a)
        if a.get('kind') == 'StringLiteral':
            return self.string_literal(a)
        t = self.tkey(a)
        if t == 'qsv':
            return self.expr(a)
        if t == 'QStr':
            return 'QStr_view(%s)' % self.addr(a)
        if t in ('quint16',):
            tmp = self.newtmp()
            self.pre.append('quint16 %s = %s;' % (tmp, self.expr(a)))
            return 'QSV(&%s, 1)' % tmp
        raise Unsupported('QStringBuilder operand of type %s' % t)

    def opcall(self, n):
        rd = self.callee_ref(n)
        if rd.get('name') == 'operator()' and len(n['inner']) >= 2:
            rawkey = 'opraw():' + self.tkey(self.skip(n['inner'][1]))
            if rawkey in self.p.calls:       # a rule that lowers the operands itself (e.g. std::ranges::copy(v, std::back_inserter(l)))
                self.fire(rawkey)
                return self.p.calls[rawkey](self, n, None)
            f = self.skip(n['inner'][1])
            if f.get('kind') == 'DeclRefExpr' and f['referencedDecl']['id'] in self.lambdas:
                return self.call_local_lambda(n, self.lambdas[f['referencedDecl']['id']], f['referencedDecl'].get('name'))
        if getattr(self.p, 'concrete_strings', False) and rd.get('name') == 'operator+' and canon(dqt(self.skip(n))).startswith('QStringBuilder<'):
            a, b = n['inner'][1:]
            va, vb = self.as_view(a), self.as_view(b)
            self.fire('op+:QStringBuilder')
            tmp = self.newtmp()
            self.pre.append('QStr %s; QStr_concat(&%s, %s, %s);' % (tmp, tmp, va, vb))
            return tmp
        return super().opcall(n)

    def call_local_lambda(self, n, lam, name):
        """call of a local lambda whose body is nothing but a logging call: dropped like any logging (operands must be pure)"""
        m = self.lambda_method(lam)
        body = next(c for c in children(m) if c.get('kind') == 'CompoundStmt')
        st = [self.skip(x) for x in children(body)]
        if len(st) == 1 and st[0].get('kind') in ('CXXMemberCallExpr', 'CallExpr'):
            callee = self.skip(st[0]['inner'][0])
            if callee.get('kind') == 'MemberExpr' and callee.get('name') == 'logMessage':
                for a in n['inner'][2:]:
                    if not self.pure(a):
                        raise Unsupported('logging call %s has an argument with side effects' % name)
                self.fire('lambda:logging-only:dropped')
                self.dropped.append({'call': 'lambda %s -> logMessage' % name, 'line': line_of(n)})
                return '((void)0)'
        raise Unsupported('call of local lambda %s' % name)

    # ------------------------------------------------------------------ lambdas
    def check_ref_captures(self, lam):
        rec = next(c for c in children(lam) if c.get('kind') == 'CXXRecordDecl')
        for f in children(rec):
            if f.get('kind') == 'FieldDecl' and not qt(f).strip().endswith('&'):
                raise Unsupported('lambda captures %s by copy (only reference captures are expanded in place)' % qt(f))

    def lambda_method(self, lam, argtypes=None):
        """the operator() to expand: the only one, or for a generic lambda its single instantiation"""
        rec = next(c for c in children(lam) if c.get('kind') == 'CXXRecordDecl')
        cands = []
        for c in children(rec):
            if c.get('kind') == 'CXXMethodDecl' and c.get('name') == 'operator()' and astx.has_body(c):
                cands.append(c)
            if c.get('kind') == 'FunctionTemplateDecl' and c.get('name') == 'operator()':
                for m in children(c):
                    if m.get('kind') == 'CXXMethodDecl' and astx.has_body(m) and 'auto' not in qt(m):
                        cands.append(m)
        if len(cands) != 1:
            raise Unsupported('lambda at line %s has %d usable operator() definitions' % (line_of(lam), len(cands)))
        if astx.contains_error_nodes(cands[0]):
            raise Unsupported('lambda body contains clang error-recovery nodes')
        return cands[0]

    def expand_lambda(self, lam, args, what):
        """inline expansion of a lambda call.  args: one C expression per parameter (None = unnamed/unused parameter allowed only).
        Returns the C expression of the result (a temporary, or '' for void)."""
        self.check_ref_captures(lam)
        m = self.lambda_method(lam)
        params = [c for c in children(m) if c.get('kind') == 'ParmVarDecl']
        body = next(c for c in children(m) if c.get('kind') == 'CompoundStmt')
        if len(params) != len(args):
            raise Unsupported('%s: lambda takes %d parameters, %d given' % (what, len(params), len(args)))
        self.fire('lambda:expand:' + what)
        pre_saved = self.pre
        lines = []
        for p, a in zip(params, args):
            if not p.get('name'):
                continue
            if a is None:
                raise Unsupported('%s: named lambda parameter %s of a type the rule cannot bind' % (what, p['name']))
            ct = self.ntype(p)
            cn, _ = self.declare_local(p, '')
            lines.append('%s %s = %s;' % (ct, cn, a))
        rett = qt(m).split('(')[0].strip()
        rct = self.ctype(rett) if rett != 'void' else 'void'
        stmts = children(body)
        if len(stmts) == 1 and stmts[0].get('kind') == 'ReturnStmt' and rct != 'void' and rct not in self.p.class_types:
            # single `return e;`: the value of the call is e
            self.pre = []
            e = self.expr(stmts[0]['inner'][0])
            lines.extend(self.pre)
            res = self.newtmp()
            lines.append('%s %s = %s;' % (rct, res, e))
            self.pre = pre_saved
            self.pre.append('/* lambda (line %s) expanded */' % line_of(lam))
            self.pre.extend(lines)
            return res
        # general body: statements, `return e` becomes `res = e; goto end`
        res = None
        if rct != 'void':
            res = self.newtmp()
            lines.insert(0, '%s %s;' % (rct, res))
        self.nlabel += 1
        label = '_Lend%d' % self.nlabel
        saved_out, saved_inl = self.out, self.inline_ret
        self.out = []
        self.inline_ret = (res, label)
        self.stmt(body, 0)
        blines = self.out
        self.out, self.inline_ret = saved_out, saved_inl
        self.pre = pre_saved
        self.pre.append('/* lambda (line %s) expanded */' % line_of(lam))
        self.pre.extend(lines)
        self.pre.extend(blines)
        self.pre.append('%s: ;' % label)
        return res or ''

    def fncall(self, n):
        callee = self.skip(n['inner'][0])
        if callee.get('kind') == 'DeclRefExpr' and callee['referencedDecl']['id'] in self.lambdas:
            raise Unsupported('direct call of a local lambda')   # not needed so far
        rd = self.callee_ref(n)
        if rd.get('name') == 'visit' and 'fn:visit/2' not in self.p.calls:
            return self.lower_visit(n)
        rawkey = 'fnraw:%s' % rd.get('name')
        if rawkey in self.p.calls:           # a rule that lowers the operands itself
            self.fire(rawkey)
            return self.p.calls[rawkey](self, n, None)
        return super().fncall(n)

    def membercall(self, n):
        me = self.skip(n['inner'][0])
        if me.get('kind') == 'MemberExpr':
            base = self.skip(me['inner'][0])
            rawkey = 'memraw:%s::%s' % (self.class_key(base, me.get('isArrow')), me.get('name'))
            if rawkey in self.p.calls:
                self.fire(rawkey)
                obj = self.expr(base) if me.get('isArrow') or not self.is_class(base) else self.addr(base)
                return self.p.calls[rawkey](self, n, [obj])
        return super().membercall(n)

    # ------------------------------------------------------------------ std::visit(overloaded{...}, variant)
    def lower_visit(self, n):
        argn = n['inner'][1:]
        if len(argn) != 2:
            raise Unsupported('std::visit with %d arguments' % len(argn))
        vis = self.skip(argn[0])
        if not canon(dqt(vis)).startswith('overloaded<') or vis.get('kind') != 'InitListExpr' and not (vis.get('kind') == 'CXXFunctionalCastExpr'):
            raise Unsupported('std::visit: visitor is not overloaded { lambdas }')
        while vis.get('kind') != 'InitListExpr':
            if not vis.get('inner'):
                raise Unsupported('std::visit: visitor is not overloaded { lambdas }')
            vis = self.skip(vis['inner'][0])
        lams = []
        for c in children(vis):
            c = self.skip(c)
            while c.get('kind') == 'CXXConstructExpr' and len(children(c)) == 1:
                c = self.skip(children(c)[0])
            if c.get('kind') != 'LambdaExpr':
                raise Unsupported('std::visit: overloaded element %s' % c.get('kind'))
            lams.append(c)
        var = self.skip(argn[1])
        if var.get('kind') == 'UnaryOperator' and var.get('opcode') == '*' and self.skip(var['inner'][0]).get('kind') == 'CXXThisExpr':
            vt, vexpr = self.this_type, 'self'
        else:
            vt = self.ntype(var)
            vexpr = self.addr(var)
        info = self.p.variants.get(vt)
        if info is None:
            raise Unsupported('std::visit on %s (no variant layout generated)' % vt)
        self.fire('visit:overloaded:' + vt)
        # overload resolution per alternative
        sig = []
        for lam in lams:
            m = self.lambda_method(lam)
            ps = [c for c in children(m) if c.get('kind') == 'ParmVarDecl']
            if len(ps) != 1:
                raise Unsupported('std::visit: lambda with %d parameters' % len(ps))
            sig.append((lam, ps[0], canon(dqt(ps[0]))))
        rct = self.ntype(self.skip(n))
        res = self.newtmp()
        out = ['%s %s;' % (rct, res), 'switch (%s->index)' % vexpr, '{']
        saved_pre = self.pre
        for i, alt in enumerate(info['alts']):
            exact = [s for s in sig if s[2] == alt]
            if len(exact) == 1:
                chosen, how = exact[0], 'exact'
            elif not exact:
                conv = []
                for s in sig:
                    mm = re.match(r'std::variant<(.*)>$', s[2])
                    if mm and [canon(x) for x in split_top(mm.group(1))].count(alt) == 1:
                        conv.append(s)
                if len(conv) != 1:
                    raise Unsupported('std::visit: %d candidate lambdas for alternative %s' % (len(conv), alt))
                chosen, how = conv[0], 'converted to ' + conv[0][2]
            else:
                raise Unsupported('std::visit: ambiguous lambdas for alternative %s' % alt)
            lam, p, pt = chosen
            if how == 'exact':
                a = '%s->alt_%s' % (vexpr, alt) if alt in info['fields'] else None
                if a is None and p.get('name'):
                    # an empty alternative: its value carries no data
                    a = '(%s){0}' % self.ntype(p)
            else:
                a = None
            self.pre = []
            e = self.expand_lambda(lam, [a], 'visit')
            out.append('  case %s_IDX_%s: /* %s */ {' % (vt, alt, how))
            out.extend('    ' + x for x in self.pre)
            out.append('    %s = %s;' % (res, e))
            out.append('    break; }')
        out.append('  default: MODEL_LIMIT(0, "std::visit on a valueless variant");')
        out.append('}')
        self.pre = saved_pre
        self.pre.extend(out)
        return res

    # ------------------------------------------------------------------ std::views pipelines
    def define_pipeline(self, v, init, sp):
        stages = []
        node = init
        while True:
            node = self.skip(node)
            if node.get('kind') == 'CXXOperatorCallExpr' and self.callee_ref(node).get('name') == 'operator|':
                lhs, rhs = node['inner'][1], self.skip(node['inner'][2])
                stages.insert(0, self.pipeline_stage(rhs))
                node = lhs
                continue
            break
        src = node
        if src.get('kind') != 'DeclRefExpr' or not self.is_class(src):
            raise Unsupported('views pipeline over %s' % src.get('kind'))
        if self.ntype(src) not in self.p.indexable:
            raise Unsupported('views pipeline over a %s' % self.ntype(src))
        if not stages:
            raise Unsupported('views pipeline without stages')
        self.fire('views:pipeline:%s' % '|'.join(s['kind'] for s in stages))
        # bound arguments of std::bind are evaluated now (decay-copied into the binder)
        self.pre = []
        for s in stages:
            if s['callable'][0] == 'bind':
                s['bound'] = []
                for a in s['callable'][2]:
                    if a == '_1':
                        s['bound'].append('_1')
                        continue
                    a0 = self.skip(a)
                    ct = self.ntype(a0)
                    tmp = self.newtmp()
                    e = self.expr(a0)
                    self.pre.append('%s %s = %s; /* argument bound by std::bind (copied once) */' % (ct, tmp, e))
                    s['bound'].append((ct, tmp))
        self.flush(sp)
        self.pipelines[v['id']] = {'source': src, 'stages': stages, 'name': v['name']}
        self.pending_pipeline = v['id']
        self.emit('%s/* lazy view %s (line %s): %s -- evaluated where it is consumed */' % (sp, v['name'], line_of(v), ' | '.join(s['kind'] for s in stages)))

    def pipeline_stage(self, rhs):
        t = strip_type(dqt(rhs))
        m = re.match(r'std::ranges::views::__adaptor::_Partial<std::ranges::views::_(Filter|Transform),', t)
        if not m or rhs.get('kind') != 'CXXOperatorCallExpr' or self.callee_ref(rhs).get('name') != 'operator()':
            raise Unsupported('views pipeline stage of type %s' % t[:120])
        ops = rhs['inner'][1:]
        ad = self.skip(ops[0])
        want = 'std::ranges::views::_' + m.group(1)
        if ad.get('kind') != 'DeclRefExpr' or strip_type(dqt(ad)) != want or len(ops) != 2:
            raise Unsupported('views pipeline stage: adaptor object %s' % strip_type(dqt(ad)))
        return {'kind': m.group(1).lower(), 'callable': self.classify_callable(self.skip(ops[1])), 'line': line_of(rhs)}

    def classify_callable(self, c):
        k = c.get('kind')
        if k == 'DeclRefExpr' and c['referencedDecl']['id'] in self.lambdas:
            return ('lambda', self.lambdas[c['referencedDecl']['id']], c['referencedDecl'].get('name'))
        if k == 'LambdaExpr':
            return ('lambda', c, 'line %s' % line_of(c))
        if k == 'UnaryOperator' and c.get('opcode') == '&':
            d = self.skip(c['inner'][0])
            if d.get('kind') == 'DeclRefExpr' and d['referencedDecl'].get('kind') in ('CXXMethodDecl', 'FunctionDecl'):
                return ('fnptr', d['referencedDecl'])
        if k in ('CallExpr',) and self.callee_ref(c).get('name') == 'bind' and strip_type(dqt(c)).startswith('std::_Bind<'):
            args = c['inner'][1:]
            f = self.classify_callable(self.skip(args[0]))
            if f[0] != 'fnptr':
                raise Unsupported('std::bind of something that is not the address of a function')
            bound = []
            for a in args[1:]:
                a0 = self.skip(a)
                if a0.get('kind') == 'DeclRefExpr' and re.match(r'std::_Placeholder<(\d+)>$', strip_type(dqt(a0))):
                    if strip_type(dqt(a0)) != 'std::_Placeholder<1>':
                        raise Unsupported('std::bind placeholder other than _1')
                    bound.append('_1')
                else:
                    bound.append(a)
            if bound.count('_1') != 1:
                raise Unsupported('std::bind must use _1 exactly once')
            return ('bind', f[1], bound)
        raise Unsupported('views pipeline callable %s' % k)

    def call_fnptr(self, rd, args):
        """call of a repository function named by its address; args = [(ctype, cexpr)]"""
        key = 'fnptr:%s:%s' % (rd.get('name'), re.sub(r'\s+\)', ')', canon(rd.get('type', {}).get('qualType', ''))))
        rule = self.p.calls.get(key)
        if rule is None:
            raise Unsupported(key)
        self.fire(key)
        cargs = [('&' + e if ct in self.p.class_types else e) for ct, e in args]
        self.repo_callees.add(rule[1])
        if rule[0] == 'calleeret':
            t = self.newtmp()
            self.pre.append('%s %s; %s(&%s%s);' % (rule[2], t, rule[1], t, ''.join(', ' + a for a in cargs)))
            return rule[2], t
        if rule[0] == 'callee':
            t = self.newtmp()
            self.pre.append('%s %s = %s(%s);' % (rule[2], t, rule[1], ', '.join(cargs)))
            return rule[2], t
        raise Unsupported('rule kind %s for %s' % (rule[0], key))

    def apply_stage(self, s, elem):
        """-> (ctype, cexpr) of the stage's result for element elem = (ctype, cexpr); code goes to self.pre"""
        c = s['callable']
        if c[0] == 'lambda':
            m = self.lambda_method(c[1])
            rett = qt(m).split('(')[0].strip()
            e = self.expand_lambda(c[1], [elem[1]], 'views:' + s['kind'])
            return self.ctype(rett), e
        if c[0] == 'fnptr':
            return self.call_fnptr(c[1], [elem])
        if c[0] == 'bind':
            args = [elem if b == '_1' else b for b in s['bound']]
            return self.call_fnptr(c[1], args)
        raise Unsupported('callable ' + c[0])

    def consumes_pipeline(self, n):
        if n.get('kind') != 'DeclStmt' or len(children(n)) != 1:
            return False
        v = children(n)[0]
        init = children(v)
        if v.get('kind') != 'VarDecl' or not init:
            return False
        c = self.skip(init[0])
        if c.get('kind') != 'CXXConstructExpr':
            return False
        args = [a for a in children(c) if a.get('kind') != 'CXXDefaultArgExpr']
        if len(args) != 2:
            return False
        ids = []
        for a, nm in zip(args, ('begin', 'end')):
            a = self.skip(a)
            if a.get('kind') != 'CXXMemberCallExpr' or len(a['inner']) != 1:
                return False
            me = self.skip(a['inner'][0])
            base = self.skip(me['inner'][0]) if me.get('inner') else {}
            if me.get('name') != nm or base.get('kind') != 'DeclRefExpr':
                return False
            ids.append(base['referencedDecl']['id'])
        return ids == [self.pending_pipeline, self.pending_pipeline]

    def consume_pipeline(self, v, c, sp):
        pl = self.pipelines[self.pending_pipeline]
        self.pending_pipeline = None
        vt = self.ntype(v)
        if vt not in self.p.appendable:
            raise Unsupported('views pipeline consumed into a %s' % vt)
        push, init = self.p.appendable[vt]
        size_t, elem_t, elem_ct = self.p.indexable[self.ntype(pl['source'])]
        self.fire('views:consume:%s(begin,end)' % vt)
        cn, ct = self.declare_local(v, sp)
        self.emit('%s%s %s;' % (sp, ct, cn))
        self.emit('%s%s(&%s);' % (sp, init, cn))
        r = self.addr(pl['source'])
        num = self.loops
        self.loops += 1
        idx = '__i%d' % num
        self.names.add(idx)
        self.emit('%s{' % sp)
        self.emit('%s  long %s = 0;' % (sp, idx))
        self.emit('%s  for (; %s < %s; %s++)' % (sp, idx, size_t.format(r=r), idx))
        self.emit('%s  /*@LOOP%d@*/' % (sp, num))
        self.emit('%s  {' % sp)
        isp = sp + '    '
        self.emit('%s/* views pipeline %s: element %s of %s */' % (isp, pl['name'], idx, self.expr(pl['source'])))
        e0 = '__e%d' % num
        self.names.add(e0)
        self.emit('%s%s %s = %s;' % (isp, elem_ct, e0, elem_t.format(r=r, i=idx)))
        elem = (elem_ct, e0)
        for s in pl['stages']:
            self.pre = []
            rt, re_ = self.apply_stage(s, elem)
            self.emit('%s/* views::%s (line %s) */' % (isp, s['kind'], s['line']))
            self.flush(isp)
            if s['kind'] == 'filter':
                if rt != 'bool':
                    raise Unsupported('filter predicate returning %s' % rt)
                self.emit('%sif (!%s) continue;' % (isp, re_))
            else:
                elem = (rt, re_)
        if elem[0] != self.p.elem_of[vt]:
            raise Unsupported('pipeline yields %s, container holds %s' % (elem[0], self.p.elem_of[vt]))
        self.emit('%s%s(&%s, %s);' % (isp, push, cn, ('&' + elem[1]) if elem[0] in self.p.class_types else elem[1]))
        self.emit('%s  }' % sp)
        self.emit('%s}' % sp)
        self.emit('%s/* views pipeline %s consumed into %s */' % (sp, pl['name'], cn))


# ---------------------------------------------------------------------------------------------------- context generators
def _record(src, cls, xf=()):
    decls = [d for d in astx.find_decls(src, cls, 'CXXRecordDecl', cls.split('::')[-1], xf) if d.get('completeDefinition')]
    ids = {d['id'] for d in decls}
    if len(ids) != 1:
        raise astx.ExtractError('record %s: %d complete definitions found' % (cls, len(ids)))
    return decls[0]


def _defaulted_spaceship(rec, cls):
    """the record must order its values by a defaulted operator<=> and declare no comparison operator of its own"""
    ok = False
    for c in children(rec):
        if c.get('kind') == 'CXXMethodDecl' and c.get('name', '').startswith('operator') and c.get('name')[8:] in ('<=>', '==', '<', '>', '<=', '>=', '!='):
            if c.get('isImplicit'):
                continue
            if c.get('name') == 'operator<=>' and c.get('explicitlyDefaulted') == 'default':
                ok = True
                continue
            raise Unsupported('%s declares its own %s: the generated rank does not apply' % (cls, c.get('name')))
    if not ok:
        raise Unsupported('%s has no defaulted operator<=>' % cls)


def generate_rank(src, cls, enum_counts, xf=()):
    """C layout + comparison macros of a class derived from std::variant<alternatives...>, from the AST.
    Returns (C text, info) with info = {'alts': [names in variant order], 'fields': {alt: [(field, enum type)]}}"""
    rec = _record(src, cls, xf)
    bases = rec.get('bases', [])
    if len(bases) != 1:
        raise Unsupported('%s: expected exactly one base class' % cls)
    bt = canon(bases[0]['type'].get('desugaredQualType', bases[0]['type']['qualType']))
    m = re.match(r'std::variant<(.*)>$', bt)
    if not m:
        raise Unsupported('%s: base class is %s, not std::variant' % (cls, bt))
    own = None
    for c in children(rec):
        if c.get('kind') == 'FieldDecl':
            raise Unsupported('%s has data members of its own' % cls)
        if c.get('kind') == 'CXXMethodDecl' and c.get('name', '').startswith('operator') and not c.get('isImplicit') and c['name'][8:] in ('<=>', '==', '<'):
            if c['name'] == 'operator<=>' and astx.has_body(c) and not c.get('explicitlyDefaulted') and own is None:
                # a user-provided three-way comparison of the class itself: a non-template exact match, it is what `a < b` (std::ranges::less)
                # calls instead of the std::variant base's operator<; it is a repository function and is lowered, not modelled (operator== stays the base's)
                own = c
                continue
            raise Unsupported('%s declares its own %s' % (cls, c['name']))
    alts = [canon(a) for a in split_top(m.group(1))]
    if len(set(alts)) != len(alts):
        raise Unsupported('variant with repeated alternatives')
    out = ['/* generated from the AST of %s : std::variant<%s> */' % (cls, ', '.join(alts))]
    out.append('enum { %s, %s_NALT = %d };' % (', '.join('%s_IDX_%s = %d' % (cls, a, i) for i, a in enumerate(alts)), cls, len(alts)))
    fields = {}
    valid = []
    for a in alts:
        ar = _record(src, a, xf)
        _defaulted_spaceship(ar, a)
        if ar.get('bases'):
            raise Unsupported('alternative %s has base classes' % a)
        fl = []
        for c in children(ar):
            if c.get('kind') == 'FieldDecl':
                et = canon(c['type'].get('desugaredQualType', c['type']['qualType']))
                if et not in enum_counts:
                    raise Unsupported('alternative %s: member %s of type %s is not one of the known enums' % (a, c['name'], et))
                fl.append((c['name'], et))
        if fl:
            fields[a] = fl
            out.append('typedef struct %s { %s } %s;   /* members in declaration order */' % (a, ' '.join('int %s;' % f for f, _ in fl), a))
            less = 'false'
            for f, _ in reversed(fl):
                less = '((a).%s < (b).%s || ((a).%s == (b).%s && %s))' % (f, f, f, f, less)
            out.append('#define %s_LESS(a, b) %s   /* defaulted operator<=>: lexicographic over the members */' % (a, less))
            out.append('#define %s_EQ(a, b) (%s)' % (a, ' && '.join('(a).%s == (b).%s' % (f, f) for f, _ in fl)))
            out.append('#define %s_VALID(a) (%s)' % (a, ' && '.join('0 <= (a).%s && (a).%s < %d' % (f, f, enum_counts[et]) for f, et in fl)))
            valid.append('((m).index != %s_IDX_%s || %s_VALID((m).alt_%s))' % (cls, a, a, a))
    out.append('typedef struct %s { int index; %s } %s;   /* index() of the variant + the alternatives that carry data */'
               % (cls, ' '.join('%s alt_%s;' % (a, a) for a in alts if a in fields), cls))
    less_alt = ' || '.join('((a).index == %s_IDX_%s && %s_LESS((a).alt_%s, (b).alt_%s))' % (cls, a, a, a, a) for a in alts if a in fields) or 'false'
    eq_alt = ' && '.join('((a).index != %s_IDX_%s || %s_EQ((a).alt_%s, (b).alt_%s))' % (cls, a, a, a, a) for a in alts if a in fields) or 'true'
    out.append('/* A-STD-VARIANT-ORDER: operator< / operator== of std::variant compare index() first, then the held alternatives */')
    if own is None:
        out.append('#define %s_LESS(a, b) ((a).index < (b).index || ((a).index == (b).index && (%s)))' % (cls, less_alt))
    else:
        out.append('/* %s declares its own operator<=> : operator< is (a <=> b) < 0 with the LOWERED body of that function (%s_CMP, see below) */' % (cls, cls))
        out.append('#define CMP3(x, y) ((x) < (y) ? -1 : ((x) > (y) ? 1 : 0))   /* built-in <=> on integers */')
        out.append('#define %s_LESS(a, b) (%s_CMP(a, b) < 0)' % (cls, cls))
    out.append('#define %s_EQ(a, b) ((a).index == (b).index && %s)' % (cls, eq_alt))
    out.append('#define %s_VALID(m) (0 <= (m).index && (m).index < %s_NALT%s)' % (cls, cls, ''.join(' && ' + v for v in valid)))
    return '\n'.join(out) + '\n', {'alts': alts, 'fields': fields, 'own_spaceship': own}


def enum_count(src, etype, xf=()):
    """number of enumerators of an enum whose values are 0..n-1 in declaration order (checked)"""
    vals = ctx.enum_values(src, etype, xf)
    if list(vals.values()) != list(range(len(vals))):
        raise Unsupported('enum %s does not number its constants 0..n-1 in declaration order' % etype)
    return len(vals), vals
