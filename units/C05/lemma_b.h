/* units/C05/lemma_b.h -- lemma harnesses over the contracts of SaslMechanism::fromString / toString only */
#include <stdlib.h>
long g_k;
void h_roundtrip(void)
{
  SaslMechanism m;
  if (!SaslMechanism_VALID(m)) return;
  g_m = m;
  QStr s;
  SaslMechanism_toString(&m, &s);
  OptSaslMechanism r;
  SaslMechanism_fromString(&r, QStr_view(&s));
  __CPROVER_assert(r.has && SaslMechanism_EQ(r.v, m), "[lemma.roundtrip.fromString_of_toString_is_identity]");
}
void h_roundtrip_inverse(void)
{
  SaslMechanism gm; g_m = gm; g_k = nondet_long();
  qsv s;
  s.n = nondet_long();
  if (s.n < 0 || s.n > QSV_MAX) return;
  s.p = malloc(s.n * sizeof(quint16));
  if (s.p == 0) return;
  if (!HT_FINDING_SPLIT(s)) return;   /* (split of the fixed finding C05-ht-garbled-name; the macro is 1 now) */
  OptSaslMechanism r;
  SaslMechanism_fromString(&r, s);
  if (!r.has) return;
  QStr t;
  SaslMechanism_toString(&r.v, &t);
  __CPROVER_assert(t.n == s.n && (!(0 <= g_k && g_k < s.n) || t.d[g_k] == s.p[g_k]), "[lemma.roundtrip.recognised_string_is_toString_of_the_result]");
}
