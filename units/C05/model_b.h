/* units/C05/model_b.h -- concrete strings for fromString / toString (ASSUMED contracts of Qt 5.15 QStringView / QString / QStringBuilder).
 * A-QSV     QStringView = (pointer to UTF-16 code units, length), of ANY length (the buffer is symbolic); operator== : same length and
 *           same code units; startsWith(needle) : at least as long and the first needle.size() units equal (case sensitive; the
 *           needles here are non-empty literals); mid(pos) : Qt 5.15 clamps pos into [0, size] and returns the rest; size().
 * A-QSTRING QString / QStringBuilder results are value strings of at most QSTR_CAP code units (every mechanism name has <= 21;
 *           a longer result is a MODEL-LIMIT, never a verdict); u"..."_s and operator+ (QStringBuilder) concatenate code units.
 * Loops below run over literal lengths / QSTR_CAP only and are fully unwound (unwinding assertions on). */
#ifndef C05_MODEL_B_H
#define C05_MODEL_B_H
#include <stdlib.h>
typedef struct qsv { const quint16 *p; long n; } qsv;
#define QSV(ptr, len) ((qsv){ (ptr), (len) })
#define QSV_MAX 1048576L
#define QSTR_CAP 24
typedef struct QStr { long n; quint16 d[QSTR_CAP]; } QStr;

static inline bool qsv_eq(qsv a, qsv b)
{
  if (a.n != b.n) return false;
  MODEL_LIMIT(b.n <= QSTR_CAP, "comparison with a string longer than any literal");
  for (long i = 0; i < QSTR_CAP; i++) { if (i < b.n && a.p[i] != b.p[i]) return false; }
  return true;
}
static inline bool qsv_startsWith(qsv hay, qsv needle)
{
  MODEL_LIMIT(needle.n > 0 && needle.n <= QSTR_CAP, "startsWith with an empty or very long needle");
  if (needle.n > hay.n) return false;
  for (long i = 0; i < QSTR_CAP; i++) { if (i < needle.n && hay.p[i] != needle.p[i]) return false; }
  return true;
}
static inline qsv qsv_mid(qsv s, long long pos)
{
  long b = pos < 0 ? 0 : (pos > s.n ? s.n : (long)pos);   /* qBound(0, pos, size) */
  qsv r; r.p = s.p + b; r.n = s.n - b; return r;
}
/* QChar::isSpace(): U+0009..U+000D, U+0020, U+0085, U+00A0 and the Unicode space separators (Zs), line and paragraph separator */
static inline bool qchar_isSpace(quint16 c)
{
  return (c >= 0x09 && c <= 0x0d) || c == 0x20 || c == 0x85 || c == 0xa0 || c == 0x1680 || (c >= 0x2000 && c <= 0x200a) || c == 0x2028 || c == 0x2029 || c == 0x202f || c == 0x205f || c == 0x3000;
}
long g_trim_k;   /* witness position for trimmed() */
/* QStringView::trimmed(): a leading and b trailing code units are dropped; every dropped unit is a space (witness g_trim_k); what remains
   neither starts nor ends with a space (an all-space string gives the empty view).  The result is presented as a view of its own buffer whose
   first QSTR_CAP code units are those of the remaining text (every comparison in the lowered code looks at <= QSTR_CAP units, and no mechanism
   name is longer): this keeps the reads of the caller's buffer at symbolic positions few. */
static inline qsv qsv_trimmed(qsv s)
{
  long a = nondet_long(), b = nondet_long();
  __CPROVER_assume(0 <= a && 0 <= b && a <= s.n && b <= s.n - a);
  __CPROVER_assume(a + b == s.n || (!qchar_isSpace(s.p[a]) && !qchar_isSpace(s.p[s.n - b - 1])));
  __CPROVER_assume(!(0 <= g_trim_k && g_trim_k < s.n && (g_trim_k < a || g_trim_k >= s.n - b)) || qchar_isSpace(s.p[g_trim_k]));
  __CPROVER_assume((a == 0 || qchar_isSpace(s.p[0])) && (b == 0 || qchar_isSpace(s.p[s.n - 1])));   /* in particular: nothing is dropped from a text without spaces at its ends */
  qsv r;
  r.n = s.n - a - b;
  quint16 *t = malloc(r.n * sizeof(quint16));
  __CPROVER_assume(t != 0);
  for (long i = 0; i < QSTR_CAP; i++) { if (i < r.n) __CPROVER_assume(t[i] == s.p[a + i]); }
  r.p = t;
  return r;
}
static inline void QStr_from(QStr *r, qsv s)
{
  MODEL_LIMIT(0 <= s.n && s.n <= QSTR_CAP, "string longer than the model represents");
  r->n = s.n;
  for (long i = 0; i < QSTR_CAP; i++) { r->d[i] = (i < s.n) ? s.p[i] : 0; }
}
static inline void QStr_concat(QStr *r, qsv a, qsv b)
{
  MODEL_LIMIT(0 <= a.n && 0 <= b.n && a.n <= QSTR_CAP && b.n <= QSTR_CAP - a.n, "string longer than the model represents");
  QStr t;
  t.n = a.n + b.n;
  for (long i = 0; i < QSTR_CAP; i++) { t.d[i] = (i < a.n) ? a.p[i] : ((i < a.n + b.n) ? b.p[i - a.n] : 0); }
  *r = t;
}
static inline qsv QStr_view(const QStr *s) { qsv r; r.p = s->d; r.n = s->n; return r; }

typedef struct OptInt { bool has; int v; } OptInt;
typedef struct OptScram { bool has; SaslScramMechanism v; } OptScram;
typedef struct OptHt { bool has; SaslHtMechanism v; } OptHt;
typedef struct OptSaslMechanism { bool has; SaslMechanism v; } OptSaslMechanism;
static inline void OptInt_some(OptInt *o, int v) { o->has = true; o->v = v; }
static inline void OptScram_some(OptScram *o, const SaslScramMechanism *v) { o->has = true; o->v = *v; }
static inline void OptHt_some(OptHt *o, const SaslHtMechanism *v) { o->has = true; o->v = *v; }
static inline void OptSaslMechanism_some(OptSaslMechanism *o, const SaslMechanism *v) { o->has = true; o->v = *v; }
#endif
