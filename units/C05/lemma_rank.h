/* units/C05/lemma_rank.h -- the rank generated from the AST (SaslMechanism_LESS: variant alternative order, enumerator order,
 * member order of the defaulted operator<=>) satisfies the order the PROPERTY prescribes:
 *     FAST token (HT)  >  SCRAM, by hash strength  >  DIGEST-MD5  >  PLAIN  >  ANONYMOUS
 * and is a strict total order on mechanism values (so "a maximum" is well defined).  The property says nothing about the three
 * legacy X- mechanisms; they get family 0 here and no clause speaks about them. */
#define ALG(n) QXmpp_Private_SaslScramMechanism_Algorithm__##n
static inline int prop_family(const SaslMechanism *m)
{
  return m->index == SaslMechanism_IDX_SaslHtMechanism ? 5 : m->index == SaslMechanism_IDX_SaslScramMechanism ? 4 :
         m->index == SaslMechanism_IDX_SaslDigestMd5Mechanism ? 3 : m->index == SaslMechanism_IDX_SaslPlainMechanism ? 2 :
         m->index == SaslMechanism_IDX_SaslAnonymousMechanism ? 1 : 0;
}
/* digest length in bits of the hash a SCRAM variant uses (FIPS 180-4, FIPS 202) */
static inline int prop_scram_bits(int alg) { return alg == ALG(Sha1) ? 160 : alg == ALG(Sha256) ? 256 : alg == ALG(Sha512) ? 512 : alg == ALG(Sha3_512) ? 512 : -1; }
void h_rank(void)
{
  SaslMechanism a, b, c;
  if (!(SaslMechanism_VALID(a) && SaslMechanism_VALID(b) && SaslMechanism_VALID(c))) return;
  if (a.index == SaslMechanism_IDX_SaslScramMechanism)
    MODEL_LIMIT(prop_scram_bits(a.alt_SaslScramMechanism.algorithm) > 0, "a SCRAM algorithm the specification does not know");
  __CPROVER_assert(!(prop_family(&a) >= 1 && prop_family(&b) > prop_family(&a)) || SaslMechanism_LESS(a, b), "[lemma.rank.families_in_the_order_of_the_property] token > SCRAM > DIGEST-MD5 > PLAIN > ANONYMOUS");
  __CPROVER_assert(!(prop_family(&a) == 4 && prop_family(&b) == 4 && prop_scram_bits(a.alt_SaslScramMechanism.algorithm) < prop_scram_bits(b.alt_SaslScramMechanism.algorithm)) || SaslMechanism_LESS(a, b),
                   "[lemma.rank.scram_by_hash_strength] a SCRAM variant with a longer digest ranks higher");
  __CPROVER_assert(!SaslMechanism_LESS(a, a), "[lemma.rank.irreflexive]");
  __CPROVER_assert(!(SaslMechanism_LESS(a, b) && SaslMechanism_LESS(b, c)) || SaslMechanism_LESS(a, c), "[lemma.rank.transitive]");
  __CPROVER_assert(SaslMechanism_LESS(a, b) || SaslMechanism_LESS(b, a) || SaslMechanism_EQ(a, b), "[lemma.rank.total] two different mechanism values are always ordered");
  __CPROVER_assert(!(SaslMechanism_EQ(a, b) && SaslMechanism_LESS(a, c)) || SaslMechanism_LESS(b, c), "[lemma.rank.equal_values_rank_equally]");
}
