"""C15: lowering profile for the ICE component (opaque strings / byte strings, value records, witness containers)"""
import re
from vlib.opaque_profile import opaque_profile
from vlib.cxx2c import Lowerer, Unsupported, rangefor_indexed, qt

MAP = 'QMap<QXmppStunTransaction*,QXmppIceTransportDetails>'


def new_expr(lw, n):
    """new CandidatePair(a, b, parent): a fresh object on which the real (lowered) constructor runs"""
    ce = [c for c in n.get('inner', []) if c.get('kind') == 'CXXConstructExpr']
    if len(ce) != 1 or lw.ntype(ce[0]) not in ('CandidatePair', 'QXmppStunTransaction'):
        raise Unsupported('new-expression of %s' % qt(n))
    args = [a for a in ce[0].get('inner', [])]
    if lw.ntype(ce[0]) == 'QXmppStunTransaction':
        # new QXmppStunTransaction(request, receiver): a fresh transaction object holding a copy of the request (Qt object: opaque handle)
        if len(args) != 2:
            raise Unsupported('new QXmppStunTransaction with %d arguments' % len(args))
        return 'QXmppStunTransaction_new(%s)' % lw.arg(args[0])
    if len(args) != 3:
        raise Unsupported('new CandidatePair with %d arguments' % len(args))
    return 'CandidatePair_new(%s, %s)' % (lw.expr(args[0]), lw.expr(args[1]))


def qobject_cast(lw, node, args):
    """qobject_cast<T *>(sender()): the sender as a T, or NULL (the harness / precondition says which kind of object gh_sender is)"""
    return '((%s)%s)' % (lw.ntype(lw.skip(node)), args[0])


class CtorLowerer(Lowerer):
    """a constructor: the member initialisers (explicit and implicit, in clang's order) become assignments before the body"""

    def stmt(self, n, ind):
        if ind == 0 and n.get('kind') == 'CompoundStmt' and not getattr(self, '_inits_done', False):
            self._inits_done = True
            self.emit('{')
            for c in self.decl['inner']:
                if c.get('kind') == 'CXXCtorInitializer':
                    self.ctor_init(c)
            for c in n.get('inner', []):
                self.stmt(c, 1)
            self.emit('}')
            return
        return super().stmt(n, ind)

    def ctor_init(self, c):
        sp = '  '
        self.pre = []
        if 'baseInit' in c:
            key = 'ctorbase:' + c['baseInit']['qualType']
            if self.p.calls.get(key) != ('drop',):
                raise Unsupported(key)
            self.fire(key)
            self.dropped.append({'call': key, 'line': None})
            return
        f = c.get('anyInit')
        if not f or f.get('kind') != 'FieldDecl':
            raise Unsupported('constructor initialiser %r' % {k: v for k, v in c.items() if k != 'inner'})
        init = c['inner'][0]
        ct = self.ctype(f['type']['qualType'])
        tgt = 'self->' + f['name']
        i0 = self.skip(init)
        if ct in self.p.class_types:
            if i0.get('kind') not in ('CXXConstructExpr', 'CXXTemporaryObjectExpr'):
                raise Unsupported('class member %s initialised by %s' % (f['name'], i0.get('kind')))
            self.construct(i0, tgt)
            self.flush(sp)
            return
        if i0.get('kind') in ('CXXConstructExpr', 'CXXTemporaryObjectExpr'):
            e = self.construct_value(i0, ct, None)
        else:
            e = self.expr(init)
        self.flush(sp)
        self.emit('%s%s = %s;' % (sp, tgt, e))


def profile():
    p = opaque_profile(
        types={
            'QXmppJingleCandidate': 'QXmppJingleCandidate', 'QXmppJingleCandidate::Type': 'int', 'CandidatePair': 'CandidatePair',
            'CandidatePair::State': 'int', 'State': 'int', 'QXmppIceTransport': 'QXmppIceTransport', 'QXmppStunTransaction': 'QXmppStunTransaction',
            'QHostAddress': 'IceHostAddress', 'QByteArray': 'qba', 'QStringList': 'QStringList', 'QSet<quint16>': 'QSetU16',
            'QSet<unsigned short>': 'QSetU16', 'AttributeType': 'int', 'QXmppStunMessage': 'QXmppStunMessage', 'QXmppIceComponent': 'QXmppIceComponent',
            'QXmppIceComponentPrivate': 'QXmppIceComponentPrivate', 'std::unique_ptr<QXmppIceComponentPrivate>': 'QXmppIceComponentPrivate*',
            'std::unique_ptr<QXmppIceComponentPrivate>::pointer': 'QXmppIceComponentPrivate*',
            'QXmppIcePrivate': 'QXmppIcePrivate', 'QXmppIceConnection::GatheringState': 'int', 'QList<QXmppJingleCandidate>': 'QListCand',
            'QList<CandidatePair*>': 'QListPairPtr', 'QList<CandidatePair*>::iterator': 'QListPairPtr', 'QTimer': 'QTimer', MAP: 'QMapTx', MAP + '::const_iterator': 'QMapTxIter',
            'QXmppIceTransportDetails': 'QXmppIceTransportDetails', 'QXmppTurnAllocation': 'QXmppTurnAllocation', 'QObject': 'void',
            'QXmppStunMessage::MethodType': 'int', 'QXmppStunMessage::ClassType': 'int', 'QList<QString>': 'QStringList',
        },
        class_types={'QXmppJingleCandidate', 'CandidatePair', 'IceHostAddress', 'QStringList', 'QSetU16', 'QXmppStunMessage', 'QListCand', 'QListPairPtr',
                     'QMapTx', 'QMapTxIter', 'QXmppIceTransportDetails'},
        calls={
            # QXmppJingleCandidate is a value record (QSharedDataPointer to QXmppJingleCandidatePrivate): getters read, setters write the member
            'QXmppJingleCandidate::type/0': ('expr', '{v0}.type'),
            'QXmppJingleCandidate::component/0': ('expr', '{v0}.component'),
            'QXmppJingleCandidate::priority/0': ('expr', '{v0}.priority'),
            'QXmppJingleCandidate::port/0': ('expr', '{v0}.port'),
            'QXmppJingleCandidate::host/0': ('expr', '{v0}.host'),
            'QXmppJingleCandidate::setComponent/1': ('expr', '{v0}.component = {1}'),
            'QXmppJingleCandidate::setHost/1': ('expr', '{v0}.host = {v1}'),
            'QXmppJingleCandidate::setId/1': ('expr', '{v0}.id = {1}'),
            'QXmppJingleCandidate::setPort/1': ('expr', '{v0}.port = {1}'),
            'QXmppJingleCandidate::setPriority/1': ('expr', '{v0}.priority = {1}'),
            'QXmppJingleCandidate::setProtocol/1': ('expr', '{v0}.protocol = {1}'),
            'QXmppJingleCandidate::setType/1': ('expr', '{v0}.type = {1}'),
            'QXmppJingleCandidate::setFoundation/1': ('expr', '{v0}.foundation = {1}'),
            'ctor:QXmppJingleCandidate()': ('fn', 'QXmppJingleCandidate_ctor'),
            'op=:QXmppJingleCandidate:QXmppJingleCandidate': ('expr', '{v0} = {v1}'),
            'QXmppIceTransport::localCandidate/1': ('calleeret', 'QXmppIceTransport_localCandidate'),
            'fn:qMin/2': ('expr', '({0}) < ({1}) ? ({0}) : ({1})'),
            'fn:qMax/2': ('expr', '({0}) < ({1}) ? ({1}) : ({0})'),
            # d-pointer
            'op->:QXmppIceComponentPrivate*': ('arg', 0),
            # QObject::sender() + qobject_cast<QXmppIceTransport *>: the sending transport or NULL
            'QXmppIceComponent::sender/0': ('const', 'gh_sender'),
            'fn:qobject_cast/1': qobject_cast,
            # opaque byte strings
            'ctor:qba()': ('const', '((qba)0)'),
            'op==:qba:qba': ('expr', '{0} == {1}'),
            'op!=:qba:qba': ('expr', '{0} != {1}'),
            'qba::isEmpty/0': ('expr', '{0} == 0'),
            'qba::size/0': ('fn', 'qba_size'),
            'ctor:qba(int,char)': ('fn', 'qba_filled'),
            'qstr::toUtf8/0': ('fn', 'qstr_toUtf8'),
            'qstr::arg/2': ('const', 'qstr_fresh_nonempty()'),
            'fn:generateStanzaHash/1': ('const', 'qstr_fresh_nonempty()'),
            # QHostAddress
            'ctor:IceHostAddress()': ('fn', 'IceHostAddress_ctor_null'),
            'op==:IceHostAddress:IceHostAddress': ('fn', 'IceHostAddress_eq'),
            'op!=:IceHostAddress:IceHostAddress': ('fn', 'IceHostAddress_ne'),
            'op=:IceHostAddress:IceHostAddress': ('fn', 'IceHostAddress_assign'),
            # STUN message: codec entry points by contract (verified in C14), trivial accessors lowered from the real source
            'fn:peekType/3': ('callee', 'QXmppStunMessage_peekType'),
            'QXmppStunMessage::decode/3': ('callee', 'QXmppStunMessage_decode'),
            'QXmppStunMessage::encode/1': ('callee', 'QXmppStunMessage_encode'),
            'QXmppIceTransport::writeDatagram/3': ('callee', 'QXmppIceTransport_writeDatagram'),
            'QXmppStunMessage::messageMethod/0': ('callee', 'QXmppStunMessage_messageMethod'),
            'QXmppStunMessage::messageClass/0': ('callee', 'QXmppStunMessage_messageClass'),
            'QXmppStunMessage::id/0': ('callee', 'QXmppStunMessage_id'),
            'QXmppStunMessage::setId/1': ('callee', 'QXmppStunMessage_setId'),
            'QXmppStunMessage::type/0': ('callee', 'QXmppStunMessage_type'),
            'QXmppStunMessage::setType/1': ('callee', 'QXmppStunMessage_setType'),
            'QXmppStunMessage::priority/0': ('callee', 'QXmppStunMessage_priority'),
            'QXmppStunMessage::setPriority/1': ('callee', 'QXmppStunMessage_setPriority'),
            'QXmppStunMessage::setUsername/1': ('callee', 'QXmppStunMessage_setUsername'),
            'op<<:QSetU16': ('fn', 'QSetU16_insert'),
            'fn:generateRandomBytes/1': ('fn', 'qba_random'),
            'ctor:QXmppStunMessage()': ('fn', 'QXmppStunMessage_QXmppStunMessage'),
            'ctor:QStringList()': ('zero',),
            # the diagnostics list filled by decode(): how many strings it holds is whatever decode's contract leaves open (n >= 0)
            'QStringList::isEmpty/0': ('expr', '(({0})->n == 0)'),
            'QStringList::size/0': ('expr', '(({0})->n)'),
            'QStringList::count/0': ('expr', '(({0})->n)'),
            'QStringList::join/1': ('const', 'nondet_int()'),
            'ctor:QSetU16()': ('zero',),
            'ctorbase:QXmppLoggable': ('drop',),
            # transactions, pairs
            'QXmppStunTransaction::request/0': ('calleeret', 'QXmppStunTransaction_request'),
            'QXmppStunTransaction::readStun/1': ('callee', 'QXmppStunTransaction_readStun'),
            'CandidatePair::state/0': ('callee', 'CandidatePair_state'),
            'CandidatePair::priority/0': ('callee', 'CandidatePair_priority'),
            'QXmppIceComponentPrivate::writeStun/4': ('callee', 'QXmppIceComponentPrivate_writeStun'),
            'QXmppIceComponentPrivate::performCheck/2': ('callee', 'QXmppIceComponentPrivate_performCheck'),
            'expr:CXXNewExpr': new_expr,
            # transactionFinished
            'QXmppStunTransaction::deleteLater/0': ('drop',),
            'QXmppIceComponentPrivate::findPair/1': ('callee', 'QXmppIceComponentPrivate_findPair'),
            'QXmppStunTransaction::response/0': ('calleeret', 'QXmppStunTransaction_response'),
            'IceHostAddress::isNull/0': ('expr', '{v0}.proto == -1'),
            'CandidatePair::setState/1': ('callee', 'CandidatePair_setState'),
            'QXmppJingleCandidate::protocol/0': ('expr', '{v0}.protocol'),
            'QMapTx::value/1': ('fnret', 'QMapTx_value', 'QXmppIceTransportDetails'),
            'QMapTx::remove/1': ('fn', 'QMapTx_remove'),
            'fn:candidatePriority/1': ('callee', 'candidatePriority'),
            'fn:computeFoundation/3': ('callee', 'computeFoundation'),
            'QXmppIceComponent::localCandidatesChanged/0': ('expr', 'ev_localCandidatesChanged()'),
            'QXmppIceComponent::updateGatheringState/0': ('callee', 'QXmppIceComponent_updateGatheringState'),
            # containers
            'fn:as_const/1': ('arg', 0),
            'rangefor:QListPairPtr': rangefor_indexed('({r})->n', 'QListPairPtr_at({r}, {i})'),
            'rangefor:QListCand': rangefor_indexed('({r})->n', '(*QListCand_at({r}, {i}))'),
            'rangefor:QStringList': rangefor_indexed('({r})->n', 'QStringList_at({r}, {i})'),
            'op<<:QListPairPtr:CandidatePair*': ('fn', 'QListPairPtr_append'),
            'op<<:QListCand:QXmppJingleCandidate': ('fn', 'QListCand_append'),
            'QListPairPtr::begin/0': ('arg', 0),
            'QListPairPtr::end/0': ('arg', 0),
            'fn:sort/3': ('expr', 'QListPairPtr_sort({0})'),
            'QMapTx::cbegin/0': ('fnret', 'QMapTx_cbegin', 'QMapTxIter'),
            'QMapTx::cend/0': ('fnret', 'QMapTx_cend', 'QMapTxIter'),
            'op!=:QMapTxIter:QMapTxIter': ('fn', 'QMapTxIter_ne'),
            'op++:QMapTxIter:int': ('expr', 'QMapTxIter_inc({0})'),
            'QMapTxIter::key/0': ('fn', 'QMapTxIter_key'),
            'QMapTxIter::value/0': ('fnret', 'QMapTxIter_value', 'QXmppIceTransportDetails'),
            # signals, timer
            'QXmppIceComponent::datagramReceived/1': ('expr', 'ev_datagramReceived({1})'),
            'QXmppIceComponent::connected/0': ('expr', 'ev_connected()'),
            'QTimer::stop/0': ('fn', 'QTimer_stop'),
            '*::logReceived/1': ('drop',), '*::logSent/1': ('drop',),
        },
        pure_fns={'priority', 'toString', 'host', 'port', 'response'},
    )
    # QXmppStunMessage::encode(const QByteArray &key = QByteArray(), bool addFingerprint = true)  (QXmppStun.h)
    p.default_args['bool'] = 'true'
    # candidatePriority(const QXmppJingleCandidate &candidate, int localPref = 65535)  (QXmppStun.cpp)
    p.default_args['int'] = '65535'
    return p
