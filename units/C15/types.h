/* C15 types: objects the ICE component only holds pointers to are opaque (never dereferenced by the verified functions) */
typedef struct QXmppIceTransport QXmppIceTransport;
typedef struct QXmppStunTransaction QXmppStunTransaction;
/* QHostAddress as a tagged value: protocol (QAbstractSocket::NetworkLayerProtocol: IPv4 = 0, IPv6 = 1, Unknown = -1 = null address) + the address bits
   (the ICE component only copies and compares addresses) */
typedef struct IceHostAddress { int proto; quint32 v4; unsigned long long v6hi, v6lo; } IceHostAddress;
