/* C15 container / value types that the generated records refer to (models and their assumptions: units/C15/model.h) */
typedef int qba;                                   /* opaque QByteArray value; 0 = the empty array; == is value equality */
typedef struct QTimer QTimer;
typedef struct QXmppTurnAllocation QXmppTurnAllocation;
struct CandidatePair;
typedef struct QListPairPtr { int n; int wi; struct CandidatePair *w; struct CandidatePair *other; } QListPairPtr;
typedef struct QListCand { int n; int wi; QXmppJingleCandidate w; QXmppJingleCandidate other; int appended; QXmppJingleCandidate last; } QListCand;   /* + ghost: appends so far, last appended value */
typedef struct QMapTx { int n; } QMapTx;
typedef struct QMapTxIter { const QMapTx *m; int i; QXmppStunTransaction *k; QXmppIceTransport *vt; } QMapTxIter;   /* position + the entry there */
typedef struct QXmppIceComponent QXmppIceComponent; typedef struct QXmppIceComponentPrivate QXmppIceComponentPrivate; typedef struct QXmppIcePrivate QXmppIcePrivate;
