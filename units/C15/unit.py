"""C15 -- ICE reacts only to checks authenticated with the session password; RFC 5245 priorities."""
import os
from vlib.unit import Builder, Target, VERIF, scan_assumes
from vlib.runner import Proof
from vlib import ctx, astx
from vlib.cxx2c import Unsupported
from vlib.configure import REPO
from profile import profile, CtorLowerer

STUN = 'src/base/QXmppStun.cpp'
JINGLE = 'src/base/QXmppJingleData.cpp'
QT = os.path.join(VERIF, 'qtmodel')
HERE = os.path.dirname(os.path.abspath(__file__))


# Set to True ONLY after QXmppStunMessage::decode has been changed to reject, when a key is given, a message that carries no MESSAGE-INTEGRITY
# attribute (units/C15/suggested_fix.diff hunks 1-2) and C14/decode.spec proves it: the decode contract used by handleDatagram then gains that clause.
DECODE_FIXED = True
# Set to True ONLY after handleDatagram treats a datagram with one of the two top bits of the type field set as non-STUN (suggested_fix.diff hunk 3).
TYPE_BITS_FIXED = True

HOOKS = [
    {'id': 'performCheck_called', 'fn': 'QXmppIceComponentPrivate_performCheck', 'before': r'^\s*QXmppStunMessage message;',
     'emit': 'gh_pc_calls += 1; gh_pc_pair = pair; gh_pc_nominate = nominate;'},
    {'id': 'writeStun_called', 'fn': 'QXmppIceComponentPrivate_writeStun', 'before': r'^\s*qstr messagePassword = ',
     'emit': 'gh_ws_calls += 1; gh_ws_type = message->m_type; gh_ws_id = message->m_id; gh_ws_transport = transport; gh_ws_port = port; gh_ws_xport = message->xorMappedPort; gh_ws_address = address;'},
    {'id': 'request_for_pair', 'fn': 'QXmppIceComponent_handleDatagram', 'before': r'^\s*switch \(\(\(int\)CandidatePair_state\(pair_2\)\)\)',
     'emit': 'gh_req_pair = pair_2;'},
    {'id': 'response_to_pair', 'fn': 'QXmppIceComponent_handleDatagram', 'before': r'QXmppStunTransaction_readStun\(pair_2->transaction, &message\)',
     'emit': 'gh_rs_pair = pair_2; gh_rs_pair_tx = pair_2->transaction; gh_rs_pair_src_ok = (IceHostAddress_eq(remoteHost, &pair_2->remote.host) && remotePort == pair_2->remote.port);'},
]


def rd(name):
    return open(os.path.join(HERE, name)).read()


def labelled(p, cname, sp, loops=()):
    p.labels = {'post': {cname: sp.labels}, 'inv': {cname: sp.inv_labels.get(0, [])}}
    p.expect_post = len(sp.labels)
    return p


def build(work, tier):
    prof = profile()
    b = Builder('C15', work, prof)
    proofs = []
    inc = [QT]
    # ---------------------------------------------------------------- records generated from the real class definitions
    rec_cand, _ = ctx.emit_record(os.path.join(REPO, JINGLE), 'QXmppJingleCandidatePrivate', 'QXmppJingleCandidatePrivate', 'QXmppJingleCandidate', prof)
    rec_pair, _ = ctx.emit_record(os.path.join(REPO, STUN), 'CandidatePair', 'CandidatePair', 'CandidatePair', prof)
    pre = '#include "opaque.h"\n#include "misc.h"\n' + rd('types.h')
    # ---------------------------------------------------------------- the two priority formulas (loop-free, complete)
    sp_prio = b.spec('prio.spec')
    t_prio = b.lower(Target(STUN, 'candidatePriority', 'candidatePriority', 'candidatePriority'), sp_prio)
    sp_pp = b.spec('pairprio.spec')
    t_pp = b.lower(Target(STUN, 'CandidatePair', 'priority', 'CandidatePair_priority', this='CandidatePair'), sp_pp)
    b.need_enums.setdefault((os.path.join(REPO, STUN), ()), {}).setdefault('QXmppJingleCandidate::Type', set()).update({'HostType', 'PeerReflexiveType', 'ServerReflexiveType', 'RelayedType'})
    context = b.context()
    head = pre + prof.literal_ids.table() + context + '\n' + rec_cand + '\n' + rec_pair + '\n' + rd('prio_spec.h')
    c = head + t_prio + '\nvoid h_candidatePriority(void) { const QXmppJingleCandidate *c; int localPref; candidatePriority(c, localPref); }\n'
    f = b.write('candidatePriority.c', c)
    p = Proof('candidatePriority', f, 'h_candidatePriority', enforce='candidatePriority', kind='complete', loop_contracts=False, include_dirs=inc, timeout=300,
              note='loop-free; every candidate type, component 0..256, local preference 0..65535; signed-overflow checks on')
    proofs.append(labelled(p, 'candidatePriority', sp_prio))
    c = head + t_pp + '\nvoid h_pairPriority(void) { gh_local_priority = nondet_int(); const CandidatePair *s; CandidatePair_priority(s); }\n'
    f = b.write('pairPriority.c', c)
    p = Proof('CandidatePair_priority', f, 'h_pairPriority', enforce='CandidatePair_priority', replace=['QXmppIceTransport_localCandidate'], kind='complete',
              loop_contracts=False, include_dirs=inc, timeout=300,
              note='loop-free; every pair of candidate priorities in 0..2^31-1, both roles; 64-bit arithmetic, overflow checks on')
    proofs.append(labelled(p, 'CandidatePair_priority', sp_pp))
    alltext = c
    # ---------------------------------------------------------------- QXmppIceComponent::handleDatagram: the integrity gate
    S = os.path.join(REPO, STUN)
    rec_msg, _ = ctx.emit_record(S, 'QXmppStunMessage', 'QXmppStunMessage', 'QXmppStunMessage', prof)
    rec_det, _ = ctx.emit_record(S, 'QXmppIceTransportDetails', 'QXmppIceTransportDetails', 'QXmppIceTransportDetails', prof)
    rec_cfg, _ = ctx.emit_record(S, 'QXmppIcePrivate', 'QXmppIcePrivate', 'QXmppIcePrivate', prof, opaque_ok=True)
    rec_priv, _ = ctx.emit_record(S, 'QXmppIceComponent', 'QXmppIceComponentPrivate', 'QXmppIceComponentPrivate', prof, opaque_ok=True)
    rec_comp, _ = ctx.emit_record(S, 'QXmppIceComponent', 'QXmppIceComponent', 'QXmppIceComponent', prof, opaque_ok=True)
    prof.hooks = HOOKS
    sp_hd = b.spec('hd.spec')
    t_hd = b.lower(Target(STUN, 'QXmppIceComponent', 'handleDatagram', 'QXmppIceComponent_handleDatagram', this='QXmppIceComponent'), sp_hd)
    sp_ws = b.spec('ws.spec')
    t_ws = b.lower(Target(STUN, 'QXmppIceComponent', 'writeStun', 'QXmppIceComponentPrivate_writeStun', this='QXmppIceComponentPrivate', nparams=4), sp_ws)
    sp_pc = b.spec('pc.spec')
    t_pc = b.lower(Target(STUN, 'QXmppIceComponent', 'performCheck', 'QXmppIceComponentPrivate_performCheck', this='QXmppIceComponentPrivate'), sp_pc)
    sp_fp = b.spec('fp.spec')
    t_fp = b.lower(Target(STUN, 'QXmppIceComponent', 'findPair', 'QXmppIceComponentPrivate_findPair', this='QXmppIceComponentPrivate'), sp_fp)
    sp_tf = b.spec('tf.spec')
    t_tf = b.lower(Target(STUN, 'QXmppIceComponent', 'transactionFinished', 'QXmppIceComponent_transactionFinished', this='QXmppIceComponent', nparams=0), sp_tf)
    t_ss = b.lower(Target(STUN, 'CandidatePair', 'setState', 'CandidatePair_setState', this='CandidatePair'))
    prof.hooks = []
    # candidatePriority(candidate, localPref = 65535): the default the lowering supplies must be the declared one
    dflt = [[i.get('value') for i in c.get('inner', []) if i.get('kind') == 'IntegerLiteral'] for d in astx.find_decls(S, 'candidatePriority', 'FunctionDecl', 'candidatePriority')
            for c in d.get('inner', []) if c.get('kind') == 'ParmVarDecl' and c.get('name') == 'localPref']
    if not dflt or any(v != ['65535'] for v in dflt):
        raise Unsupported('candidatePriority: default of localPref is not the literal 65535 any more (profile.default_args)')
    # the default argument the lowering supplies for encode(key, addFingerprint = true) must be the declared one
    decl = [d for d in astx.find_decls(S, 'QXmppStunMessage', 'CXXMethodDecl', 'encode') if len([c for c in d.get('inner', []) if c.get('kind') == 'ParmVarDecl']) == 2]
    dflt = [[i.get('value') for i in c.get('inner', []) if i.get('kind') == 'CXXBoolLiteralExpr'] for d in decl for c in d.get('inner', []) if c.get('kind') == 'ParmVarDecl' and c.get('name') == 'addFingerprint']
    if not any(v == [True] for v in dflt):
        raise Unsupported('QXmppStunMessage::encode: default of addFingerprint is not the literal true any more (profile.default_args)')
    small = []
    for cls, name, extra in (('QXmppStunMessage', 'messageClass', {}), ('QXmppStunMessage', 'messageMethod', {}), ('QXmppStunMessage', 'id', {}),
                             ('QXmppStunMessage', 'setId', {}), ('QXmppStunMessage', 'type', {}), ('QXmppStunMessage', 'setType', {}),
                             ('QXmppStunMessage', 'priority', {}), ('QXmppStunMessage', 'setPriority', {}), ('QXmppStunMessage', 'setUsername', {}), ('CandidatePair', 'state', {}),
                             ('QXmppStunMessage', 'QXmppStunMessage', {'nparams': 0, 'lowerer_cls': CtorLowerer}),
                             ('CandidatePair', 'CandidatePair', {'nparams': 3, 'lowerer_cls': CtorLowerer})):
        small.append(b.lower(Target(STUN, cls, name, cls + '_' + name, this=cls, **extra)))
    context = b.context()
    head = pre + prof.literal_ids.table() + context + '\n' + rec_cand + '\n' + rd('containers.h') + rec_pair + '\n' + rec_msg + '\n' + rec_det + '\n' + rec_cfg + '\n' + \
        rec_priv + '\n' + rec_comp + '\n' + rd('prio_spec.h') + rd('model.h') + rd('callees.h') + rd('ws_callees.h') + rd('hd_spec.h') + b.prototype(t_pp) + '\n'.join(small) + '\n'
    harness = '''
void h_handleDatagram(void) {
  gh_sender = nondet_transport_ptr(); gh_local_priority = nondet_int(); gh_d = nondet_d_ptr();
  QXmppIceComponent *self; qba buffer = nondet_qba(); const IceHostAddress *remoteHost; quint16 remotePort;
  QXmppIceComponent_handleDatagram(self, buffer, remoteHost, remotePort);
}
'''
    c = head + b.prototype(t_ws) + b.prototype(t_pc) + t_hd + harness
    REPL = ['QXmppStunMessage_peekType', 'QXmppStunMessage_decode', 'QXmppIceComponentPrivate_writeStun', 'QXmppIceComponentPrivate_performCheck',
            'QXmppStunTransaction_request', 'QXmppStunTransaction_readStun', 'CandidatePair_priority']
    f = b.write('handleDatagram.c', c)
    all_inv = [l for k in sorted(sp_hd.inv_labels) for l in sp_hd.inv_labels[k]]
    os.environ.setdefault('VERIF_JOBS', '3')    # three long cbmc runs at most (shared machine)
    gate = 'QXmppIceComponent_handleDatagram.postcondition.%d' % (sp_hd.labels.index('post.binding_response_is_sent_only_for_a_request_authenticated_with_the_local_password') + 1)
    excl = ([] if DECODE_FIXED else ['EXCLUDE_NO_MI']) + ([] if TYPE_BITS_FIXED else ['EXCLUDE_TYPE_BITS'])
    variants = [('handleDatagram', excl, None, 'every datagram' + (' outside the discriminators of the recorded findings (carries MESSAGE-INTEGRITY / top bits of the type clear)' if excl else ''))]
    if not DECODE_FIXED:
        variants.append(('handleDatagram[no-integrity-attribute]', ['FINDING_ONLY_NO_MI'], 'C15-no-integrity-attribute', 'restricted to datagrams WITHOUT a MESSAGE-INTEGRITY attribute'))
    if not TYPE_BITS_FIXED:
        variants.append(('handleDatagram[type-top-bits]', ['FINDING_ONLY_TYPE'], 'C15-key-chosen-by-raw-type', 'restricted to datagrams whose type field has one of the two top bits set'))
    for pid, defs, fid, note in variants:
        p = Proof(pid, f, 'h_handleDatagram', enforce='QXmppIceComponent_handleDatagram', replace=REPL, expect_loops=1, include_dirs=inc, timeout=1500, defines=defs + (['DECODE_REQUIRES_INTEGRITY_WITH_KEY'] if DECODE_FIXED else []),
                  note=note + '; every component state (lists of any length, one arbitrary witness pair / candidate), every sender, role, password; six loops closed by loop contracts')
        p.labels = {'post': {'QXmppIceComponent_handleDatagram': sp_hd.labels}, 'inv': {'QXmppIceComponent_handleDatagram': all_inv}}
        p.expect_post = len(sp_hd.labels)
        if fid:
            # restricted to the discriminator of a recorded finding: only the gate obligation is targeted (one counterexample trace, not eight)
            p.finding = fid
            p.flags = ['--property', gate]
            p.expect_post = 1
            p.expect_loops = 0    # the loop contracts are applied (same instrumented program as the main proof); only one property is reported
        proofs.append(p)
    alltext += c
    # ---------------------------------------------------------------- findPair, transactionFinished: where a check is accepted as valid
    head2 = head + rd('tf_callees.h') + t_ss + '\n'
    c = head2 + t_fp + '''
void h_findPair(void) { QXmppIceComponentPrivate *d; QXmppStunTransaction *tx = nondet_transaction_ptr(); QXmppIceComponentPrivate_findPair(d, tx); }
'''
    f = b.write('findPair.c', c)
    p = Proof('findPair', f, 'h_findPair', enforce='QXmppIceComponentPrivate_findPair', expect_loops=1, include_dirs=inc, timeout=600,
              note='pair list of any length, one arbitrary witness pair; loop closed by loop contract')
    proofs.append(labelled(p, 'QXmppIceComponentPrivate_findPair', sp_fp))
    alltext += c
    # findPair is inlined (its own loop contract is applied in place): a pointer RETURNED by a replaced contract has no points-to information in CBMC
    c = head2 + t_fp + b.prototype(t_prio) + t_tf + '''
void h_transactionFinished(void) { gh_sender = nondet_transaction_ptr(); gh_local_priority = nondet_int(); gh_tx_resp_type = nondet_ushort(); QXmppIceComponent *self; QXmppIceComponent_transactionFinished(self); }
'''
    f = b.write('transactionFinished.c', c)
    p = Proof('transactionFinished', f, 'h_transactionFinished', enforce='QXmppIceComponent_transactionFinished',
              replace=['QXmppStunTransaction_response', 'candidatePriority', 'CandidatePair_priority', 'computeFoundation', 'QXmppIceTransport_localCandidate',
                       'QXmppIceComponent_updateGatheringState'], expect_loops=1, include_dirs=inc, timeout=900,
              note='every stored response, every component state (lists of any length, one arbitrary witness pair / local candidate); loop closed by loop contract')
    proofs.append(labelled(p, 'QXmppIceComponent_transactionFinished', sp_tf))
    alltext += c
    # ---------------------------------------------------------------- performCheck: the check we start
    c = head2 + t_pc + '''
void h_performCheck(void) { QXmppIceComponentPrivate *d; CandidatePair *pair; bool nominate; QXmppIceComponentPrivate_performCheck(d, pair, nominate); }
'''
    f = b.write('performCheck.c', c)
    p = Proof('performCheck', f, 'h_performCheck', enforce='QXmppIceComponentPrivate_performCheck', kind='complete', loop_contracts=False, include_dirs=inc, timeout=300,
              note='loop-free; every pair, role, tie breaker')
    proofs.append(labelled(p, 'QXmppIceComponentPrivate_performCheck', sp_pc))
    alltext += c
    # ---------------------------------------------------------------- QXmppIceComponentPrivate::writeStun: key choice for what WE send
    c = head + t_ws + '''
void h_writeStun(void) { QXmppIceComponentPrivate *d; const QXmppStunMessage *m; QXmppIceTransport *t = nondet_transport_ptr(); const IceHostAddress *a; quint16 port;
  QXmppIceComponentPrivate_writeStun(d, m, t, a, port); }
'''
    f = b.write('writeStun.c', c)
    p = Proof('writeStun', f, 'h_writeStun', enforce='QXmppIceComponentPrivate_writeStun', replace=['QXmppStunMessage_encode', 'QXmppIceTransport_writeDatagram'], kind='complete',
              loop_contracts=False, include_dirs=inc, timeout=300, note='loop-free; every binding-method message (request, indication, response, error), every password pair')
    proofs.append(labelled(p, 'QXmppIceComponentPrivate_writeStun', sp_ws))
    alltext += rd('model.h') + rd('callees.h') + rd('ws_callees.h')
    return {
        'proofs': proofs, 'functions': b.functions, 'dropped': b.dropped, 'fired': b.fired, 'hooks': [h['id'] + ': ' + h['emit'] for h in HOOKS],
        'assumed': [
            'QXmppStunMessage::decode is NOT verified here: handleDatagram uses it through the contract that unit C14 proves on the real decode, by name '
            'C14/QXmppStunMessage_decode/post.accepted_under_a_key_only_with_a_verified_integrity_attribute (accepted under a non-empty key ==> the attribute loop met MESSAGE-INTEGRITY), '
            'post.integrity_hmac_called_with_key_over_protected_prefix + post.integrity_hmac_text_is_prefix_with_patched_length + post.integrity_attribute_equals_hmac (that attribute equals HMAC-SHA1(key, protected prefix)), '
            'post.accepted_message_carries_the_header_type_cookie_and_transaction_id (m_type, m_id are the header fields); abstracted over an opaque datagram value in units/C15/callees.h. '
            'A change inside decode (e.g. the FINGERPRINT branch returning true without MESSAGE-INTEGRITY) is therefore caught by `verif check C14`, not by C15',
            'peekType: by the contract proved in C14 (C14/QXmppStunMessage_peekType/post.type_cookie_id_are_header_fields): a non-zero result is the header type field; cookie and id are the header fields',
            'QXmppStunTransaction::request(): id of the stored request is a function of the transaction object; QXmppStunTransaction::readStun runs QXmppIceComponent::transactionFinished synchronously, which may change the pair owning the transaction (state, nominated, reflexive, transaction), localCandidates, stunTransactions, gatheringState -- over-approximated as any value (units/C15/callees.h); that it leaves activePair / connected() / the timer alone is transactionFinished/post.selecting_the_nominated_pair_and_signalling_connected_are_left_to_handleDatagram_which_runs_this_slot_through_readStun',
            'new QXmppStunTransaction(request, receiver): a fresh opaque transaction whose request id is the id of the given message (sending / retransmission timers are Qt + QXmppStunTransaction, not covered)',
            'QXmppIceTransport::localCandidate / writeDatagram (pure virtual): event-log contracts; QXmppStunMessage::encode (verified in C14): event-log contract',
            'QXmppJingleCandidate getters / setters read / write the members of QXmppJingleCandidatePrivate (struct generated from that class); default constructor as in QXmppJingleCandidatePrivate()',
            'A-QLIST witness model: QList<CandidatePair*> / QList<QXmppJingleCandidate> = symbolic length + ONE witness element at an arbitrary position; every other element is arbitrary at each access (pairs: one scratch object stands for all non-witness pairs; sound for handleDatagram because a non-witness pair other than the loop variable is only used through CandidatePair::priority(), itself by contract)',
            'A-QMAP QMap<QXmppStunTransaction*, QXmppIceTransportDetails> iteration visits n arbitrary (key, value) entries; A-SORT std::sort permutes; A-UTF8 toUtf8 is a function of the string, empty iff the string is empty; QHostAddress is a tagged value (units/C15/types.h), == is equality of (protocol, address)',
            'QObject::sender() / qobject_cast: the sending transport or NULL (ghost gh_sender); signals connected() / datagramReceived() and QTimer::stop() are events',
            'opaque values: byte strings and strings are ids with equality only; the STUN header fields and "carries MESSAGE-INTEGRITY" are uninterpreted functions of the datagram value',
            'default argument of QXmppStunMessage::encode(key, addFingerprint = true) is checked against the declaration on every run',
        ],
        'assumes': scan_assumes(alltext),
        'not_covered': [
            'liveness half of the property: two honest agents both reach connected and carry datagrams unchanged under loss of first transmissions (timers, retransmission, real sockets)',
            'QXmppIceComponentPrivate::addRemoteCandidate, setSockets (host candidate priorities), checkCandidates, the writeStun slot; QXmppStunTransaction (retransmission); the USERNAME attribute (opaque string)',
            'd->fallbackPair is set by a NON-STUN datagram whose source address equals a known pair (no authentication possible there; it only selects where sendDatagram goes before a pair is active) -- stated as allowed, not gated',
            'component ids outside 1..256 (QXmppIceConnection::addComponent accepts any int; preconditions of candidatePriority / transactionFinished)',
            'candidate priorities >= 2^31 (illegal in RFC 5245; a peer-reflexive candidate takes the PRIORITY attribute of an authenticated request unchecked): CandidatePair::priority computes 2*max(G,D) in 32 bits, the pair formula is claimed for priorities < 2^31 only',
            'role-conflict handling (ICE-CONTROLLING / ICE-CONTROLLED tie-breaker comparison is not implemented in the code: a conflicting request is dropped)',
            'the Qt 6 branches; QXmppTurnAllocation (TURN relayed path)',
        ],
        'explanation': 'handleDatagram is verified three times: once for every datagram outside the two recorded discriminators (must pass), and once restricted to each discriminator (failure = KNOWN-FINDING).',
    }


# ---------------------------------------------------------------------------------------------------------------------
# from a failed obligation to a native run against the real library (DESIGN 3.3 / 3.4)
CONTROLS = [['ice', 'wrong'], ['ice', 'remotekey']]   # traffic a correct component must ignore (wrong key; well-formed request under the remote password)
FINDINGS = [['decode'], ['ice', 'none'], ['ice', 'type']]
HONEST = [['ice', 'latenominate'], ['ice', 'honest']]   # what an honest peer must achieve: exit 0 expected (1 / 3 = the component did not connect)


_memo = {}


def _drive(variants):
    from vlib import native
    outs, reacted = [], False
    for args in variants:
        rc, out = native.run_driver(os.path.join(HERE, 'replay_ice.cpp'), args, timeout=90)
        outs.append(out.strip())
        reacted = reacted or rc in (1, 3)
    return reacted, '\n'.join(outs)


def find_input(unit, proof, ob, label, work):
    """a failed gate obligation of handleDatagram outside the recorded discriminators: does the real component react to traffic
    protected with a wrong key / a request protected with the remote password?"""
    if not proof.id.startswith('handleDatagram') and proof.id not in ('writeStun', 'transactionFinished', 'performCheck'):
        return None
    if 'controls' not in _memo:      # one native run per check, whatever the number of failed obligations
        _memo['controls'] = _drive(CONTROLS + HONEST)
    reacted, out = _memo['controls']
    return {'inputs': {'driver': 'units/C15/replay_ice.cpp', 'variants': CONTROLS + HONEST,
                       'meaning': 'loopback UDP against a real component: (controls) forged request with USE-CANDIDATE + forged success response must be ignored; '
                                  '(honest) a peer that knows both passwords, nominating after the check succeeded, must get connected() exactly once'},
            'native_output': out, 'reproduced': reacted}


def native_replay(rp):
    reacted, out = _drive(rp['inputs']['variants'])
    return reacted, out
