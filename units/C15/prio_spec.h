/* C15 priorities: the specification side (RFC 5245 4.1.2.1, 4.1.2.2, 5.7.2), written independently of the code */
#define RFC5245_TYPE_PREF(t) ((t) == QXmppJingleCandidate_Type__HostType ? 126 : (t) == QXmppJingleCandidate_Type__PeerReflexiveType ? 110 : (t) == QXmppJingleCandidate_Type__ServerReflexiveType ? 100 : 0)
/* a candidate priority the RFC allows (and 0 = "not set"): 0 .. 2^31-1 */
#define PRIO_LEGAL(p) ((p) >= 0)
/* ghost: what the (virtual, transport specific) QXmppIceTransport::localCandidate returned / was asked */
int gh_local_priority; int gh_localCandidate_calls; const struct QXmppIceTransport *gh_localCandidate_transport; int gh_localCandidate_component;
/* G = priority of the controlling agent's candidate, D = of the controlled agent's, as 64-bit numbers */
#define PP_G(s) ((unsigned long long)((s)->m_controlling ? gh_local_priority : (s)->remote.priority))
#define PP_D(s) ((unsigned long long)((s)->m_controlling ? (s)->remote.priority : gh_local_priority))
#define PP_MIN(a, b) ((a) < (b) ? (a) : (b))
#define PP_MAX(a, b) ((a) > (b) ? (a) : (b))
/* QXmppIceTransport::localCandidate is pure virtual (UDP transport / TURN allocation): replaced by this contract */
void QXmppIceTransport_localCandidate(const struct QXmppIceTransport *self, QXmppJingleCandidate *_ret, int component)
__CPROVER_assigns(*_ret, gh_localCandidate_calls, gh_localCandidate_transport, gh_localCandidate_component)
__CPROVER_ensures(_ret->priority == gh_local_priority)
__CPROVER_ensures(gh_localCandidate_calls == __CPROVER_old(gh_localCandidate_calls) + 1 && gh_localCandidate_transport == self && gh_localCandidate_component == component)
;
